import QtVerif.Model.Sequence
/-! Playback of an uncancelled sequence (C19): the event-loop model of `QtVerif.Model.Sequence`, run on a freshly
installed sequence, passes through a small family of states (`Play.C`), one `_run_once` iteration at a time
(`Play.iter_emb`); from that: the submissions are exactly the declarative schedule (`playback_finite`,
`playback_forever`). -/
namespace QtVerif.Sequence
namespace Play

/-- static data of a solo run -/
structure Ctx where
  t0 : Nat
  vs : List Val
  ds : List Int
  r  : Int
  sid : Nat    -- identifier of the sequence object

variable (K : Ctx)

def Ctx.n : Nat := K.vs.length
def Ctx.tm (c i : Nat) : Nat := K.t0 + c * total K.ds + pre K.ds i
def Ctx.val (i : Nat) : Val := K.vs.getD i (.num 0)
def Ctx.dl (i : Nat) : Int := K.ds.getD i 0

def Ctx.toEv (p : Nat × Val) : Event := .sub p.1 K.sid p.2

/-- the log when everything before value i of pass c has been submitted -/
def Ctx.logCI (c i : Nat) : List Event :=
  (schedule K.t0 K.vs K.ds c ++ (passAt K.t0 K.vs K.ds c).take i).map K.toEv

def Ctx.mkSt (now : Nat) (ready : List Handle) (timers : List Timer) (seq : Option Seq) (log : List Event) : St :=
  { now := now, ready := ready, timers := timers, port := { Port.default with seq := seq }, waiting := none,
    nextId := K.sid + 1, log := log, subs := log.length, cap := 0, maxItems := 256, stopped := false, overlap := false,
    disLat := 0, disRaise := false, enLat := 0, enRaise := false, marks := [] }

def Ctx.sq (c : Nat) (pos : Pos) : Seq := ⟨K.sid, K.vs, K.ds, K.r, c, .pending pos false⟩

/-- counter while asleep after value i of pass c -/
def Ctx.cnt (c i : Nat) : Nat := if i + 1 < K.n then c else c + 1

inductive C
  | A (c : Nat)
  | Z (c i : Nat)
  | W1 (c i : Nat)
  | W2 (c i t : Nat)     -- t = the current time (other handles may let it advance while the task sleeps)
  | F1 (c : Nat)
  | D (c t : Nat)
  deriving Repr

def Ctx.emb : C → St
  | .A c => K.mkSt (K.tm c 0) [.loopStep K.sid] [] (some (K.sq c .start)) (K.logCI c 0)
  | .Z c i => K.mkSt (K.tm c i) [.ff K.sid (K.val i), .loopStep K.sid] [] (some (K.sq (K.cnt c i) (.slept i))) (K.logCI c i)
  | .W1 c i => K.mkSt (K.tm c i) [.ff K.sid (K.val i)] [⟨K.tm c i + eff (K.dl i), 0, .loopStep K.sid⟩]
      (some (K.sq (K.cnt c i) (.slept i))) (K.logCI c i)
  | .W2 c i t => K.mkSt t [] [⟨K.tm c i + eff (K.dl i), 0, .loopStep K.sid⟩]
      (some (K.sq (K.cnt c i) (.slept i))) (K.logCI c (i + 1))
  | .F1 c => K.mkSt (K.tm c (K.n - 1)) [.ff K.sid (K.val (K.n - 1)), .loopStep K.sid] [] (some (K.sq c .flush)) (K.logCI c (K.n - 1))
  | .D c t => K.mkSt t [] [] none (K.logCI c K.n)

def Ctx.sleepC (c i : Nat) : C := if K.dl i ≤ 0 then .Z c i else .W1 c i

def Ctx.post (c i : Nat) : C :=
  if i + 1 < K.n then K.sleepC c i
  else if (K.sq c .start).lastPass then .F1 c else K.sleepC c i

def Ctx.wakeTo (c i : Nat) : C := if i + 1 < K.n then K.post c (i + 1) else .A (c + 1)

def Ctx.nxt : C → C
  | .A c => K.post c 0
  | .Z c i => K.wakeTo c i
  | .W1 c i => .W2 c i (K.tm c i)
  | .W2 c i _ => K.wakeTo c i
  | .F1 c => .D c (K.tm c (K.n - 1))
  | .D c t => .D c t

/-- well-formed compact states -/
def Ctx.ok : C → Prop
  | .A _ => True
  | .Z _ i => i < K.n ∧ K.dl i ≤ 0
  | .W1 _ i => i < K.n ∧ 0 < K.dl i
  | .W2 c i t => i < K.n ∧ 0 < K.dl i ∧ t < K.tm c i + eff (K.dl i)
  | .F1 _ => True
  | .D _ _ => True

structure Ctx.WF : Prop where
  npos : 0 < K.n
  len : K.ds.length = K.vs.length

end Play
end QtVerif.Sequence

namespace QtVerif.Sequence
namespace Play
variable (K : Ctx)

theorem pre_succ (ds : List Int) (i : Nat) (h : i < ds.length) : pre ds (i + 1) = pre ds i + eff (ds.getD i 0) := by
  unfold pre
  rw [List.take_add_one, List.map_append, List.sum_append]
  simp [List.getElem?_eq_getElem h, List.getD_eq_getElem?_getD]

theorem pre_length (ds : List Int) : pre ds ds.length = total ds := by
  simp [pre, total]

theorem val_get {i : Nat} (h : i < K.n) : K.vs[i]? = some (K.val i) := by
  unfold Ctx.val Ctx.n at *
  simp [List.getD_eq_getElem?_getD, List.getElem?_eq_getElem h]

theorem dl_get (wf : K.WF) {i : Nat} (h : i < K.n) : K.ds[i]? = some (K.dl i) := by
  have h' : i < K.ds.length := by rw [wf.len]; exact h
  unfold Ctx.dl
  simp [List.getD_eq_getElem?_getD, List.getElem?_eq_getElem h']

theorem tm_succ (wf : K.WF) {c i : Nat} (h : i < K.n) : K.tm c (i + 1) = K.tm c i + eff (K.dl i) := by
  have h' : i < K.ds.length := by rw [wf.len]; exact h
  unfold Ctx.tm Ctx.dl
  rw [pre_succ _ _ h']; omega

theorem tm_pass (wf : K.WF) (c : Nat) : K.tm (c + 1) 0 = K.tm c K.n := by
  unfold Ctx.tm
  have : pre K.ds K.n = total K.ds := by unfold Ctx.n; rw [← wf.len]; exact pre_length _
  rw [this]; simp [pre, Nat.succ_mul]; omega

theorem passAt_get {c i : Nat} (h : i < K.n) :
    (passAt K.t0 K.vs K.ds c)[i]? = some (K.tm c i, K.val i) := by
  unfold passAt Ctx.tm
  have h' : i < K.vs.length := h
  simp [List.getElem?_map, List.getElem?_zipIdx, List.getElem?_eq_getElem h', Ctx.val, List.getD_eq_getElem?_getD]

theorem passAt_length (c : Nat) : (passAt K.t0 K.vs K.ds c).length = K.n := by
  simp [passAt, Ctx.n]

theorem logCI_succ {c i : Nat} (h : i < K.n) :
    K.logCI c i ++ [.sub (K.tm c i) K.sid (K.val i)] = K.logCI c (i + 1) := by
  unfold Ctx.logCI
  rw [List.take_add_one, passAt_get K h]
  simp [Ctx.toEv]

theorem logCI_pass (c : Nat) : K.logCI c K.n = K.logCI (c + 1) 0 := by
  unfold Ctx.logCI schedule
  rw [List.take_of_length_le (by rw [passAt_length]; exact Nat.le_refl _)]
  simp [List.range_succ, List.flatMap_append]

end Play
end QtVerif.Sequence

namespace QtVerif.Sequence
namespace Play
variable (K : Ctx)

/-- what the loop body does for value i of pass c, in a state where nothing else is around -/
theorem body_post (wf : K.WF) {c i : Nat} {pos : Pos} (hi : i < K.n) (q0 : Option Seq) :
    body Fix.repaired (K.mkSt (K.tm c i) [] [] q0 (K.logCI c i)) (K.sq c pos) i = K.emb (K.post c i) := by
  have hv := val_get K hi
  have hd := dl_get K wf hi
  unfold body
  simp only [Ctx.sq, hv]
  unfold Ctx.post Ctx.sleepC
  by_cases h1 : i + 1 < K.n
  · have h1' : i + 1 < K.vs.length := h1
    simp only [h1, h1', if_true]
    unfold sleepOn
    simp only [St.push, Ctx.mkSt, St.setSeq, hd]
    by_cases h2 : K.dl i ≤ 0
    · simp [h2, Ctx.emb, Ctx.mkSt, St.push, Ctx.sq, Ctx.cnt, h1]
    · simp [h2, Ctx.emb, Ctx.mkSt, St.push, St.addTimer, insertTimer, Ctx.sq, Ctx.cnt, h1, eff]
  · have h1' : ¬ i + 1 < K.vs.length := h1
    have hin : i = K.n - 1 := by omega
    simp only [h1, h1', if_false]
    by_cases h3 : (K.sq c .start).lastPass = true
    · have h3' : (K.sq c pos).lastPass = true := h3
      simp only [Ctx.sq] at h3'
      simp only [h3, h3', Fix.repaired, if_true]
      subst hin
      simp [Ctx.emb, Ctx.mkSt, St.push, St.setSeq, Ctx.sq]
    · have h3' : ¬ (K.sq c pos).lastPass = true := h3
      simp only [Ctx.sq] at h3'
      simp only [h3, h3', if_false]
      unfold sleepOn
      simp only [St.push, Ctx.mkSt, St.setSeq, hd]
      by_cases h2 : K.dl i ≤ 0
      · simp [h2, Ctx.emb, Ctx.mkSt, St.push, Ctx.sq, Ctx.cnt, h1]
      · simp [h2, Ctx.emb, Ctx.mkSt, St.push, St.addTimer, insertTimer, Ctx.sq, Ctx.cnt, h1, eff]

end Play
end QtVerif.Sequence

namespace QtVerif.Sequence
namespace Play
variable (K : Ctx)

theorem mkSt_congr {now now' : Nat} {rdy : List Handle} {tms : List Timer} {q : Option Seq} {log log' : List Event}
    (h1 : now = now') (h2 : log = log') : K.mkSt now rdy tms q log = K.mkSt now' rdy tms q log' := by
  subst h1; subst h2; rfl

/-- the loop task wakes up after the sleep that follows value i of pass c -/
theorem wake_step (wf : K.WF) {c i : Nat} (hi : i < K.n) :
    loopStep Fix.repaired (K.mkSt (K.tm c (i + 1)) [] [] (some (K.sq (K.cnt c i) (.slept i))) (K.logCI c (i + 1))) K.sid
      = K.emb (K.wakeTo c i) := by
  unfold loopStep Ctx.wakeTo
  simp only [Ctx.mkSt, Ctx.sq, ne_eq, not_true_eq_false, if_false]
  by_cases h1 : i + 1 < K.n
  · have h1' : i + 1 < K.vs.length := h1
    have hc : K.cnt c i = c := by simp [Ctx.cnt, h1]
    simp only [h1, h1', if_true, hc]
    exact body_post K wf h1 _
  · have h1' : ¬ i + 1 < K.vs.length := h1
    have hc : K.cnt c i = c + 1 := by simp [Ctx.cnt, h1]
    have hin : i + 1 = K.n := by omega
    simp only [h1, h1', if_false, hc]
    simp only [Ctx.emb, St.setSeq, St.push, Ctx.mkSt, Ctx.sq]
    rw [hin, ← tm_pass K wf c, logCI_pass K c]
    simp

/-- the fire-and-forget task of value i of pass c submits it -/
theorem ff_step {c i : Nat} (hi : i < K.n) (rdy : List Handle) (tms : List Timer) (q : Option Seq) :
    exec Fix.repaired (K.mkSt (K.tm c i) rdy tms q (K.logCI c i)) (.ff K.sid (K.val i))
      = K.mkSt (K.tm c i) rdy tms q (K.logCI c (i + 1)) := by
  have hl := congrArg List.length (logCI_succ K (c := c) hi)
  simp only [List.length_append, List.length_singleton] at hl
  simp [exec, St.emit, Ctx.mkSt, logCI_succ K hi, ← hl]

end Play
end QtVerif.Sequence

namespace QtVerif.Sequence
namespace Play
variable (K : Ctx)

theorem eff_nonpos {d : Int} (h : d ≤ 0) : eff d = 0 := by unfold eff; omega
theorem eff_pos {d : Int} (h : 0 < d) : 0 < eff d := by unfold eff; omega

theorem runH1 (fix : Fix) (s : St) (h : Handle) (rest : List Handle) (hs : s.stopped = false) (hr : s.ready = h :: rest) (n : Nat) :
    runHandles fix (n + 1) s = runHandles fix n (exec fix { s with ready := rest } h) := by
  simp [runHandles, hs, hr]

theorem iter_emb (wf : K.WF) (x : C) (hx : K.ok x) : iter Fix.repaired (K.emb x) = K.emb (K.nxt x) := by
  have np := wf.npos
  cases x with
  | A c =>
    have e : K.emb (.A c) = K.mkSt (K.tm c 0) [.loopStep K.sid] [] (some (K.sq c .start)) (K.logCI c 0) := rfl
    rw [e]
    simp only [Ctx.nxt, iter, Ctx.mkSt, jump, moveDue, List.takeWhile, List.dropWhile, List.map, List.append_nil,
      List.length, runHandles, exec, Bool.false_eq_true, if_false]
    have := body_post K wf (c := c) (i := 0) (pos := .start) np (some (K.sq c .start))
    simpa [loopStep, Ctx.mkSt, Ctx.sq] using this
  | Z c i =>
    obtain ⟨hi, hd⟩ := hx
    have e : K.emb (.Z c i) = K.mkSt (K.tm c i) [.ff K.sid (K.val i), .loopStep K.sid] [] (some (K.sq (K.cnt c i) (.slept i))) (K.logCI c i) := rfl
    rw [e]
    have ht : K.tm c (i + 1) = K.tm c i := by rw [tm_succ K wf hi, eff_nonpos hd]; rfl
    have h1 := ff_step K (c := c) hi [.loopStep K.sid] [] (some (K.sq (K.cnt c i) (.slept i)))
    have h2 := wake_step K wf (c := c) hi
    rw [ht] at h2
    simp only [Ctx.nxt, iter, jump, moveDue]
    simp only [Ctx.mkSt, List.takeWhile, List.dropWhile, List.map, List.append_nil, List.length, runHandles,
      Bool.false_eq_true, if_false] at h1 h2 ⊢
    rw [h1]
    simp only [exec, Bool.false_eq_true, if_false]
    exact h2
  | W1 c i =>
    obtain ⟨hi, hd⟩ := hx
    have e : K.emb (.W1 c i) = K.mkSt (K.tm c i) [.ff K.sid (K.val i)] [⟨K.tm c i + eff (K.dl i), 0, .loopStep K.sid⟩]
      (some (K.sq (K.cnt c i) (.slept i))) (K.logCI c i) := rfl
    have e2 : K.emb (.W2 c i (K.tm c i)) = K.mkSt (K.tm c i) [] [⟨K.tm c i + eff (K.dl i), 0, .loopStep K.sid⟩]
      (some (K.sq (K.cnt c i) (.slept i))) (K.logCI c (i + 1)) := rfl
    rw [e]
    have hp := eff_pos hd
    have hnd : ¬ (K.tm c i + eff (K.dl i) ≤ K.tm c i) := by omega
    have h1 := ff_step K (c := c) hi [] [⟨K.tm c i + eff (K.dl i), 0, .loopStep K.sid⟩] (some (K.sq (K.cnt c i) (.slept i)))
    simp only [Ctx.nxt, iter, jump, moveDue]
    rw [e2]
    simp only [Ctx.mkSt, List.takeWhile, List.dropWhile, hnd, decide_false, List.map, List.append_nil, List.length, runHandles,
      Bool.false_eq_true, if_false] at h1 ⊢
    rw [h1]
  | W2 c i t =>
    obtain ⟨hi, hd, hlt⟩ := hx
    have e : K.emb (.W2 c i t) = K.mkSt t [] [⟨K.tm c i + eff (K.dl i), 0, .loopStep K.sid⟩]
      (some (K.sq (K.cnt c i) (.slept i))) (K.logCI c (i + 1)) := rfl
    rw [e]
    have h2 := wake_step K wf (c := c) hi
    rw [tm_succ K wf hi] at h2
    simp only [Ctx.nxt, iter, jump, moveDue]
    simp only [Ctx.mkSt, hlt, if_true, List.takeWhile, List.dropWhile, Nat.le_refl, decide_true, List.map, List.nil_append,
      List.length, runHandles, exec, Bool.false_eq_true, if_false] at h2 ⊢
    exact h2
  | F1 c =>
    have e : K.emb (.F1 c) = K.mkSt (K.tm c (K.n - 1)) [.ff K.sid (K.val (K.n - 1)), .loopStep K.sid] [] (some (K.sq c .flush))
      (K.logCI c (K.n - 1)) := rfl
    rw [e]
    have hi : K.n - 1 < K.n := by omega
    have hn : K.n - 1 + 1 = K.n := by omega
    have h1 := ff_step K (c := c) hi [.loopStep K.sid] [] (some (K.sq c .flush))
    rw [hn] at h1
    simp only [Ctx.nxt, iter, jump, moveDue]
    simp only [Ctx.mkSt, List.takeWhile, List.dropWhile, List.map, List.append_nil, List.length, runHandles,
      Bool.false_eq_true, if_false] at h1 ⊢
    rw [h1]
    simp [exec, loopStep, Ctx.sq, finishSeq, St.setSeq, Ctx.emb, Ctx.mkSt]
  | D c t =>
    simp [Ctx.nxt, Ctx.emb, iter, Ctx.mkSt, jump, moveDue, runHandles]

end Play
end QtVerif.Sequence

namespace QtVerif.Sequence
namespace Play
variable (K : Ctx)

def Ctx.nxtN (K : Ctx) : Nat → C → C
  | 0, x => x
  | k + 1, x => Ctx.nxtN K k (K.nxt x)

theorem ok_sleepC {c i : Nat} (hi : i < K.n) : K.ok (K.sleepC c i) := by
  unfold Ctx.sleepC
  by_cases h : K.dl i ≤ 0
  · simp [h, Ctx.ok, hi]
  · simp [h, Ctx.ok, hi]; omega

theorem ok_post {c i : Nat} (hi : i < K.n) : K.ok (K.post c i) := by
  unfold Ctx.post
  split
  · exact ok_sleepC K hi
  · split
    · trivial
    · exact ok_sleepC K hi

theorem ok_wakeTo {c i : Nat} : K.ok (K.wakeTo c i) := by
  unfold Ctx.wakeTo
  split
  · rename_i h; exact ok_post K h
  · trivial

theorem ok_nxt (wf : K.WF) (x : C) (hx : K.ok x) : K.ok (K.nxt x) := by
  cases x with
  | A c => exact ok_post K wf.npos
  | Z c i => exact ok_wakeTo K
  | W1 c i => exact ⟨hx.1, hx.2, by have := eff_pos hx.2; omega⟩
  | W2 c i t => exact ok_wakeTo K
  | F1 c => trivial
  | D c t => trivial

theorem ok_nxtN (wf : K.WF) (k : Nat) (x : C) (hx : K.ok x) : K.ok (K.nxtN k x) := by
  induction k generalizing x with
  | zero => exact hx
  | succ k ih => exact ih _ (ok_nxt K wf x hx)

theorem iterN_emb (wf : K.WF) (k : Nat) (x : C) (hx : K.ok x) :
    iterN Fix.repaired k (K.emb x) = K.emb (K.nxtN k x) := by
  induction k generalizing x with
  | zero => rfl
  | succ k ih =>
    simp only [iterN, Ctx.nxtN]
    rw [iter_emb K wf x hx]
    exact ih _ (ok_nxt K wf x hx)

theorem nxtN_add (a b : Nat) (x : C) : K.nxtN (a + b) x = K.nxtN b (K.nxtN a x) := by
  induction a generalizing x with
  | zero => simp [Ctx.nxtN]
  | succ a ih => rw [Nat.succ_add]; simp only [Ctx.nxtN]; exact ih _

def Ctx.last (c : Nat) : Bool := (K.sq c .start).lastPass

/-- from the state after callback i of pass c the run reaches the end of the pass -/
theorem reach_pass_end (c : Nat) (j : Nat) : ∀ i, i < K.n → K.n - 1 - i = j →
    ∃ k, K.nxtN k (K.post c i) = if K.last c then .D c (K.tm c (K.n - 1)) else .A (c + 1) := by
  induction j with
  | zero =>
    intro i hi hj
    have hl : ¬ i + 1 < K.n := by omega
    by_cases h : K.last c = true
    · refine ⟨1, ?_⟩
      simp only [Ctx.last] at h
      simp [Ctx.post, hl, h, Ctx.nxtN, Ctx.nxt, Ctx.last]
    · simp only [Ctx.last] at h
      by_cases hd : K.dl i ≤ 0
      · refine ⟨1, ?_⟩
        simp [Ctx.post, hl, h, Ctx.sleepC, hd, Ctx.nxtN, Ctx.nxt, Ctx.wakeTo, Ctx.last]
      · refine ⟨2, ?_⟩
        simp [Ctx.post, hl, h, Ctx.sleepC, hd, Ctx.nxtN, Ctx.nxt, Ctx.wakeTo, Ctx.last]
  | succ j ih =>
    intro i hi hj
    have hl : i + 1 < K.n := by omega
    obtain ⟨k, hk⟩ := ih (i + 1) hl (by omega)
    by_cases hd : K.dl i ≤ 0
    · refine ⟨1 + k, ?_⟩
      rw [nxtN_add]
      simpa [Ctx.post, hl, Ctx.sleepC, hd, Ctx.nxtN, Ctx.nxt, Ctx.wakeTo] using hk
    · refine ⟨2 + k, ?_⟩
      rw [nxtN_add]
      simpa [Ctx.post, hl, Ctx.sleepC, hd, Ctx.nxtN, Ctx.nxt, Ctx.wakeTo] using hk

theorem reach_pass (wf : K.WF) (c : Nat) :
    ∃ k, K.nxtN k (.A c) = if K.last c then .D c (K.tm c (K.n - 1)) else .A (c + 1) := by
  obtain ⟨k, hk⟩ := reach_pass_end K c (K.n - 1 - 0) 0 wf.npos rfl
  exact ⟨1 + k, by rw [nxtN_add]; simpa [Ctx.nxtN, Ctx.nxt] using hk⟩

theorem last_iff (c : Nat) : K.last c = true ↔ (K.r > 0 ∧ (c : Int) ≥ K.r - 1) := by
  simp [Ctx.last, Seq.lastPass, Ctx.sq]

/-- passes before the last one -/
theorem reach_A (wf : K.WF) (c : Nat) (h : ∀ c', c' < c → K.last c' = false) : ∃ k, K.nxtN k (.A 0) = .A c := by
  induction c with
  | zero => exact ⟨0, rfl⟩
  | succ c ih =>
    obtain ⟨k, hk⟩ := ih (fun c' hc' => h c' (by omega))
    obtain ⟨k2, hk2⟩ := reach_pass K wf c
    rw [h c (by omega)] at hk2
    exact ⟨k + k2, by rw [nxtN_add, hk]; simpa using hk2⟩

end Play
end QtVerif.Sequence

namespace QtVerif.Sequence
namespace Play
variable (K : Ctx)

theorem installed_eq (h : K.vs ≠ []) (hs : K.sid = 0) : St.installed K.t0 K.vs K.ds K.r = K.emb (.A 0) := by
  have : K.vs.isEmpty = false := by cases hv : K.vs with | nil => exact absurd hv h | cons a b => rfl
  simp [St.installed, install, this, St.init, St.setSeq, St.push, Ctx.emb, Ctx.mkSt, Ctx.sq, Ctx.tm, Ctx.logCI, pre, schedule, hs]

theorem subsOf_map_toEv (l : List (Nat × Val)) : subsOf (l.map K.toEv) = l := by
  induction l with
  | nil => rfl
  | cons a l ih => simp [subsOf, Ctx.toEv] at ih ⊢; exact ih

theorem subsOf_logCI (c i : Nat) :
    subsOf (K.logCI c i) = schedule K.t0 K.vs K.ds c ++ (passAt K.t0 K.vs K.ds c).take i := by
  unfold Ctx.logCI; exact subsOf_map_toEv K _

/-- what has been submitted is always some full passes followed by the beginning of the next one -/
theorem log_emb (x : C) : ∃ c i, (K.emb x).log = K.logCI c i := by
  cases x with
  | A c => exact ⟨c, 0, rfl⟩
  | Z c i => exact ⟨c, i, rfl⟩
  | W1 c i => exact ⟨c, i, rfl⟩
  | W2 c i t => exact ⟨c, i + 1, rfl⟩
  | F1 c => exact ⟨c, K.n - 1, rfl⟩
  | D c t => exact ⟨c, K.n, rfl⟩

def live : C → Prop
  | .D _ _ => False
  | .F1 _ => False
  | _ => True

theorem live_sleepC (c i : Nat) : live (K.sleepC c i) := by
  unfold Ctx.sleepC; split <;> trivial

theorem live_post (hr : ∀ c, K.last c = false) (c i : Nat) : live (K.post c i) := by
  unfold Ctx.post
  split
  · exact live_sleepC K c i
  · have := hr c
    simp only [Ctx.last] at this
    simp only [this, Bool.false_eq_true, if_false]
    exact live_sleepC K c i

theorem live_wakeTo (hr : ∀ c, K.last c = false) (c i : Nat) : live (K.wakeTo c i) := by
  unfold Ctx.wakeTo; split
  · exact live_post K hr c _
  · trivial

theorem live_nxt (hr : ∀ c, K.last c = false) (x : C) (hx : live x) : live (K.nxt x) := by
  cases x with
  | A c => exact live_post K hr c 0
  | Z c i => exact live_wakeTo K hr c i
  | W1 c i => trivial
  | W2 c i t => exact live_wakeTo K hr c i
  | F1 c => exact hx.elim
  | D c t => exact hx.elim

theorem live_nxtN (hr : ∀ c, K.last c = false) (k : Nat) (x : C) (hx : live x) : live (K.nxtN k x) := by
  induction k generalizing x with
  | zero => exact hx
  | succ k ih => exact ih _ (live_nxt K hr x hx)

theorem live_seq (x : C) (hx : live x) : (K.emb x).port.seq.isSome = true := by
  cases x <;> first | rfl | exact hx.elim

theorem idle_flushed (x : C) (h : (K.emb x).port.seq = none) : (K.emb x).ready = [] := by
  cases x <;> first | rfl | (simp [Ctx.emb, Ctx.mkSt] at h)

end Play

open Play in
/-- In an uncancelled run the port never reports "no active sequence" while a value is still on its way: whenever
`port.seq = none` the ready queue is empty (repair `flushLast`). -/
theorem finished_means_flushed (t0 : Nat) (vs : List Val) (ds : List Int) (r : Int)
    (hne : vs ≠ []) (hlen : ds.length = vs.length) (k : Nat)
    (h : (iterN Fix.repaired k (St.installed t0 vs ds r)).port.seq = none) :
    (iterN Fix.repaired k (St.installed t0 vs ds r)).ready = [] := by
  let K : Ctx := ⟨t0, vs, ds, r, 0⟩
  have wf : K.WF := ⟨by show 0 < vs.length; exact List.length_pos_iff.mpr hne, hlen⟩
  have h0 : St.installed t0 vs ds r = K.emb (.A 0) := installed_eq K hne rfl
  rw [h0, iterN_emb K wf _ (.A 0) trivial] at h ⊢
  exact idle_flushed K _ h

open Play in
/-- Uncancelled playback, r > 0: the run comes to rest having submitted exactly the schedule of r passes, with no
active sequence, and stays there. Every intermediate log is a prefix of the schedule (full passes + the beginning of
the next). -/
theorem playback_finite (t0 : Nat) (vs : List Val) (ds : List Int) (r : Int)
    (hne : vs ≠ []) (hlen : ds.length = vs.length) (hr : 0 < r) :
    (∃ k, let s := iterN Fix.repaired k (St.installed t0 vs ds r)
      s.ready = [] ∧ s.timers = [] ∧ s.waiting = none ∧ s.port.seq = none ∧
      subsOf s.log = schedule t0 vs ds r.toNat ∧ ∀ m, iterN Fix.repaired m s = s) ∧
    (∀ k, ∃ c i, subsOf (iterN Fix.repaired k (St.installed t0 vs ds r)).log
        = schedule t0 vs ds c ++ (passAt t0 vs ds c).take i) := by
  let K : Ctx := ⟨t0, vs, ds, r, 0⟩
  have wf : K.WF := ⟨by show 0 < vs.length; exact List.length_pos_iff.mpr hne, hlen⟩
  have h0 : St.installed t0 vs ds r = K.emb (.A 0) := installed_eq K hne rfl
  constructor
  · have hA : ∃ k, K.nxtN k (.A 0) = .A (r.toNat - 1) := by
      apply reach_A K wf
      intro c' hc'
      have : ¬ (K.r > 0 ∧ (c' : Int) ≥ K.r - 1) := by show ¬ (r > 0 ∧ (c' : Int) ≥ r - 1); omega
      cases hl : K.last c' with
      | false => rfl
      | true => exact absurd ((last_iff K c').mp hl) this
    obtain ⟨k1, hk1⟩ := hA
    obtain ⟨k2, hk2⟩ := reach_pass K wf (r.toNat - 1)
    have hl : K.last (r.toNat - 1) = true := (last_iff K _).mpr (by show r > 0 ∧ ((r.toNat - 1 : Nat) : Int) ≥ r - 1; omega)
    rw [hl] at hk2
    simp only [if_true] at hk2
    refine ⟨k1 + k2, ?_⟩
    have hs : iterN Fix.repaired (k1 + k2) (St.installed t0 vs ds r) = K.emb (.D (r.toNat - 1) (K.tm (r.toNat - 1) (K.n - 1))) := by
      rw [h0, iterN_emb K wf _ (.A 0) trivial, nxtN_add, hk1, hk2]
    simp only [hs]
    refine ⟨rfl, rfl, rfl, rfl, ?_, ?_⟩
    · show subsOf (K.logCI (r.toNat - 1) K.n) = _
      rw [logCI_pass, subsOf_logCI]
      have : r.toNat - 1 + 1 = r.toNat := by omega
      rw [this]; simp; rfl
    · intro m
      rw [iterN_emb K wf _ (.D _ _) trivial]
      congr 1
      induction m with
      | zero => rfl
      | succ m ih => simpa [Ctx.nxtN, Ctx.nxt] using ih
  · intro k
    rw [h0, iterN_emb K wf _ (.A 0) trivial]
    obtain ⟨c, i, h⟩ := log_emb K (K.nxtN k (.A 0))
    exact ⟨c, i, by rw [h]; exact subsOf_logCI K c i⟩

open Play in
/-- Uncancelled playback, r ≤ 0 (the API's 0 = indefinitely; negative values are not excluded by the request schema and
behave the same): the sequence stays active for ever, what has been submitted is always a prefix of the infinite
periodic schedule, and every finite number of passes is eventually submitted in full. -/
theorem playback_forever (t0 : Nat) (vs : List Val) (ds : List Int) (r : Int)
    (hne : vs ≠ []) (hlen : ds.length = vs.length) (hr : r ≤ 0) :
    (∀ k, (iterN Fix.repaired k (St.installed t0 vs ds r)).port.seq.isSome = true ∧
      ∃ c i, subsOf (iterN Fix.repaired k (St.installed t0 vs ds r)).log
        = schedule t0 vs ds c ++ (passAt t0 vs ds c).take i) ∧
    (∀ c, ∃ k, subsOf (iterN Fix.repaired k (St.installed t0 vs ds r)).log = schedule t0 vs ds c) := by
  let K : Ctx := ⟨t0, vs, ds, r, 0⟩
  have wf : K.WF := ⟨by show 0 < vs.length; exact List.length_pos_iff.mpr hne, hlen⟩
  have h0 : St.installed t0 vs ds r = K.emb (.A 0) := installed_eq K hne rfl
  have hl : ∀ c, K.last c = false := by
    intro c
    cases h : K.last c with
    | false => rfl
    | true =>
      have := (last_iff K c).mp h
      have h1 : K.r > 0 := this.1
      exact absurd h1 (by show ¬ r > 0; omega)
  constructor
  · intro k
    rw [h0, iterN_emb K wf _ (.A 0) trivial]
    refine ⟨live_seq K _ (live_nxtN K hl k _ trivial), ?_⟩
    obtain ⟨c, i, h⟩ := log_emb K (K.nxtN k (.A 0))
    exact ⟨c, i, by rw [h]; exact subsOf_logCI K c i⟩
  · intro c
    obtain ⟨k, hk⟩ := reach_A K wf c (fun c' _ => hl c')
    refine ⟨k, ?_⟩
    rw [h0, iterN_emb K wf _ (.A 0) trivial, hk]
    show subsOf (K.logCI c 0) = _
    rw [subsOf_logCI]; simp; rfl

end QtVerif.Sequence
