import QtVerif.Proofs.TimeFns
/-!
History-level (declarative) specifications of DERIV / INTEG / FMAVG / FMEDIAN (C16) and the proofs that the step
machines of `Model/TimeFns.lean` meet them.

The specification side never mentions a memory. It is built from three list notions over the sample history
`(time, value)` (oldest first):

* `accepted interval h`   — the greedy sub-history: the first sample, and then every sample that is NOT closer than
                            `interval` to the last accepted one (`accepted_snoc`, `accepted_sublist`, `accepted_spaced`);
* `consecutive l`         — the pairs of neighbours of a list (`= l.zip l.tail`, `consecutive_eq_zip`);
* `evaluated thr acc`     — the accepted samples that are not reached across a time jump: the first one, and every one
                            that is at most `thr` after its accepted predecessor.

A time jump does not change which samples are accepted (a sample more than `thr` after the accepted one is adopted as
the new base); it only removes the pair it closes from the formulas: no quotient, no trapezoid, no entry in the window.

The proofs go by induction over the history (`snoc_induction`) with a representation invariant relating the memory
after `h` to `accepted interval h` (last time / value = last accepted sample, queue = last `k` evaluated values).
-/
namespace QtVerif.TimeFns
open Num

/-! ## Neighbouring pairs -/

/-- The pairs of neighbours `(l₀,l₁), (l₁,l₂), …`. -/
def consecutive {β : Type} : List β → List (β × β)
  | p :: q :: r => (p, q) :: consecutive (q :: r)
  | _ => []

theorem consecutive_eq_zip {β : Type} (l : List β) : consecutive l = l.zip l.tail := by
  induction l with
  | nil => rfl
  | cons a r ih =>
    cases r with
    | nil => simp [consecutive]
    | cons b r' => simp only [consecutive, List.tail_cons, List.zip_cons_cons] at ih ⊢; rw [ih]

theorem consecutive_snoc {β : Type} (l : List β) (p x : β) :
    consecutive (l ++ [p] ++ [x]) = consecutive (l ++ [p]) ++ [(p, x)] := by
  induction l with
  | nil => simp [consecutive]
  | cons a r ih =>
    cases r with
    | nil => simp [consecutive]
    | cons b r' =>
      simp only [List.cons_append, consecutive] at ih ⊢
      rw [ih]

/-! ## The accepted samples -/

section accepted
variable {α : Type} [Num α]

/-- Greedy acceptance of the newest sample `x` given the samples accepted so far: the first sample is accepted; a later
one is accepted unless it is closer than `interval` to the LAST ACCEPTED one. -/
def acceptNext (interval : α) (acc : List (Int × α)) (x : Int × α) : List (Int × α) :=
  match acc.getLast? with
  | none => acc ++ [x]
  | some p => if lt (ofInt (x.1 - p.1)) interval then acc else acc ++ [x]

/-- **The accepted samples** of a history: "samples spaced by the sampling interval". -/
def accepted (interval : α) (h : List (Int × α)) : List (Int × α) := h.foldl (acceptNext interval) []

@[simp] theorem accepted_nil (interval : α) : accepted interval [] = [] := rfl

theorem accepted_snoc (interval : α) (h : List (Int × α)) (x : Int × α) :
    accepted interval (h ++ [x]) = acceptNext interval (accepted interval h) x := by
  simp [accepted, List.foldl_append]

theorem acceptNext_first (interval : α) (acc : List (Int × α)) (x : Int × α) (h : acc = []) :
    acceptNext interval acc x = [x] := by subst h; rfl

theorem acceptNext_some (interval : α) (acc : List (Int × α)) (p x : Int × α) (h : acc.getLast? = some p) :
    acceptNext interval acc x = if lt (ofInt (x.1 - p.1)) interval then acc else acc ++ [x] := by
  simp [acceptNext, h]

/-- The accepted samples are a sub-history (order kept, nothing invented). -/
theorem accepted_sublist (interval : α) (h : List (Int × α)) : (accepted interval h).Sublist h := by
  induction h using snoc_induction with
  | nil => simp
  | snoc h x ih =>
    rw [accepted_snoc]
    unfold acceptNext
    split
    · exact List.Sublist.append ih (List.Sublist.refl _)
    · split
      · exact ih.trans (List.sublist_append_left h [x])
      · exact List.Sublist.append ih (List.Sublist.refl _)

/-- Neighbouring accepted samples are never closer than the interval. -/
theorem accepted_spaced (interval : α) (h : List (Int × α)) :
    ∀ pq ∈ consecutive (accepted interval h), lt (ofInt (pq.2.1 - pq.1.1)) interval = false := by
  induction h using snoc_induction with
  | nil => simp [consecutive]
  | snoc h x ih =>
    rw [accepted_snoc]
    cases hg : (accepted interval h).getLast? with
    | none =>
      rw [List.getLast?_eq_none_iff] at hg
      rw [acceptNext_first _ _ _ hg]; simp [consecutive]
    | some p =>
      rw [acceptNext_some _ _ _ _ hg]
      by_cases hl : lt (ofInt (x.1 - p.1)) interval = true
      · simpa [hl] using ih
      · obtain ⟨l, hl'⟩ := List.getLast?_eq_some_iff.mp hg
        simp only [hl, Bool.false_eq_true, if_false]
        rw [hl', consecutive_snoc]
        intro pq hpq
        rcases List.mem_append.mp hpq with hpq | hpq
        · exact ih pq (hl' ▸ hpq)
        · simp only [List.mem_singleton] at hpq
          subst hpq
          simpa using hl

/-- The first sample of a history is always accepted. -/
theorem accepted_head (interval : α) (x : Int × α) (r : List (Int × α)) :
    (accepted interval (x :: r)).head? = some x := by
  induction r using snoc_induction with
  | nil => rfl
  | snoc r y ih =>
    rw [← List.cons_append, accepted_snoc]
    unfold acceptNext
    split
    · next hn => rw [List.getLast?_eq_none_iff] at hn; rw [hn] at ih; simp at ih
    · split
      · exact ih
      · cases hacc : accepted interval (x :: r) with
        | nil => rw [hacc] at ih; simp at ih
        | cons a l => rw [hacc] at ih; simpa using ih

/-- "`x` is accepted" read off the lists: with `p` the last accepted sample of the history before `x`. -/
theorem accepted_grows_iff (interval : α) (h : List (Int × α)) (p x : Int × α)
    (hp : (accepted interval h).getLast? = some p) :
    accepted interval (h ++ [x]) = accepted interval h ++ [x] ↔ lt (ofInt (x.1 - p.1)) interval = false := by
  rw [accepted_snoc, acceptNext_some _ _ _ _ hp]
  by_cases hl : lt (ofInt (x.1 - p.1)) interval = true
  · simp only [hl, if_true, Bool.true_eq_false, iff_false]
    intro hc
    have := congrArg List.length hc
    simp at this
  · simp [hl]

theorem accepted_same_iff (interval : α) (h : List (Int × α)) (p x : Int × α)
    (hp : (accepted interval h).getLast? = some p) :
    accepted interval (h ++ [x]) = accepted interval h ↔ lt (ofInt (x.1 - p.1)) interval = true := by
  rw [accepted_snoc, acceptNext_some _ _ _ _ hp]
  by_cases hl : lt (ofInt (x.1 - p.1)) interval = true
  · simp [hl]
  · simp only [hl, Bool.false_eq_true, if_false, iff_false]
    intro hc
    have := congrArg List.length hc
    simp at this

/-! ## The formulas -/

/-- Difference quotient between two samples, per second (times are milliseconds). -/
def quotient (p x : Int × α) : α := mul (div (sub x.2 p.2) (ofInt (x.1 - p.1))) (ofInt 1000)

/-- Trapezoid area between two samples in value·seconds: `(v + v') · Δt / 2` with `Δt` in milliseconds. -/
def trapezoid (p x : Int × α) : α := div (mul (add x.2 p.2) (ofInt (x.1 - p.1))) (ofInt 2000)

/-- The neighbouring accepted pairs that are not separated by a time jump. -/
def jumpFreePairs {β : Type} (thr : Int) (acc : List (Int × β)) : List ((Int × β) × (Int × β)) :=
  (consecutive acc).filter (fun pq => decide (pq.2.1 - pq.1.1 ≤ thr))

/-- The accepted samples that are evaluated: the first one and every one at most `thr` after its accepted
predecessor (a sample reached across a time jump only re-bases the clock). -/
def evaluated {β : Type} (thr : Int) (acc : List (Int × β)) : List (Int × β) :=
  acc.head?.toList ++ (jumpFreePairs thr acc).map (·.2)

theorem jumpFreePairs_snoc {β : Type} (thr : Int) (l : List (Int × β)) (p x : Int × β) :
    jumpFreePairs thr (l ++ [p] ++ [x]) = jumpFreePairs thr (l ++ [p]) ++ (if x.1 - p.1 ≤ thr then [(p, x)] else []) := by
  unfold jumpFreePairs
  rw [consecutive_snoc, List.filter_append]
  by_cases hj : x.1 - p.1 ≤ thr <;> simp [hj]

theorem evaluated_snoc {β : Type} (thr : Int) (l : List (Int × β)) (p x : Int × β) :
    evaluated thr (l ++ [p] ++ [x]) = evaluated thr (l ++ [p]) ++ (if x.1 - p.1 ≤ thr then [x] else []) := by
  unfold evaluated
  rw [jumpFreePairs_snoc]
  have hh : (l ++ [p] ++ [x]).head? = (l ++ [p]).head? := by cases l <;> simp
  rw [hh]
  by_cases hj : x.1 - p.1 ≤ thr <;> simp [hj]

@[simp] theorem evaluated_nil {β : Type} (thr : Int) : evaluated thr ([] : List (Int × β)) = [] := rfl
@[simp] theorem evaluated_single {β : Type} (thr : Int) (x : Int × β) : evaluated thr [x] = [x] := rfl

/-! ## DERIV -/

/-- DERIV on one history element `(now, value)` with a constant interval. -/
def derivStep' (P : Params) (interval : α) (m : Mem α) (x : Int × α) : Mem α × Res α × α :=
  derivStep P m x.1 x.2 interval

omit [Num α] in
theorem memBase_eq_some (m : Mem α) (p : Int × α) (hb : memBase m = some p) : m.v = some p.2 ∧ m.t = p.1 := by
  cases hv : m.v with
  | none => simp [memBase, hv] at hb
  | some l =>
    simp only [memBase, hv, Option.map_some, Option.some.injEq] at hb
    subst hb; exact ⟨rfl, rfl⟩

omit [Num α] in
theorem memBase_eq_none (m : Mem α) (hb : memBase m = none) : m.v = none := by
  cases hv : m.v with
  | none => rfl
  | some l => simp [memBase, hv] at hb

/-- One DERIV step relative to the remembered sample `p` (positive interval: a zero gap is "too early"). -/
theorem deriv_step_cases (P : Params) (interval : α) (hpos : lt (ofInt 0 : α) interval = true) (m : Mem α)
    (p x : Int × α) (hb : memBase m = some p) :
    (lt (ofInt (x.1 - p.1)) interval = true →
      (derivStep' P interval m x).1 = m ∧ (derivStep' P interval m x).2.1 = .error .skipped) ∧
    (lt (ofInt (x.1 - p.1)) interval = false → x.1 - p.1 > P.thr →
      memBase (derivStep' P interval m x).1 = some x ∧ (derivStep' P interval m x).2.1 = .error .skipped) ∧
    (lt (ofInt (x.1 - p.1)) interval = false → x.1 - p.1 ≤ P.thr →
      memBase (derivStep' P interval m x).1 = some x ∧ (derivStep' P interval m x).2.1 = .ok (quotient p x)) := by
  obtain ⟨hv, ht⟩ := memBase_eq_some m p hb
  refine ⟨?_, ?_, ?_⟩
  · intro h1; simp [derivStep', derivStep, hv, ht, h1]
  · intro h1 h2; simp [derivStep', derivStep, hv, ht, h1, h2, memBase]
  · intro h1 h2
    have h2' : ¬ x.1 - p.1 > P.thr := by omega
    have h3 : ¬ (x.1 - p.1 == 0) = true := by
      intro h0
      have h0' : x.1 - p.1 = 0 := by simpa using h0
      rw [h0', hpos] at h1; cases h1
    simp [derivStep', derivStep, hv, ht, h1, h2', h3, memBase, quotient]

theorem deriv_step_first (P : Params) (interval : α) (m : Mem α) (x : Int × α) (hb : memBase m = none) :
    memBase (derivStep' P interval m x).1 = some x ∧ (derivStep' P interval m x).2.1 = .ok (ofInt 0) := by
  have hv := memBase_eq_none m hb
  simp [derivStep', derivStep, hv, memBase]

/-- Representation invariant of DERIV: the remembered sample is the last accepted one. -/
theorem deriv_base (P : Params) (interval : α) (hpos : lt (ofInt 0 : α) interval = true) (h : List (Int × α)) :
    memBase (memAfter (derivStep' P interval) {} h) = (accepted interval h).getLast? := by
  induction h using snoc_induction with
  | nil => rfl
  | snoc h x ih =>
    rw [memAfter_append, accepted_snoc]
    cases hg : (accepted interval h).getLast? with
    | none =>
      rw [hg] at ih
      rw [(deriv_step_first P interval _ x ih).1, acceptNext_first _ _ _ (List.getLast?_eq_none_iff.mp hg)]
      rfl
    | some p =>
      rw [hg] at ih
      obtain ⟨c1, c2, c3⟩ := deriv_step_cases P interval hpos _ p x ih
      rw [acceptNext_some _ _ _ _ hg]
      by_cases h1 : lt (ofInt (x.1 - p.1)) interval = true
      · rw [(c1 h1).1, ih]; simp [h1, hg]
      · have h1' : lt (ofInt (x.1 - p.1)) interval = false := by simpa using h1
        simp only [h1', Bool.false_eq_true, if_false, List.getLast?_concat]
        by_cases h2 : x.1 - p.1 > P.thr
        · exact (c2 h1' h2).1
        · exact (c3 h1' (by omega)).1

/-- **DERIV over a history, newest output**, in terms of the accepted samples only. -/
theorem deriv_last_of_accepted (P : Params) (interval : α) (hpos : lt (ofInt 0 : α) interval = true)
    (h : List (Int × α)) (x : Int × α) :
    (accepted interval h = [] →
      (runFn (derivStep' P interval) {} (h ++ [x])).getLast? = some (.ok (ofInt 0))) ∧
    (∀ p, (accepted interval h).getLast? = some p →
      (lt (ofInt (x.1 - p.1)) interval = true →
        (runFn (derivStep' P interval) {} (h ++ [x])).getLast? = some (.error .skipped)) ∧
      (lt (ofInt (x.1 - p.1)) interval = false → x.1 - p.1 > P.thr →
        (runFn (derivStep' P interval) {} (h ++ [x])).getLast? = some (.error .skipped)) ∧
      (lt (ofInt (x.1 - p.1)) interval = false → x.1 - p.1 ≤ P.thr →
        (runFn (derivStep' P interval) {} (h ++ [x])).getLast? = some (.ok (quotient p x)))) := by
  rw [runFn_getLast]
  have hb := deriv_base P interval hpos h
  refine ⟨?_, ?_⟩
  · intro he
    rw [he] at hb
    rw [(deriv_step_first P interval _ x hb).2]
  · intro p hp
    rw [hp] at hb
    obtain ⟨c1, c2, c3⟩ := deriv_step_cases P interval hpos _ p x hb
    exact ⟨fun h1 => by rw [(c1 h1).2], fun h1 h2 => by rw [(c2 h1 h2).2], fun h1 h2 => by rw [(c3 h1 h2).2]⟩

/-- The newest sample is not accepted, or is reached across a jump: DERIV produces nothing. -/
theorem deriv_last_skipped (P : Params) (interval : α) (hpos : lt (ofInt 0 : α) interval = true)
    (h : List (Int × α)) (p x : Int × α) (hp : (accepted interval h).getLast? = some p)
    (hx : accepted interval (h ++ [x]) = accepted interval h ∨ x.1 - p.1 > P.thr) :
    (runFn (derivStep' P interval) {} (h ++ [x])).getLast? = some (.error .skipped) := by
  obtain ⟨a, b, _⟩ := (deriv_last_of_accepted P interval hpos h x).2 p hp
  by_cases h1 : lt (ofInt (x.1 - p.1)) interval = true
  · exact a h1
  · have h1' : lt (ofInt (x.1 - p.1)) interval = false := by simpa using h1
    rcases hx with hx | hx
    · exact absurd ((accepted_same_iff interval h p x hp).mp hx) h1
    · exact b h1' hx

/-- Without a positive interval: a sample at the very time of the remembered one (not "too early" because the interval
is not positive) raises `ZeroDivisionError` and is not adopted. -/
theorem deriv_zero_gap_raises (P : Params) (interval : α) (hnp : lt (ofInt 0 : α) interval = false) (m : Mem α)
    (p x : Int × α) (hb : memBase m = some p) (h0 : x.1 = p.1) (hthr : 0 ≤ P.thr) :
    (derivStep' P interval m x).1 = m ∧ (derivStep' P interval m x).2.1 = .error .exc := by
  obtain ⟨hv, ht⟩ := memBase_eq_some m p hb
  have hd : x.1 - p.1 = 0 := by omega
  have h2 : ¬ (0 : Int) > P.thr := by omega
  simp [derivStep', derivStep, hv, ht, hd, hnp, h2]

/-! ## INTEG -/

/-- One pass of `INTEG($x, $, T)` with the port fed back: `(memory, port value)`. -/
def integFb (P : Params) (interval : α) (s : Mem α × α) (x : Int × α) : Mem α × α :=
  let st := integStep P s.1 x.1 x.2 s.2 interval
  (st.1, match st.2.1 with | .ok y => y | .error _ => s.2)

theorem integFeedback_eq_foldl (P : Params) (interval : α) (h : List (Int × α)) : ∀ (m : Mem α) (a : α),
    integFeedback P interval m a h = (h.foldl (integFb P interval) (m, a)).2 := by
  induction h with
  | nil => intro m a; rfl
  | cons x r ih => intro m a; simp only [integFeedback, List.foldl_cons]; rw [ih]; rfl

/-- The trapezoid sum over the accepted samples: the initial value plus, from oldest to newest, the areas between
neighbouring accepted samples not separated by a time jump. -/
def trapezoidSum (thr : Int) (a0 : α) (acc : List (Int × α)) : α :=
  ((jumpFreePairs thr acc).map (fun pq => trapezoid pq.1 pq.2)).foldl add a0

/-- Representation invariant of INTEG under feedback: remembered sample = last accepted, port = trapezoid sum. -/
theorem integ_inv (P : Params) (interval : α) (a0 : α) (h : List (Int × α)) :
    memBase (h.foldl (integFb P interval) ({}, a0)).1 = (accepted interval h).getLast? ∧
    (h.foldl (integFb P interval) ({}, a0)).2 = trapezoidSum P.thr a0 (accepted interval h) := by
  induction h using snoc_induction with
  | nil => exact ⟨rfl, rfl⟩
  | snoc h x ih =>
    rw [List.foldl_append, accepted_snoc]
    simp only [List.foldl_cons, List.foldl_nil]
    generalize h.foldl (integFb P interval) ({}, a0) = s at ih
    obtain ⟨m, a⟩ := s
    obtain ⟨ihb, iha⟩ := ih
    simp only at ihb iha
    cases hg : (accepted interval h).getLast? with
    | none =>
      rw [hg] at ihb
      have hv := memBase_eq_none m ihb
      have he := List.getLast?_eq_none_iff.mp hg
      rw [acceptNext_first _ _ _ he]
      rw [he] at iha
      simp only [integFb, integStep, hv]
      exact ⟨rfl, iha⟩
    | some p =>
      rw [hg] at ihb
      obtain ⟨hv, ht⟩ := memBase_eq_some m p ihb
      rw [acceptNext_some _ _ _ _ hg]
      by_cases h1 : lt (ofInt (x.1 - p.1)) interval = true
      · simp only [integFb, integStep, hv, ht, h1, if_true]
        exact ⟨by rw [ihb, hg], iha⟩
      · obtain ⟨l, hl⟩ := List.getLast?_eq_some_iff.mp hg
        simp only [h1, Bool.false_eq_true, if_false, List.getLast?_concat]
        unfold trapezoidSum at iha ⊢
        rw [hl, jumpFreePairs_snoc, ← hl]
        by_cases h2 : x.1 - p.1 > P.thr
        · have h2' : ¬ x.1 - p.1 ≤ P.thr := by omega
          simp only [integFb, integStep, hv, ht, h1, h2, h2', Bool.false_eq_true, if_false, if_true,
            List.append_nil]
          exact ⟨rfl, iha⟩
        · have h2' : x.1 - p.1 ≤ P.thr := by omega
          simp only [integFb, integStep, hv, ht, h1, h2, h2', Bool.false_eq_true, if_false, if_true,
            List.map_append, List.foldl_append, List.map_cons, List.map_nil, List.foldl_cons, List.foldl_nil]
          exact ⟨rfl, by rw [← iha]; rfl⟩

end accepted

/-! ## FMAVG / FMEDIAN (carrier `Int`, constant integral width `w ≥ 1`) -/

/-- The values of the evaluated accepted samples: what enters the moving window. -/
def windowValues (thr : Int) (interval : Int) (h : List (Int × Int)) : List Int :=
  (evaluated thr (accepted interval h)).map (·.2)

/-- Representation invariant of FMAVG / FMEDIAN: the queue is the last `k` window values, the remembered time is the
time of the last accepted sample (0 = none yet; all sample times are positive). -/
def FmInv (thr : Int) (k : Nat) (interval : Int) (h : List (Int × Int)) (m : Mem Int) : Prop :=
  m.w = lastK k (windowValues thr interval h) ∧
  ((accepted interval h = [] ∧ m.t = 0) ∨ ∃ p, (accepted interval h).getLast? = some p ∧ m.t = p.1 ∧ 0 < p.1)

/-- One FM step from a memory satisfying the invariant: invariant kept, output by cases on the newest sample. -/
theorem fm_step_inv (P : Params) (Q : Nat) (agg : List Int → Res Int) (w : Nat) (hw : 1 ≤ w) (hQ : 1 ≤ Q)
    (interval : Int) (h : List (Int × Int)) (x : Int × Int) (hx : 0 < x.1) (m : Mem Int)
    (hinv : FmInv P.thr (min w Q) interval h m) :
    FmInv P.thr (min w Q) interval (h ++ [x]) (fmStep' P Q agg w interval m x).1 ∧
    (accepted interval h = [] →
      (fmStep' P Q agg w interval m x).2.1 = agg (lastK (min w Q) (windowValues P.thr interval (h ++ [x])))) ∧
    (∀ p, (accepted interval h).getLast? = some p →
      (x.1 - p.1 < interval → (fmStep' P Q agg w interval m x).2.1 = .error .skipped) ∧
      (¬ x.1 - p.1 < interval → x.1 - p.1 > P.thr → (fmStep' P Q agg w interval m x).2.1 = .error .skipped) ∧
      (¬ x.1 - p.1 < interval → x.1 - p.1 ≤ P.thr →
        (fmStep' P Q agg w interval m x).2.1 = agg (lastK (min w Q) (windowValues P.thr interval (h ++ [x]))))) := by
  obtain ⟨hq, hbase⟩ := hinv
  obtain ⟨c1, c2, c3⟩ := fm_step_cases P Q agg w hw hQ interval m x (windowValues P.thr interval h) hq
  rcases hbase with ⟨he, ht⟩ | ⟨p, hp, ht, hp0⟩
  · -- the very first sample
    have n1 : ¬ (m.t > 0 ∧ x.1 - m.t < interval) := by omega
    have n2 : ¬ (m.t > 0 ∧ x.1 - m.t > P.thr) := by omega
    obtain ⟨e1, e2, e3⟩ := c3 n1 n2
    have hacc : accepted interval (h ++ [x]) = [x] := by rw [accepted_snoc, acceptNext_first _ _ _ he]
    have hwv : windowValues P.thr interval (h ++ [x]) = windowValues P.thr interval h ++ [x.2] := by
      simp only [windowValues, hacc, he]; rfl
    refine ⟨⟨by rw [e1, hwv], Or.inr ⟨x, by rw [hacc]; rfl, e2, hx⟩⟩, fun _ => by rw [e3, hwv], ?_⟩
    intro p hp; rw [he] at hp; cases hp
  · have hne : accepted interval h ≠ [] := by intro hc; rw [hc] at hp; cases hp
    obtain ⟨l, hl⟩ := List.getLast?_eq_some_iff.mp hp
    have hsn := acceptNext_some interval _ p x hp
    simp only [int_lt, int_ofInt, decide_eq_true_eq] at hsn
    have key : ∀ q, (accepted interval h).getLast? = some q → q = p := by
      intro q hq'; rw [hp] at hq'; cases hq'; rfl
    by_cases h1 : x.1 - p.1 < interval
    · -- too early
      obtain ⟨e1, e2⟩ := c1 ⟨by omega, by rw [ht]; exact h1⟩
      have hacc : accepted interval (h ++ [x]) = accepted interval h := by rw [accepted_snoc, hsn, if_pos h1]
      refine ⟨⟨by rw [e1, hq, windowValues, windowValues, hacc], Or.inr ⟨p, by rw [hacc]; exact hp, by rw [e1]; exact ht, hp0⟩⟩,
        fun hc => absurd hc hne, ?_⟩
      intro q hq'; cases key q hq'
      exact ⟨fun _ => e2, fun hc => absurd h1 hc, fun hc => absurd h1 hc⟩
    · have hacc : accepted interval (h ++ [x]) = accepted interval h ++ [x] := by rw [accepted_snoc, hsn, if_neg h1]
      have n1 : ¬ (m.t > 0 ∧ x.1 - m.t < interval) := by rw [ht]; omega
      by_cases h2 : x.1 - p.1 > P.thr
      · -- reached across a time jump
        obtain ⟨e1, e2⟩ := c2 n1 ⟨by omega, by rw [ht]; exact h2⟩
        have hwv : windowValues P.thr interval (h ++ [x]) = windowValues P.thr interval h := by
          have h2' : ¬ x.1 - p.1 ≤ P.thr := by omega
          simp only [windowValues, hacc]
          rw [hl, evaluated_snoc, if_neg h2', List.append_nil]
        refine ⟨⟨by rw [e1, hwv]; exact hq, Or.inr ⟨x, by rw [hacc]; simp, by rw [e1], hx⟩⟩,
          fun hc => absurd hc hne, ?_⟩
        intro q hq'; cases key q hq'
        exact ⟨fun hc => absurd hc h1, fun _ _ => e2, fun _ hc => by omega⟩
      · -- a regular accepted sample
        have n2 : ¬ (m.t > 0 ∧ x.1 - m.t > P.thr) := by rw [ht]; omega
        obtain ⟨e1, e2, e3⟩ := c3 n1 n2
        have hwv : windowValues P.thr interval (h ++ [x]) = windowValues P.thr interval h ++ [x.2] := by
          have h2' : x.1 - p.1 ≤ P.thr := by omega
          simp only [windowValues, hacc]
          rw [hl, evaluated_snoc, if_pos h2', List.map_append]; rfl
        refine ⟨⟨by rw [e1, hwv], Or.inr ⟨x, by rw [hacc]; simp, e2, hx⟩⟩, fun hc => absurd hc hne, ?_⟩
        intro q hq'; cases key q hq'
        exact ⟨fun hc => absurd hc h1, fun _ hc => absurd hc h2, fun _ _ => by rw [e3, hwv]⟩

theorem fm_inv (P : Params) (Q : Nat) (agg : List Int → Res Int) (w : Nat) (hw : 1 ≤ w) (hQ : 1 ≤ Q)
    (interval : Int) (h : List (Int × Int)) (hpos : ∀ y ∈ h, 0 < y.1) :
    FmInv P.thr (min w Q) interval h (memAfter (fmStep' P Q agg w interval) {} h) := by
  induction h using snoc_induction with
  | nil => exact ⟨by simp [windowValues, lastK, memAfter], Or.inl ⟨rfl, rfl⟩⟩
  | snoc h x ih =>
    rw [memAfter_append]
    exact (fm_step_inv P Q agg w hw hQ interval h x (hpos x (by simp)) _
      (ih (fun y hy => hpos y (by simp [hy])))).1

/-- **FMAVG / FMEDIAN over a history, newest output**, in terms of the accepted samples only. -/
theorem fm_last_of_accepted (P : Params) (Q : Nat) (agg : List Int → Res Int) (w : Nat) (hw : 1 ≤ w) (hQ : 1 ≤ Q)
    (interval : Int) (h : List (Int × Int)) (x : Int × Int) (hpos : ∀ y ∈ h ++ [x], 0 < y.1) :
    (accepted interval h = [] →
      (runFn (fmStep' P Q agg w interval) {} (h ++ [x])).getLast?
        = some (agg (lastK (min w Q) (windowValues P.thr interval (h ++ [x]))))) ∧
    (∀ p, (accepted interval h).getLast? = some p →
      (x.1 - p.1 < interval →
        (runFn (fmStep' P Q agg w interval) {} (h ++ [x])).getLast? = some (.error .skipped)) ∧
      (¬ x.1 - p.1 < interval → x.1 - p.1 > P.thr →
        (runFn (fmStep' P Q agg w interval) {} (h ++ [x])).getLast? = some (.error .skipped)) ∧
      (¬ x.1 - p.1 < interval → x.1 - p.1 ≤ P.thr →
        (runFn (fmStep' P Q agg w interval) {} (h ++ [x])).getLast?
          = some (agg (lastK (min w Q) (windowValues P.thr interval (h ++ [x])))))) := by
  rw [runFn_getLast]
  have hinv := fm_inv P Q agg w hw hQ interval h (fun y hy => hpos y (by simp [hy]))
  obtain ⟨_, s1, s2⟩ := fm_step_inv P Q agg w hw hQ interval h x (hpos x (by simp)) _ hinv
  refine ⟨fun he => by rw [s1 he], fun p hp => ?_⟩
  obtain ⟨a, b, c⟩ := s2 p hp
  exact ⟨fun h1 => by rw [a h1], fun h1 h2 => by rw [b h1 h2], fun h1 h2 => by rw [c h1 h2]⟩

/-- The newest sample is accepted and not reached across a jump: the output is the aggregate of the last `k` window
values (which end with the newest value). -/
theorem fm_last_evaluated (P : Params) (Q : Nat) (agg : List Int → Res Int) (w : Nat) (hw : 1 ≤ w) (hQ : 1 ≤ Q)
    (interval : Int) (h : List (Int × Int)) (x : Int × Int) (hpos : ∀ y ∈ h ++ [x], 0 < y.1)
    (hx : accepted interval (h ++ [x]) = accepted interval h ++ [x])
    (hj : ∀ p, (accepted interval h).getLast? = some p → x.1 - p.1 ≤ P.thr) :
    (runFn (fmStep' P Q agg w interval) {} (h ++ [x])).getLast?
      = some (agg (lastK (min w Q) (windowValues P.thr interval (h ++ [x])))) := by
  obtain ⟨s1, s2⟩ := fm_last_of_accepted P Q agg w hw hQ interval h x hpos
  cases hg : (accepted interval h).getLast? with
  | none => exact s1 (List.getLast?_eq_none_iff.mp hg)
  | some p =>
    have hl := (accepted_grows_iff interval h p x hg).mp hx
    simp only [int_lt, int_ofInt, decide_eq_false_iff_not] at hl
    exact (s2 p hg).2.2 hl (hj p hg)

/-- The newest sample is not accepted, or is reached across a jump: nothing is produced. -/
theorem fm_last_skipped (P : Params) (Q : Nat) (agg : List Int → Res Int) (w : Nat) (hw : 1 ≤ w) (hQ : 1 ≤ Q)
    (interval : Int) (h : List (Int × Int)) (x p : Int × Int) (hpos : ∀ y ∈ h ++ [x], 0 < y.1)
    (hp : (accepted interval h).getLast? = some p)
    (hx : accepted interval (h ++ [x]) = accepted interval h ∨ x.1 - p.1 > P.thr) :
    (runFn (fmStep' P Q agg w interval) {} (h ++ [x])).getLast? = some (.error .skipped) := by
  obtain ⟨a, b, _⟩ := (fm_last_of_accepted P Q agg w hw hQ interval h x hpos).2 p hp
  by_cases h1 : x.1 - p.1 < interval
  · exact a h1
  · rcases hx with hx | hx
    · have hl := (accepted_same_iff interval h p x hp).mp hx
      simp only [int_lt, int_ofInt, decide_eq_true_eq] at hl
      exact absurd hl h1
    · exact b h1 hx

/-- The window of an evaluated newest sample is not empty and ends with its value. -/
theorem window_ends_with_newest (thr : Int) (k : Nat) (hk : 1 ≤ k) (interval : Int) (h : List (Int × Int))
    (x : Int × Int) (hx : accepted interval (h ++ [x]) = accepted interval h ++ [x])
    (hj : ∀ p, (accepted interval h).getLast? = some p → x.1 - p.1 ≤ thr) :
    ∃ pre, lastK k (windowValues thr interval (h ++ [x])) = pre ++ [x.2] := by
  have hwv : windowValues thr interval (h ++ [x]) = windowValues thr interval h ++ [x.2] := by
    simp only [windowValues, hx]
    cases hg : (accepted interval h).getLast? with
    | none => rw [List.getLast?_eq_none_iff.mp hg]; rfl
    | some p =>
      obtain ⟨l, hl⟩ := List.getLast?_eq_some_iff.mp hg
      rw [hl, evaluated_snoc, if_pos (hj p hg), List.map_append]; rfl
  exact ⟨lastK (k - 1) (windowValues thr interval h), by rw [hwv, lastK_snoc k hk]⟩

/-- `Int`: a left fold of `+` from `a` is `a + Σ`. -/
theorem foldl_add_eq_sum (l : List Int) (a : Int) : l.foldl Num.add a = a + l.sum := by
  induction l generalizing a with
  | nil => simp
  | cons x r ih => simp only [List.foldl_cons, List.sum_cons]; rw [ih]; show a + x + r.sum = _; omega

end QtVerif.TimeFns
