import QtVerif.Proofs.EvalTotal
/-!
Integration helper (C01 × C02): an expression that is not a bare port reference never evaluates to a port object.
`Eval.eval` yields `Res.portObj` only for `@id` / `@` at the top of the tree (`PortRef._eval`); a function never
receives a reference as an argument (`validate_arg_kinds`: the model answers `outside`) and no function body builds one.
Same structure as `eval_real` / `eval_inside` of `Proofs/EvalTotal.lean`, for the predicate "not a port object".
-/
set_option linter.unusedSimpArgs false
namespace QtVerif.Eval
open QtVerif.Syntax QtVerif.Num
variable {α : Type} [PyFloat α]

/-- an outcome that is not a port object -/
def Res.noObj : Res α → Prop
  | .portObj _ => False
  | _ => True

omit [PyFloat α] in
@[simp] theorem ofExcept_noObj (r : Except Crash (Val α)) : (ofExcept r).noObj := by
  cases r <;> simp [ofExcept, Res.noObj]

theorem intOp2_noObj (op : Int → Int → Except Crash Int) (a b : Val α) : (intOp2 op a b).noObj := by
  unfold intOp2
  (repeat' split) <;> first | exact ofExcept_noObj _ | simp [Res.noObj]

theorem lutGo_noObj (x : Val α) (l : List (Val α × Val α)) : (lutGo x l).noObj := by
  induction l with
  | nil => simp [lutGo, Res.noObj]
  | cons p rest ih =>
    cases rest with
    | nil => simp [lutGo, Res.noObj]
    | cons q rest' =>
      simp only [lutGo]
      split
      · exact ih
      · (repeat' split) <;> first | exact ofExcept_noObj _ | simp [Res.noObj]

theorem interp_noObj (x : Val α) (p1 p2 : Val α × Val α) : (interp x p1 p2).noObj := by
  unfold interp
  (repeat' split) <;> first | exact ofExcept_noObj _ | simp [Res.noObj]

theorem lutliGo_noObj (x : Val α) (l : List (Val α × Val α)) : (lutliGo x l).noObj := by
  induction l with
  | nil => simp [lutliGo, Res.noObj]
  | cons p rest ih =>
    cases rest with
    | nil => simp [lutliGo, Res.noObj]
    | cons q rest' =>
      simp only [lutliGo]
      split
      · exact ih
      · split
        · simp [Res.noObj]
        · exact interp_noObj x p q

theorem lut_noObj (x : Val α) (pts : List (Val α × Val α)) : (lut x pts).noObj := by
  unfold lut
  split
  · simp [Res.noObj]
  · split
    · simp [Res.noObj]
    · exact lutGo_noObj _ _

theorem lutli_noObj (x : Val α) (pts : List (Val α × Val α)) : (lutli x pts).noObj := by
  unfold lutli
  split
  · simp [Res.noObj]
  · split
    · simp [Res.noObj]
    · exact lutliGo_noObj _ _

theorem mulFold_noObj (vs : List (Val α)) (r : Res α) (hr : r.noObj) : (vs.foldl mulStep r).noObj := by
  induction vs generalizing r with
  | nil => exact hr
  | cons v rest ih =>
    simp only [List.foldl]
    apply ih
    cases r <;> first | exact ofExcept_noObj _ | simp_all [Res.noObj, mulStep]

theorem mulFold_noObj' (vs : List (Val α)) : (mulFold vs).noObj := mulFold_noObj vs _ (by simp [Res.noObj])

theorem timestamp_noObj (now : Int) : (timestamp (α := α) now).noObj := by
  unfold timestamp
  (repeat' split) <;> first | exact ofExcept_noObj _ | simp [Res.noObj]

macro "noobj_leaf" : tactic => `(tactic| first
  | exact ofExcept_noObj _
  | exact intOp2_noObj _ _ _
  | exact lut_noObj _ _ | exact lutli_noObj _ _
  | exact mulFold_noObj' _
  | (simp [Res.noObj]; done)
  | simp_all [Res.noObj])

theorem fnTable_noObj : ∀ p ∈ (fnTable (α := α)), ∀ fix vs, (p.2 fix vs).noObj := by
  intro p hp fix vs
  simp only [fnTable, List.mem_cons, List.not_mem_nil, or_false] at hp
  rcases hp with h | h | h | h | h | h | h | h | h | h | h | h | h | h | h | h | h | h | h | h | h | h | h | h | h | h | h | h | h | h <;>
    subst h <;>
    simp only [fnAdd, fnSub, fnMul, fnDiv, fnMod, fnPow, fnCmp, fnNot, fnXor, fnInt2, fnBitNot, fnFloor, fnCeil, fnRound,
      fnAbs, fnSgn, fnMin, fnMax, fnAvg, fnOnOffAuto, fnLut, fnLutli] <;>
    ((repeat' split) <;> noobj_leaf)

theorem applyPure_noObj (fix : Bool) (n : String) (vs : List (Val α)) : (applyPure fix n vs).noObj := by
  unfold applyPure
  split
  · rename_i f hf
    exact fnTable_noObj (n, f) (lookup_mem _ _ _ hf) fix vs
  · simp [Res.noObj]

theorem applyFn_noObj (fix : Bool) (now : Int) (n : String) (vs : List (Val α)) : (applyFn fix now n vs).noObj := by
  unfold applyFn
  split
  · split
    · exact timestamp_noObj now
    · simp [Res.noObj]
  · split
    · split <;> simp [Res.noObj]
    · exact applyPure_noObj fix n vs

theorem applyStrict_noObj (now : Int) (n : String) (rs : List (Res α)) (h : ∀ r ∈ rs, r.noObj) :
    (applyStrict true now n rs).noObj := by
  unfold applyStrict
  split
  · rename_i r hr; exact h r (firstFail_mem rs r hr)
  · exact applyFn_noObj true now n _

omit [PyFloat α] in
theorem availableOf_noObj (r : Res α) : (availableOf r).noObj := by
  cases r <;> simp [availableOf, Res.noObj]

theorem evalAnd_noObj (args : List Expr) (c : Ctx α) (h : ∀ a ∈ args, (eval a c).noObj) : (evalAnd args c).noObj := by
  induction args with
  | nil => simp [evalAnd, Res.noObj]
  | cons a rest ih =>
    simp only [evalAnd]
    have ha := h a (by simp)
    have ih' := ih (fun x hx => h x (List.mem_cons_of_mem _ hx))
    split
    · split
      · exact ih'
      · simp [Res.noObj]
    · exact ha

theorem evalOr_noObj (args : List Expr) (c : Ctx α) (h : ∀ a ∈ args, (eval a c).noObj) : (evalOr args c).noObj := by
  induction args with
  | nil => simp [evalOr, Res.noObj]
  | cons a rest ih =>
    simp only [evalOr]
    have ha := h a (by simp)
    have ih' := ih (fun x hx => h x (List.mem_cons_of_mem _ hx))
    split
    · split
      · simp [Res.noObj]
      · exact ih'
    · exact ha

/-- **Only a bare port reference evaluates to a port object.** -/
theorem eval_noObj (e : Expr) : ∀ c : Ctx α, isRef e = false → (eval e c).noObj := by
  induction e using Expr.ind with
  | lit t => intro c _; simp only [eval, litValue]; split <;> simp [Res.noObj]
  | portVal id => intro c _; simp only [eval, portValue]; (repeat' split) <;> simp [Res.noObj]
  | selfVal => intro c _; simp only [eval, selfValue, portValue]; (repeat' split) <;> simp [Res.noObj]
  | portRef id => intro c h; simp [isRef] at h
  | selfRef => intro c h; simp [isRef] at h
  | call n args ih =>
    intro c _hr
    rw [eval.eq_def]
    simp only
    split
    · simp [Res.noObj]
    · rename_i hany
      have hnr : ∀ a ∈ args, isRef a = false := by
        intro a ha
        cases hr : isRef a with
        | false => rfl
        | true => exact absurd (List.any_eq_true.mpr ⟨a, ha, hr⟩) hany
      have ih' : ∀ a ∈ args, (eval a c).noObj := fun a ha => ih a ha c (hnr a ha)
      split
      · split
        · rename_i a b d
          have ha := ih' a (by simp)
          have hb := ih' b (by simp)
          have hd := ih' d (by simp)
          split
          · split
            · exact hb
            · exact hd
          · exact ha
        · simp [Res.noObj]
      · split
        · simp [Res.noObj]
        · exact evalAnd_noObj args c ih'
      · split
        · simp [Res.noObj]
        · exact evalOr_noObj args c ih'
      · split
        · exact availableOf_noObj _
        · simp [Res.noObj]
      · split
        · rename_i a b
          have ha := ih' a (by simp)
          have hb := ih' b (by simp)
          split
          · exact hb
          · exact hb
          · exact ha
        · simp [Res.noObj]
      · apply applyStrict_noObj
        intro r hr
        rw [evalArgs_eq_map] at hr
        obtain ⟨a, ha, rfl⟩ := List.mem_map.mp hr
        exact ih' a ha
      · simp [Res.noObj]

end QtVerif.Eval
