import QtVerif.Proofs.StoreMongoX
import QtVerif.Proofs.StoreStrong
/-!
Helper lemmas for C06, part 8: the RUN-LEVEL refinement of the Mongo driver model (over the declarative engine SPEC
`Mongo.eFind`, `eMatches`, … of `QtVerif/Model/Store.lean`) against the reference store.

The per-operation theorems of part 7 (`mongo_query_sound`, `mongo_remove_sound`, `mongo_update_sound`,
`mongo_replace_sound`, `mongo_insert_sound`) are chained by an induction over the history through `RelM`, exactly as
`redis_run_agrees` chains the Redis ones through `RelR`. Two things differ from Redis / JSON, and both are carried in
the statement instead of being hidden:

* **generated ObjectIds** (`FreshRun`): for every insert of a record WITHOUT "id", the ObjectId `gen` the engine
  generates must not be the "_id" of a document the engine holds in that collection at that moment
  (`Mongo.hasUid (.oid gen) docs = false`). This is a hypothesis about the engine's generator relative to the whole
  history (explicit ids that look like ObjectIds included); the statement without it is false
  (`C06.mongoRefinesRefFull_false`);
* **update counts** (`AgreeByLe`): the driver reports `modified_count` `m`, the reference store the number `n` of
  matching records; only `m ≤ n` holds (recorded finding C06-mongo-update-modified-count). `AgreeByLe` is `AgreeBy`
  with exactly this one relaxation, at `update` operations only.
-/
namespace QtVerif.Store
open Mongo

/-! ### the contract domain, the lock-step run -/

/-- the operations of the Mongo contract domain: the hypotheses of the per-operation theorems
(`C06.MOpOK` is this predicate) -/
def MongoOpOK : Op → Prop
  | .insert _ rec => MInsertOK rec
  | .update _ part filt => MFiltOK filt ∧ Mongo.kUid ∉ dkeys part
  | .replace _ _ rec => MRecIn rec ∧ kId ∉ dkeys rec
  | .remove _ filt => MFiltOK filt
  | .query _ fields filt sort limit => MQueryOK fields filt sort limit
  | .reload => True

/-- lock-step run of the Mongo driver model over the engine SPEC and the reference store (`C06.runMongo` is this
function); every operation comes with the bytes of the ObjectId the engine would generate for a document inserted
without "_id"; the reference store is offered the name the driver returned -/
def mongoRun : Mongo.MState → RefState → List (Op × List Nat) → List (Res × Res)
  | _, _, [] => []
  | ms, rs, (op, gen) :: t =>
    let mr := Mongo.step Fix.repaired ms gen op
    let rr := Ref.step rs (match mr.2 with | .id n => n | _ => []) op
    (mr.2, rr.2) :: mongoRun mr.1 rr.1 t

/-! ### freshness of the generated ObjectIds along a run -/

/-- The ObjectId `gen` the engine generates for this operation is not in use: when the operation is an insert of a
record without "id" (the only case in which the engine generates one), no document of the collection — in the ENGINE
state `ms` — has `ObjectId(gen)` as its "_id". Nothing is asked of any other operation (in particular not of an
insert with an explicit id, for which `gen` is not used). -/
def GenFresh (ms : Mongo.MState) (gen : List Nat) : Op → Prop
  | .insert coll rec => (dget kId rec).isNone = true → Mongo.hasUid (.oid gen) (aget [] coll ms) = false
  | _ => True

instance (ms : Mongo.MState) (gen : List Nat) (op : Op) : Decidable (GenFresh ms gen op) := by
  cases op <;> unfold GenFresh <;> infer_instance

/-- `GenFresh` holds at every step of the run of the driver model from the engine state `ms`: each generated ObjectId
is fresh in the engine state REACHED SO FAR. -/
def FreshRun : Mongo.MState → List (Op × List Nat) → Prop
  | _, [] => True
  | ms, (op, gen) :: t => GenFresh ms gen op ∧ FreshRun (Mongo.step Fix.repaired ms gen op).1 t

instance : ∀ (hist : List (Op × List Nat)) (ms : Mongo.MState), Decidable (FreshRun ms hist)
  | [], _ => isTrue trivial
  | (op, gen) :: t, ms =>
    have := instDecidableFreshRun t (Mongo.step Fix.repaired ms gen op).1
    by unfold FreshRun; infer_instance

/-! ### agreement with update counts compared by `≤` -/

def Op.isUpdate : Op → Bool
  | .update _ _ _ => true
  | _ => false

/-- one answer `j` of the driver against the reference store's `r`: for `update`, both are counts and the driver's
is not larger; for every other operation, `j = norm r` as in `AgreeBy` -/
def ResAgreeLe (norm : Res → Res) : Op → Res → Res → Prop
  | .update _ _ _, j, r => ∃ m n, j = .count m ∧ r = .count n ∧ m ≤ n
  | _, j, r => j = norm r

/-- `AgreeBy norm` (the reference store never answers `notFresh`; up to the first reference error, every answer of
the driver is `norm` of the reference store's) with ONE relaxation: at `update` operations the two counts are related
by `≤` instead of `=`. The operations are listed alongside the result pairs, as in `AgreeStrongBy`. -/
def AgreeByLe (norm : Res → Res) : List Op → List (Res × Res) → Prop
  | [], [] => True
  | op :: ops, (j, r) :: t =>
    r ≠ .err .notFresh ∧ ((∃ e, r = .err e) ∨ (ResAgreeLe norm op j r ∧ AgreeByLe norm ops t))
  | _, _ => False

/-- on histories without `update`, `AgreeByLe` IS `AgreeBy` -/
theorem AgreeByLe.of_noUpdate (norm : Res → Res) :
    ∀ (ops : List Op) (l : List (Res × Res)), (∀ op ∈ ops, op.isUpdate = false) → AgreeByLe norm ops l →
      AgreeBy norm l := by
  intro ops
  induction ops with
  | nil =>
    intro l _ h
    cases l with
    | nil => trivial
    | cons a t => cases h
  | cons op ops ih =>
    intro l hno h
    cases l with
    | nil => cases h
    | cons a t =>
      obtain ⟨j, r⟩ := a
      obtain ⟨h1, h2⟩ := h
      refine ⟨h1, ?_⟩
      rcases h2 with he | ⟨hj, ht⟩
      · exact Or.inl he
      · refine Or.inr ⟨?_, ih t (fun o ho => hno o (by simp [ho])) ht⟩
        have hu := hno op (by simp)
        cases op <;> first | exact hj | (simp [Op.isUpdate] at hu)

/-- `AgreeBy` implies `AgreeByLe` wherever the reference store answers an update with a count (it always does,
short of an error) and `norm` leaves counts alone: `AgreeByLe` is a weakening of `AgreeBy` -/
theorem AgreeByLe.of_agreeBy (norm : Res → Res) (hn : ∀ n, norm (.count n) = .count n) :
    ∀ (ops : List Op) (l : List (Res × Res)), ops.length = l.length →
      (∀ or ∈ ops.zip l, or.1.isUpdate = true → (∃ e, or.2.2 = .err e) ∨ ∃ n, or.2.2 = .count n) →
      AgreeBy norm l → AgreeByLe norm ops l := by
  intro ops
  induction ops with
  | nil =>
    intro l hl _ _
    cases l with
    | nil => trivial
    | cons a t => simp at hl
  | cons op ops ih =>
    intro l hl hc h
    cases l with
    | nil => simp at hl
    | cons a t =>
      obtain ⟨j, r⟩ := a
      obtain ⟨h1, h2⟩ := h
      refine ⟨h1, ?_⟩
      rcases h2 with he | ⟨hj, ht⟩
      · exact Or.inl he
      · have htl : AgreeByLe norm ops t :=
          ih t (by simpa using hl) (fun o ho => hc o (by simp [List.zip_cons_cons, ho])) ht
        cases hu : op.isUpdate with
        | false =>
          refine Or.inr ⟨?_, htl⟩
          cases op <;> first | exact hj | (simp [Op.isUpdate] at hu)
        | true =>
          rcases hc (op, (j, r)) (by simp [List.zip_cons_cons]) hu with he | ⟨n, hr⟩
          · exact Or.inl he
          · refine Or.inr ⟨?_, htl⟩
            cases op <;> first | (simp [Op.isUpdate] at hu; done) | skip
            simp only at hr
            exact ⟨n, n, by rw [hj, hr, hn], hr, Nat.le_refl n⟩

/-! ### one step -/

theorem RelM.init : RelM [] [] := by
  intro coll
  exact ⟨rfl, by simp [aget, MCollOK, Coll.ids]⟩

/-- freshness in the ENGINE state gives the hypothesis `hfresh` of `mongo_insert_sound` (stated on the related
reference state) -/
theorem fresh_of_hasUid (ms : MState) (rs : RefState) (hrel : RelM ms rs) (gen : List Nat) (coll : Str)
    (h : hasUid (.oid gen) (aget [] coll ms) = false) :
    ∀ d ∈ (aget [] coll rs : Coll), idV Fix.repaired (.str (recId d)) ≠ some (.oid gen) := by
  intro d hd he
  rw [(hrel coll).1, any_uid_docs, List.any_eq_false] at h
  have := h d hd
  rw [he] at this
  simp [deq] at this

/-- insert of a record with an explicit "id": `gen` is not used, no freshness is needed (the second half of
`mongo_insert_sound`, without its hypotheses `hgen` / `hfresh`) -/
theorem mongo_insert_explicit_sound (ms : MState) (rs : RefState) (hrel : RelM ms rs) (gen : List Nat) (coll : Str)
    (rec : Fields) (hin : MRecIn rec) (i : Str) (hsome : dget kId rec = some (.str i)) :
    let mr := Mongo.step Fix.repaired ms gen (.insert coll rec)
    let rr := Ref.step rs (match mr.2 with | .id n => n | _ => []) (.insert coll rec)
    rr.2 ≠ .err .notFresh ∧ ((∃ e, rr.2 = .err e) ∨ (mr.2 = rr.2 ∧ RelM mr.1 rr.1)) := by
  obtain ⟨hdocs, hcok⟩ := hrel coll
  obtain ⟨e, he, hje⟩ := idV_str i
  have hbodyU : kUid ∉ dkeys (dpop kId rec) := fun h => hin.nouid ((dkeys_dpop_sublist kId rec).subset h)
  have hdoc : recordToDoc Fix.repaired rec = some (toE (dpop kId rec) ++ [(kUid, e)]) := by
    simp only [recordToDoc, hsome, he, Option.map_some]
    rw [dset_of_not_mem kUid e _ (by rw [dkeys_toE]; exact hbodyU)]
  have hget : dget kUid (toE (dpop kId rec) ++ [(kUid, e)]) = some e := by
    rw [← dset_of_not_mem kUid e _ (by rw [dkeys_toE]; exact hbodyU)]; exact dget_dset_self _ _ _
  have hnorm : eNormDoc (toE (dpop kId rec) ++ [(kUid, e)]) = (kUid, e) :: toE (dpop kId rec) := by
    simp only [eNormDoc, hget]
    rw [← dset_of_not_mem kUid e _ (by rw [dkeys_toE]; exact hbodyU), dpop_dset_self,
      dpop_absent kUid _ (by rw [dkeys_toE]; exact hbodyU)]
  have hrec : dset kId (.str i) rec = rec := dset_same kId (.str i) rec hsome
  obtain ⟨hnew, hok, hid⟩ := docOf_new rec i hin e he
  rw [hrec] at hnew hok hid
  have hany : hasUid e ((aget [] coll rs : Coll).map docOf) = (aget [] coll rs : Coll).ids.contains i := by
    rw [any_uid_docs]
    generalize (aget [] coll rs : Coll) = c
    induction c with
    | nil => rfl
    | cons d t ih =>
      obtain ⟨a, ha, _⟩ := idV_str (recId d)
      simp only [List.any_cons, ha, ih, Coll.ids, List.map_cons, List.contains_cons, eToJ_inj_on_ids a e (recId d) i ha he]
      rw [Bool.beq_comm]
  by_cases hm : i ∈ (aget [] coll rs : Coll).ids
  · have hc : (aget [] coll rs : Coll).ids.contains i = true := contains_iff.mpr hm
    simp only [Ref.step, hsome, hc, if_true]
    exact ⟨by simp, Or.inl ⟨_, rfl⟩⟩
  · have hc : (aget [] coll rs : Coll).ids.contains i = false := contains_false_iff.mpr hm
    simp only [Mongo.step, Ref.step, hdoc, hget, hnorm, dget, if_true, hdocs, hany, hc, Bool.false_eq_true, if_false,
      hsome, idOfE, hje]
    refine ⟨by simp, Or.inr ⟨trivial, ?_⟩⟩
    have : (aget [] coll rs : Coll).map docOf ++ [(kUid, e) :: toE (dpop kId rec)]
        = ((aget [] coll rs : Coll) ++ [rec]).map docOf := by
      rw [List.map_append, List.map_cons, List.map_nil, hnew]
    rw [this]
    refine hrel.aset coll _ ⟨?_, ?_⟩
    · simp only [Coll.ids, List.map_append, List.map_cons, List.map_nil, hid]
      rw [List.nodup_append]
      refine ⟨hcok.1, by simp, ?_⟩
      intro a ha b hb
      simp only [List.mem_singleton] at hb
      subst hb
      intro e'; subst e'; exact hm ha
    · intro d hd
      rcases List.mem_append.mp hd with e' | e'
      · exact hcok.2 d e'
      · simp only [List.mem_singleton] at e'; rw [e']; exact hok

/-- the reference store answers everything but a query with something `normRes` leaves alone -/
theorem normRes_ref_step (rs : RefState) (name : Str) (op : Op) (h : op.isQuery = false) :
    normRes (Ref.step rs name op).2 = (Ref.step rs name op).2 := by
  cases op with
  | query coll fields filt sort limit => simp [Op.isQuery] at h
  | insert coll rec => simp only [Ref.step]; repeat' split
                       all_goals rfl
  | update coll part filt => simp only [Ref.step]; repeat' split
                             all_goals rfl
  | replace coll id rec => simp only [Ref.step]; repeat' split
                           all_goals rfl
  | remove coll filt => simp only [Ref.step]; repeat' split
                        all_goals rfl
  | reload => rfl

/-- **One operation** of the contract domain from a related pair of states, with a well-formed and fresh generated
ObjectId: the reference store does not answer `notFresh`, and unless it answers with an error the driver's answer
agrees (`ResAgreeLe`: equal after `normRes`; `≤` on update counts) and the states are related again. -/
theorem mongo_step_refines (ms : MState) (rs : RefState) (hrel : RelM ms rs) (op : Op) (gen : List Nat)
    (hop : MongoOpOK op) (hgen : GenOK gen) (hfresh : GenFresh ms gen op) :
    let mr := Mongo.step Fix.repaired ms gen op
    let rr := Ref.step rs (match mr.2 with | .id n => n | _ => []) op
    rr.2 ≠ .err .notFresh ∧ ((∃ e, rr.2 = .err e) ∨ (ResAgreeLe normRes op mr.2 rr.2 ∧ RelM mr.1 rr.1)) := by
  cases op with
  | insert coll rec =>
    have hin : MInsertOK rec := hop
    have h : (Ref.step rs (match (Mongo.step Fix.repaired ms gen (.insert coll rec)).2 with | .id n => n | _ => [])
          (.insert coll rec)).2 ≠ .err .notFresh ∧
        ((∃ e, (Ref.step rs (match (Mongo.step Fix.repaired ms gen (.insert coll rec)).2 with | .id n => n | _ => [])
          (.insert coll rec)).2 = .err e) ∨
         ((Mongo.step Fix.repaired ms gen (.insert coll rec)).2 =
            (Ref.step rs (match (Mongo.step Fix.repaired ms gen (.insert coll rec)).2 with | .id n => n | _ => [])
              (.insert coll rec)).2 ∧
          RelM (Mongo.step Fix.repaired ms gen (.insert coll rec)).1
            (Ref.step rs (match (Mongo.step Fix.repaired ms gen (.insert coll rec)).2 with | .id n => n | _ => [])
              (.insert coll rec)).1)) := by
      rcases hin.idok with hnone | ⟨i, hsome⟩
      · exact mongo_insert_sound ms rs hrel gen coll rec hin hgen
          (fresh_of_hasUid ms rs hrel gen coll (hfresh (by rw [hnone]; rfl)))
      · exact mongo_insert_explicit_sound ms rs hrel gen coll rec hin.ok i hsome
    refine ⟨h.1, ?_⟩
    rcases h.2 with he | ⟨h1, h2⟩
    · exact Or.inl he
    · refine Or.inr ⟨?_, h2⟩
      show _ = normRes _
      rw [normRes_ref_step _ _ _ rfl]
      exact h1
  | update coll part filt =>
    have h := mongo_update_sound ms rs hrel gen coll part filt hop.1 hop.2
    refine ⟨?_, h⟩
    show (Ref.step rs [] (.update coll part filt)).2 ≠ .err .notFresh
    simp only [Ref.step]
    repeat' split
    all_goals simp
  | replace coll id rec =>
    have h := mongo_replace_sound ms rs hrel gen coll id rec hop.1 hop.2
    refine ⟨?_, Or.inr ⟨?_, h.2⟩⟩
    · show (Ref.step rs [] (.replace coll id rec)).2 ≠ .err .notFresh
      simp only [Ref.step]
      split <;> simp
    · show _ = normRes (Ref.step rs [] (.replace coll id rec)).2
      rw [normRes_ref_step _ _ _ rfl]
      exact h.1
  | remove coll filt =>
    have h := mongo_remove_sound ms rs hrel gen coll filt hop
    refine ⟨?_, ?_⟩
    · show (Ref.step rs [] (.remove coll filt)).2 ≠ .err .notFresh
      simp only [Ref.step]
      repeat' split
      all_goals simp
    · rcases h with he | ⟨h1, h2⟩
      · exact Or.inl he
      · refine Or.inr ⟨?_, h2⟩
        show _ = normRes (Ref.step rs [] (.remove coll filt)).2
        rw [normRes_ref_step _ _ _ rfl]
        exact h1
  | query coll fields filt sort limit =>
    have h := mongo_query_sound ms rs hrel gen coll fields filt sort limit hop
    refine ⟨?_, h⟩
    show (Ref.step rs [] (.query coll fields filt sort limit)).2 ≠ .err .notFresh
    simp only [Ref.step]
    repeat' split
    all_goals simp
  | reload => exact ⟨by simp [Ref.step], Or.inr ⟨rfl, hrel⟩⟩

/-! ### the run -/

/-- **The induction over the history**, from any related pair of states. -/
theorem mongo_run_agrees :
    ∀ (hist : List (Op × List Nat)) (ms : MState) (rs : RefState), RelM ms rs →
      (∀ og ∈ hist, MongoOpOK og.1 ∧ GenOK og.2) → FreshRun ms hist →
      AgreeByLe normRes (hist.map Prod.fst) (mongoRun ms rs hist) := by
  intro hist
  induction hist with
  | nil => intro _ _ _ _ _; trivial
  | cons og t ih =>
    obtain ⟨op, gen⟩ := og
    intro ms rs hrel hops hfr
    have hog := hops (op, gen) (by simp)
    have h := mongo_step_refines ms rs hrel op gen hog.1 hog.2 hfr.1
    simp only [mongoRun, List.map_cons, AgreeByLe]
    refine ⟨h.1, ?_⟩
    rcases h.2 with he | ⟨h1, h2⟩
    · exact Or.inl he
    · exact Or.inr ⟨h1, ih _ _ h2 (fun o ho => hops o (by simp [ho])) hfr.2⟩

end QtVerif.Store
