import QtVerif.Model.Store
/-!
Helper lemmas for C06, part 2: stable sorting. `isort` is *the* stable sort (uniqueness of the stable sorted
permutation of a duplicate-free list), and sorting by the last key first, one stable pass per key, is the same as
one stable sort by the lexicographic order of the keys.
-/
namespace QtVerif.Store

variable {α : Type}

/-- `lt` is a strict weak order on the members of `l` (what `<` is on mutually comparable Python values) -/
structure SWO (lt : α → α → Bool) (l : List α) : Prop where
  asym : ∀ a ∈ l, ∀ b ∈ l, lt a b = true → lt b a = false
  ntrans : ∀ a ∈ l, ∀ b ∈ l, ∀ c ∈ l, lt a b = false → lt b c = false → lt a c = false

theorem SWO.of_subset {lt : α → α → Bool} {l l' : List α} (h : SWO lt l) (hs : ∀ a ∈ l', a ∈ l) : SWO lt l' :=
  ⟨fun a ha b hb => h.asym a (hs a ha) b (hs b hb),
   fun a ha b hb c hc => h.ntrans a (hs a ha) b (hs b hb) c (hs c hc)⟩

/-- "`a` may stand before `b`" in a stable sort of `l`: `b` is not smaller, and if neither is smaller then `a`
was before `b` in `l` -/
def RS (lt : α → α → Bool) (l : List α) (a b : α) : Prop :=
  lt b a = false ∧ (lt a b = false → [a, b].Sublist l)

theorem RS.cons {lt : α → α → Bool} {t : List α} {a b : α} (x : α) (h : RS lt t a b) : RS lt (x :: t) a b :=
  ⟨h.1, fun e => (h.2 e).cons x⟩

theorem insertBy_perm (lt : α → α → Bool) (x : α) (S : List α) : (insertBy lt x S).Perm (x :: S) := by
  induction S with
  | nil => exact List.Perm.refl _
  | cons y t ih =>
    unfold insertBy
    split
    · exact ((List.Perm.cons y ih).trans (List.Perm.swap x y t))
    · exact List.Perm.refl _

theorem isort_perm (lt : α → α → Bool) (l : List α) : (isort lt l).Perm l := by
  induction l with
  | nil => exact List.Perm.refl _
  | cons x t ih => exact (insertBy_perm lt x _).trans (List.Perm.cons x ih)

theorem mem_insertBy {lt : α → α → Bool} {x z : α} {S : List α} : z ∈ insertBy lt x S ↔ z = x ∨ z ∈ S := by
  rw [(insertBy_perm lt x S).mem_iff]; simp

theorem insertBy_pairwise (lt : α → α → Bool) (x : α) (t S : List α) (hsw : SWO lt (x :: t))
    (hmem : ∀ z ∈ S, z ∈ t) (hp : S.Pairwise (RS lt t)) :
    (insertBy lt x S).Pairwise (RS lt (x :: t)) := by
  induction S with
  | nil => simp [insertBy]
  | cons y S' ih =>
    have hy : y ∈ t := hmem y (by simp)
    have hS' : ∀ z ∈ S', z ∈ t := fun z hz => hmem z (by simp [hz])
    rw [List.pairwise_cons] at hp
    unfold insertBy
    by_cases h : lt y x = true
    · rw [if_pos h]
      rw [List.pairwise_cons]
      refine ⟨?_, ih hS' hp.2⟩
      intro z hz
      rcases mem_insertBy.mp hz with e | e
      · subst e
        exact ⟨hsw.asym y (by simp [hy]) z (by simp) h, fun e => by rw [h] at e; cases e⟩
      · exact (hp.1 z e).cons x
    · rw [if_neg h]
      have h' : lt y x = false := by simpa using h
      rw [List.pairwise_cons]
      refine ⟨?_, ?_⟩
      · intro z hz
        have hzt : z ∈ t := hmem z hz
        refine ⟨?_, fun _ => ?_⟩
        · rcases List.mem_cons.mp hz with e | e
          · rw [e]; exact h'
          · exact hsw.ntrans z (by simp [hzt]) y (by simp [hy]) x (by simp) (hp.1 z e).1 h'
        · exact List.Sublist.cons_cons x (List.singleton_sublist.mpr hzt)
      · rw [List.pairwise_cons]
        exact ⟨fun z hz => (hp.1 z hz).cons x, hp.2.imp (fun h => h.cons x)⟩

/-- the insertion sort output is sorted and stable -/
theorem isort_pairwise (lt : α → α → Bool) (l : List α) (hsw : SWO lt l) : (isort lt l).Pairwise (RS lt l) := by
  induction l with
  | nil => simp [isort]
  | cons x t ih =>
    have ht : SWO lt t := hsw.of_subset (fun a ha => by simp [ha])
    exact insertBy_pairwise lt x t (isort lt t) hsw (fun z hz => (isort_perm lt t).mem_iff.mp hz) (ih ht)

/-- two stable sorted permutations of a duplicate-free list are equal -/
theorem stable_unique (lt : α → α → Bool) (l s₁ s₂ : List α) (nd : l.Nodup)
    (p₁ : s₁.Perm l) (p₂ : s₂.Perm l) (h₁ : s₁.Pairwise (RS lt l)) (h₂ : s₂.Pairwise (RS lt l)) : s₁ = s₂ := by
  apply List.Perm.eq_of_pairwise (le := RS lt l) _ h₁ h₂ (p₁.trans p₂.symm)
  intro a b _ _ hab hba
  have s1 := hab.2 hba.1
  have s2 := hba.2 hab.1
  -- both orders occur in a duplicate-free list: a = b
  have := nd.sublist s1
  rw [List.nodup_cons] at this
  have hne : a ≠ b := by intro e; apply this.1; simp [e]
  have hab' : [a, b].Sublist l := s1
  have hba' : [b, a].Sublist l := s2
  exfalso
  -- a pair cannot be a sub-list in both orders of a duplicate-free list
  clear h₁ h₂ p₁ p₂ hab hba s1 s2 this
  induction l with
  | nil => cases hab'
  | cons y t ih =>
    rw [List.nodup_cons] at nd
    cases hab' with
    | cons _ h1 =>
      cases hba' with
      | cons _ h2 => exact ih nd.2 h1 h2
      | cons_cons _ h2 =>
        have : b ∈ t := by have := h1.subset; exact this (by simp)
        exact nd.1 this
    | cons_cons _ h1 =>
      cases hba' with
      | cons _ h2 =>
        have : a ∈ t := by have := h2.subset; exact this (by simp)
        exact nd.1 this
      | cons_cons _ h2 => exact hne rfl

/-- lexicographic combination: first `lt₁`, ties broken by `lt₂` -/
def lex2 (lt₁ lt₂ : α → α → Bool) (a b : α) : Bool :=
  if lt₁ a b then true else if lt₁ b a then false else lt₂ a b

theorem SWO.lex2 {lt₁ lt₂ : α → α → Bool} {l : List α} (h₁ : SWO lt₁ l) (h₂ : SWO lt₂ l) : SWO (lex2 lt₁ lt₂) l := by
  constructor
  · intro a ha b hb hab
    unfold Store.lex2 at hab ⊢
    by_cases e1 : lt₁ a b = true
    · have := h₁.asym a ha b hb e1
      simp [this, e1]
    · have e1' : lt₁ a b = false := by simpa using e1
      rw [e1'] at hab
      by_cases e2 : lt₁ b a = true
      · simp [e2] at hab
      · have e2' : lt₁ b a = false := by simpa using e2
        simp only [e2', e1', Bool.false_eq_true, if_false] at hab ⊢
        exact h₂.asym a ha b hb hab
  · intro a ha b hb c hc hab hbc
    unfold Store.lex2 at hab hbc ⊢
    have ab1 : lt₁ a b = false := by
      by_cases e : lt₁ a b = true
      · simp [e] at hab
      · simpa using e
    have bc1 : lt₁ b c = false := by
      by_cases e : lt₁ b c = true
      · simp [e] at hbc
      · simpa using e
    have ac1 : lt₁ a c = false := h₁.ntrans a ha b hb c hc ab1 bc1
    simp only [ab1, bc1, ac1, Bool.false_eq_true, if_false] at hab hbc ⊢
    by_cases ca : lt₁ c a = true
    · simp [ca]
    · have ca' : lt₁ c a = false := by simpa using ca
      simp only [ca', Bool.false_eq_true, if_false]
      -- a, b, c are lt₁-equivalent
      have ba : lt₁ b a = false := by
        by_cases e : lt₁ b a = true
        · -- then c < a would follow … use negative transitivity: ¬ c<a, ¬ … derive contradiction
          have : lt₁ b a = false := h₁.ntrans b hb c hc a ha bc1 ca'
          rw [this] at e; cases e
        · simpa using e
      have cb : lt₁ c b = false := h₁.ntrans c hc a ha b hb ca' ab1
      simp only [ba, cb, Bool.false_eq_true, if_false] at hab hbc
      exact h₂.ntrans a ha b hb c hc hab hbc

/-- **Two stable passes = one stable pass by the lexicographic order**: sorting by `lt₂` and then (stably) by
`lt₁` sorts by `lt₁` with ties broken by `lt₂`. -/
theorem isort_isort (lt₁ lt₂ : α → α → Bool) (l : List α) (nd : l.Nodup) (h₁ : SWO lt₁ l) (h₂ : SWO lt₂ l) :
    isort lt₁ (isort lt₂ l) = isort (lex2 lt₁ lt₂) l := by
  have pA := isort_perm lt₂ l
  have hA := isort_pairwise lt₂ l h₂
  have h₁A : SWO lt₁ (isort lt₂ l) := h₁.of_subset (fun a ha => pA.mem_iff.mp ha)
  have pB := isort_perm lt₁ (isort lt₂ l)
  have hB := isort_pairwise lt₁ (isort lt₂ l) h₁A
  have ndA : (isort lt₂ l).Nodup := pA.nodup_iff.mpr nd
  apply stable_unique (lex2 lt₁ lt₂) l _ _ nd (pB.trans pA) (isort_perm _ l) _ (isort_pairwise _ l (h₁.lex2 h₂))
  rw [List.pairwise_iff_forall_sublist] at hB hA ⊢
  intro p q hpq
  have hB' := hB hpq
  have hpB : p ∈ isort lt₁ (isort lt₂ l) := hpq.subset (by simp)
  have hqB : q ∈ isort lt₁ (isort lt₂ l) := hpq.subset (by simp)
  unfold RS Store.lex2
  by_cases e1 : lt₁ p q = true
  · have := h₁A.asym p (pB.mem_iff.mp hpB) q (pB.mem_iff.mp hqB) e1
    simp [e1, this]
  · have e1' : lt₁ p q = false := by simpa using e1
    have hA' := hA (hB'.2 e1')
    simp only [hB'.1, e1', Bool.false_eq_true, if_false]
    exact ⟨hA'.1, hA'.2⟩

theorem isort_false (l : List α) : isort (fun _ _ => false) l = l := by
  induction l with
  | nil => rfl
  | cons x t ih =>
    show insertBy _ x (isort _ t) = x :: t
    rw [ih]
    cases t <;> rfl

theorem insertBy_map {β : Type} (g : α → β) (lt : α → α → Bool) (lt' : β → β → Bool) (x : α) (S : List α)
    (h : ∀ b ∈ S, lt' (g b) (g x) = lt b x) :
    insertBy lt' (g x) (S.map g) = (insertBy lt x S).map g := by
  induction S with
  | nil => rfl
  | cons y t ih =>
    simp only [List.map_cons, insertBy, h y (by simp)]
    split
    · simp [ih (fun b hb => h b (by simp [hb]))]
    · simp

theorem isort_map {β : Type} (g : α → β) (lt : α → α → Bool) (lt' : β → β → Bool) (l : List α)
    (h : ∀ a ∈ l, ∀ b ∈ l, lt' (g a) (g b) = lt a b) :
    isort lt' (l.map g) = (isort lt l).map g := by
  induction l with
  | nil => rfl
  | cons x t ih =>
    simp only [List.map_cons, isort]
    rw [ih (fun a ha b hb => h a (by simp [ha]) b (by simp [hb]))]
    apply insertBy_map
    intro b hb
    exact h b (by simp [(isort_perm lt t).mem_iff.mp hb]) x (by simp)

/-! ### the drivers' multi-pass sort -/

/-- every record has the key, and any two keys can be ordered -/
def KeyOK (kf : α → Option JVal) (l : List α) : Prop :=
  (∀ r ∈ l, (kf r).isSome = true) ∧
  (∀ a ∈ l, ∀ b ∈ l, ∀ ka kb, kf a = some ka → kf b = some kb → (jcmp ka kb).isSome = true)

theorem KeyOK.perm {kf : α → Option JVal} {l l' : List α} (h : KeyOK kf l) (p : l'.Perm l) : KeyOK kf l' :=
  ⟨fun r hr => h.1 r (p.mem_iff.mp hr),
   fun a ha b hb => h.2 a (p.mem_iff.mp ha) b (p.mem_iff.mp hb)⟩

theorem attachKeys_spec (kf : α → Option JVal) (l : List α) (h : ∀ r ∈ l, (kf r).isSome = true) :
    ∃ kl, attachKeys kf l = some kl ∧ kl.map Prod.snd = l ∧ ∀ p ∈ kl, kf p.2 = some p.1 := by
  induction l with
  | nil => exact ⟨[], rfl, rfl, by simp⟩
  | cons r t ih =>
    obtain ⟨kt, h1, h2, h3⟩ := ih (fun x hx => h x (by simp [hx]))
    have hr := h r (by simp)
    cases hk : kf r with
    | none => rw [hk] at hr; cases hr
    | some k =>
      refine ⟨(k, r) :: kt, ?_, by simp [h2], ?_⟩
      · simp [attachKeys, hk, h1]
      · intro p hp
        rcases List.mem_cons.mp hp with e | e
        · rw [e]; exact hk
        · exact h3 p e

theorem attachKeys_none (kf : α → Option JVal) (l : List α) (r : α) (hr : r ∈ l) (h : kf r = none) :
    attachKeys kf l = none := by
  induction l with
  | nil => cases hr
  | cons x t ih =>
    rcases List.mem_cons.mp hr with e | e
    · subst e; simp [attachKeys, h]
    · simp only [attachKeys, ih e]
      split <;> simp_all

/-- one pass of the drivers (`key=` precomputed, stable sort on the keys) is the stable sort of the records -/
theorem sortPass_eq (kf : α → Option JVal) (rev : Bool) (l : List α) (h : KeyOK kf l) :
    sortPass kf rev l = some (isort (passLt kf rev) l) := by
  obtain ⟨kl, h1, h2, h3⟩ := attachKeys_spec kf l h.1
  have hmem : ∀ p ∈ kl, p.2 ∈ l := by
    intro p hp; rw [← h2]; exact List.mem_map_of_mem (f := Prod.snd) hp
  have hok : pairsOk (kl.map Prod.fst) = true := by
    unfold pairsOk
    rw [List.all_eq_true]
    intro a ha
    rw [List.all_eq_true]
    intro b hb
    obtain ⟨p, hp, rfl⟩ := List.mem_map.mp ha
    obtain ⟨q, hq, rfl⟩ := List.mem_map.mp hb
    exact h.2 p.2 (hmem p hp) q.2 (hmem q hq) p.1 q.1 (h3 p hp) (h3 q hq)
  unfold sortPass
  rw [h1]
  simp only [hok, if_true]
  congr 1
  rw [← isort_map Prod.snd (fun a b => if rev then keyLt b.1 a.1 else keyLt a.1 b.1) (passLt kf rev) kl, h2]
  intro a ha b hb
  unfold passLt
  rw [h3 a ha, h3 b hb]

theorem lexLt_nil (kf : Str → α → Option JVal) : lexLt kf [] = fun _ _ => false := by
  funext a b; rfl

theorem lexLt_cons (kf : Str → α → Option JVal) (f : Str) (rev : Bool) (t : List (Str × Bool)) :
    lexLt kf ((f, rev) :: t) = lex2 (passLt (kf f) rev) (lexLt kf t) := by
  funext a b; rfl

/-- every sort key is present and orders the records by a strict weak order (Python's `<` on comparable values) -/
def SortOK (kf : Str → α → Option JVal) (sort : List (Str × Bool)) (l : List α) : Prop :=
  ∀ fr ∈ sort, KeyOK (kf fr.1) l ∧ SWO (passLt (kf fr.1) fr.2) l

theorem SortOK.swo {kf : Str → α → Option JVal} {sort : List (Str × Bool)} {l : List α} (h : SortOK kf sort l) :
    SWO (lexLt kf sort) l := by
  induction sort with
  | nil =>
    rw [lexLt_nil]
    exact ⟨fun _ _ _ _ e => Bool.noConfusion e, fun _ _ _ _ _ _ _ _ => rfl⟩
  | cons fr t ih =>
    obtain ⟨f, rev⟩ := fr
    rw [lexLt_cons]
    exact (h (f, rev) (by simp)).2.lex2 (ih (fun x hx => h x (by simp [hx])))

/-- **Sorting by the last key first, one stable pass per key (`for field, rev in reversed(sort): records.sort(…)`),
is one stable sort by the lexicographic order of the keys.** -/
theorem multiSort_eq_lex (kf : Str → α → Option JVal) (sort : List (Str × Bool)) (l : List α) (nd : l.Nodup)
    (h : SortOK kf sort l) : multiSort kf sort l = some (isort (lexLt kf sort) l) := by
  induction sort with
  | nil => rw [lexLt_nil, isort_false]; rfl
  | cons fr t ih =>
    obtain ⟨f, rev⟩ := fr
    have ht : SortOK kf t l := fun x hx => h x (by simp [hx])
    have hf := h (f, rev) (by simp)
    unfold multiSort
    rw [ih ht]
    simp only
    rw [sortPass_eq (kf f) rev _ (hf.1.perm (isort_perm _ l)), lexLt_cons,
      isort_isort _ _ l nd hf.2 ht.swo]


/-! ### the executable domain check of the reference store implies the hypotheses above -/

theorem swoB_spec (lt : α → α → Bool) (l : List α) (h : swoB lt l = true) : SWO lt l := by
  unfold swoB at h
  rw [List.all_eq_true] at h
  constructor
  · intro a ha b hb hab
    have := h a ha
    rw [List.all_eq_true] at this
    have := this b hb
    simp only [Bool.and_eq_true, Bool.or_eq_true, Bool.not_eq_true'] at this
    rcases this.1 with e | e
    · rw [e] at hab; cases hab
    · exact e
  · intro a ha b hb c hc hab hbc
    have := h a ha
    rw [List.all_eq_true] at this
    have := this b hb
    simp only [Bool.and_eq_true, Bool.or_eq_true, Bool.not_eq_true'] at this
    have h3 := this.2
    rw [List.all_eq_true] at h3
    have := h3 c hc
    simp only [Bool.or_eq_true, Bool.not_eq_true'] at this
    rcases this with (e | e) | e
    · rw [e] at hab; cases hab
    · rw [e] at hbc; cases hbc
    · exact e

theorem keyOK_of_check (kf : α → Option JVal) (l : List α)
    (h : (match attachKeys kf l with | none => false | some kl => pairsOk (kl.map Prod.fst)) = true) : KeyOK kf l := by
  have hsome : ∀ r ∈ l, (kf r).isSome = true := by
    intro r hr
    cases hk : kf r with
    | some k => rfl
    | none => rw [attachKeys_none kf l r hr hk] at h; cases h
  obtain ⟨kl, h1, h2, h3⟩ := attachKeys_spec kf l hsome
  rw [h1] at h
  simp only [pairsOk] at h
  rw [List.all_eq_true] at h
  refine ⟨hsome, ?_⟩
  intro a ha b hb ka kb hka hkb
  have find : ∀ x ∈ l, ∀ kx, kf x = some kx → kx ∈ kl.map Prod.fst := by
    intro x hx kx hkx
    rw [← h2] at hx
    obtain ⟨p, hp, rfl⟩ := List.mem_map.mp hx
    have := h3 p hp
    rw [hkx] at this
    injection this with e
    rw [e]
    exact List.mem_map_of_mem (f := Prod.fst) hp
  have := h ka (find a ha ka hka)
  rw [List.all_eq_true] at this
  exact this kb (find b hb kb hkb)

theorem sortDomain_spec (kf : Str → α → Option JVal) (sort : List (Str × Bool)) (l : List α)
    (h : sortDomain kf sort l = true) : SortOK kf sort l := by
  unfold sortDomain at h
  rw [List.all_eq_true] at h
  intro fr hfr
  have := h fr hfr
  simp only [Bool.and_eq_true] at this
  exact ⟨keyOK_of_check _ l this.1, swoB_spec _ l this.2⟩

/-! ### congruence: the passes only look at the keys of the records present -/

theorem attachKeys_congr (kf kf' : α → Option JVal) (l : List α) (h : ∀ r ∈ l, kf r = kf' r) :
    attachKeys kf l = attachKeys kf' l := by
  induction l with
  | nil => rfl
  | cons r t ih =>
    simp only [attachKeys, h r (by simp), ih (fun x hx => h x (by simp [hx]))]

theorem sortPass_congr (kf kf' : α → Option JVal) (rev : Bool) (l : List α) (h : ∀ r ∈ l, kf r = kf' r) :
    sortPass kf rev l = sortPass kf' rev l := by
  unfold sortPass
  rw [attachKeys_congr kf kf' l h]

theorem sortPass_perm (kf : α → Option JVal) (rev : Bool) (l l' : List α) (h : sortPass kf rev l = some l') :
    l'.Perm l := by
  unfold sortPass at h
  cases hk : attachKeys kf l with
  | none => rw [hk] at h; cases h
  | some kl =>
    rw [hk] at h
    simp only at h
    split at h
    · injection h with h
      rw [← h]
      have hsome : ∀ r ∈ l, (kf r).isSome = true := by
        intro r hr
        cases hkr : kf r with
        | some k => rfl
        | none => rw [attachKeys_none kf l r hr hkr] at hk; cases hk
      obtain ⟨kl', h1, h2, _⟩ := attachKeys_spec kf l hsome
      rw [hk] at h1
      injection h1 with h1
      subst h1
      rw [← h2]
      exact (isort_perm _ kl).map Prod.snd
    · cases h

theorem multiSort_perm (kf : Str → α → Option JVal) (sort : List (Str × Bool)) (l l' : List α)
    (h : multiSort kf sort l = some l') : l'.Perm l := by
  induction sort generalizing l' with
  | nil => simp only [multiSort, Option.some.injEq] at h; rw [← h]
  | cons fr t ih =>
    obtain ⟨f, rev⟩ := fr
    simp only [multiSort] at h
    cases hm : multiSort kf t l with
    | none => rw [hm] at h; cases h
    | some m =>
      rw [hm] at h
      exact (sortPass_perm _ _ _ _ h).trans (ih m hm)

theorem multiSort_congr (kf kf' : Str → α → Option JVal) (sort : List (Str × Bool)) (l : List α)
    (h : ∀ fr ∈ sort, ∀ r ∈ l, kf fr.1 r = kf' fr.1 r) : multiSort kf sort l = multiSort kf' sort l := by
  induction sort with
  | nil => rfl
  | cons fr t ih =>
    obtain ⟨f, rev⟩ := fr
    simp only [multiSort]
    rw [← ih (fun x hx => h x (by simp [hx]))]
    cases hm : multiSort kf t l with
    | none => rfl
    | some m =>
      simp only
      apply sortPass_congr
      intro r hr
      exact h (f, rev) (by simp) r ((multiSort_perm kf t l m hm).mem_iff.mp hr)


/-! ### the passes commute with a change of representation that keeps the keys -/

theorem attachKeys_map {β : Type} (g : α → β) (kf : α → Option JVal) (kf' : β → Option JVal) (l : List α)
    (h : ∀ r ∈ l, kf' (g r) = kf r) :
    attachKeys kf' (l.map g) = (attachKeys kf l).map (List.map (fun p => (p.1, g p.2))) := by
  induction l with
  | nil => rfl
  | cons r t ih =>
    simp only [List.map_cons, attachKeys, h r (by simp), ih (fun x hx => h x (by simp [hx]))]
    cases kf r with
    | none => rfl
    | some k =>
      cases attachKeys kf t with
      | none => rfl
      | some kt => rfl

theorem sortPass_map {β : Type} (g : α → β) (kf : α → Option JVal) (kf' : β → Option JVal) (rev : Bool) (l : List α)
    (h : ∀ r ∈ l, kf' (g r) = kf r) :
    sortPass kf' rev (l.map g) = (sortPass kf rev l).map (List.map g) := by
  unfold sortPass
  rw [attachKeys_map g kf kf' l h]
  cases attachKeys kf l with
  | none => rfl
  | some kl =>
    simp only [Option.map_some, List.map_map]
    have hfst : (List.map (Prod.fst ∘ fun p : JVal × α => (p.1, g p.2)) kl) = List.map Prod.fst kl := by
      apply List.map_congr_left; intro p _; rfl
    rw [hfst]
    split
    · simp only [Option.map_some, Option.some.injEq]
      rw [isort_map (fun p : JVal × α => (p.1, g p.2)) (fun a b => if rev then keyLt b.1 a.1 else keyLt a.1 b.1)
        (fun a b => if rev then keyLt b.1 a.1 else keyLt a.1 b.1) kl (fun _ _ _ _ => rfl)]
      simp [List.map_map, Function.comp_def]
    · rfl

theorem multiSort_map {β : Type} (g : α → β) (kf : Str → α → Option JVal) (kf' : Str → β → Option JVal)
    (sort : List (Str × Bool)) (l : List α) (h : ∀ fr ∈ sort, ∀ r ∈ l, kf' fr.1 (g r) = kf fr.1 r) :
    multiSort kf' sort (l.map g) = (multiSort kf sort l).map (List.map g) := by
  induction sort with
  | nil => rfl
  | cons fr t ih =>
    obtain ⟨f, rev⟩ := fr
    simp only [multiSort]
    rw [ih (fun x hx => h x (by simp [hx]))]
    cases hm : multiSort kf t l with
    | none => rfl
    | some m =>
      simp only [Option.map_some]
      apply sortPass_map
      intro r hr
      exact h (f, rev) (by simp) r ((multiSort_perm kf t l m hm).mem_iff.mp hr)

end QtVerif.Store
