import QtVerif.Proofs.SlaveExposed
/-!
C12 §15: ONE step relation for the slave's history (`Step`: remote changes, listen deliveries) interleaved with the
master-side actions that do not talk to the slave (`MAct`: tick, goOffline, editAttr, editDev), and the overlay
invariant `OverlayInv` along every such run.

`OverlayInv fix m s` speaks of `handleEvents fix m s.queue`: a master action changes `m` while events are still queued
in the session, so the proof is a simulation argument. `PRel p1 p2` ("`p2` is `p1` up to what is pending"): same id,
`p2` has at least the pending names of `p1`, the two agree on every attribute that is not pending in `p2`, and when no
value is pending on `p2` none is pending on `p1` and they have the same newest remote value. Every event handler maps related masters to
related masters (`mrel_stepEvent`), related masters satisfy the same `OverlaySynced` (`overlay_of_mrel`), and each of
the four master actions yields a related master (`mrel_mact`); so does a value write made while the slave is offline
(`mrel_editValue_offline`; `allInv_run_guarded`).

The tick needs a side condition. `read_value` pops a queued value into `_cached_value`; when a value is pending
provisioning (`provValue`) the cached value IS the pending value. So the tick keeps "what is pending" only if
(repaired `read_value`, `keepPendingValue`) it leaves the cached value alone and there is one: `PendCached`. That is
an invariant of the runs (`pendCached_*`), it holds when no value is pending, and it follows from the run invariant
`ExposedInvF` of §13 under the repaired `read_value`. Without it the statement is false
(`overlayInv_tick_asFound_false`, `overlayInv_tick_uncached_false`).
Core Lean only.
-/
namespace QtVerif.Slave

/-! ### The simulation relation -/

def PRel (p1 p2 : MPort) : Prop :=
  p1.id = p2.id ∧ (∀ n, n ∈ p1.prov → n ∈ p2.prov) ∧ (∀ n, n ∉ p2.prov → p1.attrs.get? n = p2.attrs.get? n) ∧
  (p2.pendValue = none → p1.pendValue = none ∧ p1.lastRemote = p2.lastRemote)

def ORel : Option MPort → Option MPort → Prop
  | none, none => True
  | some a, some b => PRel a b
  | _, _ => False

/-- Port by port (looked up by id), the second master is the first up to what is pending. -/
def MRel (m1 m2 : Master) : Prop := ∀ j, ORel (findPort m1.ports j) (findPort m2.ports j)

theorem PRel.refl (p : MPort) : PRel p p := ⟨rfl, fun _ h => h, fun _ _ => rfl, fun h => ⟨h, rfl⟩⟩

theorem ORel.refl (o : Option MPort) : ORel o o := by
  cases o with
  | none => trivial
  | some p => exact PRel.refl p

theorem ORel.map {o1 o2 : Option MPort} {f g : MPort → MPort} (h : ORel o1 o2)
    (hfg : ∀ a b, PRel a b → PRel (f a) (g b)) : ORel (o1.map f) (o2.map g) :=
  match o1, o2, h with
  | none, none, _ => trivial
  | some a, some b, h => hfg a b h
  | none, some _, h => False.elim h
  | some _, none, h => False.elim h

theorem ORel.or {o1 o2 x y : Option MPort} (h : ORel o1 o2) (hx : ORel x y) : ORel (o1.or x) (o2.or y) :=
  match o1, o2, h with
  | none, none, _ => hx
  | some _, some _, h => h
  | none, some _, h => False.elim h
  | some _, none, h => False.elim h

theorem orel_congr {a a' b b' : Option MPort} (ha : a' = a) (hb : b' = b) (h : ORel a b) : ORel a' b' := by
  subst ha hb; exact h

theorem mrel_refl_ports {m1 m2 : Master} (h : m2.ports = m1.ports) : MRel m1 m2 := by
  intro j; rw [h]; exact ORel.refl _

/-! #### Port level -/

theorem prel_push {a b : MPort} (h : PRel a b) (v : PVal) : PRel (a.push v) (b.push v) := by
  obtain ⟨h1, h2, h3, h4⟩ := h
  exact ⟨h1, h2, h3, fun hn => ⟨(h4 hn).1, by rw [lastRemote_push, lastRemote_push]⟩⟩

/-- While a value is pending on the second port nothing is claimed of the values. -/
theorem prel_of_pending {a a' b : MPort} (h : PRel a b) (hb : b.pendValue.isSome = true) (hid : a'.id = a.id)
    (hprov : a'.prov = a.prov) (hattrs : a'.attrs = a.attrs) : PRel a' b := by
  obtain ⟨h1, h2, h3, _⟩ := h
  refine ⟨hid.trans h1, fun n hn => h2 n (hprov ▸ hn), fun n hn => by rw [hattrs]; exact h3 n hn, fun hn => ?_⟩
  rw [hn] at hb; cases hb

theorem prel_vc {a b : MPort} (h : PRel a b) (v : PVal) : PRel (vcPort v a) (vcPort v b) := by
  cases hb : b.pendValue with
  | none =>
    obtain ⟨ha, hl⟩ := h.2.2.2 hb
    unfold vcPort
    rw [ha, hb, hl]
    split
    · exact h
    · exact prel_push h v
  | some w =>
    have hvb : vcPort v b = b := by simp [vcPort, hb]
    rw [hvb]
    unfold vcPort
    split
    · exact h
    · exact prel_of_pending h (by rw [hb]; rfl) rfl rfl rfl

theorem applyPortUpdate_attrs (fix : Fix) (p : MPort) (msg : PortMsg) :
    (applyPortUpdate fix p msg).1.attrs = if fix.keepPending then msg.attrs.update p.pendAttrs else msg.attrs := by
  simp only [applyPortUpdate]
  split <;> rfl

theorem applyPortUpdate_lastRemote (fix : Fix) (p : MPort) (msg : PortMsg) (h : p.pendValue = none) :
    (applyPortUpdate fix p msg).1.lastRemote = (match msg.value with | some v => v | none => p.lastRemote) := by
  simp only [applyPortUpdate, h, Option.isSome_none, Bool.and_false, Bool.false_eq_true, if_false]
  cases msg.value with
  | none => rfl
  | some v => exact lastRemote_push _ v

theorem prel_applyPortUpdate (fix : Fix) (msg : PortMsg) {a b : MPort} (h : PRel a b) :
    PRel (applyPortUpdate fix a msg).1 (applyPortUpdate fix b msg).1 := by
  obtain ⟨h1, h2, h3, h4⟩ := h
  refine ⟨by rw [applyPortUpdate_id, applyPortUpdate_id]; exact h1,
    fun n hn => by rw [applyPortUpdate_prov] at hn ⊢; exact h2 n hn, ?_, ?_⟩
  · intro n hn
    rw [applyPortUpdate_prov] at hn
    rw [applyPortUpdate_attrs, applyPortUpdate_attrs]
    cases fix.keepPending with
    | false => rfl
    | true =>
      simp only [if_true]
      rw [Attrs.get?_update_not_key _ _ n (fun kv hkv hh => hn (h2 _ (hh ▸ pendAttrs_keys_prov kv hkv))),
        Attrs.get?_update_not_key _ _ n (fun kv hkv hh => hn (hh ▸ pendAttrs_keys_prov kv hkv))]
  · intro hn
    rw [applyPortUpdate_pendValue] at hn
    obtain ⟨ha, hl⟩ := h4 hn
    refine ⟨by rw [applyPortUpdate_pendValue]; exact ha, ?_⟩
    rw [applyPortUpdate_lastRemote fix a msg ha, applyPortUpdate_lastRemote fix b msg hn]
    cases msg.value with
    | none => exact hl
    | some v => rfl

theorem prel_attrEdit (n : Nat) (v : Int) (p : MPort) : PRel p (attrEdit n v p) := by
  refine ⟨rfl, fun k hk => (mem_addName_iff p.prov n k).mpr (Or.inl hk), ?_, fun h => ⟨h, rfl⟩⟩
  intro k hk
  have hk' : k ≠ n := fun hh => hk ((mem_addName_iff p.prov n k).mpr (Or.inr hh))
  exact (Attrs.get?_set_other p.attrs n k v hk').symm

/-- An offline value write: the value becomes pending, from then on nothing is claimed of the port's values. -/
theorem prel_valueEdit (v : Int) (p : MPort) : PRel p (valueEdit v p) := by
  refine ⟨rfl, fun _ h => h, fun _ _ => rfl, fun hn => ?_⟩
  simp [MPort.pendValue, valueEdit] at hn

/-! #### Master level: every event handler respects the relation -/

theorem mrel_stepEvent (fix : Fix) {m1 m2 : Master} (h : MRel m1 m2) (e : Ev) :
    MRel (stepEvent fix m1 e) (stepEvent fix m2 e) := by
  intro j
  cases e with
  | valueChange i v =>
    rw [stepEvent_valueChange, stepEvent_valueChange]
    have hi := h i
    cases h1 : findPort m1.ports i with
    | none =>
      cases h2 : findPort m2.ports i with
      | none => exact h j
      | some b => rw [h1, h2] at hi; exact False.elim hi
    | some a =>
      cases h2 : findPort m2.ports i with
      | none => rw [h1, h2] at hi; exact False.elim hi
      | some b =>
        have hM1 := findPort_vc m1 i v a h1 j
        have hM2 := findPort_vc m2 i v b h2 j
        by_cases hj : j = i
        · rw [if_pos hj] at hM1 hM2
          exact orel_congr hM1 hM2 (ORel.map (h j) (fun a b hab => prel_vc hab v))
        · rw [if_neg hj] at hM1 hM2
          exact orel_congr hM1 hM2 (h j)
  | portUpdate msg =>
    rw [stepEvent_portUpdate, stepEvent_portUpdate]
    have hi := h msg.id
    cases h1 : findPort m1.ports msg.id with
    | none =>
      cases h2 : findPort m2.ports msg.id with
      | none => exact h j
      | some b => rw [h1, h2] at hi; exact False.elim hi
    | some a =>
      cases h2 : findPort m2.ports msg.id with
      | none => rw [h1, h2] at hi; exact False.elim hi
      | some b =>
        have hM1 := findPort_updPort m1.ports msg.id j (fun q => (applyPortUpdate fix q msg).1) (fun _ => by simp)
        have hM2 := findPort_updPort m2.ports msg.id j (fun q => (applyPortUpdate fix q msg).1) (fun _ => by simp)
        by_cases hj : j = msg.id
        · rw [if_pos hj] at hM1 hM2
          exact orel_congr hM1 hM2 (ORel.map (h j) (fun a b hab => prel_applyPortUpdate fix msg hab))
        · rw [if_neg hj] at hM1 hM2
          exact orel_congr hM1 hM2 (h j)
  | portAdd msg =>
    rw [stepEvent_portAdd, stepEvent_portAdd]
    have hi := h msg.id
    cases h1 : findPort m1.ports msg.id with
    | some a =>
      cases h2 : findPort m2.ports msg.id with
      | some b => exact h j
      | none => rw [h1, h2] at hi; exact False.elim hi
    | none =>
      cases h2 : findPort m2.ports msg.id with
      | some b => rw [h1, h2] at hi; exact False.elim hi
      | none =>
        exact orel_congr (findPort_append m1.ports (mkPort msg) j) (findPort_append m2.ports (mkPort msg) j)
          (ORel.or (h j) (ORel.refl _))
  | portRemove i =>
    rw [stepEvent_portRemove, stepEvent_portRemove]
    have hi := h i
    cases h1 : findPort m1.ports i with
    | none =>
      cases h2 : findPort m2.ports i with
      | none => exact h j
      | some b => rw [h1, h2] at hi; exact False.elim hi
    | some a =>
      cases h2 : findPort m2.ports i with
      | none => rw [h1, h2] at hi; exact False.elim hi
      | some b =>
        have hM1 := findPort_erasePort m1.ports i j
        have hM2 := findPort_erasePort m2.ports i j
        by_cases hj : j = i
        · rw [if_pos hj] at hM1 hM2
          exact orel_congr hM1 hM2 trivial
        · rw [if_neg hj] at hM1 hM2
          exact orel_congr hM1 hM2 (h j)
  | deviceUpdate a =>
    rw [stepEvent_deviceUpdate_ports, stepEvent_deviceUpdate_ports]
    exact h j

theorem mrel_handleEvents (fix : Fix) (evs : List Ev) {m1 m2 : Master} (h : MRel m1 m2) :
    MRel (handleEvents fix m1 evs) (handleEvents fix m2 evs) := by
  induction evs generalizing m1 m2 with
  | nil => exact h
  | cons e rest ih => exact ih (mrel_stepEvent fix h e)

/-- Related masters satisfy the same overlay invariant. -/
theorem overlay_of_mrel {m1 m2 : Master} {s : SlaveSt} (h : MRel m1 m2) (ho : OverlaySynced m1 s) :
    OverlaySynced m2 s := by
  refine ⟨fun id => ?_, fun id p2 q hp2 hq => ?_⟩
  · have hh := h id
    rw [← ho.1 id]
    cases h1 : findPort m1.ports id with
    | none =>
      cases h2 : findPort m2.ports id with
      | none => rfl
      | some b => rw [h1, h2] at hh; exact False.elim hh
    | some a =>
      cases h2 : findPort m2.ports id with
      | none => rw [h1, h2] at hh; exact False.elim hh
      | some b => rfl
  · have hh := h id
    rw [hp2] at hh
    cases h1 : findPort m1.ports id with
    | none => rw [h1] at hh; exact False.elim hh
    | some p1 =>
      rw [h1] at hh
      have hh' : PRel p1 p2 := hh
      obtain ⟨_, hprov, hattr, hpv⟩ := hh'
      obtain ⟨o1, o2⟩ := ho.2 id p1 q h1 hq
      refine ⟨fun n hn => ?_, fun hpend => ?_⟩
      · rw [← hattr n hn]; exact o1 n (fun hx => hn (hprov n hx))
      · obtain ⟨hp1, hlr⟩ := hpv hpend
        rw [← hlr]; exact o2 hp1

/-- A master action that yields a related master keeps `OverlayInv`, whatever is still queued in the session. -/
theorem overlayInv_of_mrel (fix : Fix) {m1 m2 : Master} {s : SlaveSt} (h : MRel m1 m2) (hi : OverlayInv fix m1 s) :
    OverlayInv fix m2 s :=
  overlay_of_mrel (mrel_handleEvents fix s.queue h) hi

/-! #### The master actions -/

theorem orel_findPort_map (f : MPort → MPort) (hid : ∀ p, (f p).id = p.id) (l : List MPort)
    (hrel : ∀ p ∈ l, PRel p (f p)) (j : Nat) : ORel (findPort l j) (findPort (l.map f) j) := by
  induction l with
  | nil => trivial
  | cons a t ih =>
    simp only [findPort, List.map_cons, List.find?_cons, hid]
    cases hc : a.id == j with
    | true => exact hrel a (List.mem_cons_self ..)
    | false => exact ih (fun p hp => hrel p (List.mem_cons_of_mem _ hp))

theorem mrel_map {m m' : Master} (f : MPort → MPort) (hp : m'.ports = m.ports.map f) (hid : ∀ p, (f p).id = p.id)
    (hrel : ∀ p ∈ m.ports, PRel p (f p)) : MRel m m' := by
  intro j; rw [hp]; exact orel_findPort_map f hid m.ports hrel j

theorem mrel_updPort {m m' : Master} (i : Nat) (f : MPort → MPort) (hp : m'.ports = updPort m.ports i f)
    (hid : ∀ p, (f p).id = p.id) (hrel : ∀ p, PRel p (f p)) : MRel m m' := by
  refine mrel_map (fun p => if p.id == i then f p else p) hp (fun p => ?_) (fun p _ => ?_)
  · split
    · exact hid p
    · rfl
  · split
    · exact hrel p
    · exact PRel.refl p

theorem mrel_editAttr (m : Master) (id n : Nat) (v : Int) : MRel m (editAttr m id n v).1 := by
  cases hon : m.online with
  | true => exact mrel_refl_ports (by simp only [editAttr, hon, if_true])
  | false =>
    rw [editAttr_offline m hon]
    exact mrel_updPort id (attrEdit n v) rfl (fun _ => rfl) (prel_attrEdit n v)

theorem mrel_editValue_offline (m : Master) (hoff : m.online = false) (id : Nat) (v : Int) (ok : Bool) :
    MRel m (editValue m id v ok).1 := by
  rw [editValue_offline m hoff]
  exact mrel_updPort id (valueEdit v) rfl (fun _ => rfl) (prel_valueEdit v)

theorem mrel_editDev (m : Master) (n : Nat) (v : Int) : MRel m (editDev m n v).1 :=
  mrel_refl_ports (by unfold editDev; split <;> rfl)

theorem mrel_goOffline (m : Master) : MRel m (goOffline m) := mrel_refl_ports rfl

/-! #### The tick -/

/-- A value pending provisioning is cached and `read_value` leaves it alone. -/
def PendCachedP (fix : Fix) (p : MPort) : Prop :=
  p.provValue = true → fix.keepPendingValue = true ∧ p.cached.isSome = true
def PendCached (fix : Fix) (m : Master) : Prop := ∀ p ∈ m.ports, PendCachedP fix p

instance (fix : Fix) (m : Master) : Decidable (PendCached fix m) := by
  unfold PendCached PendCachedP; infer_instance

instance (m : Master) : Decidable (NoValuePending m) := by unfold NoValuePending; infer_instance

theorem drainPort_disabled (fix : Fix) (n : Nat) (p : MPort) (he : p.enabled = false) :
    drainPort fix n p = ([], p) := by
  cases n with
  | zero => rfl
  | succ k => simp [drainPort, he]

theorem drainPort_full (fix : Fix) (p : MPort) :
    (drainPort fix p.rq.length p).2 = if p.enabled then p.drained fix else p := by
  cases he : p.enabled with
  | true => rw [drainPort_spec fix _ p he (Nat.le_refl _)]; rfl
  | false => rw [drainPort_disabled fix _ p he]; rfl

theorem drain_ports (fix : Fix) (m : Master) :
    (drain fix m).2.ports = m.ports.map (fun p => if p.enabled then p.drained fix else p) := by
  simp only [drain, List.map_map]
  apply List.map_congr_left
  intro p _
  exact drainPort_full fix p

theorem drained_id (fix : Fix) (p : MPort) : (p.drained fix).id = p.id := by
  unfold MPort.drained; split <;> rfl

theorem drained_provValue (fix : Fix) (p : MPort) : (p.drained fix).provValue = p.provValue := by
  unfold MPort.drained; split <;> rfl

theorem prel_drained (fix : Fix) (p : MPort) (h : PendCachedP fix p) : PRel p (p.drained fix) := by
  cases hpv : p.provValue with
  | false =>
    have h1 : p.pendValue = none := pendValue_none hpv
    have h2 : (p.drained fix).pendValue = none := pendValue_none (by rw [drained_provValue, hpv])
    refine ⟨(drained_id fix p).symm, ?_, ?_,
      fun _ => ⟨h1, (drained_lastRemote fix p (by rw [hpv, Bool.and_false])).symm⟩⟩
    · intro n hn; unfold MPort.drained; split <;> exact hn
    · intro n _; unfold MPort.drained; split <;> rfl
  | true =>
    obtain ⟨hk, hc⟩ := h hpv
    obtain ⟨c1, c2⟩ := drained_cached_pending fix p hk hpv
    have h2 : (p.drained fix).pendValue = p.cached := by simp [MPort.pendValue, c1, c2]
    refine ⟨(drained_id fix p).symm, ?_, ?_, fun hn => ?_⟩
    · intro n hn; unfold MPort.drained; split <;> exact hn
    · intro n _; unfold MPort.drained; split <;> rfl
    · rw [h2] at hn; rw [hn] at hc; cases hc

theorem mrel_tick (fix : Fix) (m : Master) (h : PendCached fix m) : MRel m (drain fix m).2 := by
  refine mrel_map _ (drain_ports fix m) (fun p => ?_) (fun p hp => ?_)
  · split
    · exact drained_id fix p
    · rfl
  · split
    · exact prel_drained fix p (h p hp)
    · exact PRel.refl p

/-! #### `PendCached` along the runs -/

theorem pendCached_updPort {fix : Fix} {m m' : Master} (i : Nat) (f : MPort → MPort)
    (hp : m'.ports = updPort m.ports i f) (hf : ∀ p, PendCachedP fix p → PendCachedP fix (f p))
    (h : PendCached fix m) : PendCached fix m' := by
  intro q hq
  rw [hp] at hq
  unfold updPort at hq
  obtain ⟨p, hp, rfl⟩ := List.mem_map.mp hq
  split
  · exact hf p (h p hp)
  · exact h p hp

theorem pendCachedP_push (fix : Fix) (p : MPort) (v : PVal) (h : PendCachedP fix p) : PendCachedP fix (p.push v) := h

theorem pendCachedP_applyPortUpdate (fix : Fix) (p : MPort) (msg : PortMsg) (h : PendCachedP fix p) :
    PendCachedP fix (applyPortUpdate fix p msg).1 := by
  unfold PendCachedP
  rw [applyPortUpdate_provValue, applyPortUpdate_cached]
  exact h

theorem pendCached_stepEvent (fix : Fix) (m : Master) (e : Ev) (h : PendCached fix m) :
    PendCached fix (stepEvent fix m e) := by
  cases e with
  | valueChange i v =>
    rw [stepEvent_valueChange]
    split
    · exact h
    · split
      · exact h
      · exact pendCached_updPort i _ rfl (fun p hp => pendCachedP_push fix p v hp) h
  | portUpdate msg =>
    rw [stepEvent_portUpdate]
    split
    · exact h
    · exact pendCached_updPort msg.id _ rfl (fun p hp => pendCachedP_applyPortUpdate fix p msg hp) h
  | portAdd msg =>
    rw [stepEvent_portAdd]
    split
    · exact h
    · intro q hq
      rcases List.mem_append.mp hq with hq | hq
      · exact h q hq
      · simp only [List.mem_singleton] at hq
        subst hq
        intro hc; simp [mkPort] at hc
  | portRemove i =>
    rw [stepEvent_portRemove]
    split
    · exact h
    · intro q hq
      exact h q (List.mem_filter.mp hq).1
  | deviceUpdate a =>
    rw [stepEvent_deviceUpdate]
    split <;> exact h

theorem pendCached_handleEvents (fix : Fix) (evs : List Ev) (m : Master) (h : PendCached fix m) :
    PendCached fix (handleEvents fix m evs) :=
  foldl_preserves (PendCached fix) (stepEvent fix) (fun a e ha => pendCached_stepEvent fix a e ha) evs m h

theorem pendCachedP_drained (fix : Fix) (p : MPort) (h : PendCachedP fix p) : PendCachedP fix (p.drained fix) := by
  intro hpv
  rw [drained_provValue] at hpv
  obtain ⟨hk, hc⟩ := h hpv
  exact ⟨hk, by rw [(drained_cached_pending fix p hk hpv).1]; exact hc⟩

theorem pendCached_tick (fix : Fix) (m : Master) (h : PendCached fix m) : PendCached fix (drain fix m).2 := by
  intro q hq
  rw [drain_ports] at hq
  obtain ⟨p, hp, rfl⟩ := List.mem_map.mp hq
  split
  · exact pendCachedP_drained fix p (h p hp)
  · exact h p hp

theorem pendCached_editAttr (fix : Fix) (m : Master) (id n : Nat) (v : Int) (h : PendCached fix m) :
    PendCached fix (editAttr m id n v).1 := by
  cases hon : m.online with
  | true => simp only [editAttr, hon, if_true]; exact h
  | false =>
    rw [editAttr_offline m hon]
    exact pendCached_updPort id (attrEdit n v) rfl (fun _ hp => hp) h

/-- An offline write under the repaired `read_value` caches the value it marks pending. -/
theorem pendCached_editValue_offline (fix : Fix) (hk : fix.keepPendingValue = true) (m : Master)
    (hoff : m.online = false) (id : Nat) (v : Int) (ok : Bool) (h : PendCached fix m) :
    PendCached fix (editValue m id v ok).1 := by
  rw [editValue_offline m hoff]
  exact pendCached_updPort id (valueEdit v) rfl (fun _ _ _ => ⟨hk, rfl⟩) h

theorem pendCached_editDev (fix : Fix) (m : Master) (n : Nat) (v : Int) (h : PendCached fix m) :
    PendCached fix (editDev m n v).1 := by
  unfold editDev; split <;> exact h

/-- With no value pending anywhere (whatever `fix`) … -/
theorem pendCached_of_noValuePending (fix : Fix) (m : Master) (h : NoValuePending m) : PendCached fix m := by
  intro p hp hpv; rw [h p hp] at hpv; cases hpv

/-- … and, repaired `read_value`, from the run invariant of the exposed value (§13). -/
theorem pendCached_of_exposed (fix : Fix) (hk : fix.keepPendingValue = true) (m : Master) (h : ExposedInvF fix m) :
    PendCached fix m := by
  intro p hp hpv
  exact ⟨hk, (h p hp).1 (by rw [hk, hpv]; rfl)⟩

/-! ### One step relation -/

/-- The master actions that do not talk to the slave and are not value writes. -/
def LocalAct : MAct → Prop
  | .tick | .goOffline | .editAttr _ _ _ | .editDev _ _ => True
  | _ => False

instance (a : MAct) : Decidable (LocalAct a) := by
  cases a <;> simp only [LocalAct] <;> infer_instance

def AllowedStep : Step ⊕ MAct → Prop
  | .inl _ => True
  | .inr a => LocalAct a

instance (a : Step ⊕ MAct) : Decidable (AllowedStep a) := by
  cases a <;> simp only [AllowedStep] <;> infer_instance

/-- One step of the pair: a step of the slave's history, or a master action. -/
def allStep (fix : Fix) (ms : Master × SlaveSt) : Step ⊕ MAct → Master × SlaveSt
  | .inl st => runStep fix ms st
  | .inr act => (mact fix ms.1 act, ms.2)

def allRun (fix : Fix) (ms : Master × SlaveSt) (l : List (Step ⊕ MAct)) : Master × SlaveSt := l.foldl (allStep fix) ms

theorem mrel_mact (fix : Fix) (m : Master) (a : MAct) (ha : LocalAct a) (h : PendCached fix m) :
    MRel m (mact fix m a) := by
  cases a with
  | tick => exact mrel_tick fix m h
  | goOffline => exact mrel_goOffline m
  | editAttr id n v => exact mrel_editAttr m id n v
  | editDev n v => exact mrel_editDev m n v
  | _ => exact False.elim ha

theorem pendCached_mact (fix : Fix) (m : Master) (a : MAct) (ha : LocalAct a) (h : PendCached fix m) :
    PendCached fix (mact fix m a) := by
  cases a with
  | tick => exact pendCached_tick fix m h
  | goOffline => exact h
  | editAttr id n v => exact pendCached_editAttr fix m id n v h
  | editDev n v => exact pendCached_editDev fix m n v h
  | _ => exact False.elim ha

theorem pendCached_runStep (fix : Fix) (ms : Master × SlaveSt) (st : Step) (h : PendCached fix ms.1) :
    PendCached fix (runStep fix ms st).1 := by
  cases st with
  | remote c => exact h
  | listen k => exact pendCached_handleEvents fix _ _ h

/-- **One-step preservation**, every constructor. -/
theorem allInv_step (fix : Fix) (ms : Master × SlaveSt) (a : Step ⊕ MAct) (ha : AllowedStep a)
    (hp : PendCached fix ms.1) (hi : OverlayInv fix ms.1 ms.2) :
    PendCached fix (allStep fix ms a).1 ∧ OverlayInv fix (allStep fix ms a).1 (allStep fix ms a).2 := by
  cases a with
  | inl st => exact ⟨pendCached_runStep fix ms st hp, overlayInv_runStep fix ms st hi⟩
  | inr act => exact ⟨pendCached_mact fix ms.1 act ha hp, overlayInv_of_mrel fix (mrel_mact fix ms.1 act ha hp) hi⟩

theorem allInv_run (fix : Fix) (l : List (Step ⊕ MAct)) (ms : Master × SlaveSt) (ha : ∀ a ∈ l, AllowedStep a)
    (hp : PendCached fix ms.1) (hi : OverlayInv fix ms.1 ms.2) :
    PendCached fix (allRun fix ms l).1 ∧ OverlayInv fix (allRun fix ms l).1 (allRun fix ms l).2 := by
  induction l generalizing ms with
  | nil => exact ⟨hp, hi⟩
  | cons a rest ih =>
    obtain ⟨h1, h2⟩ := allInv_step fix ms a (ha a (List.mem_cons_self ..)) hp hi
    exact ih _ (fun b hb => ha b (List.mem_cons_of_mem _ hb)) h1 h2

/-! ### With offline value writes (repaired `read_value`) -/

/-- The four local actions, and a value write made while the slave is OFFLINE under the repaired `read_value` (an
online write queues the written value before the slave has reported it: not an overlay-preserving step). -/
def LocalGuard (fix : Fix) (m : Master) : MAct → Prop
  | .tick | .goOffline | .editAttr _ _ _ | .editDev _ _ => True
  | .editValue _ _ _ => m.online = false ∧ fix.keepPendingValue = true
  | _ => False

instance (fix : Fix) (m : Master) (a : MAct) : Decidable (LocalGuard fix m a) := by
  cases a <;> simp only [LocalGuard] <;> infer_instance

def AllGuard (fix : Fix) (ms : Master × SlaveSt) : Step ⊕ MAct → Prop
  | .inl _ => True
  | .inr a => LocalGuard fix ms.1 a

instance (fix : Fix) (ms : Master × SlaveSt) (a : Step ⊕ MAct) : Decidable (AllGuard fix ms a) := by
  cases a <;> simp only [AllGuard] <;> infer_instance

def AllGuardedRun (fix : Fix) : Master × SlaveSt → List (Step ⊕ MAct) → Prop
  | _, [] => True
  | ms, a :: r => AllGuard fix ms a ∧ AllGuardedRun fix (allStep fix ms a) r

def AllGuardedRun.dec (fix : Fix) : (ms : Master × SlaveSt) → (l : List (Step ⊕ MAct)) →
    Decidable (AllGuardedRun fix ms l)
  | _, [] => isTrue trivial
  | ms, a :: r =>
    have := AllGuardedRun.dec fix (allStep fix ms a) r
    by unfold AllGuardedRun; exact inferInstance

instance (fix : Fix) (ms : Master × SlaveSt) (l : List (Step ⊕ MAct)) : Decidable (AllGuardedRun fix ms l) :=
  AllGuardedRun.dec fix ms l

theorem localGuard_of_localAct (fix : Fix) (m : Master) (a : MAct) (h : LocalAct a) : LocalGuard fix m a := by
  cases a <;> first | exact trivial | exact False.elim h

theorem allGuardedRun_of_allowed (fix : Fix) (l : List (Step ⊕ MAct)) (ms : Master × SlaveSt)
    (h : ∀ a ∈ l, AllowedStep a) : AllGuardedRun fix ms l := by
  induction l generalizing ms with
  | nil => trivial
  | cons a rest ih =>
    refine ⟨?_, ih _ (fun b hb => h b (List.mem_cons_of_mem _ hb))⟩
    have ha := h a (List.mem_cons_self ..)
    cases a with
    | inl st => trivial
    | inr act => exact localGuard_of_localAct fix ms.1 act ha

theorem allInv_step_guarded (fix : Fix) (ms : Master × SlaveSt) (a : Step ⊕ MAct) (ha : AllGuard fix ms a)
    (hp : PendCached fix ms.1) (hi : OverlayInv fix ms.1 ms.2) :
    PendCached fix (allStep fix ms a).1 ∧ OverlayInv fix (allStep fix ms a).1 (allStep fix ms a).2 := by
  cases a with
  | inl st => exact allInv_step fix ms (.inl st) trivial hp hi
  | inr act =>
    cases act with
    | editValue id v ok =>
      obtain ⟨hoff, hk⟩ := ha
      exact ⟨pendCached_editValue_offline fix hk ms.1 hoff id v ok hp,
        overlayInv_of_mrel fix (mrel_editValue_offline ms.1 hoff id v ok) hi⟩
    | tick => exact allInv_step fix ms (.inr .tick) trivial hp hi
    | goOffline => exact allInv_step fix ms (.inr .goOffline) trivial hp hi
    | editAttr id n v => exact allInv_step fix ms (.inr (.editAttr id n v)) trivial hp hi
    | editDev n v => exact allInv_step fix ms (.inr (.editDev n v)) trivial hp hi
    | _ => exact False.elim ha

theorem allInv_run_guarded (fix : Fix) (l : List (Step ⊕ MAct)) (ms : Master × SlaveSt)
    (hg : AllGuardedRun fix ms l) (hp : PendCached fix ms.1) (hi : OverlayInv fix ms.1 ms.2) :
    PendCached fix (allRun fix ms l).1 ∧ OverlayInv fix (allRun fix ms l).1 (allRun fix ms l).2 := by
  induction l generalizing ms with
  | nil => exact ⟨hp, hi⟩
  | cons a rest ih =>
    obtain ⟨h1, h2⟩ := allInv_step_guarded fix ms a hg.1 hp hi
    exact ih _ hg.2 h1 h2

/-! ### Without the side condition the tick breaks it -/

/-- A witness against `OverlaySynced`. -/
theorem not_overlay_of_witness {m : Master} {s : SlaveSt} (j : Nat) (p : MPort) (q : SPort)
    (hp : findPort m.ports j = some p) (hq : findS s.ports j = some q) (hpv : p.pendValue = none)
    (hne : p.lastRemote ≠ q.value) : ¬ OverlaySynced m s :=
  fun h => hne ((h.2 j p q hp hq).2 hpv)

namespace Ex
/-- A mirror in sync with a slave whose port 1 reports the null value. -/
def mNull : Master :=
  { Master.init .listen with
    ports := [⟨1, [(0, 1)], [none], some 5, [], false, some 5, true⟩],
    online := true, ready := true }
def sNull : SlaveSt := ⟨[⟨1, [(0, 1)], none⟩], [], []⟩
/-- The slave goes offline and the user writes 9. -/
def mNullW : Master := (editValue (goOffline mNull) 1 9 true).1
/-- A state no run reaches: a value marked pending with nothing cached. -/
def mUncached : Master :=
  { Master.init .listen with
    ports := [⟨1, [(0, 1)], [some 5], none, [], true, none, true⟩] }
def sUncached : SlaveSt := ⟨[⟨1, [(0, 1)], some 5⟩], [], []⟩
end Ex

open Ex in
/-- `read_value` AS FOUND (before fixes/C13-offline-write-kept-over-queued-values.diff): the mirror is in sync, the
slave goes offline, the user writes 9 (pending); the slave's value becomes 8 and the event is ignored because a value
is pending; the tick then pops the queued null INTO `_cached_value`, i.e. over the pending value: nothing is pending
any more (`pendValue = none`) and the mirror's newest remote value is null while the slave's is 8. The same run under
the repaired `read_value` keeps the invariant. -/
theorem overlayInv_tick_asFound_false :
    Synced mNull sNull ∧ OverlayInv Fix.asFound mNullW sNull ∧
    ¬ OverlayInv Fix.asFound
      (allRun Fix.asFound (mNullW, sNull) [.inl (.remote (.setValue 1 (some 8))), .inl (.listen 1), .inr .tick]).1
      (allRun Fix.asFound (mNullW, sNull) [.inl (.remote (.setValue 1 (some 8))), .inl (.listen 1), .inr .tick]).2 ∧
    OverlayInv Fix.repaired
      (allRun Fix.repaired (mNullW, sNull) [.inl (.remote (.setValue 1 (some 8))), .inl (.listen 1), .inr .tick]).1
      (allRun Fix.repaired (mNullW, sNull) [.inl (.remote (.setValue 1 (some 8))), .inl (.listen 1), .inr .tick]).2 := by
  have hs : Synced mNull sNull := by decide
  have ho : OverlaySynced mNullW sNull :=
    overlay_editValue (goOffline mNull) sNull rfl 1 9 true (overlay_of_synced (m := goOffline mNull) hs)
  refine ⟨hs, ho, ?_, ?_⟩
  · exact not_overlay_of_witness 1 ⟨1, [(0, 1)], [], none, [], true, none, true⟩ ⟨1, [(0, 1)], some 8⟩
      (by decide) (by decide) (by decide) (by decide)
  · exact (allInv_run Fix.repaired _ (mNullW, sNull) (by decide) (by decide) ho).2

open Ex in
/-- Repaired `read_value`: the tick breaks the invariant only from a state in which a value is marked pending with
nothing cached — `write_value` caches the value it marks pending, so no run reaches such a state (`PendCached`). -/
theorem overlayInv_tick_uncached_false :
    OverlayInv Fix.repaired mUncached sUncached ∧ ¬ PendCached Fix.repaired mUncached ∧
    ¬ OverlayInv Fix.repaired (allStep Fix.repaired (mUncached, sUncached) (.inr .tick)).1
        (allStep Fix.repaired (mUncached, sUncached) (.inr .tick)).2 := by
  refine ⟨⟨fun id => ?_, fun id p q hp hq => ?_⟩, by decide, ?_⟩
  · by_cases h : id = 1
    · subst h; decide
    · have h1 : ((1 : Nat) == id) = false := by simp [Ne.symm h]
      simp [handleEvents, sUncached, mUncached, Master.init, findPort, findS, List.find?, h1]
  · by_cases h : id = 1
    · subst h
      have hp' : p = ⟨1, [(0, 1)], [some 5], none, [], true, none, true⟩ := by
        have : findPort (handleEvents Fix.repaired mUncached sUncached.queue).ports 1 =
          some ⟨1, [(0, 1)], [some 5], none, [], true, none, true⟩ := by decide
        rw [this] at hp; exact (Option.some.inj hp).symm
      have hq' : q = ⟨1, [(0, 1)], some 5⟩ := by
        have : findS sUncached.ports 1 = some ⟨1, [(0, 1)], some 5⟩ := by decide
        rw [this] at hq; exact (Option.some.inj hq).symm
      subst hp' hq'
      exact ⟨fun n _ => rfl, fun _ => by decide⟩
    · have h1 : ((1 : Nat) == id) = false := by simp [Ne.symm h]
      simp [sUncached, findS, List.find?, h1] at hq
  · exact not_overlay_of_witness 1 ⟨1, [(0, 1)], [], none, [], true, some 5, true⟩ ⟨1, [(0, 1)], some 5⟩
      (by decide) (by decide) (by decide) (by decide)

end QtVerif.Slave
