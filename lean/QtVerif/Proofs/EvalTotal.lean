import QtVerif.Proofs.EvalFns
/-!
C02 helper lemmas: the repaired evaluator never yields a complex number, and a well-formed tree (what `parse` accepts
in the stateless fragment) never falls outside the model.
-/
set_option linter.unusedSimpArgs false
set_option linter.unusedSectionVars false
namespace QtVerif.Eval
open QtVerif.Syntax QtVerif.Num
variable {α : Type} [PyFloat α]

theorem lookup_mem {β : Type} (l : List (String × β)) (k : String) (f : β) (h : l.lookup k = some f) :
    (k, f) ∈ l := by
  induction l with
  | nil => simp [List.lookup] at h
  | cons p rest ih =>
    obtain ⟨a, b⟩ := p
    simp only [List.lookup] at h
    split at h
    · rename_i heq
      have : k = a := by simpa using heq
      injection h with h
      subst h; subst this
      simp
    · exact List.mem_cons_of_mem _ (ih h)

theorem applyPure_real (n : String) (vs : List (Val α)) : (applyPure true n vs).real := by
  unfold applyPure
  split
  · rename_i f hf
    exact fnTable_real (n, f) (lookup_mem _ _ _ hf) vs
  · simp [Res.real]

theorem applyFn_real (now : Int) (n : String) (vs : List (Val α)) : (applyFn true now n vs).real := by
  unfold applyFn
  split
  · split
    · exact timestamp_real now
    · simp [Res.real]
  · split
    · split <;> simp [Res.real]
    · exact applyPure_real n vs

theorem firstFail_mem (rs : List (Res α)) (r : Res α) (h : firstFail rs = some r) : r ∈ rs := by
  obtain ⟨pre, post, h1, _, _⟩ := (firstFail_some_iff rs r).mp h
  rw [h1]; simp

theorem applyStrict_real (now : Int) (n : String) (rs : List (Res α)) (h : ∀ r ∈ rs, r.real) :
    (applyStrict true now n rs).real := by
  unfold applyStrict
  split
  · rename_i r hr; exact h r (firstFail_mem rs r hr)
  · exact applyFn_real now n _

theorem availableOf_real (r : Res α) : (availableOf r).real := by
  cases r <;> simp [availableOf, Res.real]

theorem evalAnd_real (args : List Expr) (c : Ctx α) (h : ∀ a ∈ args, (eval a c).real) : (evalAnd args c).real := by
  induction args with
  | nil => simp [evalAnd, Res.real]
  | cons a rest ih =>
    simp only [evalAnd]
    have ha := h a (by simp)
    have ih' := ih (fun x hx => h x (List.mem_cons_of_mem _ hx))
    split
    · split
      · exact ih'
      · simp [Res.real]
    · exact ha

theorem evalOr_real (args : List Expr) (c : Ctx α) (h : ∀ a ∈ args, (eval a c).real) : (evalOr args c).real := by
  induction args with
  | nil => simp [evalOr, Res.real]
  | cons a rest ih =>
    simp only [evalOr]
    have ha := h a (by simp)
    have ih' := ih (fun x hx => h x (List.mem_cons_of_mem _ hx))
    split
    · split
      · simp [Res.real]
      · exact ih'
    · exact ha

/-- The repaired evaluator never yields a complex number. -/
theorem eval_real (e : Expr) : ∀ c : Ctx α, (eval e c).real := by
  induction e using Expr.ind with
  | lit t => intro c; simp only [eval, litValue]; split <;> simp [Res.real]
  | portVal id => intro c; simp only [eval, portValue]; (repeat' split) <;> simp [Res.real]
  | selfVal => intro c; simp only [eval, selfValue, portValue]; (repeat' split) <;> simp [Res.real]
  | portRef id => intro c; simp only [eval, portRefValue]; split <;> simp [Res.real]
  | selfRef => intro c; simp only [eval, portRefValue]; split <;> simp [Res.real]
  | call n args ih =>
    intro c
    rw [eval.eq_def]
    simp only
    split
    · simp [Res.real]
    · split
      · split
        · rename_i a b d _hnr
          have ha := ih a (by simp) c
          have hb := ih b (by simp) c
          have hd := ih d (by simp) c
          split
          · split
            · exact hb
            · exact hd
          · exact ha
        · simp [Res.real]
      · split
        · simp [Res.real]
        · exact evalAnd_real args c (fun a ha => ih a ha c)
      · split
        · simp [Res.real]
        · exact evalOr_real args c (fun a ha => ih a ha c)
      · split
        · exact availableOf_real _
        · simp [Res.real]
      · split
        · rename_i a b _hnr
          have ha := ih a (by simp) c
          have hb := ih b (by simp) c
          split
          · exact hb
          · exact hb
          · exact ha
        · simp [Res.real]
      · apply applyStrict_real
        intro r hr
        rw [evalArgs_eq_map] at hr
        obtain ⟨a, ha, rfl⟩ := List.mem_map.mp hr
        exact ih a ha c
      · simp [Res.real]


/-! ### well-formed trees stay inside the fragment -/

theorem fnKind_strict_mem (n : String) (h : fnKind n = .strict) : n ∈ strictNames := by
  unfold fnKind at h
  (repeat' split at h) <;> simp_all

theorem strict_lookup (n : String) (h : n ∈ strictNames) :
    n = "TIME" ∨ n = "TIMEMS" ∨ ∃ f, (fnTable (α := α)).lookup n = some f := by
  simp only [strictNames, List.mem_cons, List.not_mem_nil, or_false] at h
  rcases h with h | h | h | h | h | h | h | h | h | h | h | h | h | h | h | h | h | h | h | h | h | h | h | h | h | h | h | h | h | h | h | h <;>
    subst h <;> first
      | exact Or.inl rfl
      | exact Or.inr (Or.inl rfl)
      | exact Or.inr (Or.inr ⟨_, by simp [fnTable, List.lookup]; rfl⟩)

theorem applyFn_inside (now : Int) (n : String) (vs : List (Val α)) (hs : fnKind n = .strict)
    (ha : arityOk n vs.length = true) : (applyFn true now n vs).inside := by
  rcases strict_lookup (α := α) n (fnKind_strict_mem n hs) with h | h | ⟨f, hf⟩
  · subst h
    have : vs = [] := by
      cases vs with
      | nil => rfl
      | cons v rest => simp [arityOk] at ha
    subst this
    simp only [applyFn, if_true]
    exact timestamp_inside now
  · subst h
    have : vs = [] := by
      cases vs with
      | nil => rfl
      | cons v rest => simp [arityOk] at ha
    subst this
    simp [applyFn, Res.inside]
  · have h1 : n ≠ "TIME" := by
      intro h; subst h; simp [fnTable, List.lookup] at hf
    have h2 : n ≠ "TIMEMS" := by
      intro h; subst h; simp [fnTable, List.lookup] at hf
    simp only [applyFn, h1, h2, if_false, applyPure, hf]
    exact fnTable_inside (n, f) (lookup_mem _ _ _ hf) vs ha

theorem valsOf_length (rs : List (Res α)) (h : ∀ r ∈ rs, r.isVal = true) : (valsOf rs).length = rs.length := by
  have := eq_map_valsOf rs h
  calc (valsOf rs).length = ((valsOf rs).map Res.val).length := by simp
    _ = rs.length := by rw [← this]

theorem wfArgs_mem (lit : String → LitDen α) (args : List Expr) (h : wfArgs lit args = true) :
    ∀ a ∈ args, wf lit a = true := by
  induction args with
  | nil => intro a ha; cases ha
  | cons x rest ih =>
    simp only [wfArgs, Bool.and_eq_true] at h
    intro a ha
    cases ha with
    | head => exact h.1
    | tail _ h' => exact ih h.2 a h'

theorem wf_not_ref (lit : String → LitDen α) (e : Expr) (h : wf lit e = true) : isRef e = false := by
  cases e <;> simp_all [wf, isRef]

theorem availableOf_inside (r : Res α) (h : r.inside) : (availableOf r).inside := by
  cases r <;> simp_all [availableOf, Res.inside]

theorem evalAnd_inside (args : List Expr) (c : Ctx α) (h : ∀ a ∈ args, (eval a c).inside) :
    (evalAnd args c).inside := by
  induction args with
  | nil => simp [evalAnd, Res.inside]
  | cons a rest ih =>
    simp only [evalAnd]
    have ha := h a (by simp)
    have ih' := ih (fun x hx => h x (List.mem_cons_of_mem _ hx))
    split
    · split
      · exact ih'
      · simp [Res.inside]
    · exact ha

theorem evalOr_inside (args : List Expr) (c : Ctx α) (h : ∀ a ∈ args, (eval a c).inside) :
    (evalOr args c).inside := by
  induction args with
  | nil => simp [evalOr, Res.inside]
  | cons a rest ih =>
    simp only [evalOr]
    have ha := h a (by simp)
    have ih' := ih (fun x hx => h x (List.mem_cons_of_mem _ hx))
    split
    · split
      · simp [Res.inside]
      · exact ih'
    · exact ha

theorem strict_call_inside (n : String) (args : List Expr) (c : Ctx α) (hs : fnKind n = .strict)
    (hr : args.any isRef = false) (ha : arityOk n args.length = true)
    (hin : ∀ a ∈ args, (eval a c).inside) : (eval (.call n args) c).inside := by
  rw [eval_strict n args c hs hr]
  unfold applyStrict
  split
  · rename_i r hrr
    have := firstFail_mem _ r hrr
    rw [evalArgs_eq_map] at this
    obtain ⟨a, ha', rfl⟩ := List.mem_map.mp this
    exact hin a ha'
  · rename_i hnone
    have hall := (firstFail_none_iff _).mp hnone
    apply applyFn_inside _ _ _ hs
    rw [valsOf_length _ hall, evalArgs_eq_map, List.length_map]
    exact ha

/-- A well-formed argument expression never evaluates to `outside`: the model covers the whole fragment. -/
theorem eval_inside (e : Expr) : ∀ c : Ctx α, wf c.lit e = true → (eval e c).inside := by
  induction e using Expr.ind with
  | lit t =>
    intro c h
    simp only [wf] at h
    simp only [eval, litValue]
    split <;> simp_all [Res.inside]
  | portVal id => intro c _; simp only [eval, portValue]; (repeat' split) <;> simp [Res.inside]
  | selfVal => intro c _; simp only [eval, selfValue, portValue]; (repeat' split) <;> simp [Res.inside]
  | portRef id => intro c h; simp [wf] at h
  | selfRef => intro c h; simp [wf] at h
  | call n args ih =>
    intro c h
    simp only [wf, Bool.and_eq_true] at h
    obtain ⟨hk, hw⟩ := h
    have hwf := wfArgs_mem c.lit args hw
    have hin : ∀ a ∈ args, (eval a c).inside := fun a ha => ih a ha c (hwf a ha)
    have hr : args.any isRef = false := by
      rw [List.any_eq_false]
      intro a ha
      simpa using wf_not_ref c.lit a (hwf a ha)
    have hk0 := hk
    unfold arityOk at hk
    split at hk
    · -- IF
      rename_i hn; subst hn
      have hl : args.length = 3 := by simpa using hk
      match args, hl, hin, hr with
      | [a, b, d], _, hin, hr =>
        rw [eval_if "IF" a b d c rfl hr]
        unfold ifSel
        have ha := hin a (by simp); have hb := hin b (by simp); have hd := hin d (by simp)
        split
        · split
          · exact hb
          · exact hd
        · exact ha
    · split at hk
      · rename_i hn
        have hl : 2 ≤ args.length := by simpa using hk
        rcases hn with hn | hn | hn | hn | hn | hn | hn <;> subst hn
        · rw [eval_and "AND" args c rfl hr hl]; exact evalAnd_inside args c hin
        · rw [eval_or "OR" args c rfl hr hl]; exact evalOr_inside args c hin
        all_goals exact strict_call_inside _ args c rfl hr hk0 hin
      · split at hk
        · rename_i hn
          have hl : args.length = 1 := by simpa using hk
          rcases hn with hn | hn | hn | hn | hn | hn | hn <;> subst hn
          case inr.inr.inr.inr.inr.inr =>
            match args, hl, hin, hr with
            | [a], _, hin, hr =>
              rw [eval_available "AVAILABLE" a c rfl (by simpa using hr)]
              exact availableOf_inside _ (hin a (by simp))
          all_goals exact strict_call_inside _ args c rfl hr hk0 hin
        · split at hk
          · rename_i hn; subst hn
            exact strict_call_inside _ args c rfl hr hk0 hin
          · split at hk
            · rename_i hn
              rcases hn with hn | hn <;> subst hn <;> exact strict_call_inside _ args c rfl hr hk0 hin
            · split at hk
              · rename_i hn
                rcases hn with hn | hn <;> subst hn <;> exact strict_call_inside _ args c rfl hr hk0 hin
              · split at hk
                · rename_i hn
                  have hl : args.length = 2 := by simpa using hk
                  rcases hn with hn | hn | hn | hn | hn | hn | hn | hn | hn | hn | hn | hn | hn | hn | hn | hn | hn <;> subst hn
                  case inr.inr.inr.inr.inr.inr.inr.inr.inr.inr.inr.inr.inr.inr.inr.inl =>
                    match args, hl, hin, hr with
                    | [a, b], _, hin, hr =>
                      rw [eval_default "DEFAULT" a b c rfl hr]
                      unfold defaultSel
                      have ha := hin a (by simp); have hb := hin b (by simp)
                      split
                      · exact hb
                      · exact hb
                      · exact ha
                  all_goals exact strict_call_inside _ args c rfl hr hk0 hin
                · simp at hk

end QtVerif.Eval
