import QtVerif.Model.Auth
/-!
Helper lemmas for C10 (authentication model). The property theorems are in `QtVerif/Props/C10.lean`.
-/
namespace QtVerif.Auth

/-- The header text is a bearer header carrying three valid base64url segments. -/
def TextValid (hdr : List Nat) : Prop :=
  ∃ tok hd pl sg, matchBearer hdr = some tok ∧ splitTok tok = some (hd, pl, sg) ∧
    segOk hd = true ∧ segOk pl = true ∧ segOk sg = true

/-- Everything `parse_auth_header` requires of the decoded token. -/
structure TokValid (cfg : Cfg) (now : Int) (origin : String) (requireUsr : Bool) (keyOf : UsrClaim → Key)
    (t : Tok) : Prop where
  hkid : t.kidBad = false
  hcrit : t.critBad = false
  hb64 : t.b64False = false
  hiss : t.iss = some cfg.iss
  hori : t.ori = some origin
  hiat : iatStep cfg now t.iat = none
  hreq : requireUsr = true → usrPresent t.usr = true
  hkey : keyOf t.usr ≠ ""
  halg : t.alg = some cfg.alg
  hsig : t.sigKey = some (keyOf t.usr)
  hlibIat : libNotAfter cfg now t.iat = none
  hlibNbf : libNotAfter cfg now t.nbf = none
  hlibExp : libExp cfg now t.exp = none
  haud : t.audBad = false
  hsub : t.subBad = false
  hjti : t.jtiBad = false

theorem parse_ok_iff (cfg : Cfg) (now : Int) (origin : String) (req : Bool) (keyOf : UsrClaim → Key)
    (hdr : List Nat) (dec : Option Tok) (u : UsrClaim) :
    parseAuthHeader cfg now origin req keyOf hdr dec = .ok u ↔
      TextValid hdr ∧ ∃ t, dec = some t ∧ u = t.usr ∧ TokValid cfg now origin req keyOf t := by
  constructor
  · intro h
    unfold parseAuthHeader at h
    split at h
    · simp at h
    · rename_i tok hm
      split at h
      · simp at h
      · rename_i hd pl sg hs
        split at h
        · simp at h
        · rename_i hseg
          split at h
          · simp at h
          · rename_i t
            split at h
            · simp at h
            · rename_i hf
              split at h
              · simp at h
              · rename_i hiss
                split at h
                · simp at h
                · rename_i hori
                  split at h
                  · simp at h
                  · rename_i hiat
                    split at h
                    · simp at h
                    · rename_i hreq
                      split at h
                      · simp at h
                      · rename_i hkey
                        split at h
                        · simp at h
                        · rename_i halg
                          split at h
                          · simp at h
                          · rename_i hsig
                            split at h
                            · simp at h
                            · rename_i hl1
                              split at h
                              · simp at h
                              · rename_i hl2
                                split at h
                                · simp at h
                                · rename_i hl3
                                  split at h
                                  · simp at h
                                  · rename_i hcl
                                    simp at hseg hf hiss hori hreq halg hsig hcl h
                                    refine ⟨⟨tok, hd, pl, sg, hm, hs, hseg.1.1, hseg.1.2, hseg.2⟩, t, rfl, h.symm, ?_⟩
                                    exact ⟨hf.1.1, hf.1.2, hf.2, hiss, hori, hiat, hreq, hkey, halg, hsig, hl1, hl2, hl3, hcl.1.1, hcl.1.2, hcl.2⟩
  · rintro ⟨⟨tok, hd, pl, sg, hm, hs, h1, h2, h3⟩, t, rfl, rfl, v⟩
    unfold parseAuthHeader
    simp only [hm, hs, h1, h2, h3, v.hkid, v.hcrit, v.hb64, v.hiss, v.hori, v.hiat, v.halg, v.hsig, v.hlibIat, v.hlibNbf, v.hlibExp, v.haud, v.hsub, v.hjti]
    have hk := v.hkey
    have hr := v.hreq
    cases req <;> simp_all


/-! ### users -/

theorem User.ofName_name (u : User) : User.ofName u.name = some u := by
  cases u <;> decide

theorem User.ofName_eq_some {s : String} {u : User} (h : User.ofName s = some u) : s = u.name := by
  unfold User.ofName at h
  split at h
  · cases h; subst_vars; rfl
  · split at h
    · cases h; subst_vars; rfl
    · split at h
      · cases h; subst_vars; rfl
      · cases h

theorem consumerKey_name (hs : Hashes) (u : User) : consumerKey hs (.str u.name) = hs.get u := by
  simp [consumerKey, User.ofName_name]

theorem Hashes.get_set (h : Hashes) (u v : User) (k : Key) :
    (h.set u k).get v = if v = u then k else h.get v := by
  cases u <;> cases v <;> simp [Hashes.set, Hashes.get]

/-! ### `prepare` -/

theorem prepare_nohdr (cfg : Cfg) (now : Int) (origin : String) (hs : Hashes) (dec : Option Tok) (u : User) :
    prepare cfg now origin hs [] dec = some u ↔ u = .admin ∧ hs.admin = cfg.emptyHash := by
  unfold prepare
  by_cases h : hs.admin = cfg.emptyHash
  · simp [h]; exact eq_comm
  · simp [h]

theorem prepare_iff (cfg : Cfg) (now : Int) (origin : String) (hs : Hashes) (hdr : List Nat) (dec : Option Tok)
    (u : User) (hne : hdr ≠ []) :
    prepare cfg now origin hs hdr dec = some u ↔
      TextValid hdr ∧ ∃ t, dec = some t ∧ t.usr = .str u.name ∧
        TokValid cfg now origin true (consumerKey hs) t := by
  unfold prepare
  simp only [hne, ne_eq, not_false_eq_true, if_true]
  constructor
  · intro h
    split at h
    · rename_i s hp
      have hs' := User.ofName_eq_some h
      obtain ⟨htext, t, hd, hu, hv⟩ := (parse_ok_iff _ _ _ _ _ _ _ _).1 hp
      exact ⟨htext, t, hd, by rw [← hu, hs'], hv⟩
    · cases h
  · rintro ⟨htext, t, hd, hu, hv⟩
    have hp : parseAuthHeader cfg now origin true (consumerKey hs) hdr dec = .ok (.str u.name) :=
      (parse_ok_iff _ _ _ _ _ _ _ _).2 ⟨htext, t, hd, hu.symm, hv⟩
    simp [hp, User.ofName_name]

theorem deviceAuth_iff (cfg : Cfg) (now : Int) (origin : String) (sh : Key) (hdr : List Nat) (dec : Option Tok) :
    deviceAuth cfg now origin sh hdr dec = true ↔
      hdr ≠ [] ∧ TextValid hdr ∧ ∃ t, dec = some t ∧ TokValid cfg now origin false (fun _ => sh) t := by
  unfold deviceAuth
  by_cases hne : hdr = []
  · simp [hne]
  · simp only [hne, ne_eq, not_false_eq_true, if_true, true_and]
    constructor
    · intro h
      split at h
      · rename_i u hp
        obtain ⟨htext, t, hd, _, hv⟩ := (parse_ok_iff _ _ _ _ _ _ _ _).1 hp
        exact ⟨htext, t, hd, hv⟩
      · cases h
    · rintro ⟨htext, t, hd, hv⟩
      have hp := (parse_ok_iff cfg now origin false (fun _ => sh) hdr dec t.usr).2 ⟨htext, t, hd, rfl, hv⟩
      simp [hp]

/-! ### issue time -/

theorem iatStep_strict {cfg : Cfg} {now : Int} {c : TClaim} (hs : cfg.strictIat = true)
    (h : iatStep cfg now c = none) : ∃ i, c = .num i ∧ now - i ≤ cfg.skew ∧ i - now ≤ cfg.skew := by
  unfold iatStep at h
  simp only [hs, if_true] at h
  split at h
  · rename_i i
    split at h
    · cases h
    · rename_i hn
      exact ⟨i, rfl, by omega, by omega⟩
  · cases h

theorem iatStep_asis_num {cfg : Cfg} {now i : Int} (hs : cfg.strictIat = false) (hr : realClock cfg now = true)
    (h : iatStep cfg now (.num i) = none) : now - i ≤ cfg.skew ∧ i - now ≤ cfg.skew := by
  unfold iatStep at h
  simp only [hs, hr, if_true] at h
  simp at h
  omega

theorem iatStep_num_within {cfg : Cfg} {now i : Int} (h1 : now - i ≤ cfg.skew) (h2 : i - now ≤ cfg.skew) :
    iatStep cfg now (.num i) = none := by
  unfold iatStep
  have : ¬ (now - i > cfg.skew ∨ i - now > cfg.skew) := by omega
  cases cfg.strictIat <;> cases realClock cfg now <;> simp [this]

theorem libNotAfter_num {cfg : Cfg} {now i : Int} (htps : 0 < cfg.tps) (hi : 0 ≤ i) (h : i ≤ now + cfg.skew) :
    libNotAfter cfg now (.num i) = none := by
  unfold libNotAfter libInt
  have hpos : (0 : Int) < cfg.tps := by exact_mod_cast htps
  have h1 : i.tdiv cfg.tps = i / cfg.tps := Int.tdiv_eq_ediv_of_nonneg hi
  have h2 : i / (cfg.tps : Int) * cfg.tps ≤ i := Int.ediv_mul_le i (by omega)
  simp only [h1]
  have : ¬ (i / (cfg.tps : Int) * cfg.tps > now + cfg.skew) := by omega
  simp [this]

/-! ### password state machine -/

/-- Reachable device states: every hash in memory is set, and the persisted record is either absent (then
all passwords are empty) or equals the memory. -/
def Good (emp : Key) (d : Dev) : Prop :=
  d.mem.admin ≠ "" ∧ d.mem.normal ≠ "" ∧ d.mem.viewonly ≠ "" ∧
  ((d.disk = none ∧ d.mem = ⟨emp, emp, emp⟩) ∨ d.disk = some d.mem)

def OpOk : Op → Prop
  | .set _ k => k ≠ ""
  | _ => True

theorem orEmpty_of_ne {emp k : Key} (h : k ≠ "") : orEmpty emp k = k := by simp [orEmpty, h]

theorem good_boot (emp : Key) (he : emp ≠ "") : Good emp (boot emp none) := by
  simp [boot, load, noHashes, orEmpty, Good, he]

theorem step_restart_mem {emp : Key} {d : Dev} (hg : Good emp d) : (step emp d .restart).mem = d.mem := by
  obtain ⟨ha, hn, hv, hd⟩ := hg
  rcases hd with ⟨hd, hm⟩ | hd
  · simp [step, load, hd, noHashes, orEmpty, hm]
  · have : d.mem = ⟨d.mem.admin, d.mem.normal, d.mem.viewonly⟩ := rfl
    simp only [step, load, hd, ha, hn, hv, if_false, orEmpty_of_ne ha, orEmpty_of_ne hn, orEmpty_of_ne hv]

theorem step_put_mem {emp : Key} {d : Dev} (hg : Good emp d) : (step emp d .put).mem = d.mem := by
  obtain ⟨ha, hn, hv, _⟩ := hg
  simp only [step, load, orEmpty_of_ne ha, orEmpty_of_ne hn, orEmpty_of_ne hv]

theorem good_step {emp : Key} {d : Dev} (hg : Good emp d) (op : Op) (ho : OpOk op) : Good emp (step emp d op) := by
  cases op with
  | set u k =>
    obtain ⟨ha, hn, hv, _⟩ := hg
    have hk : k ≠ "" := ho
    cases u <;> simp [step, Hashes.set, Good, ha, hn, hv, hk]
  | restart =>
    have hm := step_restart_mem hg
    obtain ⟨ha, hn, hv, hd⟩ := hg
    have hdisk : (step emp d .restart).disk = d.disk := by simp [step, load]
    refine ⟨by rw [hm]; exact ha, by rw [hm]; exact hn, by rw [hm]; exact hv, ?_⟩
    rw [hm, hdisk]; exact hd
  | put =>
    have hm := step_put_mem hg
    obtain ⟨ha, hn, hv, _⟩ := hg
    refine ⟨by rw [hm]; exact ha, by rw [hm]; exact hn, by rw [hm]; exact hv, Or.inr ?_⟩
    simp [step]

theorem step_mem_get {emp : Key} {d : Dev} (hg : Good emp d) (op : Op) (u : User) :
    (step emp d op).mem.get u =
      (match op with
       | .set v k' => if v = u then k' else d.mem.get u
       | _ => d.mem.get u) := by
  cases op with
  | set v k => simp only [step, Hashes.get_set]; by_cases h : u = v <;> simp [h, eq_comm]
  | restart => rw [step_restart_mem hg]
  | put => rw [step_put_mem hg]

theorem run_good_lastKey (emp : Key) (u : User) (ops : List Op) :
    ∀ d, Good emp d → (∀ op ∈ ops, OpOk op) →
      Good emp (run emp d ops) ∧ (run emp d ops).mem.get u = lastKey (d.mem.get u) u ops := by
  induction ops with
  | nil => intro d hg _; exact ⟨hg, rfl⟩
  | cons op rest ih =>
    intro d hg hok
    have hg' := good_step hg op (hok op (by simp))
    obtain ⟨h1, h2⟩ := ih (step emp d op) hg' (fun o ho => hok o (by simp [ho]))
    refine ⟨by simpa [run] using h1, ?_⟩
    have : run emp d (op :: rest) = run emp (step emp d op) rest := rfl
    rw [this, h2, step_mem_get hg]
    cases op <;> rfl

/-! ### issued header text -/

theorem isSpace_of_isTokChar {c : Nat} (h : isTokChar c = true) : isSpace c = false := by
  simp only [isTokChar, Bool.or_eq_true, Bool.and_eq_true, decide_eq_true_eq, beq_iff_eq] at h
  simp only [isSpace, Bool.or_eq_false_iff, Bool.and_eq_false_iff, decide_eq_false_iff_not, beq_eq_false_iff_ne]
  omega

theorem takeWhile_all {α} (p : α → Bool) (l : List α) (h : ∀ x ∈ l, p x = true) : l.takeWhile p = l := by
  induction l with
  | nil => rfl
  | cons a t ih => simp [List.takeWhile, h a (by simp), ih (fun x hx => h x (by simp [hx]))]

theorem dropWhile_all {α} (p : α → Bool) (l : List α) (h : ∀ x ∈ l, p x = true) : l.dropWhile p = [] := by
  induction l with
  | nil => rfl
  | cons a t ih => simp [List.dropWhile, h a (by simp), ih (fun x hx => h x (by simp [hx]))]

/-- `f'Bearer {token}'` matches the regular expression and group 1 is the token. -/
theorem matchBearer_issued (tok : List Nat) (hne : tok ≠ []) (hc : ∀ c ∈ tok, isTokChar c = true) :
    matchBearer ([66, 101, 97, 114, 101, 114, 32] ++ tok) = some tok := by
  cases tok with
  | nil => exact absurd rfl hne
  | cons a t =>
    have ha : isSpace a = false := isSpace_of_isTokChar (hc a (by simp))
    have h1 : (a :: t).takeWhile isTokChar = a :: t := takeWhile_all _ _ hc
    have h2 : (a :: t).dropWhile isTokChar = [] := dropWhile_all _ _ hc
    have h3 : (a :: t).dropWhile isSpace = a :: t := by simp [List.dropWhile, ha]
    have h0 : (List.take 6 ([66, 101, 97, 114, 101, 114, 32] ++ a :: t)).map lower = bearerCps := by
      simp [lower, bearerCps]
    have h4 : List.drop 6 ([66, 101, 97, 114, 101, 114, 32] ++ a :: t) = 32 :: a :: t := rfl
    unfold matchBearer
    simp only [h0, if_true, h4]
    have h5 : isSpace 32 = true := by decide
    simp only [h5, if_true, h3, h1, h2]
    simp

/-! ### master / slave histories -/

theorem hrun_slave (emp : Key) (ops : List HOp) : ∀ h : Hub, (hrun emp h ops).slave = lastSlaveKey h.slave ops := by
  induction ops with
  | nil => intro h; rfl
  | cons op rest ih =>
    intro h
    have : hrun emp h (op :: rest) = hrun emp (hstep emp h op) rest := rfl
    rw [this, ih]
    cases op <;> rfl

theorem hrun_dev (emp : Key) (ops : List HOp) : ∀ h : Hub, (hrun emp h ops).dev = run emp h.dev (devOps ops) := by
  induction ops with
  | nil => intro h; rfl
  | cons op rest ih =>
    intro h
    have : hrun emp h (op :: rest) = hrun emp (hstep emp h op) rest := rfl
    rw [this, ih]
    cases op <;> rfl

/-! ### header text and decoder -/

/-- On a valid text the decoder is applied to group 1 of the bearer expression. -/
theorem matchBearer_tokenPart {hdr : List Nat} (h : TextValid hdr) : matchBearer hdr = some (tokenPart hdr) := by
  obtain ⟨tok, _, _, _, hm, _⟩ := h
  simp [tokenPart, hm]

/-- A text that does not match the bearer expression is refused before anything is decoded. -/
theorem prepare_noMatch (cfg : Cfg) (now : Int) (origin : String) (hs : Hashes) (hdr : List Nat) (dec : Option Tok)
    (hne : hdr ≠ []) (hm : matchBearer hdr = none) : prepare cfg now origin hs hdr dec = none := by
  unfold prepare parseAuthHeader
  simp [hne, hm]

/-! ### reply bodies -/

theorem pwText_values (emp k : Key) : pwText emp k = "set" ∨ pwText emp k = "" := by
  unfold pwText
  split <;> simp

theorem pwText_eq_empty_iff (emp k : Key) : pwText emp k = "" ↔ k = emp := by
  unfold pwText
  split <;> simp_all

/-- Every password-related text of a `/device` reply body is one of the two literals. -/
theorem deviceReply_values (emp : Key) (d : Dev) (req : DevReq) :
    ∀ f ∈ deviceReply emp d req, f.2 = "set" ∨ f.2 = "" := by
  cases req <;> simp [deviceReply, deviceDoc, pwText_values]

/-- A text of 64 characters (a SHA-256 hex digest) is neither of the two literals. -/
theorem length64_not_literal {s : String} (h : s.length = 64) : s ≠ "set" ∧ s ≠ "" := by
  constructor <;> (intro he; subst he; revert h; decide)

end QtVerif.Auth
