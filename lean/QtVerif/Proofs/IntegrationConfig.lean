import QtVerif.Props.C03
import QtVerif.Props.C07
/-!
Integration C07 × C03 — the configuration / persistence model (`Model/Config.lean`) instantiated with the REAL parser
and printer.

`Config.Cfg.canon : Kind → String → Option String` is the model's `str(parse(self_id, text, role))` (`none` = the text is
refused); `Props/C07.lean` assumes `CanonOK` (a canonical text is accepted again and is its own canonical text). Here
`canon` is the concrete composition `print ∘ parse` of C03 (`canonOf`), followed by any check `accept` made on the parsed
TREE before the attribute is set (the external-dependency check of the two transform attributes: `transformAccept`).
`canonOf_ok` discharges `CanonOK` from `C03.stored_text_reparses`; the hypothesis left is C03's own `RegCanonical` (every
function class is registered under its own `NAME`).
-/
namespace QtVerif.Integration
open QtVerif.Syntax QtVerif.Parse QtVerif.Config

/-- `str(parse(self_id, text, role))` with the concrete parser and printer; `accept k e` is a check on the parsed tree
that may still refuse it (it sees the attribute kind). -/
def canonOf (env : Env) (accept : Kind → Expr → Bool) (k : Kind) (t : String) : Option String :=
  match parse env t.toList with
  | .ok e => if accept k e then some e.print else none
  | .error _ => none

/-- The check of `attr_set_transform_read` / `attr_set_transform_write` on the parsed tree: every `$…` dependency is
the port itself (`ExternalDependency` otherwise). `expression` has no such check. -/
def transformAccept (env : Env) (selfId : String) (k : Kind) (e : Expr) : Bool :=
  match k with
  | .xformR | .xformW => (deps env selfId e).all fun d => !d.startsWith "$" || d == "$" ++ selfId
  | _ => true

/-- **C03's print fixpoint discharges C07's `CanonOK`**: whatever `canonOf` returns is accepted again and is its own
canonical text — for every registry with `RegCanonical`, every tree-level check, every attribute kind, every text. -/
theorem canonOf_ok (env : Env) (hreg : RegCanonical env.reg) (accept : Kind → Expr → Bool) :
    ∀ k t c, canonOf env accept k t = some c → canonOf env accept k c = some c := by
  intro k t c h
  unfold canonOf at h
  cases hp : parse env t.toList with
  | error er => rw [hp] at h; cases h
  | ok e =>
    rw [hp] at h
    simp only at h
    by_cases ha : accept k e = true
    · rw [if_pos ha] at h
      injection h with h
      subst h
      have hfix := (C03.stored_text_reparses env hreg "" t.toList e hp).1
      unfold canonOf
      rw [hfix]
      simp only [ha, if_true]
    · rw [if_neg ha] at h; cases h

theorem canonOK_of_parser (cfg : Cfg) (env : Env) (hreg : RegCanonical env.reg) (accept : Kind → Expr → Bool)
    (hc : cfg.canon = canonOf env accept) : CanonOK cfg := by
  intro k t c h
  rw [hc] at h ⊢
  exact canonOf_ok env hreg accept k t c h

/-- `CfgOK` for a hub whose `canon` is the real parser + printer: the `canon` field is no longer a hypothesis. -/
theorem cfgOK_of_parser (cfg : Cfg) (env : Env) (hreg : RegCanonical env.reg) (accept : Kind → Expr → Bool)
    (hc : cfg.canon = canonOf env accept) (hrep : cfg.saveOnError = true)
    (hst : ∀ id d, cfg.statics id = some d → DefWF cfg d ∧ d.virtual = false ∧ (d.writable = true → d.initial = none))
    (hne : cfg.emptyHash ≠ "") (hh : ∀ s, cfg.hash s ≠ "") : CfgOK cfg :=
  ⟨canonOK_of_parser cfg env hreg accept hc, hrep, hst, hne, hh⟩

/-- What the hub stores for an accepted expression text is the printed form of the parsed tree, and parsing the stored
text gives that tree back. -/
theorem canonOf_spec (env : Env) (hreg : RegCanonical env.reg) (accept : Kind → Expr → Bool) (k : Kind) (t c : String)
    (h : canonOf env accept k t = some c) :
    ∃ e, parse env t.toList = .ok e ∧ c = e.print ∧ parse env c.toList = .ok e ∧ accept k e = true := by
  unfold canonOf at h
  cases hp : parse env t.toList with
  | error er => rw [hp] at h; cases h
  | ok e =>
    rw [hp] at h
    simp only at h
    by_cases ha : accept k e = true
    · rw [if_pos ha] at h
      injection h with h
      subst h
      exact ⟨e, rfl, rfl, (C03.stored_text_reparses env hreg "" t.toList e hp).1, ha⟩
    · rw [if_neg ha] at h; cases h

end QtVerif.Integration
