import QtVerif.Proofs.Backup
/-!
Small-step rendering of the `try: … finally:` of `put_ports` (C20).

`Model.Backup.putPorts` is a big-step function: it returns the final state only, with the two switches written as the
constants `true`, so "the switches are on afterwards" is true of it by `rfl` and nothing can be said about the moment
in between. Here the same call is unfolded into the sequence of states an observer would see:

  `before`  — the state the request finds (switches as they were);
  `during`  — after `disable_updating()` / `events.disable()`, after the reset phase, and after every entry the loop
              got to (the loop stops at the first entry that raises: nothing is recorded for the entries behind it);
  `after`   — after the `finally:` block, which runs on the LAST state of `during` whatever the outcome of the body.

The switch values in these states are not constants of the result: `switchesOff` writes them once, every body step
carries them along untouched (a body step rewrites the port registry only), `switchesOn` writes them in the end.
`putPortsTrace_agrees` ties the trace to the executable model: its `after`/`resp` are exactly `putPorts`' result.
The tie of the switches to the code's `finally:` remains the harness probe (after a rejected document a driver-side
change must still be polled and must still raise a value-change event).
-/
namespace QtVerif.Backup
open QtVerif.Config

/-- `core_main.disable_updating(); core_events.disable()` -/
def switchesOff (st : BState) : BState := { st with events := false, updating := false }

/-- the `finally:` block: `core_main.enable_updating(); core_events.enable()` -/
def switchesOn (st : BState) : BState := { st with updating := true, events := true }

/-- virtual ports removed, the others reset (and, repaired code, their expressions cleared) -/
def resetPorts (clearFirst : Bool) (st : BState) : BState :=
  { st with ports := fun id => startPort clearFirst (st.ports id) }

/-- one iteration of the loop: rewrites the port registry only; `some e` = the iteration raised -/
def entryStep (cfg : Cfg) (lc : LoopCheck) (st : BState) (d : PortDoc) : BState × Option EntryErr :=
  match restoreChk cfg lc (exprMap st.ports) (st.ports d.id) d with
  | .error e => ({ st with ports := upd st.ports d.id (createdFor cfg (st.ports d.id) d) }, some e)
  | .ok none => (st, none)
  | .ok (some q) => ({ st with ports := upd st.ports d.id (some q) }, none)

/-- the loop: one state per entry it got to; an entry that raises ends it -/
def bodyTrace (cfg : Cfg) (lc : LoopCheck) (st : BState) : List PortDoc → List BState × PutResp
  | [] => ([], .ok)
  | d :: r =>
    match entryStep cfg lc st d with
    | (s, some e) => ([s], .err d.id e)
    | (s, none) => (s :: (bodyTrace cfg lc s r).1, (bodyTrace cfg lc s r).2)

/-- the last state of a run that starts in `s` -/
def lastOf (s : BState) : List BState → BState
  | [] => s
  | a :: r => lastOf a r

structure Trace where
  before : BState
  during : List BState
  after : BState
  resp : PutResp

def putPortsTrace (cfg : Cfg) (lc : LoopCheck) (clearFirst : Bool) (st : BState) (docs : List PortDoc) : Trace :=
  { before := st,
    during := switchesOff st :: resetPorts clearFirst (switchesOff st) ::
      (bodyTrace cfg lc (resetPorts clearFirst (switchesOff st)) docs).1,
    after := switchesOn (lastOf (resetPorts clearFirst (switchesOff st))
      (bodyTrace cfg lc (resetPorts clearFirst (switchesOff st)) docs).1),
    resp := (bodyTrace cfg lc (resetPorts clearFirst (switchesOff st)) docs).2 }

/-- everything but the registry -/
def Frame (s t : BState) : Prop :=
  s.updating = t.updating ∧ s.events = t.events ∧ s.device = t.device ∧ s.slaves = t.slaves

theorem entryStep_frame (cfg : Cfg) (lc : LoopCheck) (st : BState) (d : PortDoc) :
    Frame (entryStep cfg lc st d).1 st := by
  unfold entryStep
  cases restoreChk cfg lc (exprMap st.ports) (st.ports d.id) d with
  | error e => exact ⟨rfl, rfl, rfl, rfl⟩
  | ok o => cases o <;> exact ⟨rfl, rfl, rfl, rfl⟩

/-- a body step never touches the switches (nor the device, nor the slaves) -/
theorem bodyTrace_frame (cfg : Cfg) (lc : LoopCheck) (st : BState) (docs : List PortDoc) :
    ∀ s ∈ (bodyTrace cfg lc st docs).1, Frame s st := by
  induction docs generalizing st with
  | nil => intro s hs; cases hs
  | cons d r ih =>
    intro s hs
    have hf := entryStep_frame cfg lc st d
    simp only [bodyTrace] at hs
    cases hstep : entryStep cfg lc st d with
    | mk s1 oe =>
      rw [hstep] at hs hf
      cases oe with
      | some e =>
        simp only [List.mem_singleton] at hs
        subst hs; exact hf
      | none =>
        simp only [List.mem_cons] at hs
        rcases hs with rfl | hm
        · exact hf
        · obtain ⟨a, b, c, e⟩ := ih s1 s hm
          exact ⟨a.trans hf.1, b.trans hf.2.1, c.trans hf.2.2.1, e.trans hf.2.2.2⟩

theorem lastOf_mem (s : BState) (l : List BState) : lastOf s l = s ∨ lastOf s l ∈ l := by
  induction l generalizing s with
  | nil => exact Or.inl rfl
  | cons a r ih =>
    simp only [lastOf]
    rcases ih a with h | h
    · rw [h]; exact Or.inr List.mem_cons_self
    · exact Or.inr (List.mem_cons_of_mem _ h)

/-- the loop of the trace is the loop of the executable model -/
theorem bodyTrace_putBody (cfg : Cfg) (lc : LoopCheck) (st : BState) (docs : List PortDoc) :
    (lastOf st (bodyTrace cfg lc st docs).1).ports = (putBody cfg lc st.ports docs).1 ∧
    (bodyTrace cfg lc st docs).2 = (putBody cfg lc st.ports docs).2 := by
  induction docs generalizing st with
  | nil => exact ⟨rfl, rfl⟩
  | cons d r ih =>
    simp only [bodyTrace, putBody, entryStep]
    cases hr : restoreChk cfg lc (exprMap st.ports) (st.ports d.id) d with
    | error e => exact ⟨rfl, rfl⟩
    | ok o =>
      cases o with
      | none => exact ih st
      | some q => exact ih { st with ports := upd st.ports d.id (some q) }

/-- how many entries the loop got to: all of them when the document is accepted, the accepted prefix and the failing
entry otherwise -/
theorem bodyTrace_length (cfg : Cfg) (lc : LoopCheck) (st : BState) (docs : List PortDoc) :
    ((bodyTrace cfg lc st docs).2 = .ok → (bodyTrace cfg lc st docs).1.length = docs.length) ∧
    (∀ id e, (bodyTrace cfg lc st docs).2 = .err id e →
      ∃ pre d post, docs = pre ++ d :: post ∧ d.id = id ∧ (bodyTrace cfg lc st pre).2 = .ok ∧
        (bodyTrace cfg lc st docs).1.length = pre.length + 1) := by
  induction docs generalizing st with
  | nil =>
    refine ⟨fun _ => rfl, ?_⟩
    intro id e h
    cases h
  | cons d r ih =>
    cases hstep : entryStep cfg lc st d with
    | mk s1 oe =>
      cases oe with
      | some e' =>
        simp only [bodyTrace, hstep]
        refine ⟨fun h => (by cases h), fun id e h => ?_⟩
        simp only [PutResp.err.injEq] at h
        exact ⟨[], d, r, rfl, h.1, rfl, rfl⟩
      | none =>
        simp only [bodyTrace, hstep]
        obtain ⟨i1, i2⟩ := ih s1
        refine ⟨fun h => by simp only [List.length_cons, i1 h], fun id e h => ?_⟩
        obtain ⟨pre, d', post, e1, e2, e3, e4⟩ := i2 id e h
        refine ⟨d :: pre, d', post, by rw [e1]; rfl, e2, ?_, ?_⟩
        · simp only [bodyTrace, hstep]; exact e3
        · simp only [List.length_cons, e4]

theorem BState.ext' (a b : BState) (h1 : a.ports = b.ports) (h2 : a.device = b.device) (h3 : a.slaves = b.slaves)
    (h4 : a.updating = b.updating) (h5 : a.events = b.events) : a = b := by
  cases a; cases b
  simp only at h1 h2 h3 h4 h5
  subst h1 h2 h3 h4 h5
  rfl

theorem lastOf_frame (cfg : Cfg) (lc : LoopCheck) (st : BState) (docs : List PortDoc) :
    Frame (lastOf st (bodyTrace cfg lc st docs).1) st := by
  rcases lastOf_mem st (bodyTrace cfg lc st docs).1 with h | h
  · rw [h]; exact ⟨rfl, rfl, rfl, rfl⟩
  · exact bodyTrace_frame cfg lc st docs _ h

/-- **the trace ends where the executable model ends** (final state and response), on the success and on the error
path alike -/
theorem putPortsTrace_agrees (cfg : Cfg) (lc : LoopCheck) (clearFirst : Bool) (st : BState) (docs : List PortDoc) :
    ((putPortsTrace cfg lc clearFirst st docs).after, (putPortsTrace cfg lc clearFirst st docs).resp) =
      putPorts cfg lc clearFirst st docs := by
  have hb := bodyTrace_putBody cfg lc (resetPorts clearFirst (switchesOff st)) docs
  have hf := lastOf_frame cfg lc (resetPorts clearFirst (switchesOff st)) docs
  refine Prod.ext ?_ ?_
  · apply BState.ext'
    · exact hb.1
    · exact hf.2.2.1
    · exact hf.2.2.2
    · rfl
    · rfl
  · exact hb.2

/-- between `disable` and `finally` both switches are off in every state, whatever the body does -/
theorem putPortsTrace_during_off (cfg : Cfg) (lc : LoopCheck) (clearFirst : Bool) (st : BState) (docs : List PortDoc) :
    ∀ s ∈ (putPortsTrace cfg lc clearFirst st docs).during, s.updating = false ∧ s.events = false := by
  intro s hs
  simp only [putPortsTrace, List.mem_cons] at hs
  rcases hs with rfl | rfl | hm
  · exact ⟨rfl, rfl⟩
  · exact ⟨rfl, rfl⟩
  · have hf := bodyTrace_frame cfg lc _ docs s hm
    exact ⟨hf.1, hf.2.1⟩

/-- every intermediate state of the loop is the state the executable model reaches on the corresponding prefix of the
document: the `k`-th recorded state carries the registry `putBody` leaves after the first `k + 1` entries -/
theorem bodyTrace_prefix (cfg : Cfg) (lc : LoopCheck) (st : BState) (docs : List PortDoc) (k : Nat) (s : BState)
    (h : (bodyTrace cfg lc st docs).1[k]? = some s) :
    s.ports = (putBody cfg lc st.ports (docs.take (k + 1))).1 := by
  induction docs generalizing st k with
  | nil => simp [bodyTrace] at h
  | cons d r ih =>
    simp only [bodyTrace, entryStep] at h
    simp only [List.take_succ_cons, putBody]
    cases hr : restoreChk cfg lc (exprMap st.ports) (st.ports d.id) d with
    | error e =>
      rw [hr] at h
      cases k with
      | zero => simp only [List.getElem?_cons_zero, Option.some.injEq] at h; subst h; rfl
      | succ k => simp at h
    | ok o =>
      rw [hr] at h
      cases o with
      | none =>
        cases k with
        | zero =>
          simp only [List.getElem?_cons_zero, Option.some.injEq] at h
          subst h; simp [putBody]
        | succ k =>
          simp only [List.getElem?_cons_succ] at h
          exact ih st k h
      | some q =>
        cases k with
        | zero =>
          simp only [List.getElem?_cons_zero, Option.some.injEq] at h
          subst h; simp [putBody]
        | succ k =>
          simp only [List.getElem?_cons_succ] at h
          exact ih _ k h
/-- the same for the trace of the whole call: the state recorded after the `k + 1`-th entry carries the registry the
executable model `putPorts` leaves on the first `k + 1` entries of the document -/
theorem putPortsTrace_prefix (cfg : Cfg) (lc : LoopCheck) (clearFirst : Bool) (st : BState) (docs : List PortDoc)
    (k : Nat) (s : BState) (h : (putPortsTrace cfg lc clearFirst st docs).during[k + 2]? = some s) :
    s.ports = (putPorts cfg lc clearFirst st (docs.take (k + 1))).1.ports := by
  simp only [putPortsTrace, List.getElem?_cons_succ] at h
  exact bodyTrace_prefix cfg lc (resetPorts clearFirst (switchesOff st)) docs k s h

end QtVerif.Backup
