import QtVerif.Proofs.Backup
/-!
Small-step rendering of the `try: … finally:` of `put_ports` (C20).

`Model.Backup.putPorts` is a big-step function: it returns the final state only, with the two switches written as the
constants `true`, so "the switches are on afterwards" is true of it by `rfl` and nothing can be said about the moment
in between. Here the same call is unfolded into the sequence of states an observer would see:

  `before`  — the state the request finds (switches as they were);
  `during`  — after `disable_updating()` / `events.disable()`, after the reset phase, and after every entry the loop
              got to (the loop stops at the first entry that raises: nothing is recorded for the entries behind it);
  `after`   — after the `finally:` block, which runs on the LAST state of `during` whatever the outcome of the body.

The switch values in these states are not constants of the result: `switchesOff` writes them once, every body step
carries them along untouched (a body step rewrites the port registry only), `switchesOn` writes them in the end.
`putPortsTrace_agrees` ties the trace to the executable model: its `after`/`resp` are exactly `putPorts`' result.
The tie of the switches to the code's `finally:` remains the harness probe (after a rejected document a driver-side
change must still be polled and must still raise a value-change event).
-/
namespace QtVerif.Backup
open QtVerif.Config

/-- `core_main.disable_updating(); core_events.disable()` -/
def switchesOff (st : BState) : BState := { st with events := false, updating := false }

/-- the `finally:` block: `core_main.enable_updating(); core_events.enable()` -/
def switchesOn (st : BState) : BState := { st with updating := true, events := true }

/-- virtual ports removed, the others reset (and, repaired code, their expressions cleared) -/
def resetPorts (clearFirst : Bool) (st : BState) : BState :=
  { st with ports := fun id => startPort clearFirst (st.ports id) }

/-- one iteration of the loop: rewrites the port registry only; `some e` = the iteration raised -/
def entryStep (cfg : Cfg) (lc : LoopCheck) (st : BState) (d : PortDoc) : BState × Option EntryErr :=
  match restoreChk cfg lc (exprMap st.ports) (st.ports d.id) d with
  | .error e => ({ st with ports := upd st.ports d.id (createdFor cfg (st.ports d.id) d) }, some e)
  | .ok none => (st, none)
  | .ok (some q) => ({ st with ports := upd st.ports d.id (some q) }, none)

/-- the loop: one state per entry it got to; an entry that raises ends it -/
def bodyTrace (cfg : Cfg) (lc : LoopCheck) (st : BState) : List PortDoc → List BState × PutResp
  | [] => ([], .ok)
  | d :: r =>
    match entryStep cfg lc st d with
    | (s, some e) => ([s], .err d.id e)
    | (s, none) => (s :: (bodyTrace cfg lc s r).1, (bodyTrace cfg lc s r).2)

/-- the last state of a run that starts in `s` -/
def lastOf (s : BState) : List BState → BState
  | [] => s
  | a :: r => lastOf a r

structure Trace where
  before : BState
  during : List BState
  after : BState
  resp : PutResp

def putPortsTrace (cfg : Cfg) (lc : LoopCheck) (clearFirst : Bool) (st : BState) (docs : List PortDoc) : Trace :=
  { before := st,
    during := switchesOff st :: resetPorts clearFirst (switchesOff st) ::
      (bodyTrace cfg lc (resetPorts clearFirst (switchesOff st)) docs).1,
    after := switchesOn (lastOf (resetPorts clearFirst (switchesOff st))
      (bodyTrace cfg lc (resetPorts clearFirst (switchesOff st)) docs).1),
    resp := (bodyTrace cfg lc (resetPorts clearFirst (switchesOff st)) docs).2 }

/-- everything but the registry -/
def Frame (s t : BState) : Prop :=
  s.updating = t.updating ∧ s.events = t.events ∧ s.device = t.device ∧ s.slaves = t.slaves

theorem entryStep_frame (cfg : Cfg) (lc : LoopCheck) (st : BState) (d : PortDoc) :
    Frame (entryStep cfg lc st d).1 st := by
  unfold entryStep
  cases restoreChk cfg lc (exprMap st.ports) (st.ports d.id) d with
  | error e => exact ⟨rfl, rfl, rfl, rfl⟩
  | ok o => cases o <;> exact ⟨rfl, rfl, rfl, rfl⟩

/-- a body step never touches the switches (nor the device, nor the slaves) -/
theorem bodyTrace_frame (cfg : Cfg) (lc : LoopCheck) (st : BState) (docs : List PortDoc) :
    ∀ s ∈ (bodyTrace cfg lc st docs).1, Frame s st := by
  induction docs generalizing st with
  | nil => intro s hs; cases hs
  | cons d r ih =>
    intro s hs
    have hf := entryStep_frame cfg lc st d
    simp only [bodyTrace] at hs
    cases hstep : entryStep cfg lc st d with
    | mk s1 oe =>
      rw [hstep] at hs hf
      cases oe with
      | some e =>
        simp only [List.mem_singleton] at hs
        subst hs; exact hf
      | none =>
        simp only [List.mem_cons] at hs
        rcases hs with rfl | hm
        · exact hf
        · obtain ⟨a, b, c, e⟩ := ih s1 s hm
          exact ⟨a.trans hf.1, b.trans hf.2.1, c.trans hf.2.2.1, e.trans hf.2.2.2⟩

theorem lastOf_mem (s : BState) (l : List BState) : lastOf s l = s ∨ lastOf s l ∈ l := by
  induction l generalizing s with
  | nil => exact Or.inl rfl
  | cons a r ih =>
    simp only [lastOf]
    rcases ih a with h | h
    · rw [h]; exact Or.inr List.mem_cons_self
    · exact Or.inr (List.mem_cons_of_mem _ h)

/-- the loop of the trace is the loop of the executable model -/
theorem bodyTrace_putBody (cfg : Cfg) (lc : LoopCheck) (st : BState) (docs : List PortDoc) :
    (lastOf st (bodyTrace cfg lc st docs).1).ports = (putBody cfg lc st.ports docs).1 ∧
    (bodyTrace cfg lc st docs).2 = (putBody cfg lc st.ports docs).2 := by
  induction docs generalizing st with
  | nil => exact ⟨rfl, rfl⟩
  | cons d r ih =>
    simp only [bodyTrace, putBody, entryStep]
    cases hr : restoreChk cfg lc (exprMap st.ports) (st.ports d.id) d with
    | error e => exact ⟨rfl, rfl⟩
    | ok o =>
      cases o with
      | none => exact ih st
      | some q => exact ih { st with ports := upd st.ports d.id (some q) }

/-- how many entries the loop got to: all of them when the document is accepted, the accepted prefix and the failing
entry otherwise -/
theorem bodyTrace_length (cfg : Cfg) (lc : LoopCheck) (st : BState) (docs : List PortDoc) :
    ((bodyTrace cfg lc st docs).2 = .ok → (bodyTrace cfg lc st docs).1.length = docs.length) ∧
    (∀ id e, (bodyTrace cfg lc st docs).2 = .err id e →
      ∃ pre d post, docs = pre ++ d :: post ∧ d.id = id ∧ (bodyTrace cfg lc st pre).2 = .ok ∧
        (bodyTrace cfg lc st docs).1.length = pre.length + 1) := by
  induction docs generalizing st with
  | nil =>
    refine ⟨fun _ => rfl, ?_⟩
    intro id e h
    cases h
  | cons d r ih =>
    cases hstep : entryStep cfg lc st d with
    | mk s1 oe =>
      cases oe with
      | some e' =>
        simp only [bodyTrace, hstep]
        refine ⟨fun h => (by cases h), fun id e h => ?_⟩
        simp only [PutResp.err.injEq] at h
        exact ⟨[], d, r, rfl, h.1, rfl, rfl⟩
      | none =>
        simp only [bodyTrace, hstep]
        obtain ⟨i1, i2⟩ := ih s1
        refine ⟨fun h => by simp only [List.length_cons, i1 h], fun id e h => ?_⟩
        obtain ⟨pre, d', post, e1, e2, e3, e4⟩ := i2 id e h
        refine ⟨d :: pre, d', post, by rw [e1]; rfl, e2, ?_, ?_⟩
        · simp only [bodyTrace, hstep]; exact e3
        · simp only [List.length_cons, e4]

theorem BState.ext' (a b : BState) (h1 : a.ports = b.ports) (h2 : a.device = b.device) (h3 : a.slaves = b.slaves)
    (h4 : a.updating = b.updating) (h5 : a.events = b.events) : a = b := by
  cases a; cases b
  simp only at h1 h2 h3 h4 h5
  subst h1 h2 h3 h4 h5
  rfl

theorem lastOf_frame (cfg : Cfg) (lc : LoopCheck) (st : BState) (docs : List PortDoc) :
    Frame (lastOf st (bodyTrace cfg lc st docs).1) st := by
  rcases lastOf_mem st (bodyTrace cfg lc st docs).1 with h | h
  · rw [h]; exact ⟨rfl, rfl, rfl, rfl⟩
  · exact bodyTrace_frame cfg lc st docs _ h

/-- **the trace ends where the executable model ends** (final state and response), on the success and on the error
path alike -/
theorem putPortsTrace_agrees (cfg : Cfg) (lc : LoopCheck) (clearFirst : Bool) (st : BState) (docs : List PortDoc) :
    ((putPortsTrace cfg lc clearFirst st docs).after, (putPortsTrace cfg lc clearFirst st docs).resp) =
      putPorts cfg lc clearFirst st docs := by
  have hb := bodyTrace_putBody cfg lc (resetPorts clearFirst (switchesOff st)) docs
  have hf := lastOf_frame cfg lc (resetPorts clearFirst (switchesOff st)) docs
  refine Prod.ext ?_ ?_
  · apply BState.ext'
    · exact hb.1
    · exact hf.2.2.1
    · exact hf.2.2.2
    · rfl
    · rfl
  · exact hb.2

/-- between `disable` and `finally` both switches are off in every state, whatever the body does -/
theorem putPortsTrace_during_off (cfg : Cfg) (lc : LoopCheck) (clearFirst : Bool) (st : BState) (docs : List PortDoc) :
    ∀ s ∈ (putPortsTrace cfg lc clearFirst st docs).during, s.updating = false ∧ s.events = false := by
  intro s hs
  simp only [putPortsTrace, List.mem_cons] at hs
  rcases hs with rfl | rfl | hm
  · exact ⟨rfl, rfl⟩
  · exact ⟨rfl, rfl⟩
  · have hf := bodyTrace_frame cfg lc _ docs s hm
    exact ⟨hf.1, hf.2.1⟩

/-- every intermediate state of the loop is the state the executable model reaches on the corresponding prefix of the
document: the `k`-th recorded state carries the registry `putBody` leaves after the first `k + 1` entries -/
theorem bodyTrace_prefix (cfg : Cfg) (lc : LoopCheck) (st : BState) (docs : List PortDoc) (k : Nat) (s : BState)
    (h : (bodyTrace cfg lc st docs).1[k]? = some s) :
    s.ports = (putBody cfg lc st.ports (docs.take (k + 1))).1 := by
  induction docs generalizing st k with
  | nil => simp [bodyTrace] at h
  | cons d r ih =>
    simp only [bodyTrace, entryStep] at h
    simp only [List.take_succ_cons, putBody]
    cases hr : restoreChk cfg lc (exprMap st.ports) (st.ports d.id) d with
    | error e =>
      rw [hr] at h
      cases k with
      | zero => simp only [List.getElem?_cons_zero, Option.some.injEq] at h; subst h; rfl
      | succ k => simp at h
    | ok o =>
      rw [hr] at h
      cases o with
      | none =>
        cases k with
        | zero =>
          simp only [List.getElem?_cons_zero, Option.some.injEq] at h
          subst h; simp [putBody]
        | succ k =>
          simp only [List.getElem?_cons_succ] at h
          exact ih st k h
      | some q =>
        cases k with
        | zero =>
          simp only [List.getElem?_cons_zero, Option.some.injEq] at h
          subst h; simp [putBody]
        | succ k =>
          simp only [List.getElem?_cons_succ] at h
          exact ih _ k h
/-- the same for the trace of the whole call: the state recorded after the `k + 1`-th entry carries the registry the
executable model `putPorts` leaves on the first `k + 1` entries of the document -/
theorem putPortsTrace_prefix (cfg : Cfg) (lc : LoopCheck) (clearFirst : Bool) (st : BState) (docs : List PortDoc)
    (k : Nat) (s : BState) (h : (putPortsTrace cfg lc clearFirst st docs).during[k + 2]? = some s) :
    s.ports = (putPorts cfg lc clearFirst st (docs.take (k + 1))).1.ports := by
  simp only [putPortsTrace, List.getElem?_cons_succ] at h
  exact bodyTrace_prefix cfg lc (resetPorts clearFirst (switchesOff st)) docs k s h

/-! ## PUT /devices: the same small-step rendering of `put_slave_devices`

`Model.Backup.putSlavesDoc` is big-step as well (the switches are the constants `true` in its result). The call is
unfolded into: `disable`; `for slave in get_all(): remove(slave)`; the validation loop (one — unchanged — state per
entry it got to, the first entry that fails the schema raises an error carrying its index and ends the `try:` block:
nothing is added); the additions (one state per added entry, later duplicates of a name refused: first wins); then the
`finally:` on the LAST of these states, whatever the outcome. -/

/-- `for slave in slaves_devices.get_all(): await slaves_devices.remove(slave)` -/
def removeSlaves (st : BState) : BState := { st with slaves := fun _ => none }

/-- one addition: rewrites the slave registry only; a name that is registered already is refused (first wins) -/
def addSlaveStep (st : BState) (x : String × Slave) : BState :=
  { st with slaves := fun n =>
      match st.slaves n with
      | some s => some s
      | none => if x.1 = n then some x.2 else none }

/-- the validation loop, counting from index `i`: one (unchanged) state per entry it got to; `some j` = entry `j`
failed the schema and raised -/
def validateTrace (st : BState) : List (Option (String × Slave)) → Nat → List BState × Option Nat
  | [], _ => ([], none)
  | none :: _, i => ([st], some i)
  | some _ :: r, i => (st :: (validateTrace st r (i + 1)).1, (validateTrace st r (i + 1)).2)

/-- the additions: one state per added entry -/
def addTrace (st : BState) : List (String × Slave) → List BState
  | [] => []
  | x :: r => addSlaveStep st x :: addTrace (addSlaveStep st x) r

/-- the `try:` block after the removal: validation of every entry, then — only if none raised — the additions -/
def slavesBodyTrace (st : BState) (docs : List (Option (String × Slave))) : List BState × SlavesResp :=
  match (validateTrace st docs 0).2 with
  | some i => ((validateTrace st docs 0).1, .err i)
  | none => ((validateTrace st docs 0).1 ++ addTrace st (docs.filterMap id), .ok)

structure SlavesTrace where
  before : BState
  during : List BState
  after : BState
  resp : SlavesResp

def putSlavesTrace (st : BState) (docs : List (Option (String × Slave))) : SlavesTrace :=
  { before := st,
    during := switchesOff st :: removeSlaves (switchesOff st) ::
      (slavesBodyTrace (removeSlaves (switchesOff st)) docs).1,
    after := switchesOn (lastOf (removeSlaves (switchesOff st))
      (slavesBodyTrace (removeSlaves (switchesOff st)) docs).1),
    resp := (slavesBodyTrace (removeSlaves (switchesOff st)) docs).2 }

/-- everything but the slave registry -/
def SFrame (s t : BState) : Prop :=
  s.updating = t.updating ∧ s.events = t.events ∧ s.device = t.device ∧ s.ports = t.ports

theorem SFrame.refl (s : BState) : SFrame s s := ⟨rfl, rfl, rfl, rfl⟩

theorem SFrame.trans {a b c : BState} (h1 : SFrame a b) (h2 : SFrame b c) : SFrame a c :=
  ⟨h1.1.trans h2.1, h1.2.1.trans h2.2.1, h1.2.2.1.trans h2.2.2.1, h1.2.2.2.trans h2.2.2.2⟩

/-- the validation loop is `firstInvalid`, and it changes nothing: every state it records is the state it started in -/
theorem validateTrace_spec (st : BState) (docs : List (Option (String × Slave))) (i : Nat) :
    (validateTrace st docs i).2 = firstInvalid docs i ∧ (∀ s ∈ (validateTrace st docs i).1, s = st) := by
  induction docs generalizing i with
  | nil => exact ⟨rfl, fun s hs => by cases hs⟩
  | cons d r ih =>
    cases d with
    | none =>
      refine ⟨rfl, fun s hs => ?_⟩
      simpa [validateTrace] using hs
    | some x =>
      refine ⟨(ih (i + 1)).1, fun s hs => ?_⟩
      simp only [validateTrace, List.mem_cons] at hs
      rcases hs with rfl | hm
      · rfl
      · exact (ih (i + 1)).2 s hm

/-- how many entries the validation loop got to: all of them when none fails, `j - i + 1` when entry `j` raises -/
theorem validateTrace_length (st : BState) (docs : List (Option (String × Slave))) (i : Nat) :
    ((validateTrace st docs i).2 = none → (validateTrace st docs i).1.length = docs.length) ∧
    (∀ j, (validateTrace st docs i).2 = some j → i ≤ j ∧ (validateTrace st docs i).1.length = j - i + 1) := by
  induction docs generalizing i with
  | nil => exact ⟨fun _ => rfl, fun j h => by cases h⟩
  | cons d r ih =>
    cases d with
    | none =>
      refine ⟨fun h => (by cases h), fun j h => ?_⟩
      simp only [validateTrace, Option.some.injEq] at h
      subst h
      simp [validateTrace]
    | some x =>
      obtain ⟨i1, i2⟩ := ih (i + 1)
      refine ⟨fun h => ?_, fun j h => ?_⟩
      · simp only [validateTrace] at h ⊢
        simp only [List.length_cons, i1 h]
      · simp only [validateTrace] at h ⊢
        obtain ⟨h1, h2⟩ := i2 j h
        refine ⟨by omega, ?_⟩
        simp only [List.length_cons, h2]
        omega

theorem lastOf_append (s : BState) (a b : List BState) : lastOf s (a ++ b) = lastOf (lastOf s a) b := by
  induction a generalizing s with
  | nil => rfl
  | cons x r ih => exact ih x

theorem lastOf_const (s : BState) (l : List BState) (h : ∀ x ∈ l, x = s) : lastOf s l = s := by
  rcases lastOf_mem s l with h1 | h1
  · exact h1
  · exact h _ h1

theorem addSlaveStep_frame (st : BState) (x : String × Slave) : SFrame (addSlaveStep st x) st := ⟨rfl, rfl, rfl, rfl⟩

/-- an addition never touches the switches (nor the device, nor the ports) -/
theorem addTrace_frame (st : BState) (l : List (String × Slave)) : ∀ s ∈ addTrace st l, SFrame s st := by
  induction l generalizing st with
  | nil => intro s hs; cases hs
  | cons x r ih =>
    intro s hs
    simp only [addTrace, List.mem_cons] at hs
    rcases hs with rfl | hm
    · exact addSlaveStep_frame st x
    · exact (ih _ s hm).trans (addSlaveStep_frame st x)

theorem addTrace_length (st : BState) (l : List (String × Slave)) : (addTrace st l).length = l.length := by
  induction l generalizing st with
  | nil => rfl
  | cons x r ih => simp only [addTrace, List.length_cons, ih]

/-- registry `r` after the entries of `l` have been added in order (first wins) -/
def addAll (r : String → Option Slave) (l : List (String × Slave)) : String → Option Slave :=
  fun n => match r n with
    | some s => some s
    | none => (l.find? (fun a => a.1 = n)).map (·.2)

theorem addAll_empty (l : List (String × Slave)) (st : BState) :
    addAll (fun _ => none) l = (putSlaves st l).slaves := rfl

/-- the registry after the additions: what was registered stays, the first entry of each new name is added -/
theorem addTrace_last (st : BState) (l : List (String × Slave)) :
    (lastOf st (addTrace st l)).slaves = addAll st.slaves l := by
  induction l generalizing st with
  | nil =>
    funext n
    simp only [addTrace, lastOf, addAll, List.find?_nil, Option.map_none]
    cases st.slaves n <;> rfl
  | cons x r ih =>
    simp only [addTrace, lastOf]
    rw [ih]
    funext n
    simp only [addAll, addSlaveStep]
    cases st.slaves n with
    | some s => rfl
    | none =>
      by_cases h : x.1 = n
      · simp [h]
      · simp [h]

/-- the registry after the first `k + 1` additions -/
theorem addTrace_prefix (st : BState) (l : List (String × Slave)) (k : Nat) (s : BState)
    (h : (addTrace st l)[k]? = some s) : s.slaves = addAll st.slaves (l.take (k + 1)) := by
  induction l generalizing st k with
  | nil => simp [addTrace] at h
  | cons x r ih =>
    simp only [addTrace] at h
    cases k with
    | zero =>
      simp only [List.getElem?_cons_zero, Option.some.injEq] at h
      subst h
      have := addTrace_last st [x]
      simpa [addTrace, lastOf] using this
    | succ k =>
      simp only [List.getElem?_cons_succ] at h
      rw [ih _ k h]
      funext n
      simp only [addAll, addSlaveStep, List.take_succ_cons]
      cases st.slaves n with
      | some s => rfl
      | none =>
        by_cases hx : x.1 = n
        · simp [hx]
        · simp [hx]

theorem slavesBodyTrace_frame (st : BState) (docs : List (Option (String × Slave))) :
    ∀ s ∈ (slavesBodyTrace st docs).1, SFrame s st := by
  intro s hs
  have hv := (validateTrace_spec st docs 0).2
  unfold slavesBodyTrace at hs
  cases hr : (validateTrace st docs 0).2 with
  | some i =>
    rw [hr] at hs
    rw [hv s hs]; exact SFrame.refl st
  | none =>
    rw [hr] at hs
    rcases List.mem_append.mp hs with h | h
    · rw [hv s h]; exact SFrame.refl st
    · exact addTrace_frame st _ s h

/-- the `try:` block of the trace is the body of the executable model: same response; the registry it ends with is
untouched by a validation failure and holds the listed devices otherwise -/
theorem slavesBodyTrace_spec (st : BState) (docs : List (Option (String × Slave))) :
    (∀ i, firstInvalid docs 0 = some i →
      (slavesBodyTrace st docs).2 = .err i ∧ lastOf st (slavesBodyTrace st docs).1 = st) ∧
    (firstInvalid docs 0 = none →
      (slavesBodyTrace st docs).2 = .ok ∧
      (lastOf st (slavesBodyTrace st docs).1).slaves = addAll st.slaves (docs.filterMap id)) := by
  obtain ⟨hv1, hv2⟩ := validateTrace_spec st docs 0
  refine ⟨fun i hf => ?_, fun hf => ?_⟩
  · rw [← hv1] at hf
    unfold slavesBodyTrace
    rw [hf]
    exact ⟨rfl, lastOf_const st _ hv2⟩
  · rw [← hv1] at hf
    unfold slavesBodyTrace
    rw [hf]
    refine ⟨rfl, ?_⟩
    simp only
    rw [lastOf_append, lastOf_const st _ hv2, addTrace_last]

theorem lastOf_sframe (st : BState) (docs : List (Option (String × Slave))) :
    SFrame (lastOf st (slavesBodyTrace st docs).1) st := by
  rcases lastOf_mem st (slavesBodyTrace st docs).1 with h | h
  · rw [h]; exact SFrame.refl st
  · exact slavesBodyTrace_frame st docs _ h

/-- **the trace ends where the executable model ends** (final state and response), on the success and on the error
path alike -/
theorem putSlavesTrace_agrees (st : BState) (docs : List (Option (String × Slave))) :
    ((putSlavesTrace st docs).after, (putSlavesTrace st docs).resp) = putSlavesDoc st docs := by
  have hs := slavesBodyTrace_spec (removeSlaves (switchesOff st)) docs
  have hf := lastOf_sframe (removeSlaves (switchesOff st)) docs
  cases hfi : firstInvalid docs 0 with
  | some i =>
    obtain ⟨h1, h2⟩ := hs.1 i hfi
    refine Prod.ext ?_ ?_
    · apply BState.ext'
      · exact hf.2.2.2
      · exact hf.2.2.1
      · simp only [putSlavesTrace, switchesOn, putSlavesDoc, hfi]
        rw [h2]; rfl
      · simp only [putSlavesTrace, switchesOn, putSlavesDoc]
      · simp only [putSlavesTrace, switchesOn, putSlavesDoc]
    · simp only [putSlavesTrace, putSlavesDoc, hfi]
      exact h1
  | none =>
    obtain ⟨h1, h2⟩ := hs.2 hfi
    refine Prod.ext ?_ ?_
    · apply BState.ext'
      · exact hf.2.2.2
      · exact hf.2.2.1
      · simp only [putSlavesTrace, switchesOn, putSlavesDoc, hfi]
        rw [h2]; rfl
      · simp only [putSlavesTrace, switchesOn, putSlavesDoc]
      · simp only [putSlavesTrace, switchesOn, putSlavesDoc]
    · simp only [putSlavesTrace, putSlavesDoc, hfi]
      exact h1

/-- between `disable` and `finally` both switches are off in every state, whatever the body does -/
theorem putSlavesTrace_during_off (st : BState) (docs : List (Option (String × Slave))) :
    ∀ s ∈ (putSlavesTrace st docs).during, s.updating = false ∧ s.events = false := by
  intro s hs
  simp only [putSlavesTrace, List.mem_cons] at hs
  rcases hs with rfl | rfl | hm
  · exact ⟨rfl, rfl⟩
  · exact ⟨rfl, rfl⟩
  · have hf := slavesBodyTrace_frame _ docs s hm
    exact ⟨hf.1, hf.2.1⟩

theorem filterMap_id_length (docs : List (Option (String × Slave))) (i : Nat) (h : firstInvalid docs i = none) :
    (docs.filterMap id).length = docs.length := by
  induction docs generalizing i with
  | nil => rfl
  | cons d r ih =>
    cases d with
    | none => simp [firstInvalid] at h
    | some x =>
      simp only [firstInvalid] at h
      simp [ih _ h]

/-- how far the body got: every entry validated and every entry added when the document is accepted; exactly the
entries up to the first invalid one validated, and NOTHING added, when it is rejected -/
theorem putSlavesTrace_length (st : BState) (docs : List (Option (String × Slave))) :
    ((putSlavesTrace st docs).resp = .ok → (putSlavesTrace st docs).during.length = 2 + docs.length + docs.length) ∧
    (∀ i, (putSlavesTrace st docs).resp = .err i → (putSlavesTrace st docs).during.length = 2 + (i + 1)) := by
  have hl := validateTrace_length (removeSlaves (switchesOff st)) docs 0
  have hv := (validateTrace_spec (removeSlaves (switchesOff st)) docs 0).1
  simp only [putSlavesTrace, slavesBodyTrace]
  cases hr : (validateTrace (removeSlaves (switchesOff st)) docs 0).2 with
  | some j =>
    refine ⟨fun h => (by cases h), fun i h => ?_⟩
    simp only [SlavesResp.err.injEq] at h
    subst h
    simp only [List.length_cons, (hl.2 j hr).2]
    omega
  | none =>
    refine ⟨fun _ => ?_, fun i h => by cases h⟩
    have hfm := filterMap_id_length docs 0 (hv ▸ hr)
    simp only [List.length_cons, List.length_append, hl.1 hr, addTrace_length, hfm]
    omega

/-- accepted document: the state recorded after the `k + 1`-th addition carries the registry the executable model
`putSlaves` leaves on the first `k + 1` entries -/
theorem putSlavesTrace_prefix (st : BState) (docs : List (Option (String × Slave))) (k : Nat) (s : BState)
    (hok : (putSlavesTrace st docs).resp = .ok)
    (h : (putSlavesTrace st docs).during[2 + docs.length + k]? = some s) :
    s.slaves = (putSlaves st ((docs.filterMap id).take (k + 1))).slaves := by
  have hl := validateTrace_length (removeSlaves (switchesOff st)) docs 0
  simp only [putSlavesTrace, slavesBodyTrace] at hok h
  cases hr : (validateTrace (removeSlaves (switchesOff st)) docs 0).2 with
  | some j => rw [hr] at hok; cases hok
  | none =>
    rw [hr] at h
    simp only at h
    rw [show 2 + docs.length + k = (docs.length + k) + 1 + 1 by omega, List.getElem?_cons_succ,
      List.getElem?_cons_succ, List.getElem?_append_right (by rw [hl.1 hr]; omega), hl.1 hr,
      Nat.add_sub_cancel_left] at h
    exact addTrace_prefix _ _ k s h

/-- rejected document (entry `i` fails the schema): the whole trace between `disable` and `finally` — the state
after `disable`, then the emptied registry after the removal and after each of the `i + 1` entries the validation loop
got to; nothing is ever added -/
theorem putSlavesTrace_failure (st : BState) (docs : List (Option (String × Slave))) (i : Nat)
    (herr : (putSlavesTrace st docs).resp = .err i) :
    (putSlavesTrace st docs).during =
      switchesOff st :: List.replicate (i + 2) (removeSlaves (switchesOff st)) := by
  have hl := validateTrace_length (removeSlaves (switchesOff st)) docs 0
  have hv := (validateTrace_spec (removeSlaves (switchesOff st)) docs 0).2
  simp only [putSlavesTrace, slavesBodyTrace] at herr ⊢
  cases hr : (validateTrace (removeSlaves (switchesOff st)) docs 0).2 with
  | none => rw [hr] at herr; cases herr
  | some j =>
    rw [hr] at herr
    simp only [SlavesResp.err.injEq] at herr
    subst herr
    simp only [List.replicate_succ, List.cons.injEq, true_and]
    rw [← List.replicate_succ]
    refine List.eq_replicate_iff.mpr ⟨?_, hv⟩
    rw [(hl.2 j hr).2]; omega

end QtVerif.Backup
