import QtVerif.Model.Slave
import QtVerif.Model.SlaveNames
/-! Lemmas for C12 §16: a port-update REPLACES the cached attributes; the `device_` name mapping on character lists. -/
namespace QtVerif.Slave

theorem Attrs.has_set (a : Attrs) (k n : Nat) (v : Int) : (Attrs.set a k v).has n = (a.has n || k == n) := by
  induction a with
  | nil => simp [Attrs.set, Attrs.has]
  | cons kv rest ih =>
    obtain ⟨k', w⟩ := kv
    unfold Attrs.set
    by_cases h : (k' == k) = true
    · have hk : k' = k := by simpa using h
      subst hk
      simp only [h, if_true]
      simp only [Attrs.has, List.any_cons]
      cases (k' == n) <;> simp
    · simp only [h, Bool.false_eq_true, if_false]
      simp only [Attrs.has, List.any_cons] at ih ⊢
      rw [ih]
      cases (k' == n) <;> simp

theorem Attrs.has_update (a b : Attrs) (n : Nat) : (Attrs.update a b).has n = (a.has n || b.has n) := by
  unfold Attrs.update
  induction b generalizing a with
  | nil => simp [Attrs.has]
  | cons kv rest ih =>
    simp only [List.foldl_cons]
    rw [ih, Attrs.has_set]
    simp only [Attrs.has, List.any_cons]
    cases (List.any a fun kv => kv.1 == n) <;> cases (kv.1 == n) <;> simp

/-- `update_cached_attrs(dict(attrs, **provisioning_attrs))`: the cache after a port-update is the reported set
(overlaid, repaired code, with the pending attributes) — nothing of the old cache survives. -/
theorem applyPortUpdate_attrs (fix : Fix) (p : MPort) (msg : PortMsg) :
    (applyPortUpdate fix p msg).1.attrs = if fix.keepPending then msg.attrs.update p.pendAttrs else msg.attrs := by
  unfold applyPortUpdate
  cases fix.keepPending <;> cases msg.value <;> simp [MPort.push] <;> split <;> rfl

theorem applyPortUpdate_drops (fix : Fix) (p : MPort) (msg : PortMsg) (n : Nat)
    (hm : msg.attrs.has n = false) (hp : p.pendAttrs.has n = false) :
    (applyPortUpdate fix p msg).1.attrs.has n = false := by
  rw [applyPortUpdate_attrs]
  cases fix.keepPending
  · simpa using hm
  · simp only [if_true, Attrs.has_update, hm, hp, Bool.or_self]

namespace Names

theorem stripDev_dev (k : Name) : stripDev (devPrefix ++ k) = some k := rfl

theorem baseName_dev (k : Name) : baseName (devPrefix ++ k) = baseName k := by
  show baseName ('d' :: 'e' :: 'v' :: 'i' :: 'c' :: 'e' :: '_' :: k) = baseName k
  rw [baseName]

theorem family_dev (k : Name) : family (devPrefix ++ k) = family k := by
  unfold family; rw [baseName_dev]

theorem shownFamily_dev (k : Name) : shownFamily (devPrefix ++ k) = family k := by
  unfold shownFamily; rw [stripDev_dev, family_dev]; simp

theorem shownFamily_of_not_family (k : Name) (h : family k = false) : shownFamily k = false := by
  unfold shownFamily; rw [h]; simp

theorem not_owned_dev (owned : List Name) (hown : ∀ o ∈ owned, stripDev o = none) (k : Name) :
    owned.contains (devPrefix ++ k) = false := by
  cases h : owned.contains (devPrefix ++ k) with
  | false => rfl
  | true =>
    have hm : (devPrefix ++ k) ∈ owned := by simpa using h
    have := hown _ hm
    rw [stripDev_dev] at this
    cases this

/-- `set_attr`/`get_attr` strip exactly one `device_` from a name of the family. -/
theorem slaveName_dev (owned : List Name) (hown : ∀ o ∈ owned, stripDev o = none) (k : Name) (hf : family k = true) :
    slaveName owned (devPrefix ++ k) = some k := by
  unfold slaveName
  rw [not_owned_dev owned hown k, shownFamily_dev, hf, stripDev_dev]
  simp

theorem slaveName_presentName (owned : List Name) (hown : ∀ o ∈ owned, stripDev o = none) (k n : Name)
    (h : presentName owned k = some n) : slaveName owned n = some k := by
  unfold presentName at h
  by_cases hf : family k = true
  · simp only [hf, if_true, Option.some.injEq] at h
    subst h
    exact slaveName_dev owned hown k hf
  · have hf' : family k = false := by simpa using hf
    simp only [hf', Bool.false_eq_true, if_false] at h
    split at h
    · cases h
    · rename_i ho
      simp only [Option.some.injEq] at h
      subst h
      unfold slaveName
      simp only [ho, if_false, shownFamily_of_not_family k hf', Bool.false_eq_true]

theorem presentName_inj (owned : List Name) (a b n : Name) (ha : presentName owned a = some n)
    (hb : presentName owned b = some n) (hown : ∀ o ∈ owned, stripDev o = none) : a = b := by
  have h1 := slaveName_presentName owned hown a n ha
  have h2 := slaveName_presentName owned hown b n hb
  rw [h1] at h2
  exact Option.some.inj h2

end Names
end QtVerif.Slave
