import QtVerif.Proofs.Calendar
/-!
C17: resolution of naive local datetimes (CPython's `local_to_seconds` / `timestamp()` / `astimezone()`), proved
for an arbitrary zone that is *regular around the local reading in question*: within 4 days of it there is at most
one change of the UTC offset (from `a` to `b` at instant `T`), offsets and the jump are below 24 h. Fixed-offset
zones (`a = b`) are the special case; DST gaps (`a < b`) and folds (`a > b`) are covered.

Main results
  * `lts_eq`          closed form of `local_to_seconds` for both values of `fold`;
  * `astimezoneTs_eq` / `naiveTimestamp_eq`  the two ways date.py converts agree with it;
  * `start_iff`       `x < start z ↔ local day of x < z`: the value returned for "midnight of day z" is the one
                      instant that separates the instants whose local date is before `z` from the others;
  * `start_loc`       its local reading is `z 00:00:00`, unless that reading does not exist (gap), then the first
                      reading after the gap;
  * `date_roundtrip`  DATE of the local fields of `u` is `u` (outside the second pass of a repeated interval).
-/
namespace QtVerif.Calendar

/-- Offsets stay below 24 hours (true of every zone of the tz database). -/
def Zone.Bounded (Z : Zone) : Prop := ∀ x, -86400 < Z.off x ∧ Z.off x < 86400

/-- Within `W` seconds of `P` the zone has offset `a` before instant `T` and `b` from `T` on. -/
structure Zone.NearAt (Z : Zone) (P T a b : Int) : Prop where
  ha : -86400 < a ∧ a < 86400
  hb : -86400 < b ∧ b < 86400
  hj : -86400 < b - a ∧ b - a < 86400
  near : ∀ x, P - W ≤ x → x ≤ P + W → Z.off x = if x < T then a else b

/-- The zone is regular around local reading `P`, and `P` is not strictly inside the local interval that the
offset change repeats (`T + b < P < T + a`: clock set back from after `P` to before `P`) or skips
(`T + a < P < T + b`). Readings at either end of such an interval are fine — e.g. a gap 00:00 → 01:00 or a fold
01:00 → 00:00 at midnight `P`. No zone of the checked set violates this at a midnight (checked on the tables). -/
def Zone.RegularAt (Z : Zone) (P : Int) : Prop :=
  ∃ T a b, Z.NearAt P T a b ∧ ¬ (T + b < P ∧ P < T + a) ∧ ¬ (T + a < P ∧ P < T + b)

/-- Local day number of instant `u`. -/
def Zone.day (Z : Zone) (u : Int) : Int := Z.loc u / 86400

/-- What date.py returns for "local midnight starting day number `z`":
`datetime(y, m, d).astimezone(utc).timestamp()`. -/
def Zone.start (Z : Zone) (z : Int) : Int := astimezoneTs Z (civilFromDays z).midnight

theorem Zone.NearAt.cases {Z : Zone} {P T a b : Int} (h : Z.NearAt P T a b) (x : Int) (h1 : P - 345600 ≤ x)
    (h2 : x ≤ P + 345600) : (x < T ∧ Z.off x = a) ∨ (T ≤ x ∧ Z.off x = b) := by
  have := h.near x h1 h2
  by_cases c : x < T
  · left; simp [c] at this; exact ⟨c, this⟩
  · right; simp [c] at this; exact ⟨by omega, this⟩

/-- The instant CPython assigns to naive local reading `t` (fold = 0) in a regular zone: the reading minus the
old offset before the change, minus the new offset after it; in a fold the first occurrence, in a gap the reading
taken with the old offset. -/
def resolved (t T a b : Int) : Int := if t < T + a then t - a else if T + b ≤ t then t - b else t - a

/-- Closed form of `local_to_seconds` for both `fold` values. -/
theorem lts_eq (Z : Zone) (t T a b : Int) (h : Z.NearAt t T a b) (fold : Bool) :
    localToSeconds Z t fold =
      if fold then (if T + b ≤ t then t - b else if t < T + a then t - a else t - b)
      else resolved t T a b := by
  have hn := h.cases
  have ha := h.ha
  have hb := h.hb
  have hj := h.hj
  unfold localToSeconds ltsTail resolved
  extract_lets a0 u1 t1 u2 b0 u2' t2 u2'' t2'
  have e0 : a0 = Z.off t := by simp only [a0, localOf_eq, Zone.loc]; omega
  have c0 := hn t (by omega) (by omega)
  have e1 : t1 = u1 + Z.off u1 := by simp only [t1, localOf_eq, Zone.loc]
  have eu1 : u1 = t - a0 := rfl
  have c1 := hn u1 (by omega) (by omega)
  have e2 : b0 = Z.off u2 := by simp only [b0, localOf_eq, Zone.loc]; omega
  have eu2 : u2 = if fold = true then u1 + 86400 else u1 - 86400 := rfl
  have c2 := hn u2 (by split at eu2 <;> omega) (by split at eu2 <;> omega)
  have e3 : t2 = u2' + Z.off u2' := by simp only [t2, localOf_eq, Zone.loc]
  have eu2' : u2' = t - b0 := rfl
  have c3 := hn u2' (by omega) (by omega)
  have e4 : t2' = u2'' + Z.off u2'' := by simp only [t2', localOf_eq, Zone.loc]
  have eu2'' : u2'' = t - (t1 - u1) := rfl
  have c4 := hn u2'' (by omega) (by omega)
  clear_value a0 u1 t1 u2 b0 u2' t2 u2'' t2'
  clear hn h
  cases fold <;> simp only [if_true, if_false, Bool.false_eq_true] at eu2 ⊢ <;> (repeat' split) <;> omega

/-- `datetime.timestamp()` of a naive datetime. -/
theorem naiveTimestamp_eq (Z : Zone) (c : Civil) (T a b : Int) (h : Z.NearAt (secondsOfCivil c) T a b) :
    naiveTimestamp Z c = resolved (secondsOfCivil c) T a b := by
  unfold naiveTimestamp; rw [lts_eq Z _ T a b h]; simp

/-- `astimezone(utc).timestamp()` of a naive datetime gives the same instant. -/
theorem astimezoneTs_eq (Z : Zone) (c : Civil) (T a b : Int) (h : Z.NearAt (secondsOfCivil c) T a b) :
    astimezoneTs Z c = resolved (secondsOfCivil c) T a b := by
  have ha := h.ha
  have hb := h.hb
  have hj := h.hj
  unfold astimezoneTs
  extract_lets t s s2 s'
  have et : t = secondsOfCivil c := rfl
  rw [← et] at h ⊢
  have es : s = resolved t T a b := by simp only [s]; rw [lts_eq Z _ T a b h]; simp
  have es2 : s2 = if T + b ≤ t then t - b else if t < T + a then t - a else t - b := by
    simp only [s2]; rw [lts_eq Z _ T a b h]; simp
  have es' : s' = if s2 ≠ s ∧ (decide (s2 > s) = false) then s2 else s := rfl
  have c := h.cases s' (by
    unfold resolved at es; split at es' <;> split at es <;> (try split at es) <;> split at es2 <;>
      (try split at es2) <;> omega) (by
    unfold resolved at es; split at es' <;> split at es <;> (try split at es) <;> split at es2 <;>
      (try split at es2) <;> omega)
  clear_value s s2 s'
  clear_value t
  unfold resolved at es ⊢
  simp only [decide_eq_false_iff_not] at es'
  split at es' <;> split at es <;> (try split at es) <;> split at es2 <;> (try split at es2) <;>
    (repeat' split) <;> omega

/-- The window condition only speaks about midnights: seconds of the midnight of day `z`. -/
theorem secondsOfCivil_midnight_day (z : Int) : secondsOfCivil (civilFromDays z).midnight = 86400 * z := by
  rw [secondsOfCivil_midnight, daysFromCivil_civilFromDays]; omega

theorem start_eq (Z : Zone) (z T a b : Int) (h : Z.NearAt (86400 * z) T a b) :
    Z.start z = resolved (86400 * z) T a b := by
  unfold Zone.start
  rw [astimezoneTs_eq Z _ T a b (by rw [secondsOfCivil_midnight_day]; exact h), secondsOfCivil_midnight_day]

/-- **The period start separates the instants by their local date.** In a zone with bounded offsets that is
regular around the local midnight of day `z`, an instant is before `Z.start z` exactly when its local reading is
before that midnight — i.e. `Z.start z` is the first instant at which the local clock reads `z 00:00:00` or later,
and the clock never falls back behind that reading afterwards. -/
theorem start_iff (Z : Zone) (z : Int) (hB : Z.Bounded) (h : Z.RegularAt (86400 * z)) (x : Int) :
    x < Z.start z ↔ Z.loc x < 86400 * z := by
  obtain ⟨T, a, b, hn, hs, hg⟩ := h
  rw [start_eq Z z T a b hn]
  have ha := hn.ha
  have hb := hn.hb
  have hj := hn.hj
  have hx := hB x
  unfold Zone.loc resolved
  by_cases w : 86400 * z - 345600 ≤ x ∧ x ≤ 86400 * z + 345600
  · have c := hn.cases x w.1 w.2
    (repeat' split) <;> omega
  · (repeat' split) <;> omega

theorem start_iff_day (Z : Zone) (z : Int) (hB : Z.Bounded) (h : Z.RegularAt (86400 * z)) (x : Int) :
    x < Z.start z ↔ Z.day x < z := by
  rw [start_iff Z z hB h x]; unfold Zone.day; omega

/-- **The period start is a local midnight.** Its local reading lies on day `z`; it is exactly `z 00:00:00`
whenever any instant has that reading (i.e. unless the midnight falls into a DST gap — then it is the first reading
after the gap). -/
theorem start_loc (Z : Zone) (z : Int) (hB : Z.Bounded) (h : Z.RegularAt (86400 * z)) :
    86400 * z ≤ Z.loc (Z.start z) ∧ Z.loc (Z.start z) < 86400 * z + 86400 ∧
    ((∃ x, Z.loc x = 86400 * z) → Z.loc (Z.start z) = 86400 * z) := by
  obtain ⟨T, a, b, hn, hs, hg⟩ := h
  rw [start_eq Z z T a b hn]
  have ha := hn.ha
  have hb := hn.hb
  have hj := hn.hj
  have c := hn.cases (resolved (86400 * z) T a b) (by unfold resolved; (repeat' split) <;> omega)
    (by unfold resolved; (repeat' split) <;> omega)
  refine ⟨?_, ?_, ?_⟩
  · unfold Zone.loc; unfold resolved at c ⊢; (repeat' split) <;> (repeat' split at c) <;> omega
  · unfold Zone.loc; unfold resolved at c ⊢; (repeat' split) <;> (repeat' split at c) <;> omega
  · rintro ⟨x, hx⟩
    have hbx := hB x
    unfold Zone.loc at hx
    have cx := hn.cases x (by omega) (by omega)
    unfold Zone.loc; unfold resolved at c ⊢; (repeat' split) <;> (repeat' split at c) <;> omega

theorem start_day (Z : Zone) (z : Int) (hB : Z.Bounded) (h : Z.RegularAt (86400 * z)) : Z.day (Z.start z) = z := by
  have := start_loc Z z hB h
  unfold Zone.day; omega

/-- **DATE rebuilds the instant**: resolving the local reading of `u` gives `u` back, except in the second pass of
a repeated interval, where the first occurrence of that reading (`u − (a − b)`) is returned. -/
theorem resolve_loc (Z : Zone) (u T a b : Int) (hu : -86400 < Z.off u ∧ Z.off u < 86400)
    (h : Z.NearAt (Z.loc u) T a b) :
    resolved (Z.loc u) T a b = if T ≤ u ∧ u + b < T + a then u - (a - b) else u := by
  have ha := h.ha
  have hb := h.hb
  have hj := h.hj
  have c0 := h.cases (Z.loc u) (by omega) (by omega)
  have c := h.cases u (by unfold Zone.loc at *; omega) (by unfold Zone.loc at *; omega)
  unfold resolved Zone.loc at *
  (repeat' split) <;> omega

/-! ### zones that satisfy the hypotheses -/

theorem fixed_bounded (o : Int) (h : -86400 < o ∧ o < 86400) : (Zone.fixed o).Bounded := fun _ => h

theorem fixed_nearAt (o P : Int) (h : -86400 < o ∧ o < 86400) : (Zone.fixed o).NearAt P 0 o o :=
  ⟨h, h, by omega, fun x _ _ => by simp [Zone.fixed]⟩

theorem fixed_regularAt (o P : Int) (h : -86400 < o ∧ o < 86400) : (Zone.fixed o).RegularAt P :=
  ⟨0, o, o, fixed_nearAt o P h, by omega, by omega⟩

/-- A zone with a single transition (offset `a` before `T`, `b` from `T` on). -/
def Zone.two (T a b : Int) : Zone := ⟨fun x => if x < T then a else b⟩

theorem two_bounded (T a b : Int) (ha : -86400 < a ∧ a < 86400) (hb : -86400 < b ∧ b < 86400) :
    (Zone.two T a b).Bounded := by
  intro x; simp only [Zone.two]; split <;> assumption

theorem two_nearAt (T a b P : Int) (ha : -86400 < a ∧ a < 86400) (hb : -86400 < b ∧ b < 86400)
    (hj : -86400 < b - a ∧ b - a < 86400) : (Zone.two T a b).NearAt P T a b :=
  ⟨ha, hb, hj, fun _ _ _ => rfl⟩

end QtVerif.Calendar
