import QtVerif.Props.C03
import QtVerif.Props.C04
/-!
Integration C04 × C03 — the dependency-check model (`Model/Deps.lean`) fed by the REAL parser, and its hub stored as
printed texts.

`Model/Deps.lean` takes expressions "already parsed (the text → tree step is property C03); a text the real parser
refuses is the argument `none` of `assign`", stores TREES in the hub, and models `enable()` — which re-parses
`str(self._expression)` — as leaving the expression alone, pointing to C03's print fixpoint. Here:

* `TOp` / `TOp.toOp`   the operations with expression TEXTS, parsed by `Parse.parse` (`runText`);
* `AllWF`              every installed expression is well-formed for the registry (what the parser produces:
                       `C03.accepted_wellformed`) — an invariant of every text-level history (`runText_allWF`);
* `storeRoundtrip`     the hub after its expressions have been printed (persisted / reported) and parsed again;
                       `storeRoundtrip_id`: it is the same hub (from `C03.print_fixpoint`);
* `setEnabledReparse`  `enable()` with the re-parse spelled out; `setEnabledReparse_eq`: it is C04's `setEnabled`;
* `stored_text_same_deps`, `stored_text_same_verdict`: the ids the walk follows and the verdict of `check_loops` are the
  same for the tree parsed from the stored text.
-/
namespace QtVerif.Integration
open QtVerif.Syntax QtVerif.Parse QtVerif.Deps

/-! ### a predicate on every installed expression is preserved by every operation that installs only such expressions -/

/-- Every expression installed in the hub satisfies `S`. -/
def ExprsSat (S : Expr → Prop) (h : Hub) : Prop := ∀ p ∈ h.ports, ∀ e, p.expr = some e → S e

theorem sat_modify (S : Expr → Prop) (h : Hub) (id : String) (f : PortEntry → PortEntry)
    (hf : ∀ p e, (f p).expr = some e → p.expr = some e ∨ S e) (hs : ExprsSat S h) : ExprsSat S (h.modify id f) := by
  intro p hp e he
  simp only [Hub.modify, List.mem_map] at hp
  obtain ⟨p0, hp0, rfl⟩ := hp
  split at he
  · rcases hf p0 e he with h1 | h1
    · exact hs p0 hp0 e h1
    · exact h1
  · exact hs p0 hp0 e he

theorem sat_setExpr (S : Expr → Prop) (h : Hub) (id : String) (e : Option Expr) (he : ∀ x, e = some x → S x)
    (hs : ExprsSat S h) : ExprsSat S (h.setExpr id e) :=
  sat_modify S h id _ (fun _ x hx => Or.inr (he x hx)) hs

theorem sat_assign (S : Expr → Prop) (h : Hub) (id : String) (parsed : Option Expr) (hp : ∀ x, parsed = some x → S x)
    (hs : ExprsSat S h) : ExprsSat S (assign h id parsed).1 := by
  unfold assign
  cases h.get id with
  | none => exact hs
  | some _ =>
    cases parsed with
    | none => exact hs
    | some e =>
      simp only
      cases checkLoops h id e with
      | loop => exact hs
      | fuel => exact hs
      | ok => exact sat_setExpr S h id _ hp hs

theorem sat_clear (S : Expr → Prop) (h : Hub) (id : String) (hs : ExprsSat S h) : ExprsSat S (clear h id).1 := by
  unfold clear
  cases h.get id with
  | none => exact hs
  | some _ => exact sat_setExpr S h id none (fun _ hx => by cases hx) hs

theorem sat_addPort (S : Expr → Prop) (h : Hub) (id : String) (hs : ExprsSat S h) : ExprsSat S (addPort h id).1 := by
  unfold addPort
  cases h.get id with
  | some _ => exact hs
  | none =>
    intro p hp e he
    simp only [register, List.append_eq, List.mem_append, List.mem_singleton, List.mem_cons, List.not_mem_nil,
      or_false] at hp
    rcases hp with hp | rfl
    · exact hs p hp e he
    · cases he

theorem sat_removePort (S : Expr → Prop) (h : Hub) (id : String) (hs : ExprsSat S h) :
    ExprsSat S (removePort h id).1 := by
  unfold removePort
  cases h.get id with
  | none => exact hs
  | some _ =>
    intro p hp e he
    exact hs p (List.mem_filter.mp hp).1 e he

theorem sat_setEnabled (S : Expr → Prop) (h : Hub) (id : String) (v : Bool) (hs : ExprsSat S h) :
    ExprsSat S (setEnabled h id v).1 := by
  unfold setEnabled
  cases h.get id with
  | none => exact hs
  | some _ => exact sat_modify S h id _ (fun _ _ hx => Or.inl hx) hs

theorem sat_foldl_loadOne (S : Expr → Prop) (l : List PortEntry) :
    ∀ acc, (∀ p ∈ l, ∀ e, p.expr = some e → S e) → ExprsSat S acc → ExprsSat S (l.foldl loadOne acc) := by
  induction l with
  | nil => intro acc _ hs; exact hs
  | cons p rest ih =>
    intro acc hl hs
    simp only [List.foldl]
    apply ih _ (fun q hq => hl q (List.mem_cons_of_mem _ hq))
    unfold loadOne
    cases hpe : p.expr with
    | none => exact hs
    | some e => exact sat_assign S acc p.id (some e) (fun x hx => by cases hx; exact hl p List.mem_cons_self e hpe) hs

theorem sat_reload (S : Expr → Prop) (h : Hub) (hs : ExprsSat S h) : ExprsSat S (reload h) := by
  unfold reload
  apply sat_foldl_loadOne S h.ports _ hs
  intro p hp e he
  simp only [List.mem_map] at hp
  obtain ⟨p0, _, rfl⟩ := hp
  cases he

/-- The expression texts of a `PUT /ports` entry that parse satisfy `S`. -/
def EntrySat (S : Expr → Prop) (en : Entry) : Prop :=
  match en.expr with
  | .text (some e) => S e
  | _ => True

theorem sat_restoreEntry (S : Expr → Prop) (h : Hub) (en : Entry) (hen : EntrySat S en) (hs : ExprsSat S h) :
    ExprsSat S (restoreEntry h en).1 := by
  unfold restoreEntry
  have h1 := sat_addPort S h en.id hs
  have h2 : ExprsSat S (match en.enabled with
      | some v => (setEnabled (addPort h en.id).1 en.id v).1
      | none => (addPort h en.id).1) := by
    cases en.enabled with
    | none => exact h1
    | some v => exact sat_setEnabled S _ en.id v h1
  simp only
  unfold EntrySat at hen
  cases hx : en.expr with
  | absent => exact h2
  | empty => exact sat_clear S _ en.id h2
  | text parsed =>
    rw [hx] at hen
    apply sat_assign S _ en.id parsed _ h2
    intro x hp
    subst hp
    exact hen

theorem sat_restoreLoop (S : Expr → Prop) (entries : List Entry) :
    ∀ h, (∀ en ∈ entries, EntrySat S en) → ExprsSat S h → ExprsSat S (restoreLoop h entries).1 := by
  induction entries with
  | nil => intro h _ hs; exact hs
  | cons en rest ih =>
    intro h hen hs
    have h1 := sat_restoreEntry S h en (hen en List.mem_cons_self) hs
    unfold restoreLoop
    split
    · rename_i h' heq
      rw [heq] at h1
      exact ih h' (fun x hx => hen x (List.mem_cons_of_mem _ hx)) h1
    · rename_i h' o _ heq
      rw [heq] at h1
      exact h1

/-- Every expression an operation may install satisfies `S`. -/
def OpSat (S : Expr → Prop) : Op → Prop
  | .assign _ (some e) => S e
  | .restore entries => ∀ en ∈ entries, EntrySat S en
  | _ => True

theorem sat_step (S : Expr → Prop) (h : Hub) (op : Op) (hop : OpSat S op) (hs : ExprsSat S h) :
    ExprsSat S (step h op).1 := by
  cases op with
  | assign id parsed =>
    apply sat_assign S h id parsed _ hs
    intro x hx; subst hx; exact hop
  | clear id => exact sat_clear S h id hs
  | addPort id => exact sat_addPort S h id hs
  | removePort id => exact sat_removePort S h id hs
  | setEnabled id v => exact sat_setEnabled S h id v hs
  | reload => exact sat_reload S h hs
  | restore entries =>
    exact sat_restoreLoop S entries Hub.empty hop (fun p hp => by cases hp)

theorem sat_run (S : Expr → Prop) (ops : List Op) :
    ∀ h, (∀ op ∈ ops, OpSat S op) → ExprsSat S h → ExprsSat S (run h ops) := by
  induction ops with
  | nil => intro h _ hs; exact hs
  | cons op rest ih =>
    intro h hops hs
    show ExprsSat S (run (step h op).1 rest)
    exact ih _ (fun o ho => hops o (List.mem_cons_of_mem _ ho)) (sat_step S h op (hops op List.mem_cons_self) hs)

/-! ### the operations with expression texts, parsed by the real parser -/

/-- `expressions.parse(...)` as C04's `assign` wants it: the tree, or `none` when the parser refuses the text. -/
def parseOpt (env : Env) (t : String) : Option Expr :=
  match parse env t.toList with
  | .ok e => some e
  | .error _ => none

/-- One entry of a `PUT /ports` body, with the `expression` attribute as text (`none` = no such key). -/
structure TEntry where
  id : String
  enabled : Option Bool
  expr : Option String

def TEntry.toEntry (env : Env) (en : TEntry) : Entry :=
  { id := en.id, enabled := en.enabled,
    expr := match en.expr with
      | none => .absent
      | some t => if t = "" then .empty else .text (parseOpt env t) }

/-- The operations of C04 as the API receives them: expressions are texts. -/
inductive TOp
  | setExpression (id : String) (text : String)     -- PATCH /ports/{id} {"expression": text}; `""` clears
  | addPort (id : String)
  | removePort (id : String)
  | setEnabled (id : String) (v : Bool)
  | reload
  | restore (entries : List TEntry)

def TOp.toOp (env : Env) : TOp → Op
  | .setExpression id t => if t = "" then .clear id else .assign id (parseOpt env t)
  | .addPort id => .addPort id
  | .removePort id => .removePort id
  | .setEnabled id v => .setEnabled id v
  | .reload => .reload
  | .restore entries => .restore (entries.map (TEntry.toEntry env))

/-- The hub after a history of text-level operations, starting from the empty hub. -/
def runText (env : Env) (ops : List TOp) : Hub := run Hub.empty (ops.map (TOp.toOp env))

/-- Every installed expression is a well-formed tree for the registry. -/
abbrev AllWF (env : Env) (h : Hub) : Prop := ExprsSat (WF env) h

theorem parseOpt_wf (env : Env) (hreg : RegCanonical env.reg) (t : String) (e : Expr) (h : parseOpt env t = some e) :
    WF env e := by
  unfold parseOpt at h
  cases hp : parse env t.toList with
  | error er => rw [hp] at h; cases h
  | ok e' =>
    rw [hp] at h
    cases h
    exact C03.accepted_wellformed env hreg t.toList e hp

theorem toOp_sat (env : Env) (hreg : RegCanonical env.reg) (op : TOp) : OpSat (WF env) (op.toOp env) := by
  cases op with
  | setExpression id t =>
    simp only [TOp.toOp]
    split
    · trivial
    · cases hp : parseOpt env t with
      | none => trivial
      | some e => exact parseOpt_wf env hreg t e hp
  | restore entries =>
    simp only [TOp.toOp, OpSat]
    intro en hen
    obtain ⟨ten, _, rfl⟩ := List.mem_map.mp hen
    unfold EntrySat TEntry.toEntry
    simp only
    cases ten.expr with
    | none => trivial
    | some t =>
      simp only
      split
      · rename_i e heq
        split at heq
        · cases heq
        · injection heq with heq
          exact parseOpt_wf env hreg t e heq
      · trivial
  | addPort id => trivial
  | removePort id => trivial
  | setEnabled id v => trivial
  | reload => trivial

/-- **Everything the real parser lets into the hub is well-formed** — after every history of text-level operations. -/
theorem runText_allWF (env : Env) (hreg : RegCanonical env.reg) (ops : List TOp) : AllWF env (runText env ops) := by
  apply sat_run (WF env) _ Hub.empty _ (fun p hp => by cases hp)
  intro op hop
  obtain ⟨top, _, rfl⟩ := List.mem_map.mp hop
  exact toOp_sat env hreg top

/-! ### the store / re-parse cycle -/

/-- `parse(str(e))` -/
def reparse (env : Env) (e : Expr) : Option Expr := parseOpt env e.print

theorem reparse_wf (env : Env) (e : Expr) (h : WF env e) : reparse env e = some e := by
  unfold reparse parseOpt
  rw [C03.print_fixpoint env e h]

/-- The hub after every installed expression has been printed (what is persisted and reported) and parsed again. -/
def storeRoundtrip (env : Env) (h : Hub) : Hub :=
  ⟨h.ports.map fun p => { p with expr := p.expr.bind (reparse env) }⟩

/-- **Printing and re-parsing the hub's expressions gives the same hub** (same trees, hence the same dependency graph). -/
theorem storeRoundtrip_id (env : Env) (h : Hub) (hwf : AllWF env h) : storeRoundtrip env h = h := by
  unfold storeRoundtrip
  cases h with
  | mk ports =>
    congr 1
    simp only
    have : ∀ p ∈ ports, ({ p with expr := p.expr.bind (reparse env) } : PortEntry) = p := by
      intro p hp
      cases hpe : p.expr with
      | none => cases p; simp_all
      | some e =>
        have := reparse_wf env e (hwf p hp e hpe)
        cases p; simp_all
    rw [List.map_congr_left this, List.map_id']

/-- The port ids the dependency walk reads off the tree parsed from the stored text are those of the original tree. -/
theorem stored_text_same_deps (env : Env) (hreg : RegCanonical env.reg) (selfId : String) (t : String) (e : Expr)
    (h : parseOpt env t = some e) :
    (parseOpt env e.print).map (Expr.portValueIds selfId) = some (e.portValueIds selfId) := by
  have := reparse_wf env e (parseOpt_wf env hreg t e h)
  unfold reparse at this
  rw [this]; rfl

/-- … and `check_loops` gives the same verdict, the assignment the same hub and outcome. -/
theorem stored_text_same_verdict (env : Env) (hreg : RegCanonical env.reg) (h : Hub) (id : String) (t : String)
    (e : Expr) (hp : parseOpt env t = some e) :
    (parseOpt env e.print).map (checkLoops h id) = some (checkLoops h id e) ∧
    assign h id (parseOpt env e.print) = assign h id (parseOpt env t) := by
  have := reparse_wf env e (parseOpt_wf env hreg t e hp)
  unfold reparse at this
  rw [this, hp]
  exact ⟨rfl, rfl⟩

/-- `enable()` / `disable()` as the code has it: on enabling a disabled port its expression is replaced by
`parse(str(expression))`; a parse error there would propagate (after `_enabled = True`). -/
def setEnabledReparse (env : Env) (h : Hub) (id : String) (v : Bool) : Hub × Outcome :=
  match h.get id with
  | none => (h, .noSuchPort)
  | some p0 =>
    (h.modify id fun p =>
      if v && !p.enabled then
        { p with enabled := true, expr := match p.expr with
            | none => none
            | some e => (match reparse env e with | some e' => some e' | none => some e) }
      else { p with enabled := v },
     if v && !p0.enabled then
       (match p0.expr with
        | none => .ok
        | some e => (match reparse env e with | some _ => .ok | none => .parseError))
     else .ok)

/-- **C03 discharges the assumption inside C04's `setEnabled`**: with well-formed installed expressions, the re-parse of
`enable()` changes nothing and never fails. -/
theorem setEnabledReparse_eq (env : Env) (h : Hub) (id : String) (v : Bool) (hwf : AllWF env h) :
    setEnabledReparse env h id v = setEnabled h id v := by
  unfold setEnabledReparse setEnabled
  cases hg : h.get id with
  | none => rfl
  | some p0 =>
    simp only
    congr 1
    · unfold Hub.modify
      congr 1
      apply List.map_congr_left
      intro p hp
      by_cases hid : (p.id == id) = true
      · simp only [hid, if_true]
        by_cases hc : (v && !p.enabled) = true
        · rw [if_pos hc]
          have hv : v = true := by simp at hc; exact hc.1
          cases hpe : p.expr with
          | none => simp [hv]
          | some e => simp [hv, reparse_wf env e (hwf p hp e hpe)]
        · rw [if_neg hc]
      · simp only [hid]
        rfl
    · by_cases hc : (v && !p0.enabled) = true
      · rw [if_pos hc]
        cases hpe : p0.expr with
        | none => rfl
        | some e => simp [reparse_wf env e (hwf p0 (get_mem hg) e hpe)]
      · rw [if_neg hc]

end QtVerif.Integration
