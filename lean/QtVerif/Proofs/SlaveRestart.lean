import QtVerif.Model.SlaveRestart
import QtVerif.Proofs.SlaveOffline
/-!
Lemmas about the master restart of a permanently offline (webhook-driven) slave (`Model/SlaveRestart.lean`) and about
`provisionAndUpdate`, the synchronisation run that follows an event posted by such a slave (C13).
-/
namespace QtVerif.Slave

theorem loadPort_id (r : Bool) (p : MPort) : (loadPort r p.record).id = p.id := rfl

theorem findPort_map_p (l : List MPort) (j : Nat) (f : MPort → MPort) (hf : ∀ p, (f p).id = p.id) :
    findPort (l.map f) j = (findPort l j).map f := by
  induction l with
  | nil => rfl
  | cons a t ih =>
    unfold findPort at *
    simp only [List.map_cons, List.find?_cons, hf]
    cases (a.id == j) with
    | true => rfl
    | false => exact ih

/-- The port `id` after the restart is the port rebuilt from its own record. -/
theorem restart_findPort (r : Bool) (m : Master) (id : Nat) (p : MPort) (hp : findPort m.ports id = some p) :
    findPort (restartPermOffline r m).ports id = some (loadPort r p.record) := by
  unfold restartPermOffline
  simp only
  rw [findPort_map_p m.ports id (fun p => loadPort r p.record) (loadPort_id r), hp]
  rfl

theorem restart_ids (r : Bool) (m : Master) : (restartPermOffline r m).ports.map (·.id) = m.ports.map (·.id) := by
  unfold restartPermOffline
  simp only [List.map_map]
  apply List.map_congr_left
  intro p _
  rfl

theorem nodup_restart (r : Bool) (m : Master) (h : (m.ports.map (·.id)).Nodup) :
    ((restartPermOffline r m).ports.map (·.id)).Nodup := by
  rw [restart_ids]; exact h

theorem isEmpty_false_of_ne_nil {α : Type} {l : List α} (h : l ≠ []) : l.isEmpty = false := by
  cases l with
  | nil => exact absurd rfl h
  | cons _ _ => rfl

/-- Repaired `load_from_data` (commit 8847295): the rebuilt port has the same pending names, the same cached
attributes, hence the same attributes to push, and the same value to push. -/
theorem loadPort_restores (p : MPort) (h : p.attrs ≠ []) :
    (loadPort true p.record).prov = p.prov ∧ (loadPort true p.record).provValue = p.provValue ∧
    (loadPort true p.record).attrs = p.attrs ∧ (loadPort true p.record).pendAttrs = p.pendAttrs ∧
    (loadPort true p.record).pendValue = p.pendValue ∧ (loadPort true p.record).rq = [p.cached] := by
  have he := isEmpty_false_of_ne_nil h
  refine ⟨rfl, rfl, ?_, ?_, ?_, ?_⟩
  · simp [loadPort, MPort.record, he]
  · simp [loadPort, MPort.record, MPort.pendAttrs, he]
  · unfold loadPort MPort.record MPort.pendValue
    cases p.provValue <;> rfl
  · simp [loadPort, MPort.record, he]

/-- Unrepaired `load_from_data`: whatever was pending, the rebuilt port has NO value to push. -/
theorem loadPort_unrepaired_forgets (p : MPort) : (loadPort false p.record).pendValue = none := by
  unfold loadPort MPort.pendValue
  simp

/-! ### The synchronisation run of a webhook-driven slave -/

/-- Requests of `_provision_and_update`: all pushes, then the webhooks/reverse queries, then the refresh fetches
(as far as they get). -/
theorem provisionAndUpdate_reqs (fix : Fix) (rf : List Nat) (m : Master) (d : Option Attrs)
    (ps : Option (List PortMsg)) :
    ∃ tail, (provisionAndUpdate fix rf m d ps).1 = pushReqs fix m ++ queryReqs m ++ tail ∧
      (tail = [.getDevice] ∨ tail = [.getDevice, .getPorts]) ∧
      (d.isSome = true → tail = [.getDevice, .getPorts]) := by
  have h := applyProvisioning_reqs fix rf m
  unfold provisionAndUpdate
  cases d with
  | none => exact ⟨[.getDevice], by simp only [h], Or.inl rfl, by intro hh; cases hh⟩
  | some dv =>
    cases ps with
    | none => exact ⟨[.getDevice, .getPorts], by simp only [h], Or.inr rfl, fun _ => rfl⟩
    | some pl => exact ⟨[.getDevice, .getPorts], by simp only [h], Or.inr rfl, fun _ => rfl⟩

theorem tail_no_push (tail : List Req) (h : tail = [.getDevice] ∨ tail = [.getDevice, .getPorts]) (id : Nat) :
    tail.filter (Req.isValuePushFor id) = [] ∧ tail.filter (Req.isAttrPushFor id) = [] ∧
    (∀ r ∈ tail, r.isPush = false) := by
  rcases h with h | h <;> subst h <;> refine ⟨rfl, rfl, ?_⟩ <;> intro r hr <;>
    simp only [List.mem_cons, List.mem_nil_iff, or_false] at hr
  · subst hr; rfl
  · rcases hr with hr | hr <;> subst hr <;> rfl

/-- Among all the requests of a synchronisation run, those that carry the VALUE / ATTRIBUTES of port `p`. -/
theorem sync_port_reqs (fix : Fix) (rf : List Nat) (m : Master) (d : Option Attrs) (ps : Option (List PortMsg))
    (p : MPort) (hp : p ∈ m.ports) (hnd : (m.ports.map (·.id)).Nodup) :
    (provisionAndUpdate fix rf m d ps).1.filter (Req.isValuePushFor p.id) =
      (match p.pendValue with
       | some v => [Req.patchValue p.id (if fix.valueBody then some v else none)]
       | none => []) ∧
    (provisionAndUpdate fix rf m d ps).1.filter (Req.isAttrPushFor p.id) =
      (if p.pendAttrs.isEmpty then [] else [Req.patchPort p.id p.pendAttrs]) := by
  obtain ⟨tail, ht, hshape, _⟩ := provisionAndUpdate_reqs fix rf m d ps
  obtain ⟨t1, t2, _⟩ := tail_no_push tail hshape p.id
  have hv := reconnect_value_reqs fix { m with mode := .poll } p hp hnd
  have ha := reconnect_attr_reqs fix { m with mode := .poll } p hp hnd
  simp only [refreshReqs, List.append_nil] at hv ha
  have e1 : pushReqs fix { m with mode := .poll } = pushReqs fix m := rfl
  have e2 : queryReqs { m with mode := .poll } = queryReqs m := rfl
  rw [e1, e2] at hv ha
  rw [ht]
  constructor
  · rw [List.filter_append, t1, List.append_nil]; exact hv
  · rw [List.filter_append, t2, List.append_nil]; exact ha

/-- After a synchronisation run no port has anything pending, whatever the refresh fetches returned. -/
theorem provisionAndUpdate_ports_clean (fix : Fix) (rf : List Nat) (m : Master) (d : Option Attrs)
    (ps : Option (List PortMsg)) : AllClean (provisionAndUpdate fix rf m d ps).2.ports := by
  have hc : AllClean (applyProvisioning fix rf m).2.ports := by
    unfold applyProvisioning
    exact provisionPorts_clean fix rf m.ports
  unfold provisionAndUpdate
  generalize applyProvisioning fix rf m = A at hc
  cases d with
  | none => exact hc
  | some dv =>
    cases ps with
    | none => exact hc
    | some pl => exact allClean_fetchPorts fix _ pl hc

end QtVerif.Slave
