import QtVerif.Model.Faults
import QtVerif.Proofs.FaultsJ
namespace QtVerif.Faults

/-- One action on the effect view.  A pass is `apass` whatever its kind and time. -/
def astep (P : Params) (E : Env) (A : AState) : Action → AState
  | .pass _ _ => apass P E A
  | .setSrc p v => { A with ports := modPort p (setReg v) A.ports }
  | .apiWrite p v k => { A with ports := modPort p (enqApi v k) A.ports }
  | .eval p => { A with ports := modPort p (evalPort E) A.ports }
  | .write p =>
    { A with ports := modPort p (writePort E) A.ports,
             out := (match A.ports.find? (fun q => q.id == p) with
                     | some q => writeObs E q
                     | none => []) ++ A.out }
  | .create p => { A with ports := modPort p (setEnabled true) A.ports }
  | .remove p => { A with ports := modPort p (setEnabled false) A.ports }
  | .forceEval => { A with full := true }

def arun (P : Params) (E : Env) (A : AState) (σ : List Action) : AState := σ.foldl (astep P E) A

theorem modPort_strip (p : PortId) (f : Port → Port) (hf : ∀ q, strip (f q) = f (strip q)) (ps : List Port) :
    (modPort p f ps).map strip = modPort p f (ps.map strip) := by
  unfold modPort
  simp only [List.map_map]
  apply List.map_congr_left
  intro q _
  have e : (strip q).id = q.id := rfl
  simp only [Function.comp, e]
  split
  · exact hf q
  · rfl

theorem evalPort_strip (E : Env) (q : Port) : strip (evalPort E q) = evalPort E (strip q) := by
  unfold evalPort
  have e1 : (strip q).busy = q.busy := rfl
  have e2 : (strip q).evalQ = q.evalQ := rfl
  have e3 : (strip q).id = q.id := rfl
  have e4 : (strip q).last = q.last := rfl
  rw [e1, e2, e3, e4]
  split
  · rfl
  · split
    · rfl
    · split
      · rfl
      · split <;> rfl

theorem writePort_strip (E : Env) (q : Port) : strip (writePort E q) = writePort E (strip q) := by
  unfold writePort
  have e1 : (strip q).writeQ = q.writeQ := rfl
  have e2 : (strip q).id = q.id := rfl
  have e3 : (strip q).nwr = q.nwr := rfl
  rw [e1, e2, e3]
  split
  · rfl
  · split <;> rfl

theorem find_strip (p : PortId) (ps : List Port) :
    (ps.map strip).find? (fun q => q.id == p) = (ps.find? (fun q => q.id == p)).map strip := by
  induction ps with
  | nil => rfl
  | cons x xs ih =>
    have e : (strip x).id = x.id := rfl
    by_cases h : (x.id == p) = true <;> simp [e, h, ih]

theorem writeObs_effect (E : Env) (q : Port) : (writeObs E q).filter Obs.isEffect = writeObs E q := by
  unfold writeObs
  split
  · rfl
  · split <;> rfl

/-- every action on the effect view -/
theorem abs_step (H : PortId → Bool) (P : Params) (E : Env) (hst : Stable E H) (s : State) (hinv : InvH H s) (a : Action) :
    abs (step P E s a) = astep P E (abs s) a ∧ InvH H (step P E s a) := by
  obtain ⟨hall, herr, hal⟩ := hinv
  have hinv' : InvH H (step P E s a) → abs (step P E s a) = astep P E (abs s) a →
      abs (step P E s a) = astep P E (abs s) a ∧ InvH H (step P E s a) := fun h1 h2 => ⟨h2, h1⟩
  cases a with
  | pass k now => exact abs_pass H P E hst k now s ⟨hall, herr, hal⟩
  | setSrc p v =>
    refine ⟨?_, AllIn_of_ids H s.ports _ (modPort_ids p (setReg v) (fun _ => rfl) _) hall, herr, hal⟩
    simp only [abs, step, astep, modPort_strip p (setReg v) (fun _ => rfl)]
  | apiWrite p v k =>
    refine ⟨?_, AllIn_of_ids H s.ports _ (modPort_ids p (enqApi v k) (fun _ => rfl) _) hall, herr, hal⟩
    simp only [abs, step, astep, modPort_strip p (enqApi v k) (fun _ => rfl)]
  | eval p =>
    refine ⟨?_, AllIn_of_ids H s.ports _ (modPort_ids p (evalPort E) (evalPort_id E) _) hall, herr, hal⟩
    simp only [abs, step, astep, modPort_strip p (evalPort E) (evalPort_strip E)]
  | create p =>
    refine ⟨?_, AllIn_of_ids H s.ports _ (modPort_ids p (setEnabled true) (fun _ => rfl) _) hall, herr, hal⟩
    simp only [abs, step, astep, modPort_strip p (setEnabled true) (fun _ => rfl)]
  | remove p =>
    refine ⟨?_, AllIn_of_ids H s.ports _ (modPort_ids p (setEnabled false) (fun _ => rfl) _) hall, herr, hal⟩
    simp only [abs, step, astep, modPort_strip p (setEnabled false) (fun _ => rfl)]
  | forceEval => exact ⟨rfl, hall, herr, hal⟩
  | write p =>
    refine ⟨?_, AllIn_of_ids H s.ports _ (modPort_ids p (writePort E) (writePort_id E) _) hall, herr, hal⟩
    simp only [abs, step, astep, modPort_strip p (writePort E) (writePort_strip E), find_strip, List.filter_append]
    cases s.ports.find? (fun q => q.id == p) with
    | none => rfl
    | some q => simp only [Option.map_some, writeObs_effect]; rfl

theorem abs_run (H : PortId → Bool) (P : Params) (E : Env) (hst : Stable E H) :
    ∀ (σ : List Action) (s : State), InvH H s → abs (run P E s σ) = arun P E (abs s) σ := by
  intro σ
  induction σ with
  | nil => intro s _; rfl
  | cons a σ ih =>
    intro s hinv
    obtain ⟨h1, h2⟩ := abs_step H P E hst s hinv a
    have e1 : run P E s (a :: σ) = run P E (step P E s a) σ := rfl
    have e2 : arun P E (abs s) (a :: σ) = arun P E (astep P E (abs s) a) σ := rfl
    rw [e1, e2, ih _ h2, h1]
end QtVerif.Faults
