import QtVerif.Proofs.ParseScanSpec
/-! The declarative classification of rejected texts (`ClassifyAt`) and its equivalence with the parser model in both
directions (`classify_parse`, `parse_classify`). Helper definitions and lemmas for C03 (`reason_complete_and_sound`). -/
set_option linter.unusedSimpArgs false
namespace QtVerif.Parse
open QtVerif.Syntax

/-! ### the declarative classification of rejected texts -/

/-- offset, in `head ( t₁ , … , tₖ , t …`, at which `t` begins -/
def argOff (hd : List Char) (ts1 : List (List Char)) : Nat := hd.length + 1 + (pre ts1).length

/-- the error `LiteralValue.parse` raises for a text that is not a literal: the character after the longest prefix
matching `-?\d+(\.?\d+)?`, or the first character if there is no such prefix (`b` = position of the first character) -/
def litError (env : Env) (b : Nat) (core : List Char) : Err :=
  { kind := .unexpectedChar, pos := b + (litErrOff env core).getD 0,
    tok := (core.drop ((litErrOff env core).getD 0)).take 1 }

/-- **The classification of rejected texts**: `ClassifyAt env p s r` — the text `s`, whose first character has
position `p`, is rejected with the error `r` (reason, position, token, argument number). `core = trim s` is the text
without surrounding whitespace, `p + lead s` the position of its first character. The rules follow the order in which
the code reports faults: blank text; bad character in a port id; not a literal; the scanner's verdict on the
parenthesis/comma structure (`ScanErr`); then, for a well-shaped call `head ( t₁ , … , tₙ )`: bad character in the
name, unknown or disabled function, number of arguments, the first rejected argument (recursively, all arguments before
it being fine), argument kinds. -/
inductive ClassifyAt (env : Env) : Nat → List Char → Err → Prop
  | empty (p : Nat) (s : List Char) : trim s = [] → ClassifyAt env p s { kind := .empty }
  | portChar (p : Nat) (s : List Char) (pfx : Char) (good : List Char) (c : Char) (rest : List Char) :
      trim s = pfx :: (good ++ c :: rest) → (pfx = '$' ∨ pfx = '@') → (∀ x ∈ good, isIdChar x = true) →
      isIdChar c = false →
      ClassifyAt env p s { kind := .unexpectedChar, pos := good.length + (p + lead s) + 2, tok := [c] }
  | literal (p : Nat) (s : List Char) : trim s ≠ [] → headSpecial (trim s) = false → hasParen (trim s) = false →
      isLiteral env (trim s) = false → ClassifyAt env p s (litError env (p + lead s) (trim s))
  | scan (p : Nat) (s : List Char) (r : Err) : headSpecial (trim s) = false → hasParen (trim s) = true →
      ScanErr (p + lead s) (trim s) r → ClassifyAt env p s r
  | nameChar (p : Nat) (s hd : List Char) (ts : List (List Char)) (good : List Char) (c : Char) (rest : List Char) :
      trim s = hd ++ '(' :: joinC ts ++ [')'] → headSpecial (trim s) = false → NoParen hd → (∀ t ∈ ts, ArgText t) →
      trim hd = good ++ c :: rest → (∀ x ∈ good, isNameChar x = true) → isNameChar c = false →
      ClassifyAt env p s { kind := .unexpectedChar, pos := good.length + (p + lead s), tok := [c] }
  | unknown (p : Nat) (s hd : List Char) (ts : List (List Char)) :
      trim s = hd ++ '(' :: joinC ts ++ [')'] → headSpecial (trim s) = false → NoParen hd → (∀ t ∈ ts, ArgText t) →
      NameText (trim hd) →
      (lookup env.reg (trim hd) = none ∨ ∃ f, lookup env.reg (trim hd) = some f ∧ f.enabled = false) →
      ClassifyAt env p s { kind := .unknownFunction, pos := p + lead s, tok := trim hd }
  | arity (p : Nat) (s hd : List Char) (ts : List (List Char)) (f : FnSpec) :
      trim s = hd ++ '(' :: joinC ts ++ [')'] → headSpecial (trim s) = false → NoParen hd → (∀ t ∈ ts, ArgText t) →
      NameText (trim hd) → lookup env.reg (trim hd) = some f → f.enabled = true →
      (tooFew f ts.length = true ∨ tooMany f ts.length = true) →
      ClassifyAt env p s { kind := .invalidArgNum, pos := p + lead s, tok := trim hd }
  | arg (p : Nat) (s hd : List Char) (ts1 : List (List Char)) (t : List Char) (ts2 : List (List Char)) (f : FnSpec)
      (es1 : List Expr) (r : Err) :
      trim s = hd ++ '(' :: joinC (ts1 ++ t :: ts2) ++ [')'] → headSpecial (trim s) = false → NoParen hd →
      (∀ x ∈ ts1 ++ t :: ts2, ArgText x) →
      NameText (trim hd) → lookup env.reg (trim hd) = some f → f.enabled = true →
      ArityOK f (ts1 ++ t :: ts2).length → All2 (fun e x => Derives env e x) es1 ts1 →
      ClassifyAt env (p + lead s + argOff hd ts1) t r → ClassifyAt env p s r
  | kind (p : Nat) (s hd : List Char) (ts : List (List Char)) (f : FnSpec) (args : List Expr) (i : Nat) :
      trim s = hd ++ '(' :: joinC ts ++ [')'] → headSpecial (trim s) = false → NoParen hd → (∀ t ∈ ts, ArgText t) →
      NameText (trim hd) → lookup env.reg (trim hd) = some f → f.enabled = true → ArityOK f ts.length →
      All2 (fun e x => Derives env e x) args ts → firstBadKind f.kinds 0 args = some i →
      ClassifyAt env p s { kind := .invalidArgKind, pos := p + lead s + argOff hd (ts.take i) + 1, tok := f.canon,
                           num := i + 1 }

theorem lead_tight {s : List Char} (h : Tight s) : lead s = 0 := by
  cases s with
  | nil => rfl
  | cons c r => have := h.1 c rfl; simp [lead, List.takeWhile, this]

theorem tight_trim (s : List Char) : Tight (trim s) := (trim_decomp s).choose_spec.choose_spec.2.2.2
theorem lead_trim (s : List Char) : lead (trim s) = 0 := lead_tight (tight_trim s)
theorem trim_trim (s : List Char) : trim (trim s) = trim s := trim_tight (tight_trim s)

theorem firstNot_some {p : Char → Bool} : ∀ {s : List Char} {i k : Nat} {c : Char}, firstNot p s i = some (k, c) →
    ∃ good rest, s = good ++ c :: rest ∧ (∀ x ∈ good, p x = true) ∧ p c = false ∧ k = i + good.length := by
  intro s
  induction s with
  | nil => intro i k c h; simp [firstNot] at h
  | cons a r ih =>
    intro i k c h
    cases hp : p a with
    | false =>
      simp [firstNot, hp] at h
      obtain ⟨rfl, rfl⟩ := h
      refine ⟨[], r, rfl, ?_, hp, rfl⟩
      intro x hx; cases hx
    | true =>
      simp [firstNot, hp] at h
      obtain ⟨good, rest, h1, h2, h3, h4⟩ := ih h
      refine ⟨a :: good, rest, by simp [h1], ?_, h3, by simp; omega⟩
      intro x hx
      rcases List.mem_cons.mp hx with rfl | hx
      · exact hp
      · exact h2 x hx

theorem firstNot_of_split {p : Char → Bool} {good rest : List Char} {c : Char} (hg : ∀ x ∈ good, p x = true)
    (hc : p c = false) (i : Nat) : firstNot p (good ++ c :: rest) i = some (i + good.length, c) := by
  induction good generalizing i with
  | nil => simp [firstNot, hc]
  | cons a r ih =>
    simp only [List.cons_append, firstNot, hg a List.mem_cons_self, if_true]
    rw [ih (fun x hx => hg x (List.mem_cons_of_mem _ hx))]
    simp; omega

theorem offs_getElem? (b : Nat) (ts : List (List Char)) (i : Nat) (h : i < ts.length) :
    ((offs b ts)[i]?).map (·.2) = some (b + (pre (ts.take i)).length) := by
  induction ts generalizing b i with
  | nil => simp at h
  | cons t r ih =>
    cases i with
    | zero => simp [offs, pre]
    | succ j =>
      simp only [offs, List.getElem?_cons_succ, List.take_succ_cons, pre_length_cons]
      rw [ih (b + t.length + 1) j (by simpa using h)]
      simp; omega

theorem mapArgs_offs_ok (f : Nat → List Char → Except Err Expr) {es : List Expr} {ts : List (List Char)}
    (h : All2 (fun e x => ∀ q, f q x = .ok e) es ts) (b : Nat) : mapArgs f (offs b ts) = .ok es := by
  induction h generalizing b with
  | nil => rfl
  | cons h1 _ ih => simp [offs, mapArgs, h1, ih]

theorem mapArgs_append_err (f : Nat → List Char → Except Err Expr) {l1 : List (List Char × Nat)} {xs : List Expr}
    {a : List Char × Nat} {er : Err} (l2 : List (List Char × Nat)) (h1 : mapArgs f l1 = .ok xs)
    (h2 : f a.2 a.1 = .error er) : mapArgs f (l1 ++ a :: l2) = .error er := by
  induction l1 generalizing xs with
  | nil => rcases a with ⟨a, sp⟩; simp only [List.nil_append, mapArgs]; simp only at h2; rw [h2]
  | cons b r ih =>
    rcases b with ⟨b, sp⟩
    simp only [mapArgs, List.cons_append] at h1 ⊢
    cases hb : f sp b with
    | error e => rw [hb] at h1; cases h1
    | ok x =>
      rw [hb] at h1
      simp only at h1 ⊢
      cases hr : mapArgs f r with
      | error e => rw [hr] at h1; cases h1
      | ok ys => rw [ih hr]

theorem mapArgs_err_split {f : Nat → List Char → Except Err Expr} : ∀ {sargs : List (List Char × Nat)} {er : Err},
    mapArgs f sargs = .error er →
    ∃ l1 a l2 xs, sargs = l1 ++ a :: l2 ∧ mapArgs f l1 = .ok xs ∧ f a.2 a.1 = .error er := by
  intro sargs
  induction sargs with
  | nil => intro er h; simp [mapArgs] at h
  | cons a r ih =>
    intro er h
    rcases a with ⟨a, sp⟩
    simp only [mapArgs] at h
    cases h1 : f sp a with
    | error e => rw [h1] at h; cases h; exact ⟨[], (a, sp), r, [], rfl, rfl, h1⟩
    | ok x =>
      rw [h1] at h; simp only at h
      cases h2 : mapArgs f r with
      | error e =>
        rw [h2] at h; cases h
        obtain ⟨l1, b, l2, xs, hs, hl, hf⟩ := ih h2
        exact ⟨(a, sp) :: l1, b, l2, x :: xs, by simp [hs], by simp [mapArgs, h1, hl], hf⟩
      | ok xs => rw [h2] at h; cases h

theorem argText_lt_core {hd : List Char} {ts : List (List Char)} {t : List Char} (ht : t ∈ ts) :
    t.length < (hd ++ '(' :: joinC ts ++ [')']).length := by
  have := mem_joinC_length ht
  simp only [List.length_append, List.length_cons]; omega

theorem callcore_hasParen (hd x : List Char) : hasParen (hd ++ '(' :: x) = true := by simp [hasParen]

theorem all2_derives_fuel (env : Env) {es : List Expr} {ts : List (List Char)}
    (h : All2 (fun e x => Derives env e x) es ts) (m : Nat) (hm : ∀ x ∈ ts, x.length < m) :
    All2 (fun e x => ∀ q, parseFuel env m q x = .ok e) es ts :=
  all2_imp h (fun e _ x hx hd q => complete_aux env m e x q (hm x hx) hd)

theorem firstBadKind_lt {kinds : List KindSet} : ∀ {args : List Expr} {j i : Nat},
    firstBadKind kinds j args = some i → j ≤ i ∧ i < j + args.length := by
  intro args
  induction args with
  | nil => intro j i h; simp [firstBadKind] at h
  | cons a r ih =>
    intro j i h
    simp only [firstBadKind] at h
    split at h
    · have := ih h; simp; omega
    · cases h; simp

/-- **Every classified text is rejected with exactly that error** (for any sufficient fuel). -/
theorem classify_parse (env : Env) {p : Nat} {s : List Char} {r : Err} (h : ClassifyAt env p s r) :
    ∀ n, s.length < n → parseFuel env n p s = .error r := by
  induction h with
  | empty p s ht =>
    intro n hn
    obtain ⟨m, rfl⟩ : ∃ m, n = m + 1 := ⟨n - 1, by omega⟩
    have h0 : trim ([] : List Char) = [] := rfl
    rw [parseFuel_succ, ht]
    simp [headSpecial, hasParen, parseLiteral, h0]
  | portChar p s pfx good c rest ht hp hg hc =>
    intro n hn
    obtain ⟨m, rfl⟩ : ∃ m, n = m + 1 := ⟨n - 1, by omega⟩
    have hs : headSpecial (trim s) = true := by rw [ht]; rcases hp with rfl | rfl <;> rfl
    have htt := trim_trim s
    have hl0 := lead_trim s
    rw [ht] at htt hl0
    rw [parseFuel_succ, hs, ht]
    simp only [if_true, parsePort, htt, hl0]
    have hne : (good ++ c :: rest).isEmpty = false := by cases good <;> rfl
    simp only [hne, Bool.not_false, if_true, firstNot_of_split hg hc 0]
    simp
  | literal p s hne hs hp hl =>
    intro n hn
    obtain ⟨m, rfl⟩ : ∃ m, n = m + 1 := ⟨n - 1, by omega⟩
    rw [parseFuel_succ, hs, hp]
    simp only [Bool.false_eq_true, if_false, parseLiteral, trim_trim, lead_trim, Nat.add_zero]
    have he : (trim s).isEmpty = false := by
      cases h : trim s with
      | nil => exact absurd h hne
      | cons _ _ => rfl
    simp only [he, hl, Bool.false_eq_true, if_false, litError]
    cases ho : litErrOff env (trim s) with
    | none => simp
    | some off =>
      simp only [Option.getD_some]
      cases hd : (trim s).drop off with
      | nil => exact absurd hd (litErrOff_lt env hl ho)
      | cons c r => simp
  | scan p s r hs hp hsc =>
    intro n hn
    obtain ⟨m, rfl⟩ : ∃ m, n = m + 1 := ⟨n - 1, by omega⟩
    rw [parseFuel_succ, hs, hp]
    simp only [Bool.false_eq_true, if_false, if_true, parseCall, trim_trim, lead_trim, Nat.add_zero]
    rw [scan_of_scanErr hsc]
  | nameChar p s hd ts good c rest ht hs hnp hargs hnm hg hc =>
    intro n hn
    obtain ⟨m, rfl⟩ : ∃ m, n = m + 1 := ⟨n - 1, by omega⟩
    have hp : hasParen (trim s) = true := by rw [ht]; simp [hasParen]
    rw [parseFuel_succ, hs, hp]
    simp only [Bool.false_eq_true, if_false, if_true, parseCall, trim_trim, lead_trim, Nat.add_zero]
    rw [ht, scanF_ok _ hd ts [] hnp hargs allSpace_nil]
    simp only [hnm, firstNot_of_split hg hc 0]
    simp
  | unknown p s hd ts ht hs hnp hargs hnt hlk =>
    intro n hn
    obtain ⟨m, rfl⟩ : ∃ m, n = m + 1 := ⟨n - 1, by omega⟩
    have hp : hasParen (trim s) = true := by rw [ht]; simp [hasParen]
    rw [parseFuel_succ, hs, hp]
    simp only [Bool.false_eq_true, if_false, if_true, parseCall, trim_trim, lead_trim, Nat.add_zero]
    rw [ht, scanF_ok _ hd ts [] hnp hargs allSpace_nil]
    simp only [firstNot_none hnt]
    rcases hlk with h | ⟨f, h, he⟩
    · simp [h]
    · simp [h, he]
  | arity p s hd ts f ht hs hnp hargs hnt hlk hen har =>
    intro n hn
    obtain ⟨m, rfl⟩ : ∃ m, n = m + 1 := ⟨n - 1, by omega⟩
    have hp : hasParen (trim s) = true := by rw [ht]; simp [hasParen]
    rw [parseFuel_succ, hs, hp]
    simp only [Bool.false_eq_true, if_false, if_true, parseCall, trim_trim, lead_trim, Nat.add_zero]
    rw [ht, scanF_ok _ hd ts [] hnp hargs allSpace_nil]
    simp only [firstNot_none hnt, hlk, hen, offs_length]
    rcases har with h | h
    · simp [h]
    · cases hf : tooFew f ts.length <;> simp [h, hf]
  | arg p s hd ts1 t ts2 f es1 r ht hs hnp hargs hnt hlk hen har hd1 _ ih =>
    intro n hn
    obtain ⟨m, rfl⟩ : ∃ m, n = m + 1 := ⟨n - 1, by omega⟩
    have hp : hasParen (trim s) = true := by rw [ht]; simp [hasParen]
    have hlen := trim_length_le s
    have hlt : ∀ x ∈ ts1 ++ t :: ts2, x.length < m := by
      intro x hx
      have := argText_lt_core (hd := hd) hx
      rw [← ht] at this; omega
    rw [parseFuel_succ, hs, hp]
    simp only [Bool.false_eq_true, if_false, if_true, parseCall, trim_trim, lead_trim, Nat.add_zero]
    rw [ht, scanF_ok _ hd _ [] hnp hargs allSpace_nil]
    simp only [firstNot_none hnt, hlk, hen, offs_length, har.1, har.2]
    have h1 : mapArgs (fun sp a => parseFuel env m (p + lead s + sp) a) (offs (hd.length + 1) ts1) = .ok es1 :=
      mapArgs_offs_ok _ (all2_imp (all2_derives_fuel env hd1 m (fun x hx => hlt x (List.mem_append_left _ hx)))
        (fun e _ x _ h q => h _)) _
    have h2 := ih m (hlt t (by simp))
    rw [offs_append]
    simp only [offs]
    rw [mapArgs_append_err _ _ h1 (by simpa [argOff, Nat.add_assoc] using h2)]
    simp
  | kind p s hd ts f args i ht hs hnp hargs hnt hlk hen har hda hk =>
    intro n hn
    obtain ⟨m, rfl⟩ : ∃ m, n = m + 1 := ⟨n - 1, by omega⟩
    have hp : hasParen (trim s) = true := by rw [ht]; simp [hasParen]
    have hlen := trim_length_le s
    have hlt : ∀ x ∈ ts, x.length < m := by
      intro x hx
      have := argText_lt_core (hd := hd) hx
      rw [← ht] at this; omega
    rw [parseFuel_succ, hs, hp]
    simp only [Bool.false_eq_true, if_false, if_true, parseCall, trim_trim, lead_trim, Nat.add_zero]
    rw [ht, scanF_ok _ hd _ [] hnp hargs allSpace_nil]
    simp only [firstNot_none hnt, hlk, hen, offs_length, har.1, har.2]
    have h1 : mapArgs (fun sp a => parseFuel env m (p + lead s + sp) a) (offs (hd.length + 1) ts) = .ok args :=
      mapArgs_offs_ok _ (all2_imp (all2_derives_fuel env hda m hlt) (fun e _ x _ h q => h _)) _
    rw [h1]
    simp only [Bool.not_true, Bool.false_eq_true, if_false, hk]
    have hi : i < ts.length := by
      have := (firstBadKind_lt hk).2
      rw [all2_length hda] at this; omega
    rw [offs_getElem? _ ts i hi]
    simp [argOff, Nat.add_assoc]

theorem ClassifyAt.cast {env : Env} {p : Nat} {s : List Char} {r r' : Err} (h : ClassifyAt env p s r) (he : r = r') :
    ClassifyAt env p s r' := by subst he; exact h

theorem offs_split {b : Nat} {ts : List (List Char)} {l1 l2 : List (List Char × Nat)} {a : List Char × Nat}
    (h : offs b ts = l1 ++ a :: l2) :
    ∃ ts1 t ts2, ts = ts1 ++ t :: ts2 ∧ l1 = offs b ts1 ∧ a = (t, b + (pre ts1).length) := by
  have hm := congrArg (List.map Prod.fst) h
  rw [offs_map_fst] at hm
  simp only [List.map_append, List.map_cons] at hm
  refine ⟨l1.map Prod.fst, a.1, l2.map Prod.fst, hm, ?_, ?_⟩
  · rw [hm, offs_append] at h
    simp only [offs] at h
    have := List.append_inj h (by rw [offs_length]; simp)
    exact this.1.symm
  · rw [hm, offs_append] at h
    simp only [offs] at h
    have := List.append_inj h (by rw [offs_length]; simp)
    have := this.2
    simp at this
    exact this.1.symm

theorem all2_offs_derives (env : Env) (f : Nat → List Char → Except Err Expr)
    (hf : ∀ q x e, f q x = .ok e → Derives env e x) :
    ∀ {ts : List (List Char)} {b : Nat} {es : List Expr}, mapArgs f (offs b ts) = .ok es →
      All2 (fun e x => Derives env e x) es ts := by
  intro ts
  induction ts with
  | nil => intro b es h; simp [offs, mapArgs] at h; subst h; exact All2.nil
  | cons t r ih =>
    intro b es h
    simp only [offs, mapArgs] at h
    cases h1 : f b t with
    | error e => rw [h1] at h; cases h
    | ok x =>
      rw [h1] at h; simp only at h
      cases h2 : mapArgs f (offs (b + t.length + 1) r) with
      | error e => rw [h2] at h; cases h
      | ok xs =>
        rw [h2] at h; simp only at h; cases h
        exact All2.cons (hf _ _ _ h1) (ih h2)

/-- **Every rejection is classified**: the error of the parser is the one the classification assigns. -/
theorem parse_classify (env : Env) : ∀ (n p : Nat) (s : List Char) (r : Err), s.length < n →
    parseFuel env n p s = .error r → ClassifyAt env p s r := by
  intro n
  induction n with
  | zero => intro p s r h; omega
  | succ m ih =>
    intro p s r hlen h
    rw [parseFuel_succ] at h
    have htight := tight_trim s
    cases hhs : headSpecial (trim s) with
    | true =>
      rw [hhs] at h; simp only [if_true] at h
      obtain ⟨rr, hr⟩ := headSpecial_cases hhs
      simp only [parsePort, trim_trim, lead_trim, Nat.add_zero] at h
      have key : ∀ pfx : Char, (pfx = '$' ∨ pfx = '@') → trim s = pfx :: rr → ClassifyAt env p s r := by
        intro pfx hpfx ht
        rw [ht] at h
        simp only at h
        cases hre : rr.isEmpty with
        | true => simp only [hre, Bool.not_true, Bool.false_eq_true, if_false] at h; split at h <;> cases h
        | false =>
          simp only [hre, Bool.not_false, if_true] at h
          cases hf : firstNot isIdChar rr 0 with
          | none => rw [hf] at h; simp only at h; split at h <;> cases h
          | some kc =>
            rcases kc with ⟨k, c⟩
            rw [hf] at h; simp only at h; cases h
            obtain ⟨good, rest, h1, h2, h3, h4⟩ := firstNot_some hf
            refine (ClassifyAt.portChar p s pfx good c rest (by rw [ht, h1]) hpfx h2 h3).cast ?_
            simp [h4]
      rcases hr with hr | hr
      · exact key '$' (Or.inl rfl) hr
      · exact key '@' (Or.inr rfl) hr
    | false =>
      rw [hhs] at h; simp only [Bool.false_eq_true, if_false] at h
      cases hhp : hasParen (trim s) with
      | false =>
        rw [hhp] at h; simp only [Bool.false_eq_true, if_false] at h
        simp only [parseLiteral, trim_trim, lead_trim, Nat.add_zero] at h
        cases hem : (trim s).isEmpty with
        | true =>
          simp only [hem, if_true] at h; cases h
          exact ClassifyAt.empty p s (by simpa using hem)
        | false =>
          simp only [hem, Bool.false_eq_true, if_false] at h
          cases hl : isLiteral env (trim s) with
          | true => simp [hl] at h
          | false =>
            simp only [hl, Bool.false_eq_true, if_false] at h
            have hne : trim s ≠ [] := by intro h0; rw [h0] at hem; simp at hem
            refine (ClassifyAt.literal p s hne hhs hhp hl).cast ?_
            simp only [litError]
            cases ho : litErrOff env (trim s) with
            | none => rw [ho] at h; simp only at h; cases h; simp
            | some off =>
              rw [ho] at h; simp only at h
              cases hd : (trim s).drop off with
              | nil => exact absurd hd (litErrOff_lt env hl ho)
              | cons c rr => rw [hd] at h; simp only at h; cases h; simp [hd]
      | true =>
        rw [hhp] at h; simp only [if_true] at h
        simp only [parseCall, trim_trim, lead_trim, Nat.add_zero] at h
        cases hsc : scan (p + lead s) (trim s) with
        | error e =>
          rw [hsc] at h; cases h
          exact ClassifyAt.scan p s _ hhs hhp (scanErr_of_scan hsc)
        | ok res =>
          rcases res with ⟨hd, sargs⟩
          rw [hsc] at h; simp only at h
          obtain ⟨ts, tail, ht, hnp, hargs, htail, hso⟩ := scan_ok_shape hsc
          have htl : tail = [] := by
            have : trim s = (hd ++ '(' :: joinC ts) ++ ')' :: tail := by rw [ht]
            rw [this] at htight
            exact tight_append_tail ')' htight htail
          subst htl
          subst hso
          have ht' : trim s = hd ++ '(' :: joinC ts ++ [')'] := ht
          cases hfn : firstNot isNameChar (trim hd) 0 with
          | some kc =>
            rcases kc with ⟨k, c⟩
            rw [hfn] at h; simp only at h; cases h
            obtain ⟨good, rest, h1, h2, h3, h4⟩ := firstNot_some hfn
            refine (ClassifyAt.nameChar p s hd ts good c rest ht' hhs hnp hargs h1 h2 h3).cast ?_
            simp [h4]
          | none =>
            rw [hfn] at h; simp only at h
            have hnt : NameText (trim hd) := firstNot_none_all hfn
            cases hlk : lookup env.reg (trim hd) with
            | none =>
              rw [hlk] at h; simp only at h; cases h
              exact ClassifyAt.unknown p s hd ts ht' hhs hnp hargs hnt (Or.inl hlk)
            | some f =>
              rw [hlk] at h; simp only at h
              cases hen : f.enabled with
              | false =>
                simp only [hen, Bool.not_false, if_true] at h; cases h
                exact ClassifyAt.unknown p s hd ts ht' hhs hnp hargs hnt (Or.inr ⟨f, hlk, hen⟩)
              | true =>
                simp only [hen, Bool.not_true, Bool.false_eq_true, if_false, offs_length] at h
                cases hfew : tooFew f ts.length with
                | true =>
                  simp only [hfew, if_true] at h; cases h
                  exact ClassifyAt.arity p s hd ts f ht' hhs hnp hargs hnt hlk hen (Or.inl hfew)
                | false =>
                  simp only [hfew, Bool.false_eq_true, if_false] at h
                  cases hmany : tooMany f ts.length with
                  | true =>
                    simp only [hmany, if_true] at h; cases h
                    exact ClassifyAt.arity p s hd ts f ht' hhs hnp hargs hnt hlk hen (Or.inr hmany)
                  | false =>
                    simp only [hmany, Bool.false_eq_true, if_false] at h
                    have hlt : ∀ x ∈ ts, x.length < m := by
                      intro x hx
                      have h1 := argText_lt_core (hd := hd) hx
                      have h2 := trim_length_le s
                      rw [← ht'] at h1; omega
                    have hsound : ∀ q x e, parseFuel env m (p + lead s + q) x = .ok e → Derives env e x :=
                      fun q x e hx => sound_aux env m _ x e hx
                    cases hma : mapArgs (fun sp a => parseFuel env m (p + lead s + sp) a) (offs (hd.length + 1) ts) with
                    | error e =>
                      rw [hma] at h; simp only at h; cases h
                      obtain ⟨l1, a, l2, xs, hsp, hok, hfail⟩ := mapArgs_err_split hma
                      obtain ⟨ts1, t, ts2, rfl, rfl, rfl⟩ := offs_split hsp
                      have hd1 := all2_offs_derives env _ hsound hok
                      have hcl := ih _ t r (hlt t (by simp)) hfail
                      exact ClassifyAt.arg p s hd ts1 t ts2 f xs r ht' hhs hnp hargs hnt hlk hen ⟨hfew, hmany⟩ hd1
                        (by simpa [argOff, Nat.add_assoc] using hcl)
                    | ok args =>
                      rw [hma] at h; simp only at h
                      have hda := all2_offs_derives env _ hsound hma
                      cases hbk : firstBadKind f.kinds 0 args with
                      | none => rw [hbk] at h; cases h
                      | some i =>
                        rw [hbk] at h; simp only at h; cases h
                        have hi : i < ts.length := by
                          have := (firstBadKind_lt hbk).2
                          rw [all2_length hda] at this; omega
                        refine (ClassifyAt.kind p s hd ts f args i ht' hhs hnp hargs hnt hlk hen ⟨hfew, hmany⟩ hda
                          hbk).cast ?_
                        rw [offs_getElem? _ ts i hi]
                        simp [argOff, Nat.add_assoc]

/-- the reason-level classification: `s` is rejected for the reason `k` -/
def Classify (env : Env) (s : List Char) (k : ErrKind) : Prop := ∃ r, ClassifyAt env 1 s r ∧ r.kind = k

/-- For the two reasons that point at a character (`unbalanced-parentheses`, `unexpected-character`), the position the
scanner reports is the position of an actual character of the text — the offending one: a `)` for unbalanced
parentheses, the reported token for an unexpected character. -/
theorem scanErr_position {pos : Nat} {t : List Char} {er : Err} (h : ScanErr pos t er)
    (hk : er.kind = .unbalanced ∨ er.kind = .unexpectedChar) :
    ∃ before c rest, t = before ++ c :: rest ∧ er.pos = pos + before.length ∧
      (er.kind = .unbalanced → c = ')') ∧ (er.kind = .unexpectedChar → er.tok = [c]) := by
  cases h with
  | noCall _ h => simp at hk
  | closeFirst hd rest h => exact ⟨hd, ')', rest, rfl, rfl, fun _ => rfl, by simp⟩
  | blankComma hd ts blank rest h1 h2 h3 =>
    exact ⟨hd ++ '(' :: pre ts ++ blank, ',', rest, by simp, by simp; omega, by simp, by simp⟩
  | unterminated hd ts w h1 h2 h3 => simp at hk
  | afterClose hd ts cur ws c rest h1 h2 h3 h4 h5 =>
    refine ⟨hd ++ '(' :: pre ts ++ cur ++ ')' :: ws, c, rest, by simp, ?_, ?_, ?_⟩
    · by_cases hc : c = ')' <;> simp [hc] <;> omega
    · by_cases hc : c = ')' <;> simp [hc]
    · by_cases hc : c = ')' <;> simp [hc]
  | blankClose hd ts blank tail h1 h2 h3 h4 h5 =>
    exact ⟨hd ++ '(' :: pre ts ++ blank, ')', tail, by simp, by simp; omega, by simp, by simp⟩

end QtVerif.Parse
