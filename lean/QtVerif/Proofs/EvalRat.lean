import QtVerif.Model.Eval
/-!
An exact carrier for the examples and the lawful-carrier statements of C02: "floats" are rational numbers, every
operation is exact, nothing overflows, there is no NaN.  (Irrational powers are not representable in this carrier and
are reported as OverflowError; negative base with a non-integral exponent is `complex`, as in Python.)
Kernel evaluation: `decide +kernel`.
-/
namespace QtVerif.Num

def ratCmp (a b : Rat) : Ordering := if a < b then .lt else if a = b then .eq else .gt

def ratTrunc (x : Rat) : Int := if 0 ≤ x then x.floor else -((-x).floor)

/-- round half even to an integer -/
def ratRoundEven (y : Rat) : Int :=
  let fl := y.floor
  let r := y - (fl : Rat)
  if (1 : Rat) / 2 < r ∨ (r = (1 : Rat) / 2 ∧ fl % 2 = 1) then fl + 1 else fl

def ratRound (x : Rat) (n : Int) : Rat :=
  let s : Rat := (10 : Rat) ^ n.natAbs
  if 0 ≤ n then (ratRoundEven (x * s) : Rat) / s else (ratRoundEven (x / s) : Rat) * s

def ratPow (x y : Rat) : PowOut Rat :=
  if y.den = 1 then
    if 0 ≤ y.num then .val (x ^ y.num.toNat)
    else if x = 0 then .zeroDiv
    else .val ((1 / x) ^ (-y.num).toNat)
  else if x < 0 then .complex
  else if x = 0 then .val 0
  else .overflow

/-- The exact rational carrier. -/
@[reducible] def exactRat : PyFloat Rat where
  zero := 0
  add := (· + ·)
  sub := (· - ·)
  mul := (· * ·)
  div := (· / ·)
  neg := fun x => -x
  abs := fun x => if x < 0 then -x else x
  lt := fun a b => decide (a < b)
  le := fun a b => decide (a ≤ b)
  beq := fun a b => decide (a = b)
  isFinite := fun _ => true
  ofInt := fun n => some (n : Rat)
  cmpInt := fun n x => some (ratCmp (n : Rat) x)
  trunc := fun x => .ok (ratTrunc x)
  floor := fun x => .ok x.floor
  ceil := fun x => .ok (-((-x).floor))
  pyMod := fun x y => x - y * ((x / y).floor : Rat)
  intDiv := fun a b => some ((a : Rat) / (b : Rat))
  round := fun x n => some (ratRound x n)
  pow := ratPow

end QtVerif.Num
