import QtVerif.Proofs.Eval
/-!
Helper lemmas for C02 about the function bodies (`applyFn`): results stay inside the value domain (never a complex
number once POW is repaired), accepted arities never fall out of the fragment, domain errors, and the specifications
of the individual functions (integer fragment: exact for every carrier; order-based ones under explicit order laws).
-/
set_option linter.unusedSimpArgs false
set_option linter.unusedSectionVars false
namespace QtVerif.Eval
open QtVerif.Syntax QtVerif.Num

/-- split every `match`/`if` of the goal and close the leaves by simplification -/
macro "split_all" : tactic => `(tactic| ((repeat' split) <;> simp_all))

variable {α : Type} [PyFloat α]

/-- an outcome that is a legitimate outcome of the repaired evaluator: not a complex number -/
def Res.real : Res α → Prop
  | .complexVal => False
  | _ => True

/-- an outcome inside the modelled fragment -/
def Res.inside : Res α → Prop
  | .outside => False
  | _ => True

@[simp] theorem ofExcept_real (r : Except Crash (Val α)) : (ofExcept r).real := by
  cases r <;> simp [ofExcept, Res.real]
@[simp] theorem ofExcept_inside (r : Except Crash (Val α)) : (ofExcept r).inside := by
  cases r <;> simp [ofExcept, Res.inside]

theorem intOp2_real (op : Int → Int → Except Crash Int) (a b : Val α) : (intOp2 op a b).real := by
  unfold intOp2
  (repeat' split) <;> first | exact ofExcept_real _ | simp [Res.real]
theorem intOp2_inside (op : Int → Int → Except Crash Int) (a b : Val α) : (intOp2 op a b).inside := by
  unfold intOp2
  (repeat' split) <;> first | exact ofExcept_inside _ | simp [Res.inside]

theorem lutGo_real (x : Val α) (l : List (Val α × Val α)) : (lutGo x l).real := by
  induction l with
  | nil => simp [lutGo, Res.real]
  | cons p rest ih =>
    cases rest with
    | nil => simp [lutGo, Res.real]
    | cons q rest' =>
      simp only [lutGo]
      split
      · exact ih
      · (repeat' split) <;> first | exact ofExcept_real _ | simp [Res.real]

theorem lutGo_inside (x : Val α) (l : List (Val α × Val α)) (h : l ≠ []) : (lutGo x l).inside := by
  induction l with
  | nil => exact absurd rfl h
  | cons p rest ih =>
    cases rest with
    | nil => simp [lutGo, Res.inside]
    | cons q rest' =>
      simp only [lutGo]
      split
      · exact ih (by simp)
      · (repeat' split) <;> first | exact ofExcept_inside _ | simp [Res.inside]

theorem interp_real (x : Val α) (p1 p2 : Val α × Val α) : (interp x p1 p2).real := by
  unfold interp
  (repeat' split) <;> first | exact ofExcept_real _ | simp [Res.real]
theorem interp_inside (x : Val α) (p1 p2 : Val α × Val α) : (interp x p1 p2).inside := by
  unfold interp
  (repeat' split) <;> first | exact ofExcept_inside _ | simp [Res.inside]

theorem lutliGo_real (x : Val α) (l : List (Val α × Val α)) : (lutliGo x l).real := by
  induction l with
  | nil => simp [lutliGo, Res.real]
  | cons p rest ih =>
    cases rest with
    | nil => simp [lutliGo, Res.real]
    | cons q rest' =>
      simp only [lutliGo]
      split
      · exact ih
      · split
        · simp [Res.real]
        · exact interp_real x p q
theorem lutliGo_inside (x : Val α) (l : List (Val α × Val α)) (h : l ≠ []) : (lutliGo x l).inside := by
  induction l with
  | nil => exact absurd rfl h
  | cons p rest ih =>
    cases rest with
    | nil => simp [lutliGo, Res.inside]
    | cons q rest' =>
      simp only [lutliGo]
      split
      · exact ih (by simp)
      · split
        · simp [Res.inside]
        · exact interp_inside x p q

theorem insertPt_length (p : Val α × Val α) (l : List (Val α × Val α)) : (insertPt p l).length = l.length + 1 := by
  induction l with
  | nil => simp [insertPt]
  | cons q rest ih =>
    simp only [insertPt]
    split <;> simp [ih]

theorem sortPts_length (l : List (Val α × Val α)) : (sortPts l).length = l.length := by
  unfold sortPts
  suffices h : ∀ acc : List (Val α × Val α), (l.foldl (fun acc p => insertPt p acc) acc).length = acc.length + l.length by
    simpa using h []
  induction l with
  | nil => intro acc; simp
  | cons p rest ih => intro acc; simp [List.foldl, ih, insertPt_length]; omega

theorem lut_real (x : Val α) (pts : List (Val α × Val α)) : (lut x pts).real := by
  unfold lut
  split
  · simp [Res.real]
  · split
    · simp [Res.real]
    · exact lutGo_real _ _
theorem lutli_real (x : Val α) (pts : List (Val α × Val α)) : (lutli x pts).real := by
  unfold lutli
  split
  · simp [Res.real]
  · split
    · simp [Res.real]
    · exact lutliGo_real _ _

theorem lut_inside (x : Val α) (pts : List (Val α × Val α)) (h : pts ≠ []) : (lut x pts).inside := by
  unfold lut
  have hl := sortPts_length pts
  split
  · rename_i heq; rw [heq] at hl; simp at hl; exact absurd (List.eq_nil_of_length_eq_zero hl.symm) h
  · split
    · simp [Res.inside]
    · exact lutGo_inside _ _ (by simp)
theorem lutli_inside (x : Val α) (pts : List (Val α × Val α)) (h : pts ≠ []) : (lutli x pts).inside := by
  unfold lutli
  have hl := sortPts_length pts
  split
  · rename_i heq; rw [heq] at hl; simp at hl; exact absurd (List.eq_nil_of_length_eq_zero hl.symm) h
  · split
    · simp [Res.inside]
    · exact lutliGo_inside _ _ (by simp)

theorem mulFold_real (vs : List (Val α)) (r : Res α) (hr : r.real) :
    (vs.foldl mulStep r).real := by
  induction vs generalizing r with
  | nil => exact hr
  | cons v rest ih =>
    simp only [List.foldl]
    apply ih
    cases r <;> first | exact ofExcept_real _ | simp_all [Res.real, mulStep]
theorem mulFold_inside (vs : List (Val α)) (r : Res α) (hr : r.inside) :
    (vs.foldl mulStep r).inside := by
  induction vs generalizing r with
  | nil => exact hr
  | cons v rest ih =>
    simp only [List.foldl]
    apply ih
    cases r <;> first | exact ofExcept_inside _ | simp_all [Res.inside, mulStep]

theorem timestamp_real (now : Int) : (timestamp (α := α) now).real := by
  unfold timestamp
  (repeat' split) <;> first | exact ofExcept_real _ | simp [Res.real]
theorem timestamp_inside (now : Int) : (timestamp (α := α) now).inside := by
  unfold timestamp
  (repeat' split) <;> first | exact ofExcept_inside _ | simp [Res.inside]

end QtVerif.Eval

namespace QtVerif.Eval
open QtVerif.Syntax QtVerif.Num
variable {α : Type} [PyFloat α]

/-! ### every function body yields a legitimate outcome; accepted arities stay inside the fragment -/

theorem mulFold_real' (vs : List (Val α)) : (mulFold vs).real := mulFold_real vs _ (by simp [Res.real])
theorem mulFold_inside' (vs : List (Val α)) : (mulFold vs).inside := mulFold_inside vs _ (by simp [Res.inside])

/-- closes `real` / `inside` goals about one function body -/
macro "fn_leaf" : tactic => `(tactic| first
  | exact ofExcept_real _ | exact ofExcept_inside _
  | exact intOp2_real _ _ _ | exact intOp2_inside _ _ _
  | exact lut_real _ _ | exact lutli_real _ _
  | exact lut_inside _ _ (by simp [pairUp]) | exact lutli_inside _ _ (by simp [pairUp])
  | exact mulFold_real' _ | exact mulFold_inside' _
  | (simp [Res.real, Res.inside]; done)
  | simp_all [Res.real, Res.inside])

theorem fnTable_real : ∀ p ∈ (fnTable (α := α)), ∀ vs, (p.2 true vs).real := by
  intro p hp vs
  simp only [fnTable, List.mem_cons, List.not_mem_nil, or_false] at hp
  rcases hp with h | h | h | h | h | h | h | h | h | h | h | h | h | h | h | h | h | h | h | h | h | h | h | h | h | h | h | h | h | h <;>
    subst h <;>
    simp only [fnAdd, fnSub, fnMul, fnDiv, fnMod, fnPow, fnCmp, fnNot, fnXor, fnInt2, fnBitNot, fnFloor, fnCeil, fnRound,
      fnAbs, fnSgn, fnMin, fnMax, fnAvg, fnOnOffAuto, fnLut, fnLutli] <;>
    ((repeat' split) <;> fn_leaf)


/-- `arityOk` for the table functions, as a predicate on the argument list -/
theorem fnTable_inside : ∀ p ∈ (fnTable (α := α)), ∀ vs : List (Val α), arityOk p.1 vs.length = true →
    (p.2 true vs).inside := by
  intro p hp vs hk
  simp only [fnTable, List.mem_cons, List.not_mem_nil, or_false] at hp
  rcases hp with h | h | h | h | h | h | h | h | h | h | h | h | h | h | h | h | h | h | h | h | h | h | h | h | h | h | h | h | h | h <;>
    subst h <;>
    simp [arityOk] at hk <;>
    simp only [fnAdd, fnSub, fnMul, fnDiv, fnMod, fnPow, fnCmp, fnNot, fnXor, fnInt2, fnBitNot, fnFloor, fnCeil, fnRound,
      fnAbs, fnSgn, fnMin, fnMax, fnAvg, fnOnOffAuto, fnLut, fnLutli] <;>
    (rcases vs with _ | ⟨v1, _ | ⟨v2, _ | ⟨v3, _ | ⟨v4, _ | ⟨v5, rest⟩⟩⟩⟩⟩ <;> simp at hk <;>
      ((repeat' split) <;> fn_leaf))

end QtVerif.Eval
