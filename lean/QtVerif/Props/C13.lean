import QtVerif.Proofs.SlaveOffline
import QtVerif.Proofs.SlaveRestart
/-!
C13 — Changes made while a slave is offline are pushed once it is back online.

Property theorems only; the model is `QtVerif/Model/Slave.lean` (+ `Model/SlaveRestart.lean`: master restart of a
webhook-driven slave, §5), helper lemmas are in `QtVerif/Proofs/SlaveProvision.lean`, `Proofs/SlaveOffline.lean` and
`Proofs/SlaveRestart.lean`. The theorems hold for every master state, every number of ports, every set of
offline edits, every sequence of messages reaching the master before the reconnect (`Inc`: events reported by
the slave, handled by the listen loop BEFORE `apply_provisioning`, and ticks of the hub's polling loop), both sync
modes, every answer of the refresh fetches. `Fix.repaired` = the code with fixes/C13-*.diff applied
(`valueBody`, `keepPending`, `keepPendingValue`); `Fix.asFound` = the pinned commit; the `unrepaired_…` theorems prove
the negation with the corresponding repair switched off.
-/
namespace QtVerif.Slave.C13
open QtVerif.Slave

/-! ### 1. Offline edits are reported as pending and are kept -/

/-- A port ATTRIBUTE edited while the slave is offline is not sent; it is reported as pending and the mirror holds
the user's value (it is among the attributes that the reconnect will push). -/
theorem offline_attr_edit_pending (m : Master) (hoff : m.online = false) (id n : Nat) (v : Int) (p : MPort)
    (hp : findPort m.ports id = some p) :
    (editAttr m id n v).2 = [] ∧
    ∃ p', findPort (editAttr m id n v).1.ports id = some p' ∧ n ∈ p'.prov ∧ (n, v) ∈ p'.pendAttrs := by
  rw [editAttr_offline m hoff]
  refine ⟨rfl, ?_⟩
  simp only
  rw [findPort_updPort_p m.ports id id (attrEdit n v) (fun _ => rfl), hp]
  have hid : (p.id == id) = true := by simp [findPort_some_id hp]
  simp only [Option.map_some, hid, if_true]
  exact ⟨_, rfl, mem_addName _ _, mem_pendAttrs.mpr ⟨mem_addName _ _, Attrs.get?_set_same _ _ _⟩⟩

/-- A port VALUE written while the slave is offline is not sent; it is reported as pending with the user's value. -/
theorem offline_value_edit_pending (m : Master) (hoff : m.online = false) (id : Nat) (v : Int) (ok : Bool)
    (p : MPort) (hp : findPort m.ports id = some p) :
    (editValue m id v ok).2 = [] ∧
    ∃ p', findPort (editValue m id v ok).1.ports id = some p' ∧ p'.provValue = true ∧ p'.pendValue = some v ∧
      p'.rq = p.rq := by
  rw [editValue_offline m hoff]
  refine ⟨rfl, ?_⟩
  simp only
  rw [findPort_updPort_p m.ports id id (valueEdit v) (fun _ => rfl), hp]
  have hid : (p.id == id) = true := by simp [findPort_some_id hp]
  simp only [Option.map_some, hid, if_true]
  exact ⟨_, rfl, rfl, rfl, rfl⟩

/-- A DEVICE attribute edited while the slave is offline is not sent; it is reported as pending with the user's value. -/
theorem offline_device_edit_pending (m : Master) (hoff : m.online = false) (n : Nat) (v : Int) :
    (editDev m n v).2 = [] ∧ n ∈ (editDev m n v).1.devProv ∧ (editDev m n v).1.dev.get? n = some v := by
  rw [editDev_offline m hoff]
  exact ⟨rfl, mem_addName _ _, Attrs.get?_set_same _ _ _⟩

/-- **Kept, with `read_value` as found or repaired (`kv`), the remote queue having been read out.** Whatever the
slave reports before the reconnect (value changes, port updates carrying other attributes and its own value,
additions/removals of other ports, device updates) and however the hub's polling loop ticks in between, the pending
edits of a port that is not removed survive: same pending names, every pending attribute still holds the user's
value, and — the remote queue having been read out when the value was written (`hq`) — the pending value is still
the user's. (Repaired `_handle_port_update`; `hq` is needed for `kv = false` only, see
`unrepaired_offline_write_over_unread_queue_is_lost`; `offline_edits_pending_and_kept` below does without.) -/
theorem offline_edits_pending_and_kept_queue_read_out (vb kv : Bool) (m : Master) (incs : List Inc) (id : Nat)
    (p : MPort) (hp : findPort m.ports id = some p) (hnr : Inc.ev (.portRemove id) ∉ incs) (hq : p.rq = []) :
    ∃ p', findPort (runInc ⟨vb, true, kv⟩ m incs).ports id = some p' ∧
      p'.prov = p.prov ∧ p'.provValue = p.provValue ∧
      (∀ nv ∈ p.pendAttrs, nv ∈ p'.pendAttrs) ∧
      (∀ v, p.pendValue = some v → p'.pendValue = some v) := by
  obtain ⟨p', hp', k1, k2, k3, k4, _⟩ := runInc_port_kept vb kv id incs m p hp hnr
  refine ⟨p', hp', k1, k2, ?_, ?_⟩
  · rintro ⟨n, v⟩ hnv
    obtain ⟨hn, hv⟩ := mem_pendAttrs.mp hnv
    exact mem_pendAttrs.mpr ⟨by rw [k1]; exact hn, k4 n hn v hv⟩
  · intro v hv
    have hs : p.pendValue.isSome := by rw [hv]; rfl
    unfold MPort.pendValue at *
    rw [k2, k3 hs hq]; exact hv

/-- **Kept.** Repaired `_handle_port_update` and repaired `read_value`: the same WHATEVER is still queued on the port
when the value is written — the hub's ticks report the queued values (`lastRead`) but leave `_cached_value`, the
value to push, alone while a value is pending. -/
theorem offline_edits_pending_and_kept (vb : Bool) (m : Master) (incs : List Inc) (id : Nat) (p : MPort)
    (hp : findPort m.ports id = some p) (hnr : Inc.ev (.portRemove id) ∉ incs) :
    ∃ p', findPort (runInc ⟨vb, true, true⟩ m incs).ports id = some p' ∧
      p'.prov = p.prov ∧ p'.provValue = p.provValue ∧
      (∀ nv ∈ p.pendAttrs, nv ∈ p'.pendAttrs) ∧
      (∀ v, p.pendValue = some v → p'.pendValue = some v) := by
  obtain ⟨p', hp', k1, k2, _, k4, _⟩ := runInc_port_kept vb true id incs m p hp hnr
  obtain ⟨p'', hp'', kv⟩ := runInc_port_keptV ⟨vb, true, true⟩ rfl id incs m p hp hnr
  have : p'' = p' := Option.some.inj (hp''.symm.trans hp')
  subst this
  refine ⟨p'', hp', k1, k2, ?_, ?_⟩
  · rintro ⟨n, v⟩ hnv
    obtain ⟨hn, hv⟩ := mem_pendAttrs.mp hnv
    exact mem_pendAttrs.mpr ⟨by rw [k1]; exact hn, k4 n hn v hv⟩
  · intro v hv
    exact kv.pendValue hv

/-- The same for device attributes (as written, `_handle_device_update` drops an update that mentions a pending
attribute; every device update reports the whole attribute set: `DevReports`). -/
theorem offline_device_edits_kept (fix : Fix) (m : Master) (incs : List Inc) (hrep : DevReports m.devProv incs) :
    (runInc fix m incs).devProv = m.devProv ∧
    ∀ n ∈ m.devProv, ∀ v, m.dev.get? n = some v → (runInc fix m incs).dev.get? n = some v :=
  runInc_dev_kept fix incs m hrep

/-! ### 2. On reconnect each pending edit is sent exactly once, with the user's value, before the refresh -/

/-- **Pushed exactly once, before the refresh.** The requests of `_handle_online` are: the pushes, then queries
of webhooks/reverse parameters, then the refresh fetches. Every push precedes every fetch; among ALL requests of
the reconnect, those carrying the value of port `p` are exactly one `PATCH /ports/p/value` with the pending value
as body when a value is pending (none otherwise); those carrying attributes of `p` are exactly one
`PATCH /ports/p` with exactly the pending attributes when some are pending (none otherwise); and the device
attributes are sent in exactly one `PATCH /device` when some are pending. -/
theorem pushed_exactly_once_before_refresh (rf : List Nat) (m : Master) (d : Attrs) (ps : List PortMsg)
    (hnd : (m.ports.map (·.id)).Nodup) :
    ∃ pushes rest, (handleOnline Fix.repaired rf m (some d) (some ps)).1 = pushes ++ rest ∧
      (∀ r ∈ pushes, r.isPush = true) ∧ (∀ r ∈ rest, r.isPush = false) ∧
      (m.mode = .listen → ∃ q, rest = q ++ [.getDevice, .getPorts]) ∧
      (∀ p ∈ m.ports,
        (handleOnline Fix.repaired rf m (some d) (some ps)).1.filter (Req.isValuePushFor p.id) =
          (match p.pendValue with | some v => [Req.patchValue p.id (some v)] | none => []) ∧
        (handleOnline Fix.repaired rf m (some d) (some ps)).1.filter (Req.isAttrPushFor p.id) =
          (if p.pendAttrs.isEmpty then [] else [Req.patchPort p.id p.pendAttrs])) ∧
      (handleOnline Fix.repaired rf m (some d) (some ps)).1.filter Req.isDevPush =
        (if m.pendDev.isEmpty then [] else [Req.patchDevice m.pendDev]) := by
  rw [handleOnline_reqs]
  refine ⟨pushReqs Fix.repaired m, queryReqs m ++ refreshReqs m.mode, by rw [List.append_assoc],
    pushReqs_isPush _ m, ?_, ?_, ?_, reconnect_dev_reqs _ m⟩
  · intro r hr
    rcases List.mem_append.mp hr with h | h
    · exact queryReqs_notPush m r h
    · exact refreshReqs_notPush _ r h
  · intro hm
    exact ⟨queryReqs m, by rw [hm]; rfl⟩
  · intro p hp
    exact ⟨reconnect_value_reqs _ m p hp hnd, reconnect_attr_reqs _ m p hp hnd⟩

/-- End to end: a value written while offline — whatever remote values are still queued on the port at that moment —
then anything the slave reports and any ticks, then the reconnect: the slave receives exactly one value request for
that port, and its body is the value the user set. -/
theorem offline_value_pushed_with_user_value (rf : List Nat) (m : Master) (hoff : m.online = false)
    (id : Nat) (v : Int) (ok : Bool) (p : MPort) (hp : findPort m.ports id = some p)
    (incs : List Inc) (hnr : Inc.ev (.portRemove id) ∉ incs) (d : Attrs) (ps : List PortMsg)
    (hnd : ((runInc Fix.repaired (editValue m id v ok).1 incs).ports.map (·.id)).Nodup) :
    (handleOnline Fix.repaired rf (runInc Fix.repaired (editValue m id v ok).1 incs) (some d) (some ps)).1.filter
      (Req.isValuePushFor id) = [Req.patchValue id (some v)] := by
  obtain ⟨_, p1, hp1, _, hv1, _⟩ := offline_value_edit_pending m hoff id v ok p hp
  obtain ⟨p2, hp2, _, _, _, hv2⟩ :=
    offline_edits_pending_and_kept true (editValue m id v ok).1 incs id p1 hp1 hnr
  have h := (pushed_exactly_once_before_refresh rf _ d ps hnd).choose_spec.choose_spec.2.2.2.2.1 p2
    (findPort_mem_p hp2)
  rw [findPort_some_id hp2, hv2 v hv1] at h
  exact h.1

/-- The registry's port ids stay duplicate-free along every such history (events, ticks; C12's `nodup_stepEvent`),
so the `Nodup` hypothesis above is an invariant and not an assumption about the reconnect state. -/
theorem registry_ids_stay_distinct (fix : Fix) (m : Master) (incs : List Inc) (h : (m.ports.map (·.id)).Nodup) :
    ((runInc fix m incs).ports.map (·.id)).Nodup :=
  nodup_runInc fix incs m h

/-- **End to end, from the state before the edit.** Only the registry BEFORE the offline write has to have distinct
port ids (true of every registry built from the empty hub by additions, fetches and events): a value written while
offline, then anything the slave reports and any ticks, then the reconnect — the slave receives exactly one value
request for that port, carrying the value the user set. -/
theorem offline_value_pushed_end_to_end (rf : List Nat) (m : Master) (hoff : m.online = false)
    (hnd : (m.ports.map (·.id)).Nodup) (id : Nat) (v : Int) (ok : Bool) (p : MPort)
    (hp : findPort m.ports id = some p) (incs : List Inc)
    (hnr : Inc.ev (.portRemove id) ∉ incs) (d : Attrs) (ps : List PortMsg) :
    (handleOnline Fix.repaired rf (runInc Fix.repaired (editValue m id v ok).1 incs) (some d) (some ps)).1.filter
      (Req.isValuePushFor id) = [Req.patchValue id (some v)] :=
  offline_value_pushed_with_user_value rf m hoff id v ok p hp incs hnr d ps
    (nodup_runInc _ incs _ (nodup_editValue m hoff id v ok hnd))

/-- The same for a port ATTRIBUTE: edited while offline, kept across everything the slave reports, then pushed in
exactly one `PATCH /ports/<id>` that carries the user's value for that attribute. -/
theorem offline_attr_pushed_end_to_end (rf : List Nat) (m : Master) (hoff : m.online = false)
    (hnd : (m.ports.map (·.id)).Nodup) (id n : Nat) (v : Int) (p : MPort)
    (hp : findPort m.ports id = some p) (incs : List Inc)
    (hnr : Inc.ev (.portRemove id) ∉ incs) (d : Attrs) (ps : List PortMsg) :
    ∃ body, (handleOnline Fix.repaired rf (runInc Fix.repaired (editAttr m id n v).1 incs) (some d) (some ps)).1.filter
      (Req.isAttrPushFor id) = [Req.patchPort id body] ∧ (n, v) ∈ body := by
  obtain ⟨_, p1, hp1, _, hv1⟩ := offline_attr_edit_pending m hoff id n v p hp
  obtain ⟨p2, hp2, k1, _, _, k4, _⟩ := runInc_port_kept true true id incs (editAttr m id n v).1 p1 hp1 hnr
  have hmem : (n, v) ∈ p2.pendAttrs := by
    obtain ⟨hn, hv⟩ := mem_pendAttrs.mp hv1
    exact mem_pendAttrs.mpr ⟨by rw [k1]; exact hn, k4 n hn v hv⟩
  have hnd2 := nodup_runInc Fix.repaired incs _ (nodup_editAttr m hoff id n v hnd)
  have h := ((pushed_exactly_once_before_refresh rf _ d ps hnd2).choose_spec.choose_spec.2.2.2.2.1 p2
    (findPort_mem_p hp2)).2
  rw [findPort_some_id hp2] at h
  have hne : p2.pendAttrs.isEmpty = false := by
    cases hh : p2.pendAttrs with
    | nil => rw [hh] at hmem; cases hmem
    | cons _ _ => rfl
  rw [hne] at h
  exact ⟨p2.pendAttrs, h, hmem⟩

/-! ### 3. Afterwards nothing is reported as pending -/

/-- **Nothing pending afterwards**, in both modes, whatever the refresh fetches answered (even if they failed) and
whichever pushes the slave refused: every port's pending set is empty, no value is pending, no device attribute,
webhooks or reverse parameters are pending. (Every pending device attribute has a cached value and pending
webhooks/reverse parameters are non-empty — which is what the offline edit operations establish.) -/
theorem nothing_pending_afterwards (fix : Fix) (rf : List Nat) (m : Master) (d : Option Attrs)
    (ps : Option (List PortMsg)) (hdev : ∀ n ∈ m.devProv, (m.dev.get? n).isSome)
    (hw : m.provWebhooks = true → m.webhooks ≠ []) (hr : m.provReverse = true → m.reverse ≠ []) :
    (∀ p ∈ (handleOnline fix rf m d ps).2.ports, p.prov = [] ∧ p.provValue = false) ∧
    (handleOnline fix rf m d ps).2.devProv = [] ∧
    (handleOnline fix rf m d ps).2.provWebhooks = false ∧ (handleOnline fix rf m d ps).2.provReverse = false :=
  handleOnline_clean fix rf m d ps hdev hw hr

/-! ### The code as found violates the property (witnesses replayed on the real code by the harness corpus) -/

def wPort : MPort :=
  { id := 1, attrs := [(0, 1), (3, 4)], rq := [], cached := some 5, prov := [], provValue := false,
    lastRead := some 5, enabled := true }

def wMaster : Master := { Master.init .listen with ports := [wPort], ready := true }

/-- D5. As found, `apply_provisioning` sends `PATCH /ports/<id>/value` WITHOUT a body: after the offline write of
42 the reconnect sends no request carrying 42 (the slave refuses the empty request), yet the value is no longer
reported as pending. -/
theorem unrepaired_value_not_pushed :
    let m := (editValue wMaster 1 42 true).1
    let r := handleOnline Fix.asFound [] m (some []) (some [⟨1, [(0, 1), (3, 4)], some (some 5)⟩])
    r.1.filter (Req.isValuePushFor 1) = [Req.patchValue 1 none] ∧
    Req.patchValue 1 (some 42) ∉ r.1 ∧ (∀ p ∈ r.2.ports, p.provValue = false) := by
  decide

/-- D13. As found, a port-update reported by the slave before the reconnect (listen mode: events queued during the
outage are handled before `apply_provisioning`) overwrites the pending attribute: the user set attribute 3 to 9,
the slave's event still says 4, and the reconnect pushes 4 — the slave's own value — back. -/
theorem unrepaired_port_update_overwrites_pending :
    let m := (editAttr wMaster 1 3 9).1
    let m' := runInc Fix.asFound m [.ev (.portUpdate ⟨1, [(0, 1), (3, 4)], some (some 7)⟩)]
    (findPort m.ports 1).map (·.pendAttrs) = some [(3, 9)] ∧
    (findPort m'.ports 1).map (·.pendAttrs) = some [(3, 4)] ∧
    (handleOnline Fix.asFound [] m' (some []) (some [])).1.filter (Req.isAttrPushFor 1) = [Req.patchPort 1 [(3, 4)]] := by
  decide

/-! ### Non-vacuity: concrete instances of the hypotheses and of the conclusions -/

example : wMaster.online = false ∧ findPort wMaster.ports 1 = some wPort ∧ wPort.rq = [] := by decide

/-- Repaired code on the D13 scenario + a value edit: the pending attribute and value survive the slave's
port-update, value-change and a tick, and the reconnect pushes exactly the user's values before the fetches. -/
example :
    let m := (editValue (editAttr wMaster 1 3 9).1 1 42 true).1
    let m' := runInc Fix.repaired m
      [.ev (.portUpdate ⟨1, [(0, 1), (3, 4)], some (some 7)⟩), .ev (.valueChange 1 (some 7)), .tick]
    (handleOnline Fix.repaired [] m' (some []) (some [⟨1, [(0, 1), (3, 9)], some (some 42)⟩])).1 =
      [.patchPort 1 [(3, 9)], .patchValue 1 (some 42), .getDevice, .getPorts] := by decide

example : ((runInc Fix.repaired (editValue wMaster 1 42 true).1 [.tick]).ports.map (·.id)).Nodup := by decide
example : (wMaster.ports.map (·.id)).Nodup ∧ ((Master.init .listen).ports.map (·.id)).Nodup := by decide

example : DevReports (editDev wMaster 1 6).1.devProv [.ev (.deviceUpdate [(1, 5), (2, 8)]), .tick] := by
  intro a ha n hn
  simp only [List.mem_cons, Inc.ev.injEq, Ev.deviceUpdate.injEq, List.mem_nil_iff, or_false, reduceCtorEq] at ha
  subst ha
  have : n = 1 := by simpa [editDev, wMaster, Master.init, addName] using hn
  subst this
  decide

example : ∀ n ∈ (editDev wMaster 1 6).1.devProv, ((editDev wMaster 1 6).1.dev.get? n).isSome := by decide

/-! ### 4. Offline histories WITH further user edits interleaved (`Off` = events, ticks, value / attribute / device
edits on any port, any number of times): the reconnect pushes the LAST user value

`runOff` replays such a history on the master; `lastValue id h` / `namesAfter id [] h` / `attrAfter id n none h` are
computed from the history alone (they do not look at the master). -/

/-- During the outage nothing is sent for any edit, and the master stays offline. -/
theorem offline_history_sends_nothing (fix : Fix) (m : Master) (hoff : m.online = false) (h : List Off) :
    reqsOff fix m h = [] ∧ (runOff fix m h).online = false :=
  ⟨reqsOff_nil fix h m hoff, runOff_online fix h m hoff⟩

/-- The `Off` histories extend the `Inc` histories of §1–2. -/
theorem off_extends_inc (fix : Fix) (m : Master) (incs : List Inc) :
    runOff fix m (incs.map Inc.toOff) = runInc fix m incs :=
  runOff_of_inc fix incs m

/-- Registry ids stay duplicate-free along every such history. -/
theorem registry_ids_stay_distinct_off (fix : Fix) (m : Master) (hoff : m.online = false) (h : List Off)
    (hnd : (m.ports.map (·.id)).Nodup) : ((runOff fix m h).ports.map (·.id)).Nodup :=
  nodup_runOff fix h m hoff hnd

/-- **Several value writes during one outage: the LAST one is pushed, exactly once.** The history is split at
any value write to the port — whatever remote values are still queued on it at that moment (repaired `read_value`;
with `read_value` as found the queue has to have been read out: `offline_value_writes_last_pushed_queue_read_out`,
`unrepaired_offline_write_over_unread_queue_is_lost`); before it (`h1`) and after it (`h2`) anything may happen —
events, ticks, further writes to the same port, edits of attributes, of other ports, of the device. The reconnect
then sends exactly one value request for the port and it carries the last value the user wrote in the whole
history. -/
theorem offline_value_writes_last_pushed (rf : List Nat) (m : Master) (hoff : m.online = false)
    (hnd : (m.ports.map (·.id)).Nodup) (id : Nat) (h1 h2 : List Off) (v0 : Int) (ok0 : Bool) (p1 : MPort)
    (hp1 : findPort (runOff Fix.repaired m h1).ports id = some p1)
    (hnr : Off.ev (.portRemove id) ∉ h2) (d : Attrs) (ps : List PortMsg) :
    ∃ v, lastValue id (h1 ++ [.editValue id v0 ok0] ++ h2) = some v ∧
      (handleOnline Fix.repaired rf (runOff Fix.repaired m (h1 ++ [.editValue id v0 ok0] ++ h2)) (some d)
        (some ps)).1.filter (Req.isValuePushFor id) = [Req.patchValue id (some v)] := by
  refine ⟨valAfter id v0 h2, lastValue_split id h1 h2 v0 ok0, ?_⟩
  have hoff1 := runOff_online Fix.repaired h1 m hoff
  rw [runOff_append, runOff_append]
  -- the write itself
  obtain ⟨p2, hp2, hr2⟩ := stepOff_port true true (runOff Fix.repaired m h1) (.editValue id v0 ok0) id p1 hoff1 hp1
    (by intro h; cases h)
  simp only [PortRel, if_true] at hr2
  have hv2 : p2.pendValue = some v0 := by rw [hr2]; rfl
  have hoff2 := stepOff_online Fix.repaired _ (.editValue id v0 ok0) hoff1
  -- everything after it
  obtain ⟨p3, hp3, hv3⟩ := runOff_valueV Fix.repaired rfl id h2 _ p2 v0 hoff2 hp2 hnr hv2
  have hnd3 : ((runOff Fix.repaired (runOff Fix.repaired (runOff Fix.repaired m h1) [.editValue id v0 ok0]) h2).ports.map
      (·.id)).Nodup :=
    nodup_runOff _ h2 _ hoff2 (nodup_runOff _ [_] _ hoff1 (nodup_runOff _ h1 m hoff hnd))
  have h := (pushed_exactly_once_before_refresh rf _ d ps hnd3).choose_spec.choose_spec.2.2.2.2.1 p3
    (findPort_mem_p hp3)
  rw [findPort_some_id hp3, hv3] at h
  exact h.1

/-- The same with `read_value` as found or repaired (`kv`), the write being made when the port's remote queue had been
read out (`hq`; e.g. the first write of the outage, see `queue_read_out_by_tick`). -/
theorem offline_value_writes_last_pushed_queue_read_out (kv : Bool) (rf : List Nat) (m : Master)
    (hoff : m.online = false) (hnd : (m.ports.map (·.id)).Nodup) (id : Nat) (h1 h2 : List Off) (v0 : Int) (ok0 : Bool)
    (p1 : MPort) (hp1 : findPort (runOff ⟨true, true, kv⟩ m h1).ports id = some p1) (hq : p1.rq = [])
    (hnr : Off.ev (.portRemove id) ∉ h2) (d : Attrs) (ps : List PortMsg) :
    ∃ v, lastValue id (h1 ++ [.editValue id v0 ok0] ++ h2) = some v ∧
      (handleOnline ⟨true, true, kv⟩ rf (runOff ⟨true, true, kv⟩ m (h1 ++ [.editValue id v0 ok0] ++ h2)) (some d)
        (some ps)).1.filter (Req.isValuePushFor id) = [Req.patchValue id (some v)] := by
  refine ⟨valAfter id v0 h2, lastValue_split id h1 h2 v0 ok0, ?_⟩
  have hoff1 := runOff_online ⟨true, true, kv⟩ h1 m hoff
  rw [runOff_append, runOff_append]
  obtain ⟨p2, hp2, hr2⟩ := stepOff_port true kv (runOff ⟨true, true, kv⟩ m h1) (.editValue id v0 ok0) id p1 hoff1 hp1
    (by intro h; cases h)
  simp only [PortRel, if_true] at hr2
  have hv2 : p2.pendValue = some v0 := by rw [hr2]; rfl
  have hq2 : p2.rq = [] := by rw [hr2]; exact hq
  have hoff2 := stepOff_online ⟨true, true, kv⟩ _ (.editValue id v0 ok0) hoff1
  obtain ⟨p3, hp3, hv3, _⟩ := runOff_value true kv id h2 _ p2 v0 hoff2 hp2 hnr hv2 hq2
  have hnd3 : ((runOff ⟨true, true, kv⟩ (runOff ⟨true, true, kv⟩ (runOff ⟨true, true, kv⟩ m h1)
      [.editValue id v0 ok0]) h2).ports.map (·.id)).Nodup :=
    nodup_runOff _ h2 _ hoff2 (nodup_runOff _ [_] _ hoff1 (nodup_runOff _ h1 m hoff hnd))
  have h := reconnect_value_reqs ⟨true, true, kv⟩ _ p3 (findPort_mem_p hp3) hnd3
  rw [findPort_some_id hp3, hv3] at h
  rw [handleOnline_reqs]
  exact h

/-- The hypothesis `hq` of `offline_value_writes_last_pushed_queue_read_out` holds whenever the hub's polling loop has
ticked on the (enabled) port since the last remote value arrived: `h1 = h0 ++ [.tick]`. -/
theorem queue_read_out_by_tick (fix : Fix) (m : Master) (h0 : List Off) (id : Nat) (p : MPort)
    (hp : findPort (runOff fix m h0).ports id = some p) (he : p.enabled = true) :
    ∃ p1, findPort (runOff fix m (h0 ++ [.tick])).ports id = some p1 ∧ p1.rq = [] := by
  rw [runOff_append]
  exact quiet_after_tick fix _ id p hp he

/-- Special case `h1 = []`: the former end-to-end theorem with any further edits interleaved after the write. -/
theorem offline_value_pushed_end_to_end_with_edits (rf : List Nat) (m : Master) (hoff : m.online = false)
    (hnd : (m.ports.map (·.id)).Nodup) (id : Nat) (v0 : Int) (ok0 : Bool) (p : MPort)
    (hp : findPort m.ports id = some p) (h2 : List Off)
    (hnr : Off.ev (.portRemove id) ∉ h2) (d : Attrs) (ps : List PortMsg) :
    ∃ v, lastValue id (.editValue id v0 ok0 :: h2) = some v ∧
      (handleOnline Fix.repaired rf (runOff Fix.repaired m (.editValue id v0 ok0 :: h2)) (some d)
        (some ps)).1.filter (Req.isValuePushFor id) = [Req.patchValue id (some v)] :=
  offline_value_writes_last_pushed rf m hoff hnd id [] h2 v0 ok0 p hp hnr d ps

/-- D14. **With `read_value` as found, `hq` cannot be dropped — it does NOT follow from the offline write.**
`write_value` (offline branch) stores the user's value in `_cached_value` and leaves `_remote_value_queue` alone; if
remote values are still queued (they arrived in one listen batch and the hub has not read them yet), the next
`read_value` as found overwrites `_cached_value` with a queued SLAVE value and `get_provisioning_value()` then returns
that: the reconnect pushes the slave's old value 7 back instead of the user's 42, exactly once. (The other two
repairs applied, `keepPendingValue` off; repaired by fixes/C13-offline-write-kept-over-queued-values.diff.) -/
theorem unrepaired_offline_write_over_unread_queue_is_lost :
    let fx : Fix := ⟨true, true, false⟩
    let m : Master := { wMaster with ports := [{ wPort with rq := [some 7] }] }
    let m' := runOff fx m [.editValue 1 42 true, .tick]
    lastValue 1 [.editValue 1 42 true, .tick] = some 42 ∧
    (handleOnline fx [] m' (some []) (some [⟨1, [(0, 1), (3, 4)], some (some 7)⟩])).1.filter
      (Req.isValuePushFor 1) = [Req.patchValue 1 (some 7)] := by
  decide

/-- The same history on the repaired code (non-vacuity of `offline_value_pushed_end_to_end_with_edits` with a
non-empty queue): 42 is written over the unread `[7]`, the tick reports 7 (`lastRead`) and leaves 42 cached and
pending, the reconnect pushes 42, exactly once. -/
example :
    let m : Master := { wMaster with ports := [{ wPort with rq := [some 7] }] }
    let m' := runOff Fix.repaired m [.editValue 1 42 true, .tick]
    m.online = false ∧ (m.ports.map (·.id)).Nodup ∧
    (findPort m.ports 1).map (·.rq) = some [some 7] ∧ Off.ev (.portRemove 1) ∉ [Off.tick] ∧
    lastValue 1 [.editValue 1 42 true, .tick] = some 42 ∧
    (findPort m'.ports 1).map (fun p => (p.rq, p.lastRead, p.cached, p.provValue)) =
      some ([], some 7, some 42, true) ∧
    (handleOnline Fix.repaired [] m' (some []) (some [⟨1, [(0, 1), (3, 4)], some (some 7)⟩])).1.filter
      (Req.isValuePushFor 1) = [Req.patchValue 1 (some 42)] := by
  decide

/-- **Several attribute edits during one outage: exactly the last user value per edited name is pushed, in one
request.** General form: the port may already hold pending names (each with a value, `hs`); `pendLookup p` is what
it holds before the history. -/
theorem offline_attr_edits_last_pushed_general (rf : List Nat) (m : Master) (hoff : m.online = false)
    (hnd : (m.ports.map (·.id)).Nodup) (id : Nat) (p : MPort) (hp : findPort m.ports id = some p)
    (hs : ∀ n ∈ p.prov, (p.attrs.get? n).isSome) (h : List Off) (hnr : Off.ev (.portRemove id) ∉ h)
    (d : Attrs) (ps : List PortMsg) :
    (handleOnline Fix.repaired rf (runOff Fix.repaired m h) (some d) (some ps)).1.filter (Req.isAttrPushFor id) =
      (if ((namesAfter id p.prov h).filterMap
            (fun n => (attrAfter id n (pendLookup p n) h).map (fun v => (n, v)))).isEmpty then []
       else [Req.patchPort id ((namesAfter id p.prov h).filterMap
            (fun n => (attrAfter id n (pendLookup p n) h).map (fun v => (n, v))))]) := by
  obtain ⟨p', hp', hi⟩ := runOff_attr true true id h m p p.prov (pendLookup p) hoff hp hnr (invA_start p hs)
  have hnd' := nodup_runOff Fix.repaired h m hoff hnd
  have hh := ((pushed_exactly_once_before_refresh rf _ d ps hnd').choose_spec.choose_spec.2.2.2.2.1 p'
    (findPort_mem_p hp')).2
  rw [findPort_some_id hp', pendAttrs_of_invA hi] at hh
  exact hh

/-- Nothing pending for the port before the outage: the body of the single `PATCH /ports/<id>` is computed from the
history alone — the edited names in first-edit order, each with the LAST value the user gave it. -/
theorem offline_attr_edits_last_pushed (rf : List Nat) (m : Master) (hoff : m.online = false)
    (hnd : (m.ports.map (·.id)).Nodup) (id : Nat) (p : MPort) (hp : findPort m.ports id = some p)
    (hclean : p.prov = []) (h : List Off) (hnr : Off.ev (.portRemove id) ∉ h) (d : Attrs) (ps : List PortMsg) :
    (handleOnline Fix.repaired rf (runOff Fix.repaired m h) (some d) (some ps)).1.filter (Req.isAttrPushFor id) =
      (if ((namesAfter id [] h).filterMap (fun n => (attrAfter id n none h).map (fun v => (n, v)))).isEmpty then []
       else [Req.patchPort id ((namesAfter id [] h).filterMap
            (fun n => (attrAfter id n none h).map (fun v => (n, v))))]) := by
  have hs : ∀ n ∈ p.prov, (p.attrs.get? n).isSome := by rw [hclean]; intro n hn; cases hn
  have := offline_attr_edits_last_pushed_general rf m hoff hnd id p hp hs h hnr d ps
  have hl : pendLookup p = fun _ => none := by
    funext n; unfold pendLookup; rw [hclean]; simp
  rw [hclean, hl] at this
  exact this

-- one outage: attribute 3 edited twice (9 then 11), attribute 4 once, the value written twice (42 then 43), edits
-- of another port and of the device, the slave's own port-update / value-change and ticks in between
def wHist : List Off :=
  [.tick, .editValue 1 42 true, .editAttr 1 3 9, .ev (.portUpdate ⟨1, [(0, 1), (3, 4)], some (some 7)⟩),
   .editAttr 1 4 2, .editDev 8 1, .ev (.valueChange 1 (some 7)), .tick, .editAttr 2 3 5, .editValue 1 43 true,
   .editAttr 1 3 11, .tick]

example : lastValue 1 wHist = some 43 ∧ namesAfter 1 [] wHist = [3, 4] ∧ attrAfter 1 3 none wHist = some 11 ∧
    attrAfter 1 4 none wHist = some 2 := by decide
example : wMaster.online = false ∧ (wMaster.ports.map (·.id)).Nodup ∧ findPort wMaster.ports 1 = some wPort ∧
    wPort.prov = [] ∧ Off.ev (.portRemove 1) ∉ wHist ∧
    (∃ p1, findPort (runOff Fix.repaired wMaster [.tick]).ports 1 = some p1 ∧ p1.rq = []) := by decide
example : (handleOnline Fix.repaired [] (runOff Fix.repaired wMaster wHist) (some []) (some [])).1 =
    [.patchDevice [(8, 1)], .patchPort 1 [(3, 11), (4, 2)], .patchValue 1 (some 43), .getDevice, .getPorts] := by
  decide

/-! ### Device attributes edited several times during one outage

`devNamesAfter names h` / `devAttrAfter n a h` (Proofs/SlaveOffline.lean) are computed from the history alone: the
edited device attribute names in first-edit order, and the LAST value the user gave each. `hrep`
(`DevReportsOff`): every device update of the history reports the whole attribute set (cf. `DevReports`) — as
written, `_handle_device_update` drops a whole update that mentions a pending name and REPLACES the cache otherwise,
so an update that omitted a pending name would erase it (`device_update_omitting_pending_name_erases_it`). -/

/-- **Several device-attribute edits during one outage: exactly the last user value per edited name is pushed, in
one `PATCH /device`, exactly once, before the refresh.** General form: names may already be pending (each with a
value, `hs`); `devLookup m` is what the master holds before the history. Whatever else happens in the history —
events (device updates included), ticks, value writes, port-attribute edits. -/
theorem offline_device_edits_last_pushed_general (rf : List Nat) (m : Master) (hoff : m.online = false)
    (hs : ∀ n ∈ m.devProv, (m.dev.get? n).isSome) (h : List Off) (hrep : DevReportsOff m.devProv h)
    (d : Attrs) (ps : List PortMsg) :
    let body := (devNamesAfter m.devProv h).filterMap (fun n => (devAttrAfter n (devLookup m n) h).map (fun v => (n, v)))
    (handleOnline Fix.repaired rf (runOff Fix.repaired m h) (some d) (some ps)).1.filter Req.isDevPush =
      (if body.isEmpty then [] else [Req.patchDevice body]) ∧
    ∃ pushes rest, (handleOnline Fix.repaired rf (runOff Fix.repaired m h) (some d) (some ps)).1 = pushes ++ rest ∧
      (∀ r ∈ pushes, r.isPush = true) ∧ (∀ r ∈ rest, r.isPush = false) ∧
      (m.mode = .listen → ∃ q, rest = q ++ [.getDevice, .getPorts]) := by
  intro body
  have hi := runOff_dev Fix.repaired h m m.devProv (devLookup m) hoff (invD_start m hs) hrep
  refine ⟨?_, ?_⟩
  · rw [handleOnline_reqs, reconnect_dev_reqs, pendDev_of_invD hi]
  · rw [handleOnline_reqs]
    refine ⟨pushReqs Fix.repaired _, queryReqs _ ++ refreshReqs _, by rw [List.append_assoc],
      pushReqs_isPush _ _, ?_, ?_⟩
    · intro r hr
      rcases List.mem_append.mp hr with h | h
      · exact queryReqs_notPush _ r h
      · exact refreshReqs_notPush _ r h
    · intro hm
      have hmode : (runOff Fix.repaired m h).mode = .listen := (runOff_mode _ h m hoff).trans hm
      exact ⟨queryReqs _, by rw [hmode]; rfl⟩

/-- Nothing pending for the device before the outage: the body of the single `PATCH /device` is computed from the
history alone — the edited names in first-edit order, each with the LAST value the user gave it. (Formerly the
unproved statement `offlineDeviceEditsLastPushedFull`.) -/
theorem offline_device_edits_last_pushed (rf : List Nat) (m : Master) (h : List Off) (d : Attrs) (ps : List PortMsg)
    (hoff : m.online = false) (hclean : m.devProv = [])
    (hrep : ∀ a, Off.ev (.deviceUpdate a) ∈ h → ∀ n ∈ devNamesAfter [] h, a.has n = true) :
    (handleOnline Fix.repaired rf (runOff Fix.repaired m h) (some d) (some ps)).1.filter Req.isDevPush =
      (if ((devNamesAfter [] h).filterMap (fun n => (devAttrAfter n none h).map (fun v => (n, v)))).isEmpty then []
       else [Req.patchDevice ((devNamesAfter [] h).filterMap (fun n => (devAttrAfter n none h).map (fun v => (n, v))))]) := by
  have hs : ∀ n ∈ m.devProv, (m.dev.get? n).isSome := by rw [hclean]; intro n hn; cases hn
  have hrep' : DevReportsOff m.devProv h := by rw [hclean]; exact hrep
  have := (offline_device_edits_last_pushed_general rf m hoff hs h hrep' d ps).1
  have hl : devLookup m = fun _ => none := by
    funext n; unfold devLookup; rw [hclean]; simp
  rw [hclean, hl] at this
  exact this

/-- The statement left open by earlier work, under its former name. -/
theorem offlineDeviceEditsLastPushedFull :
    ∀ (rf : List Nat) (m : Master) (h : List Off) (d : Attrs) (ps : List PortMsg),
    m.online = false → m.devProv = [] →
    (∀ a, Off.ev (.deviceUpdate a) ∈ h → ∀ n ∈ devNamesAfter [] h, a.has n = true) →
    (handleOnline Fix.repaired rf (runOff Fix.repaired m h) (some d) (some ps)).1.filter Req.isDevPush =
      (if ((devNamesAfter [] h).filterMap (fun n => (devAttrAfter n none h).map (fun v => (n, v)))).isEmpty then []
       else [Req.patchDevice ((devNamesAfter [] h).filterMap (fun n => (devAttrAfter n none h).map (fun v => (n, v))))]) :=
  fun rf m h d ps hoff hclean hrep => offline_device_edits_last_pushed rf m h d ps hoff hclean hrep

-- one outage: device attribute 8 edited twice (1 then 5), attribute 9 once, a device update reporting the whole
-- attribute set BEFORE the first edit (accepted) and one AFTER (dropped: it mentions pending names), port edits, ticks
def wDevHist : List Off :=
  [.ev (.deviceUpdate [(8, 0), (9, 0), (7, 3)]), .tick, .editDev 8 1, .editAttr 1 3 9, .editDev 9 4,
   .ev (.deviceUpdate [(8, 0), (9, 0), (7, 6)]), .editValue 1 42 true, .editDev 8 5, .tick]

example : devNamesAfter [] wDevHist = [8, 9] ∧ devAttrAfter 8 none wDevHist = some 5 ∧
    devAttrAfter 9 none wDevHist = some 4 ∧ devAttrAfter 7 none wDevHist = none := by decide
example : wMaster.online = false ∧ wMaster.devProv = [] ∧
    (∀ a, Off.ev (.deviceUpdate a) ∈ wDevHist → ∀ n ∈ devNamesAfter [] wDevHist, a.has n = true) := by
  refine ⟨by decide, by decide, ?_⟩
  intro a ha
  have : a = [(8, 0), (9, 0), (7, 3)] ∨ a = [(8, 0), (9, 0), (7, 6)] := by
    simpa [wDevHist] using ha
  rcases this with rfl | rfl <;> decide
example : (runOff Fix.repaired wMaster wDevHist).dev = [(8, 5), (9, 4), (7, 3)] ∧
    (handleOnline Fix.repaired [] (runOff Fix.repaired wMaster wDevHist) (some []) (some [])).1 =
      [.patchDevice [(8, 5), (9, 4)], .patchPort 1 [(3, 9)], .patchValue 1 (some 42), .getDevice, .getPorts] := by
  decide

/-- `hrep` cannot be dropped: a device update that does NOT mention the pending name is accepted and REPLACES the
cache, the pending name has no value any more and the reconnect pushes nothing for the device. -/
theorem device_update_omitting_pending_name_erases_it :
    let h : List Off := [.editDev 8 1, .ev (.deviceUpdate [(7, 3)])]
    devNamesAfter [] h = [8] ∧ devAttrAfter 8 none h = some 1 ∧
    (handleOnline Fix.repaired [] (runOff Fix.repaired wMaster h) (some []) (some [])).1.filter Req.isDevPush = [] := by
  decide

/-! ### 5. A master restart while the slave is away — webhook-driven slaves (`Slave.is_permanently_offline()`: neither
listened to nor polled; `Model/SlaveRestart.lean`)

The ports of such a slave are rebuilt from the persisted records at start-up (`restartPermOffline`); the slave "comes
back" by posting an event, which is handled (`Inc.ev`) and followed by the synchronisation run `provisionAndUpdate` =
`apply_provisioning`, `fetch_and_update_device`, `fetch_and_update_ports`. -/

/-- **Pending port edits survive a master restart and are pushed once.** Any master state, any port with pending
attribute edits and/or a pending value, a restart (repaired `load_from_data`, commit 8847295), then anything the slave
reports and any ticks of the hub (`incs`: the tick that reads the re-queued persisted value, the slave's own event that
announces it, …), then the synchronisation run, whatever the refresh fetches answer:
(a) right after the restart and still before the run, the same names are reported as pending, with the user's attribute
values and the user's value; (b) among ALL requests of the run, those carrying the value of the port are exactly one
`PATCH /ports/<id>/value` with the user's value, those carrying attributes of the port exactly one `PATCH /ports/<id>`
with every pending attribute at the user's value; (c) every push precedes the refresh fetches; (d) afterwards no port
has anything pending. -/
theorem pending_port_edits_survive_restart_permanently_offline (rf : List Nat) (m : Master)
    (hnd : (m.ports.map (·.id)).Nodup) (id : Nat) (p : MPort) (hp : findPort m.ports id = some p)
    (hattrs : p.attrs ≠ []) (incs : List Inc) (hnr : Inc.ev (.portRemove id) ∉ incs)
    (d : Option Attrs) (ps : Option (List PortMsg)) :
    (∃ p0, findPort (restartPermOffline true m).ports id = some p0 ∧ p0.prov = p.prov ∧
      p0.provValue = p.provValue ∧ p0.pendAttrs = p.pendAttrs ∧ p0.pendValue = p.pendValue) ∧
    (∃ p', findPort (runInc Fix.repaired (restartPermOffline true m) incs).ports id = some p' ∧
      p'.prov = p.prov ∧ p'.provValue = p.provValue ∧ (∀ nv ∈ p.pendAttrs, nv ∈ p'.pendAttrs) ∧
      (∀ v, p.pendValue = some v → p'.pendValue = some v)) ∧
    (∀ v, p.pendValue = some v →
      (provisionAndUpdate Fix.repaired rf (runInc Fix.repaired (restartPermOffline true m) incs) d ps).1.filter
        (Req.isValuePushFor id) = [Req.patchValue id (some v)]) ∧
    (p.pendAttrs ≠ [] → ∃ body,
      (provisionAndUpdate Fix.repaired rf (runInc Fix.repaired (restartPermOffline true m) incs) d ps).1.filter
        (Req.isAttrPushFor id) = [Req.patchPort id body] ∧ ∀ nv ∈ p.pendAttrs, nv ∈ body) ∧
    (∃ pushes rest,
      (provisionAndUpdate Fix.repaired rf (runInc Fix.repaired (restartPermOffline true m) incs) d ps).1 = pushes ++ rest ∧
      (∀ r ∈ pushes, r.isPush = true) ∧ (∀ r ∈ rest, r.isPush = false)) ∧
    (∀ q ∈ (provisionAndUpdate Fix.repaired rf (runInc Fix.repaired (restartPermOffline true m) incs) d ps).2.ports,
      q.prov = [] ∧ q.provValue = false) := by
  obtain ⟨l1, l2, _, l4, l5, _⟩ := loadPort_restores p hattrs
  have hp0 := restart_findPort true m id p hp
  obtain ⟨p', hp', k1, k2, k3, k4⟩ :=
    offline_edits_pending_and_kept true (restartPermOffline true m) incs id _ hp0 hnr
  have hp' : findPort (runInc Fix.repaired (restartPermOffline true m) incs).ports id = some p' := hp'
  have hnd' := nodup_runInc Fix.repaired incs _ (nodup_restart true m hnd)
  obtain ⟨sv, sa⟩ := sync_port_reqs Fix.repaired rf _ d ps p' (findPort_mem_p hp') hnd'
  rw [findPort_some_id hp'] at sv sa
  refine ⟨⟨_, hp0, l1, l2, l4, l5⟩, ⟨p', hp', k1.trans l1, k2.trans l2, ?_, ?_⟩, ?_, ?_, ?_, ?_⟩
  · intro nv h; exact k3 nv (l4 ▸ h)
  · intro v h; exact k4 v (l5 ▸ h)
  · intro v h
    rw [sv, k4 v (l5 ▸ h)]; rfl
  · intro hne
    have hmem : ∀ nv ∈ p.pendAttrs, nv ∈ p'.pendAttrs := fun nv h => k3 nv (l4 ▸ h)
    have hne' : p'.pendAttrs.isEmpty = false := by
      cases hh : p.pendAttrs with
      | nil => exact absurd hh hne
      | cons a t =>
        have := hmem a (hh ▸ List.mem_cons_self ..)
        cases hq : p'.pendAttrs with
        | nil => rw [hq] at this; cases this
        | cons _ _ => rfl
    rw [hne'] at sa
    exact ⟨p'.pendAttrs, sa, hmem⟩
  · obtain ⟨tail, ht, hshape, _⟩ := provisionAndUpdate_reqs Fix.repaired rf
      (runInc Fix.repaired (restartPermOffline true m) incs) d ps
    refine ⟨pushReqs Fix.repaired _, queryReqs _ ++ tail, by rw [ht, List.append_assoc], pushReqs_isPush _ _, ?_⟩
    intro r hr
    rcases List.mem_append.mp hr with h | h
    · exact queryReqs_notPush _ r h
    · exact (tail_no_push tail hshape 0).2.2 r h
  · exact provisionAndUpdate_ports_clean _ rf _ d ps

/-- The same starting from the edits: a value written and an attribute edited for the (never online) slave, then the
restart, then anything reported and any ticks, then the run — the slave receives exactly one value request carrying the
user's value and exactly one attribute request carrying the user's attribute value. -/
theorem offline_port_edits_pushed_after_restart_end_to_end (rf : List Nat) (m : Master) (hoff : m.online = false)
    (hnd : (m.ports.map (·.id)).Nodup) (id n : Nat) (a : Int) (v : Int) (ok : Bool) (p : MPort)
    (hp : findPort m.ports id = some p) (incs : List Inc) (hnr : Inc.ev (.portRemove id) ∉ incs)
    (d : Option Attrs) (ps : Option (List PortMsg)) :
    let m1 := (editValue (editAttr m id n a).1 id v ok).1
    let run := provisionAndUpdate Fix.repaired rf (runInc Fix.repaired (restartPermOffline true m1) incs) d ps
    run.1.filter (Req.isValuePushFor id) = [Req.patchValue id (some v)] ∧
    (∃ body, run.1.filter (Req.isAttrPushFor id) = [Req.patchPort id body] ∧ (n, a) ∈ body) ∧
    (∀ q ∈ run.2.ports, q.prov = [] ∧ q.provValue = false) := by
  intro m1 run
  obtain ⟨_, p1, hp1, hn1, ha1⟩ := offline_attr_edit_pending m hoff id n a p hp
  have hoff1 : (editAttr m id n a).1.online = false := by rw [editAttr_offline m hoff]; exact hoff
  obtain ⟨_, p2, hp2, _, hv2, _⟩ := offline_value_edit_pending (editAttr m id n a).1 hoff1 id v ok p1 hp1
  have hnd2 : (m1.ports.map (·.id)).Nodup :=
    nodup_editValue _ hoff1 id v ok (nodup_editAttr m hoff id n a hnd)
  -- the value edit leaves names and attributes of the port alone
  have hkeep : (n, a) ∈ p2.pendAttrs := by
    have e := editValue_offline (editAttr m id n a).1 hoff1 id v ok
    have hf : findPort m1.ports id = (findPort (editAttr m id n a).1.ports id).map (valueEdit v) := by
      show findPort (editValue (editAttr m id n a).1 id v ok).1.ports id = _
      rw [e]
      simp only
      rw [findPort_updPort_p _ id id (valueEdit v) (fun _ => rfl)]
      have hid : (p1.id == id) = true := by simp [findPort_some_id hp1]
      rw [hp1]
      simp only [Option.map_some, hid, if_true]
    rw [hp1] at hf
    have : p2 = valueEdit v p1 := Option.some.inj (hp2.symm.trans hf)
    subst this
    exact ha1
  have hattrs : p2.attrs ≠ [] := by
    obtain ⟨_, hget⟩ := mem_pendAttrs.mp hkeep
    intro h0
    rw [h0] at hget
    cases hget
  obtain ⟨_, _, hv, ha, _, hc⟩ :=
    pending_port_edits_survive_restart_permanently_offline rf m1 hnd2 id p2 hp2 hattrs incs hnr d ps
  refine ⟨hv v hv2, ?_, hc⟩
  have hne : p2.pendAttrs ≠ [] := by
    intro h0; rw [h0] at hkeep; cases hkeep
  obtain ⟨body, hb, hmem⟩ := ha hne
  exact ⟨body, hb, hmem _ hkeep⟩

/-- **Seeded change C13-r4-3 / the code between 6d69e21 and 8847295** (`load_from_data` does not restore the pending
value; `read_value` repaired): the user writes 42 for a webhook-driven slave, the master restarts, the hub ticks (the
re-queued 42 is read and reported but no longer copied into `_cached_value`), the slave shows up: the value is still
REPORTED as pending after the restart, yet the run sends no value request at all, and afterwards nothing is pending —
the write is lost silently. With the restore the same history pushes 42 exactly once. -/
theorem unrepaired_pending_value_lost_on_restart :
    let m := (editValue wMaster 1 42 true).1
    let lost := runInc Fix.repaired (restartPermOffline false m) [.tick, .ev (.valueChange 1 (some 6))]
    let kept := runInc Fix.repaired (restartPermOffline true m) [.tick, .ev (.valueChange 1 (some 6))]
    (findPort m.ports 1).map (·.pendValue) = some (some 42) ∧
    (findPort lost.ports 1).map (·.provValue) = some true ∧
    (provisionAndUpdate Fix.repaired [] lost (some []) (some [⟨1, [(0, 1), (3, 4)], some (some 6)⟩])).1 =
      [.getDevice, .getPorts] ∧
    (∀ q ∈ (provisionAndUpdate Fix.repaired [] lost (some []) (some [⟨1, [(0, 1), (3, 4)], some (some 6)⟩])).2.ports,
      q.provValue = false) ∧
    (provisionAndUpdate Fix.repaired [] kept (some []) (some [⟨1, [(0, 1), (3, 4)], some (some 42)⟩])).1 =
      [.patchValue 1 (some 42), .getDevice, .getPorts] := by
  decide

/-- With `read_value` as found before 6d69e21 (`keepPendingValue = false`) the unrepaired `load_from_data` was
harmless: the tick copied the re-queued value back into `_cached_value` — which is why the regression appeared only
with our own repair 6d69e21 (needs the tick to happen before the slave shows up). -/
theorem restart_without_restore_relied_on_read_value :
    let m := (editValue wMaster 1 42 true).1
    let m' := runInc ⟨true, true, false⟩ (restartPermOffline false m) [.tick]
    (provisionAndUpdate ⟨true, true, false⟩ [] m' (some []) (some [⟨1, [(0, 1), (3, 4)], some (some 42)⟩])).1 =
      [.patchValue 1 (some 42), .getDevice, .getPorts] := by
  decide

-- non-vacuity of the hypotheses of the two general theorems: the witness master, port 1 with a pending attribute and a
-- pending value, the slave announcing itself with a value change, a tick
example : (wMaster.ports.map (·.id)).Nodup ∧ wMaster.online = false ∧ findPort wMaster.ports 1 = some wPort ∧
    wPort.attrs ≠ [] ∧ Inc.ev (.portRemove 1) ∉ [Inc.tick, .ev (.valueChange 1 (some 6))] := by decide
example :
    let m1 := (editValue (editAttr wMaster 1 3 9).1 1 42 true).1
    (provisionAndUpdate Fix.repaired [] (runInc Fix.repaired (restartPermOffline true m1)
      [.tick, .ev (.valueChange 1 (some 6))]) (some []) (some [⟨1, [(0, 1), (3, 9)], some (some 42)⟩])).1 =
      [.patchPort 1 [(3, 9)], .patchValue 1 (some 42), .getDevice, .getPorts] := by decide

end QtVerif.Slave.C13
