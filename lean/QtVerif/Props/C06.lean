import QtVerif.Proofs.StoreMongoX
import QtVerif.Proofs.MongoRun
import QtVerif.Proofs.StoreStrong
import QtVerif.Proofs.StoreFileWF
/-!
C06 — Every persistence driver behaves like the reference record store.

Property theorems only; the model (`Ref` = the SPEC, `Json`, `Redis`, `Api`, the character-level codec) is in
`QtVerif/Model/Store.lean`, helper lemmas in `QtVerif/Proofs/Store{Codec,Sort,Json,Redis}.lean`.

All theorems quantify over every operation sequence, every collection name, every record / filter / sort / limit
/ projection and every JSON value (no bound on anything). The naming of auto-generated ids is left to the driver:
the reference store is run with the names the driver chose and only demands that they are not in use
(`Err.notFresh` never occurs).

Run-level agreement comes in two strengths. `AgreeStrong` / `AgreeStrongBy` (the `…_strong` theorems) demand the
same answer for every operation — the in-contract errors `Err.dup` and `Err.badId` of insert included: the driver
must raise the same error, nothing changes, the comparison goes on — except where the reference store REJECTS the
operation as outside the contract (`Res.outside`: `Err.typeErr` = filter outside the filter language / unorderable
operands on some record / sort keys missing or unorderable, `Err.idInPart` = an "id" in an update part). The driver's
answer to a rejected operation is unconstrained; after a rejected query the comparison goes on (no store changes),
a rejected update / remove is the only point where it stops (the drivers apply such operations partially, or do not
raise at all on the id fast path — a modelled difference). The older `Agree` / `AgreeBy` stop at the first
reference error of any kind; the theorems stated with them are kept as corollaries.

The Mongo driver is modelled as far as `drivers/persist/mongo.py` itself goes (identifier mapping, filter / sort /
projection translation, record ↔ document, the update / replace / remove / insert shapes) and proved to refine the
reference store PER OPERATION (the `mongo_*_xlate_sound` theorems) and, chaining those, along EVERY HISTORY of
contract-domain operations (`mongo_refines_ref_run`) under two explicit provisos — every ObjectId the engine
generates is fresh in the engine state reached so far (`FreshRun`, a hypothesis), and update counts are compared by
`≤` (`AgreeByLe`); the unqualified statement `mongoRefinesRefFull` is false — all of it *modulo a declarative SPEC
of the document engine* (`Mongo.eFind` …), which is an assumption about MongoDB validated only through mongomock by
the correspondence check.
-/
namespace QtVerif.Store.C06
open QtVerif.Store

/-! ## The value codec (`utils/json.py` dumps / loads, RedisDriver `_value_to_db` / `_value_from_db`) -/

/-- **String escape / unescape round trip** — the heart of the codec: for every string of Unicode scalar values
(quotes, backslashes, control characters, non-ASCII and astral characters included), scanning its escaped text
gives the string back, whatever follows the closing quote. -/
theorem string_escape_roundtrip (s rest : Str) (hs : ∀ c ∈ s, Scalar c) :
    parseStrBody (s.length + 1) (escStr s ++ 34 :: rest) = some (s, rest) :=
  parseStrBody_escStr s hs rest _ (Nat.lt_succ_self _)

/-- **Codec round trip**: every well-formed value — null, booleans, integers of any size, finite floats, strings of
Unicode scalar values, dates, arbitrarily nested lists and dicts — is read back equal to what was written, for
every environment whose float / date text functions are inverse to each other (`FtLaw`). -/
theorem codec_roundtrip (ft : FloatText) (law : FtLaw ft) (v : JVal) (h : WF ft v) :
    decodeVal ft (encodeVal Fix.repaired ft v) = some v :=
  decode_encode ft law v h

/-- `FtLaw` and `WF` are satisfiable: a concrete environment and a nested value with a quote, a backslash, a control
character, an astral character, a big integer, a float and a date. -/
example : FtLaw demoFt := demoFt_law
example : WF demoFt (.obj [([107, 34], .arr [.str [34, 92, 10, 0, 233, 128512], .int (2 ^ 70), .num 4607182418800017408,
    .null, .bool true, .date false [50, 48, 50, 48, 45, 48, 49, 45, 48, 50]]), ([], .obj [])]) := by
  simp [WF, WFList, WFObj, Scalar, finiteBits, noTag, dget, dkeys, demoFt, kT]

/-- The code as found at the pinned commit (`dumps(str)` returns `'"' + s + '"'`) does **not** round-trip: the
one-character string `"` does not decode at all, and `a\b` decodes to a different string. -/
theorem unrepaired_codec_not_roundtrip (ft : FloatText) :
    (∃ v, WF ft v ∧ decodeVal ft (encodeVal Fix.asFound ft v) = none) ∧
    (∃ v w, WF ft v ∧ decodeVal ft (encodeVal Fix.asFound ft v) = some w ∧ w ≠ v) :=
  ⟨⟨.str [34], by simp [WF, Scalar], asFound_quote ft⟩,
   ⟨.str [97, 92, 98], .str [97, 8], by simp [WF, Scalar], asFound_backslash ft, by simp⟩⟩

/-! ## Queries: filter, lexicographic stable sort, limit, projection -/

/-- **The reference query is filter → sort → limit → project**: whenever the reference store answers a query with
records, they are the records of the collection that match the filter, stably sorted by the lexicographic order
of the sort keys, cut to the limit, each projected to the requested fields. -/
theorem query_is_filter_sort_limit_project (s : RefState) (name coll : Str) (fields : Option (List Str))
    (filt : Fields) (sort : List (Str × Bool)) (limit : Option Nat) (l : List Fields)
    (h : (Ref.step s name (.query coll fields filt sort limit)).2 = .recs l) :
    ∃ flags, matchAll filt (aget [] coll s) = some flags ∧
      l = (applyLimit limit (isort (lexLt sortKeyR sort) (selectBy (aget [] coll s) flags))).map (project fields) := by
  simp only [Ref.step] at h
  split at h
  · cases h
  · cases hm : matchAll filt (aget [] coll s : Coll) with
    | none => rw [hm] at h; cases h
    | some bs =>
      rw [hm] at h
      simp only [lexSort] at h
      by_cases hd : sortDomain sortKeyR sort (selectBy (aget [] coll s : Coll) bs) = true
      · simp only [hd, if_true, Res.recs.injEq] at h
        exact ⟨bs, rfl, h.symm⟩
      · simp only [hd, if_false] at h
        cases h

/-- **Sorting by the last key first, one stable pass per key** — what all drivers do
(`for field, rev in reversed(sort): records.sort(…)`) — **is the lexicographic stable sort** of the reference
store, whenever every sort key is present and Python's `<` is a strict weak order on the keys present
(`SortOK`; the reference store checks exactly this before it answers). -/
theorem multipass_sort_is_lexicographic {α : Type} (kf : Str → α → Option JVal) (sort : List (Str × Bool))
    (l : List α) (nd : l.Nodup) (h : SortOK kf sort l) :
    multiSort kf sort l = some (isort (lexLt kf sort) l) :=
  multiSort_eq_lex kf sort l nd h

/-- `SortOK` is what the executable domain check of the reference store establishes, and it holds on a concrete
collection with ties (non-vacuity). -/
example : SortOK sortKeyR [([110], true), ([115], false)]
    [[([110], .int 1), ([115], .str [98])], [([110], .int 1), ([115], .str [97])], [([110], .int 0), ([115], .str [99])]] :=
  sortDomain_spec _ _ _ (by decide)

/-- the stable sort is *the* stable sort: any other stable sorted permutation of a duplicate-free list is equal -/
theorem stable_sort_unique {α : Type} (lt : α → α → Bool) (l s : List α) (nd : l.Nodup) (hsw : SWO lt l)
    (p : s.Perm l) (h : s.Pairwise (RS lt l)) : s = isort lt l :=
  stable_unique lt l s (isort lt l) nd p (isort_perm lt l) h (isort_pairwise lt l hsw)

/-! ## The reference store: identifiers -/

/-- **Ids are unique**, whatever names are offered for the generated ones: after any history of operations of the
reference store, paired with arbitrary candidate names, every collection has pairwise distinct ids and every
record holds its own id (an offered name that is in use is refused with `Err.notFresh`). -/
theorem ids_unique (hist : List (Op × Str)) (coll : Str) :
    (aget [] coll (runRef [] hist) : Coll).ids.Nodup ∧
    ∀ d ∈ (aget [] coll (runRef [] hist) : Coll), dget kId d = some (.str (recId d)) :=
  runRef_ok hist [] RefOK.init coll

/-! ## The JSON driver -/

/-- **The JSON driver refines the reference store, strong form** (repaired `update`): for every sequence of
insert / update / replace / remove / query operations, starting from empty stores, every id the driver generates is
free in the reference store, and every result (ids, counts, flags, record lists in order, and the errors
`DuplicateRecordId` / bad id of insert) equals the reference store's; the comparison runs through the whole history
and stops only at an update / remove that the reference store rejects as outside the contract (`AgreeStrong`,
`Res.outside`). -/
theorem json_refines_ref_strong (fx : Fix) (hfx : fx.jsonUpdFilt = true) (ft : FloatText) (ops : List Op)
    (hops : ∀ op ∈ ops, op ≠ .reload) : AgreeStrong ops (runWith (Json.step fx ft) [] [] ops) :=
  json_run_agrees_strong fx hfx ft ops [] [] RelJ.init hops

/-- What the strong form adds, on the reviewer's example: in a history insert; insert; query where the reference
store refuses the second insert as a duplicate and answers the query, strong agreement forces the driver to refuse
the second insert with the same error AND to give the reference store's answer to the query (the weak `Agree` says
nothing about either). -/
theorem agreeStrong_continues_after_contract_error (norm : Res → Res) (o1 o2 o3 : Op) (j1 j2 j3 r1 r3 : Res)
    (h1 : r1.outside = false) (h3 : r3.outside = false)
    (h : AgreeStrongBy norm [o1, o2, o3] [(j1, r1), (j2, .err .dup), (j3, r3)]) :
    j2 = norm (.err .dup) ∧ j3 = norm r3 := by
  obtain ⟨_, _, k1⟩ := h
  obtain ⟨_, e2, k2⟩ := k1 (Or.inl h1)
  obtain ⟨_, e3, _⟩ := k2 (Or.inl rfl)
  exact ⟨e2 rfl, e3 h3⟩

/-- the weak form (agreement up to the first reference error of any kind) is a corollary -/
theorem json_refines_ref (fx : Fix) (hfx : fx.jsonUpdFilt = true) (ft : FloatText) (ops : List Op)
    (hops : ∀ op ∈ ops, op ≠ .reload) : Agree (runWith (Json.step fx ft) [] [] ops) :=
  AgreeStrong.weaken ops _ (json_refines_ref_strong fx hfx ft ops hops)

/-- one step from any related pair of states (the inductive step of the simulation) -/
theorem json_step_simulates (fx : Fix) (hfx : fx.jsonUpdFilt = true) (ft : FloatText) (js : JState) (rs : RefState)
    (hrel : RelJ js rs) (op : Op) (hop : op ≠ .reload) :
    let jr := Json.step fx ft js op
    let rr := Ref.step rs (match jr.2 with | .id n => n | _ => []) op
    rr.2 ≠ .err .notFresh ∧ ((∃ e, rr.2 = .err e) ∨ (jr.2 = rr.2 ∧ RelJ jr.1 rr.1)) :=
  json_step_refines fx hfx ft js rs hrel op hop

/-- one step, strong form: unless the reference store rejects the operation as outside the contract
(`Res.outside`), the answers are equal — the in-contract errors `dup` / `badId` included — and the states stay
related; a query keeps the states related in every case. -/
theorem json_step_simulates_strong (fx : Fix) (hfx : fx.jsonUpdFilt = true) (ft : FloatText) (js : JState)
    (rs : RefState) (hrel : RelJ js rs) (op : Op) (hop : op ≠ .reload) :
    let jr := Json.step fx ft js op
    let rr := Ref.step rs (match jr.2 with | .id n => n | _ => []) op
    rr.2 ≠ .err .notFresh ∧ (rr.2.outside = false → jr.2 = rr.2 ∧ RelJ jr.1 rr.1) ∧
      (op.isQuery = true → RelJ jr.1 rr.1) :=
  json_step_refines_strong fx hfx ft js rs hrel op hop

/-- the reference store's errors other than the out-of-contract rejections come from insert only (`dup`, `badId`) -/
theorem ref_errors_outside_unless_insert (s : RefState) (name : Str) (op : Op) (hop : ∀ c r, op ≠ .insert c r)
    (e : Err) (h : (Ref.step s name op).2 = .err e) : (Ref.step s name op).2.outside = true :=
  ref_err_outside s name op hop e h

/-- **Re-opening the JSON file** (a fresh driver instance on the same file) changes nothing: every collection,
record and value written with `json.dumps` + tagged dates is read back by `json.loads` + the hook, in order.
Stated for any well-formed file; `json_reload_identity_reachable` discharges `FileWF` for every reachable state. -/
theorem json_reload_identity (fx : Fix) (ft : FloatText) (law : FtLaw ft) (js : JState) (h : FileWF ft js) :
    Json.step fx ft js .reload = (js, .unit) :=
  reload_identity fx ft law js h

example : FileWF demoFt [([99], [([97], [(kId, .str [97]), ([115], .str [34, 92, 10])])])] := by
  intro p hp
  simp only [List.mem_singleton] at hp
  subst hp
  refine ⟨⟨by simp [dkeys], ?_⟩, ?_⟩
  · intro q hq; simp only [List.mem_singleton] at hq; subst hq; simp [dget, kId]
  · intro q hq; simp only [List.mem_singleton] at hq; subst hq
    simp [WF, WFObj, Scalar, noTag, dget, dkeys, kId, kT]

/-- **`FileWF` holds in every reachable state**: starting from the empty store, after any history of operations
that carry well-formed values (`OpWF`: records and update parts are `WF` dicts, an update part does not name "id",
replace ids are strings of scalar values; re-opening allowed at any point), the file satisfies the hypothesis of
`json_reload_identity`. Also after operations that fail or that the reference store rejects (a partial update
included). -/
theorem fileWF_run (fx : Fix) (ft : FloatText) (law : FtLaw ft) (ops : List Op) (hops : ∀ op ∈ ops, OpWF ft op) :
    FileWF ft (runJson fx ft [] ops) :=
  QtVerif.Store.fileWF_run fx ft law ops hops

/-- **Re-opening the JSON file is the identity in every reachable state** (corollary of `json_reload_identity` and
`fileWF_run`): no hypothesis on the state is left. -/
theorem json_reload_identity_reachable (fx : Fix) (ft : FloatText) (law : FtLaw ft) (ops : List Op)
    (hops : ∀ op ∈ ops, OpWF ft op) :
    Json.step fx ft (runJson fx ft [] ops) .reload = (runJson fx ft [] ops, .unit) :=
  reload_identity fx ft law _ (QtVerif.Store.fileWF_run fx ft law ops hops)

/-- one step keeps the file well-formed, from any well-formed file -/
theorem fileWF_step (fx : Fix) (ft : FloatText) (law : FtLaw ft) (js : JState) (h : FileWF ft js) (op : Op)
    (hop : OpWF ft op) : FileWF ft (Json.step fx ft js op).1 :=
  QtVerif.Store.fileWF_step fx ft law js h op hop

/-- `OpWF` is satisfiable by a history with an insert (quote / backslash in a value), an update, a replace, a
remove, a query and a re-open -/
example : ∀ op ∈ [Op.insert [99] [(kId, .str [97]), ([115], .str [34, 92, 10])], Op.update [99] [([110], .int 5)] [(kId, .str [97])],
    Op.replace [99] [97] [([110], .null)], Op.remove [99] [], Op.query [99] none [] [] none, Op.reload], OpWF demoFt op := by
  intro op hop
  simp only [List.mem_cons, List.mem_nil_iff, or_false] at hop
  rcases hop with rfl | rfl | rfl | rfl | rfl | rfl <;>
    simp [OpWF, WF, WFObj, Scalar, noTag, dget, dkeys, kId, kT]

/-- **Id allocation**: `_find_next_id` never returns an id that is in use. -/
theorem json_generated_id_fresh (c : JColl) : Json.findNextId c ∉ dkeys c := findNextId_fresh c

/-- The code as found (`update` with a filter `{id: X, …}` ignores the rest of the filter): record `a` with
`n = 1` is updated by `update({m: 5}, {id: a, n: 2})`, which the reference store leaves alone (0 records). -/
theorem unrepaired_json_update_ignores_filter (ft : FloatText) :
    let s0 := (Json.step Fix.asFound ft [] (.insert [99] [(kId, .str [97]), ([110], .int 1)])).1
    let r0 := (Ref.step [] [] (.insert [99] [(kId, .str [97]), ([110], .int 1)])).1
    let op := Op.update [99] [([109], .int 5)] [(kId, .str [97]), ([110], .int 2)]
    (Json.step Fix.asFound ft s0 op).2 = .count 1 ∧ (Ref.step r0 [] op).2 = .count 0 := by
  constructor <;> rfl

/-! ## The Redis driver -/

/-- **The Redis driver refines the reference store** (repaired code) under the codec round trip: for every
sequence of operations whose dicts have distinct keys and whose values are well-formed, starting from an empty
server, every generated id is free, and every result equals the reference store's with the id moved to the end
of each record (`normRes`; records are dicts, the position of a key is not observable through the API). -/
theorem redis_refines_ref (ft : FloatText) (law : FtLaw ft) (ops : List Op)
    (hops : ∀ op ∈ ops, OpOK (WF ft) op) :
    AgreeBy normRes (runWith (Redis.step Fix.repaired ft) [] [] ops) :=
  redis_run_agrees ft (WF ft) (fun v hv => decode_encode ft law v hv) ops [] [] (RelR.init ft (WF ft)) hops

/-- **The Redis driver refines the reference store, strong form** (same hypotheses): the comparison runs through
the whole history — the errors `DuplicateRecordId` / bad id of insert must be raised by the driver as well and
change nothing — and stops only at an update / remove that the reference store rejects as outside the contract
(`AgreeStrongBy`, `Res.outside`). `redis_refines_ref` follows by `AgreeStrongBy.weaken`. -/
theorem redis_refines_ref_strong (ft : FloatText) (law : FtLaw ft) (ops : List Op)
    (hops : ∀ op ∈ ops, OpOK (WF ft) op) :
    AgreeStrongBy normRes ops (runWith (Redis.step Fix.repaired ft) [] [] ops) :=
  redis_run_agrees_strong ft (WF ft) (fun v hv => decode_encode ft law v hv) ops [] [] (RelR.init ft (WF ft)) hops

/-- the strong form relative to any class of values that survive the per-field codec -/
theorem redis_refines_ref_strong_under_codec_roundtrip (ft : FloatText) (Good : JVal → Prop)
    (hrt : ∀ v, Good v → decodeVal ft (encodeVal Fix.repaired ft v) = some v) (ops : List Op)
    (hops : ∀ op ∈ ops, OpOK Good op) :
    AgreeStrongBy normRes ops (runWith (Redis.step Fix.repaired ft) [] [] ops) :=
  redis_run_agrees_strong ft Good hrt ops [] [] (RelR.init ft Good) hops

/-- the weak forms are corollaries of the strong ones -/
theorem redis_weak_of_strong (ft : FloatText) (Good : JVal → Prop)
    (hrt : ∀ v, Good v → decodeVal ft (encodeVal Fix.repaired ft v) = some v) (ops : List Op)
    (hops : ∀ op ∈ ops, OpOK Good op) :
    AgreeBy normRes (runWith (Redis.step Fix.repaired ft) [] [] ops) :=
  AgreeStrongBy.weaken normRes ops _ (redis_refines_ref_strong_under_codec_roundtrip ft Good hrt ops hops)

/-- the same, stated relative to any class of values that survive the per-field codec (the refinement uses
nothing else about the codec) -/
theorem redis_refines_ref_under_codec_roundtrip (ft : FloatText) (Good : JVal → Prop)
    (hrt : ∀ v, Good v → decodeVal ft (encodeVal Fix.repaired ft v) = some v) (ops : List Op)
    (hops : ∀ op ∈ ops, OpOK Good op) :
    AgreeBy normRes (runWith (Redis.step Fix.repaired ft) [] [] ops) :=
  redis_run_agrees ft Good hrt ops [] [] (RelR.init ft Good) hops

/-- the hypotheses of `redis_refines_ref` are met by a concrete history (non-vacuity) -/
example : ∀ op ∈ [Op.insert [99] [(kId, .str [97]), ([115], .str [34, 92])], Op.update [99] [([115], .null)] [(kId, .str [97])],
    Op.query [99] none [([115], .obj [(opIn, .arr [.null])])] [([115], false)] (some 1)], OpOK (WF demoFt) op := by
  intro op hop
  simp only [List.mem_cons, List.mem_nil_iff, or_false] at hop
  rcases hop with rfl | rfl | rfl <;> simp [OpOK, dkeys, dpop, kId, WF, Scalar, opIn]

/-- **Id allocation**: the counter loop of the repaired `_get_next_id` returns an id that is not in the id set. -/
theorem redis_generated_id_fresh (c : RColl) : (Redis.nextId Fix.repaired c (c.ids.length + 1)).1 ∉ c.ids :=
  nextId_fresh' c

/-- The code as found, four defects of the Redis driver, each against the reference store on the same history:
(1) remove by id with a non-matching rest of the filter drops the id from the id set — a later scan misses the
record; (2) a record without fields is not found by id; (3) an update with an empty part deletes the fields;
(4) the id counter runs into an id given explicitly — the insert without id fails. -/
theorem unrepaired_redis_defects (ft : FloatText) :
    -- (1)
    ((Redis.step Fix.asFound ft (Redis.step Fix.asFound ft (Redis.step Fix.asFound ft []
          (.insert [99] [(kId, .str [97]), ([110], .null)])).1
          (.remove [99] [(kId, .str [97]), ([110], .bool true)])).1 (.query [99] none [] [] none)).2 = .recs [] ∧
     (Redis.step Fix.repaired ft (Redis.step Fix.repaired ft (Redis.step Fix.repaired ft []
          (.insert [99] [(kId, .str [97]), ([110], .null)])).1
          (.remove [99] [(kId, .str [97]), ([110], .bool true)])).1 (.query [99] none [] [] none)).2
        = .recs [[([110], .null), (kId, .str [97])]]) ∧
    -- (2)
    ((Redis.step Fix.asFound ft (Redis.step Fix.asFound ft [] (.insert [99] [(kId, .str [97])])).1
        (.query [99] none [(kId, .str [97])] [] none)).2 = .recs [] ∧
     (Redis.step Fix.repaired ft (Redis.step Fix.repaired ft [] (.insert [99] [(kId, .str [97])])).1
        (.query [99] none [(kId, .str [97])] [] none)).2 = .recs [[(kId, .str [97])]]) ∧
    -- (3)
    ((Redis.step Fix.asFound ft (Redis.step Fix.asFound ft (Redis.step Fix.asFound ft [] (.insert [99] [(kId, .str [97]), ([110], .null)])).1
        (.update [99] [] [])).1 (.query [99] none [] [] none)).2 = .recs [[(kId, .str [97])]]) ∧
    -- (4)
    ((Redis.step Fix.asFound ft (Redis.step Fix.asFound ft [] (.insert [99] [(kId, .str [49])])).1 (.insert [99] [])).2
        = .err .dup ∧
     (Redis.step Fix.repaired ft (Redis.step Fix.repaired ft [] (.insert [99] [(kId, .str [49])])).1 (.insert [99] [])).2
        = .id [50]) := by
  exact ⟨⟨rfl, rfl⟩, ⟨rfl, rfl⟩, rfl, ⟨rfl, rfl⟩⟩

/-! ## `persist.replace` -/

/-- **`persist.replace` reports what it did** (repaired): `True` when the driver replaced an existing record,
`False` when there was none and the record was inserted. -/
theorem api_replace_reports {σ : Type} (drv : σ → Op → σ × Res) (s : σ) (coll id : Str) (rec : Fields) :
    (∀ s1, drv s (.replace coll id (dset kId (.str id) rec)) = (s1, .flag true) →
      (Api.replace Fix.repaired drv s coll id rec).2 = .flag true) ∧
    (∀ s1 s2 i, drv s (.replace coll id (dset kId (.str id) rec)) = (s1, .flag false) →
      drv s1 (.insert coll (dset kId (.str id) rec)) = (s2, .id i) →
      (Api.replace Fix.repaired drv s coll id rec).2 = .flag false) := by
  constructor
  · intro s1 h; simp [Api.replace, h, Fix.repaired]
  · intro s1 s2 i h1 h2; simp [Api.replace, h1, h2, Fix.repaired]

/-- the code as found returned the opposite -/
theorem unrepaired_api_replace_inverted {σ : Type} (drv : σ → Op → σ × Res) (s s1 : σ) (coll id : Str) (rec : Fields)
    (h : drv s (.replace coll id (dset kId (.str id) rec)) = (s1, .flag true)) :
    (Api.replace Fix.asFound drv s coll id rec).2 = .flag false := by
  simp [Api.replace, h, Fix.asFound]

/-! ## The Mongo driver: identifiers -/

/-- **Ids come back as given**: `_id_from_db ∘ _id_to_db` is the identity on every string (24 lower-case hex
digits travel as an ObjectId, everything else as itself; repaired `fullmatch`). -/
theorem mongo_id_roundtrip (s : Str) : ∃ d, Mongo.idToDb Fix.repaired s = some d ∧ Mongo.idFromDb d = s :=
  idToDb_roundtrip s

/-- **Distinct ids stay distinct** in the engine (case-sensitively): `_id_to_db` is injective. -/
theorem mongo_id_injective (s t : Str) (d : Mongo.DbId) (hs : Mongo.idToDb Fix.repaired s = some d)
    (ht : Mongo.idToDb Fix.repaired t = some d) : s = t :=
  idToDb_injective s t d hs ht

/-- The code as found (`_OBJECT_ID_RE.match`, where `$` also matches before a final newline): the id made of
24 lower-case hex digits and a newline is taken for an ObjectId, which `bson.ObjectId` refuses (`InvalidId`). -/
theorem unrepaired_mongo_id_newline :
    Mongo.idToDb Fix.asFound ([48, 49, 50, 51, 52, 53, 54, 55, 56, 57, 97, 98, 99, 100, 101, 102, 48, 49, 50, 51, 52, 53, 54, 55] ++ [10])
      = none := by
  decide

/-- Why the ObjectId test must be case-sensitive: with a test that accepts hex digits of either case, the id
`DEADBEEF00112233AABBCCDD` comes back lower-cased and collides with its lower-case spelling. -/
theorem mongo_loose_id_test_not_injective :
    let up : Str := [68, 69, 65, 68, 66, 69, 69, 70, 48, 48, 49, 49, 50, 50, 51, 51, 65, 65, 66, 66, 67, 67, 68, 68]
    let lo : Str := [100, 101, 97, 100, 98, 101, 101, 102, 48, 48, 49, 49, 50, 50, 51, 51, 97, 97, 98, 98, 99, 99, 100, 100]
    idToDbLoose up = idToDbLoose lo ∧ (idToDbLoose up).map Mongo.idFromDb = some lo ∧ up ≠ lo ∧
    (Mongo.idToDb Fix.repaired up).map Mongo.idFromDb = some up := by
  decide

/-! ## The Mongo driver: translation to the document engine

Status of this section: **PARTIAL**. The `mongo_*_xlate_sound` theorems below are PER-OPERATION statements from an
arbitrary related pair of states (`RelM`), modulo the declarative engine SPEC (`Mongo.eFind`, `eMatches`, … — an
assumption about MongoDB, validated only through mongomock by the correspondence check), restricted to the contract
domain (`MQueryOK` / `MFiltOK` / `MInsertOK` / `MRecIn`); insert needs a freshness hypothesis on the ObjectId the
engine generates, and update only bounds the reported count (`m ≤ n`). The run-level refinement in the shape of
`redis_refines_ref` (`mongoRefinesRefFull` below) is FALSE as stated; the run-level theorem that does hold,
`mongo_refines_ref_run` (last section of this file), carries the freshness of every generated ObjectId as a
hypothesis (`FreshRun`) and compares update counts by `≤` (`AgreeByLe`). -/

/-- the operations of the Mongo contract domain: the hypotheses of the per-operation theorems -/
def MOpOK : Op → Prop
  | .insert _ rec => MInsertOK rec
  | .update _ part filt => MFiltOK filt ∧ Mongo.kUid ∉ dkeys part
  | .replace _ _ rec => MRecIn rec ∧ kId ∉ dkeys rec
  | .remove _ filt => MFiltOK filt
  | .query _ fields filt sort limit => MQueryOK fields filt sort limit
  | .reload => True

/-- lock-step run of the Mongo driver model over the engine SPEC and the reference store; every operation comes with
the bytes of the ObjectId the engine would generate for a document inserted without "_id" -/
def runMongo : Mongo.MState → RefState → List (Op × List Nat) → List (Res × Res)
  | _, _, [] => []
  | ms, rs, (op, gen) :: t =>
    let mr := Mongo.step Fix.repaired ms gen op
    let rr := Ref.step rs (match mr.2 with | .id n => n | _ => []) op
    (mr.2, rr.2) :: runMongo mr.1 rr.1 t

/-- The run-level refinement statement for the Mongo driver, in the shape of `redis_refines_ref`: under the engine
SPEC, for every sequence of operations of the contract domain (each with a well-formed generated ObjectId), the
results agree with the reference store's (`AgreeBy normRes`).

**NOT PROVED — and not provable as stated** (`mongoRefinesRefFull_false` below refutes it). It is written down only to make explicit what the `mongo_*_xlate_sound`
theorems do NOT add up to:
* generated ObjectIds: `mongo_insert_xlate_sound` needs `hfresh` (the generated ObjectId is not the "_id" of a
  document of the collection). That is a property of the engine's generator relative to the WHOLE history (explicit
  ids that look like ObjectIds included), which this statement does not assume; without it the engine answers
  `DuplicateKeyError` where the reference store accepts the insert. A provable variant must carry, for every
  insert, the freshness of `gen` in the state reached so far;
* update: the driver reports `modified_count`, the reference store the number of matching records;
  `mongo_update_xlate_sound` proves only `m ≤ n` (recorded finding C06-mongo-update-modified-count), so `AgreeBy`
  (equal counts) fails on an update that matches a record without changing it. A provable variant must compare
  update counts by `≤`;
* the per-operation theorems have to be chained by an induction over the history as for JSON / Redis (`RelM` is
  re-established by each of them).
The variant with exactly these three changes is proved: `mongo_refines_ref_run` at the end of this file. -/
def mongoRefinesRefFull : Prop :=
  ∀ hist : List (Op × List Nat), (∀ og ∈ hist, MOpOK og.1 ∧ GenOK og.2) → AgreeBy normRes (runMongo [] [] hist)

/-- `mongoRefinesRefFull` is FALSE as stated (first bullet of its comment): when the engine generates the same
ObjectId twice, the second insert fails with `DuplicateKeyError` in the driver while the reference store accepts
it. The freshness of generated ObjectIds is a genuine assumption of `mongo_insert_xlate_sound`, not a technicality. -/
theorem mongoRefinesRefFull_false : ¬ mongoRefinesRefFull := by
  intro h
  have hok : ∀ og ∈ [(Op.insert [99] [], [0,0,0,0,0,0,0,0,0,0,0,0]), (Op.insert [99] [], [0,0,0,0,0,0,0,0,0,0,0,0])],
      MOpOK og.1 ∧ GenOK og.2 := by
    intro og hog
    simp only [List.mem_cons, List.mem_nil_iff, or_false, or_self] at hog
    subst hog
    exact ⟨⟨⟨by decide, by decide⟩, Or.inl rfl⟩, by decide, by decide⟩
  have e : runMongo [] [] [(Op.insert [99] [], [0,0,0,0,0,0,0,0,0,0,0,0]), (Op.insert [99] [], [0,0,0,0,0,0,0,0,0,0,0,0])]
      = [(.id (Mongo.bytesHex [0,0,0,0,0,0,0,0,0,0,0,0]), .id (Mongo.bytesHex [0,0,0,0,0,0,0,0,0,0,0,0])),
         (.err .dup, .id [])] := by
    rfl
  have := h _ hok
  rw [e] at this
  simp [AgreeBy, normRes] at this

/-- **A translated filter selects the same records** (PARTIAL: one record, one filter, modulo the engine SPEC): for a record the driver can hold and a filter of the
contract (exact values, gt / ge / lt / le / in; on "id": exact value or `in`), whenever Python's filter gives a
verdict on the record, the engine's evaluation of the translated filter (`id ↦ _id` with mapped operands,
`$`-operators) on the record's document gives the same verdict. -/
theorem mongo_filter_xlate_sound (d : Fields) (hd : MRecOK d) (filt : Fields) (hf : MFiltOK filt) (ef : Mongo.EFilt)
    (he : Mongo.filtToDb Fix.repaired filt = some ef) (b : Bool) (h : recMatches d filt = some b) :
    Mongo.eMatches (docOf d) ef = b :=
  xlate_matches d hd filt hf ef he b h

/-- **`mongo_xlate_sound`** (PARTIAL: per operation from any related pair of states, modulo the engine SPEC, contract
domain only; for the run-level theorem see `mongo_refines_ref_run`): for filters / sorts / projections / limits in the contract domain (`MQueryOK`: no
sort by "id", no `limit=0`, no `fields=[]`, no "_id" keys — the recorded engine classes), the translated query run
on the engine SPEC returns exactly the reference store's records, in the same order, the id last in each. -/
theorem mongo_xlate_sound (ms : Mongo.MState) (rs : RefState) (hrel : RelM ms rs) (gen : List Nat) (coll : Str)
    (fields : Option (List Str)) (filt : Fields) (sort : List (Str × Bool)) (limit : Option Nat)
    (hq : MQueryOK fields filt sort limit) :
    let mr := Mongo.step Fix.repaired ms gen (.query coll fields filt sort limit)
    let rr := Ref.step rs [] (.query coll fields filt sort limit)
    (∃ e, rr.2 = .err e) ∨ (mr.2 = normRes rr.2 ∧ RelM mr.1 rr.1) :=
  mongo_query_sound ms rs hrel gen coll fields filt sort limit hq

/-- the hypotheses are satisfiable: a filter on "id" (`in`) and on a range, two sort keys, a limit, a projection -/
example : MQueryOK (some [[110], kId]) [(kId, .obj [(opIn, .arr [.str [97], .str [98]])]), ([110], .obj [(opGe, .int 1), (opLt, .int 9)])]
    [([110], true), ([115], false)] (some 3) := by
  refine ⟨⟨by decide, by decide, ?_⟩, by decide, by decide, by decide, ?_⟩
  · intro c hc
    simp only [dget, kId, if_true, Option.some.injEq] at hc
    subst hc
    intro ow how
    simp only [List.mem_singleton] at how
    subst how
    exact ⟨rfl, _, rfl⟩
  · intro fs hfs; injection hfs with hfs; subst hfs; decide

/-- remove (PARTIAL: per operation, modulo the engine SPEC, `MFiltOK` filters): same count, and the engine ends in
the reference store's state -/
theorem mongo_remove_xlate_sound (ms : Mongo.MState) (rs : RefState) (hrel : RelM ms rs) (gen : List Nat) (coll : Str)
    (filt : Fields) (hf : MFiltOK filt) :
    let mr := Mongo.step Fix.repaired ms gen (.remove coll filt)
    let rr := Ref.step rs [] (.remove coll filt)
    (∃ e, rr.2 = .err e) ∨ (mr.2 = rr.2 ∧ RelM mr.1 rr.1) :=
  mongo_remove_sound ms rs hrel gen coll filt hf

/-- update (`$set`) (PARTIAL: per operation, modulo the engine SPEC; the count is only bounded, `m ≤ n`, not
equal): the engine ends in the reference store's state; the driver reports `modified_count`, never
more than the reference store's number of matching records (recorded finding C06-mongo-update-modified-count) -/
theorem mongo_update_xlate_sound (ms : Mongo.MState) (rs : RefState) (hrel : RelM ms rs) (gen : List Nat) (coll : Str)
    (part filt : Fields) (hf : MFiltOK filt) (hu : Mongo.kUid ∉ dkeys part) :
    let mr := Mongo.step Fix.repaired ms gen (.update coll part filt)
    let rr := Ref.step rs [] (.update coll part filt)
    (∃ e, rr.2 = .err e) ∨ ((∃ m n, mr.2 = .count m ∧ rr.2 = .count n ∧ m ≤ n) ∧ RelM mr.1 rr.1) :=
  mongo_update_sound ms rs hrel gen coll part filt hf hu

/-- replace (PARTIAL: per operation, modulo the engine SPEC, records without "id" / "_id" keys): same flag, same
state -/
theorem mongo_replace_xlate_sound (ms : Mongo.MState) (rs : RefState) (hrel : RelM ms rs) (gen : List Nat) (coll id : Str)
    (rec : Fields) (hr : MRecIn rec) (hnoid : kId ∉ dkeys rec) :
    let mr := Mongo.step Fix.repaired ms gen (.replace coll id rec)
    let rr := Ref.step rs [] (.replace coll id rec)
    mr.2 = rr.2 ∧ RelM mr.1 rr.1 :=
  mongo_replace_sound ms rs hrel gen coll id rec hr hnoid

/-- insert (PARTIAL: per operation, modulo the engine SPEC, under the freshness HYPOTHESIS `hfresh` on the generated
ObjectId, which no theorem here discharges along a history — `mongo_refines_ref_run` carries it as `FreshRun`): explicit ids come back as given (duplicates are refused on both sides); a document without "_id" gets
the ObjectId `gen` the engine generates — assumed not to be in use (`hfresh`) — and the reference store accepts
its hex text as a free name; same state afterwards. -/
theorem mongo_insert_xlate_sound (ms : Mongo.MState) (rs : RefState) (hrel : RelM ms rs) (gen : List Nat) (coll : Str)
    (rec : Fields) (hin : MInsertOK rec) (hgen : GenOK gen)
    (hfresh : ∀ d ∈ (aget [] coll rs : Coll), Mongo.idV Fix.repaired (.str (recId d)) ≠ some (.oid gen)) :
    let mr := Mongo.step Fix.repaired ms gen (.insert coll rec)
    let rr := Ref.step rs (match mr.2 with | .id n => n | _ => []) (.insert coll rec)
    rr.2 ≠ .err .notFresh ∧ ((∃ e, rr.2 = .err e) ∨ (mr.2 = rr.2 ∧ RelM mr.1 rr.1)) :=
  mongo_insert_sound ms rs hrel gen coll rec hin hgen hfresh

example : MInsertOK [([110], .int 1), (kId, .str [97])] ∧ GenOK [1, 2, 3, 4, 5, 6, 7, 8, 9, 10, 11, 255] :=
  ⟨⟨⟨by decide, by decide⟩, Or.inr ⟨[97], rfl⟩⟩, by decide, by decide⟩

/-! ## The Mongo driver: the run

The run-level refinement that IS provable (cf. `mongoRefinesRefFull`, which is not): the per-operation theorems
chained through `RelM` by induction over the history (`mongo_run_agrees` in `QtVerif/Proofs/MongoRun.lean`), with
* `FreshRun ms hist` — a HYPOTHESIS, discharged by nothing here: at every insert of a record without "id", the
  ObjectId `gen` that comes with the operation is not the "_id" of a document the ENGINE holds in that collection in
  the state reached so far (`Mongo.hasUid (.oid gen) docs = false`). It is a statement about MongoDB's ObjectId
  generator relative to the whole history (explicit ids that look like ObjectIds included);
* `AgreeByLe normRes ops l` — `AgreeBy normRes l` except that at `update` operations the driver's count
  (`modified_count`) is only `≤` the reference store's (number of matching records). As `AgreeBy`, it demands that
  the reference store never answers `notFresh` and stops comparing at the first reference error of any kind
  (`AgreeByLe.of_noUpdate`: without updates it is `AgreeBy`; `AgreeByLe.of_agreeBy`: it is weaker than `AgreeBy`).
Still modulo the engine SPEC (`Mongo.step` runs the driver's translation on the declarative `Mongo.eFind` /
`eMatches` / … of the model: an assumption about MongoDB, not a theorem) and restricted to the contract domain
(`MOpOK`). -/

/-- `MOpOK` / `runMongo` above are the `MongoOpOK` / `mongoRun` of `QtVerif/Proofs/MongoRun.lean` -/
theorem mOpOK_iff (op : Op) : MOpOK op ↔ MongoOpOK op := by cases op <;> exact Iff.rfl

theorem runMongo_eq_mongoRun : ∀ (hist : List (Op × List Nat)) (ms : Mongo.MState) (rs : RefState),
    runMongo ms rs hist = mongoRun ms rs hist := by
  intro hist
  induction hist with
  | nil => intro _ _; rfl
  | cons og t ih =>
    obtain ⟨op, gen⟩ := og
    intro ms rs
    simp only [runMongo, mongoRun, ih]
    rfl

/-- the run-level refinement from ANY related pair of states (`RelM`: the engine holds, per collection, the
documents of the reference store's records, in order; ids distinct; records the driver can hold) -/
theorem mongo_refines_ref_run_from (ms : Mongo.MState) (rs : RefState) (hrel : RelM ms rs)
    (hist : List (Op × List Nat)) (hops : ∀ og ∈ hist, MOpOK og.1 ∧ GenOK og.2) (hfresh : FreshRun ms hist) :
    AgreeByLe normRes (hist.map Prod.fst) (runMongo ms rs hist) := by
  rw [runMongo_eq_mongoRun]
  exact mongo_run_agrees hist ms rs hrel (fun og h => ⟨(mOpOK_iff og.1).mp (hops og h).1, (hops og h).2⟩) hfresh

/-- **`mongo_refines_ref_run`** — the Mongo driver (over the engine SPEC) refines the reference store along every
history: for every sequence of operations of the contract domain, each with a well-formed generated ObjectId
(`GenOK`), such that every ObjectId the engine actually generates (inserts without "id") is fresh in the engine state
reached so far (`FreshRun`, a hypothesis), started from the empty stores: the reference store — offered the ids the
driver returned — never answers `notFresh`, and up to its first error every answer of the driver is the reference
store's (`normRes`: the id last in each record), except that an update reports a count `≤` the reference store's
(`AgreeByLe`). This is `mongoRefinesRefFull` with the three amendments listed in its comment. -/
theorem mongo_refines_ref_run (hist : List (Op × List Nat))
    (hops : ∀ og ∈ hist, MOpOK og.1 ∧ GenOK og.2) (hfresh : FreshRun [] hist) :
    AgreeByLe normRes (hist.map Prod.fst) (runMongo [] [] hist) :=
  mongo_refines_ref_run_from [] [] RelM.init hist hops hfresh

/-- histories WITHOUT update: plain `AgreeBy normRes`, the conclusion of `redis_refines_ref` / of
`mongoRefinesRefFull` — freshness (`FreshRun`) is then the only extra hypothesis -/
theorem mongo_refines_ref_run_noUpdate (hist : List (Op × List Nat))
    (hops : ∀ og ∈ hist, MOpOK og.1 ∧ GenOK og.2) (hfresh : FreshRun [] hist)
    (hno : ∀ og ∈ hist, og.1.isUpdate = false) :
    AgreeBy normRes (runMongo [] [] hist) :=
  AgreeByLe.of_noUpdate normRes _ _
    (fun op h => by obtain ⟨og, hog, e⟩ := List.mem_map.mp h; rw [← e]; exact hno og hog)
    (mongo_refines_ref_run hist hops hfresh)

/-- a concrete history: insert without id (the engine generates `0102…0bff`), insert with the explicit id "a",
update of field "n" on every record (it changes one of the two), query, remove by id -/
def demoGen : List Nat := [1, 2, 3, 4, 5, 6, 7, 8, 9, 10, 11, 255]
def demoHist : List (Op × List Nat) :=
  [(.insert [99] [([110], .int 1)], demoGen),
   (.insert [99] [([110], .int 2), (kId, .str [97])], demoGen),
   (.update [99] [([110], .int 2)] [], demoGen),
   (.query [99] none [] [] none, demoGen),
   (.remove [99] [(kId, .str [97])], demoGen)]

/-- the hypotheses of `mongo_refines_ref_run` are met by `demoHist` (non-vacuity): contract domain … -/
theorem demoHist_ok : ∀ og ∈ demoHist, MOpOK og.1 ∧ GenOK og.2 := by
  have hg : GenOK demoGen := ⟨by decide, by decide⟩
  have hf0 : MFiltOK [] := ⟨by decide, by decide, fun c hc => by simp [dget] at hc⟩
  intro og hog
  simp only [demoHist, List.mem_cons, List.mem_nil_iff, or_false] at hog
  rcases hog with h | h | h | h | h <;> subst h <;> refine ⟨?_, hg⟩
  · exact ⟨⟨by decide, by decide⟩, Or.inl rfl⟩
  · exact ⟨⟨by decide, by decide⟩, Or.inr ⟨[97], rfl⟩⟩
  · exact ⟨hf0, by decide⟩
  · exact ⟨hf0, by decide, by decide, by decide, fun fs hfs => by cases hfs⟩
  · refine ⟨by decide, by decide, ?_⟩
    intro c hc
    simp only [dget, kId, if_true, Option.some.injEq] at hc
    subst hc
    exact trivial

/-- … and freshness of the generated ObjectId along the run (decidable) -/
example : FreshRun [] demoHist := by decide

/-- freshness is a real constraint: the same history with the first insert repeated is not `FreshRun` -/
example : ¬ FreshRun [] ((Op.insert [99] [([110], .int 1)], demoGen) :: demoHist) := by decide

/-- the run itself: no reference error, so all five answers are compared; the update reports 1 (modified) against
the reference store's 2 (matched) — the conclusion is not trivial, and it is not `AgreeBy` -/
theorem demoRun : runMongo [] [] demoHist =
    [(.id (Mongo.bytesHex demoGen), .id (Mongo.bytesHex demoGen)),
     (.id [97], .id [97]),
     (.count 1, .count 2),
     (.recs [[([110], .int 2), (kId, .str (Mongo.bytesHex demoGen))], [([110], .int 2), (kId, .str [97])]],
      .recs [[([110], .int 2), (kId, .str (Mongo.bytesHex demoGen))], [([110], .int 2), (kId, .str [97])]]),
     (.count 1, .count 1)] := by
  rfl

example : AgreeByLe normRes (demoHist.map Prod.fst) (runMongo [] [] demoHist) :=
  mongo_refines_ref_run demoHist demoHist_ok (by decide)

/-- on this history `AgreeBy` (equal update counts) fails: the relaxation to `≤` in `AgreeByLe` is needed -/
theorem demoRun_not_agreeBy : ¬ AgreeBy normRes (runMongo [] [] demoHist) := by
  intro h
  rw [demoRun] at h
  simp [AgreeBy, normRes] at h

end QtVerif.Store.C06
