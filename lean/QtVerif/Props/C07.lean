import QtVerif.Proofs.Config
/-!
C07 — configuration and persisted values survive a restart unchanged.

The model (`QtVerif.Model.Config`) is the hub's in-memory configuration together with its persistence store; the
operations are the API calls that change configuration, the value-change handling of the polling loop, the periodic
save loop and a process restart (`boot`: nothing survives but the store). All theorems quantify over EVERY history of
operations (restarts in the middle included), every attribute value (arbitrary strings), every set of statically
configured ports and every canonicalisation function `canon` satisfying C03's print fixpoint.

Hypotheses collected in `CfgOK`: `canon` is idempotent on its image (C03); the repaired `set_port_attrs`
(`saveOnError`, fixes/C07-save-after-partial-patch.diff; the unrepaired code violates the property:
`unrepaired_partial_patch_lost`); statically configured port classes have distinct, canonical default attributes, are
not virtual and — when writable — return no value before the first write; password hashes are never the empty string.
The store returns what was stored (C06).

**What "every persistence driver" rests on.** The store of this model is ABSTRACT: `Store` is a record of total lookup
functions `String → Option …` (one per collection: `vports`, `ports`, `slaves`, plus the `device` record), written by
point updates, i.e. a store that returns exactly what was last stored under an id and `none` after a removal. None of
the theorems below mentions a driver. That they hold for EVERY persistence driver (JSON file, Redis, MongoDB, …) is
therefore not proved here: it is the composition with C06, which proves that each driver refines the reference record
store `Ref` (`json_refines_ref`, `redis_refines_ref`, the `mongo_*_xlate_sound` family; `QtVerif/Props/C06.lean`), of
which the `String → Option` store is the by-id view (insert/replace/remove/get by `id`). The composition itself is not
a Lean theorem — C06's `Ref` works on encoded records (`Fields` of `JVal`s in named collections, character-level
strings), C07's store on decoded `PortRec`s; the encoding between the two is exercised by the correspondence check,
which runs C07's histories on the real drivers. C06 is not imported here.

**"Written once" reads as follows.** `restart_writes` / `persisted_value_written_once` conclude
`writes = loadWrites cfg p v`, which is AT MOST one write. The positive clause — exactly one write, with the transformed
value — is `persisted_value_written_exactly_once`; the cases with NO write (SpecChoices of the repaired code) are
spelled out in `persisted_value_not_written_when`.
-/
namespace QtVerif.C07
open QtVerif.Config

/-- what the property compares of a port `q` after the restart with the port `p` before it: same driver definition
(type, writability, virtual-port definition …), same value of every attribute, and the last value if persisted -/
def SamePort (p q : Port) : Prop :=
  q.pdef = p.pdef ∧ q.attrs = p.attrs ∧ (persistedOf p = true → ∀ v, p.value = some v → q.value = some v)

def SameHub (a b : Hub) : Prop :=
  (∀ id, match a.ports id, b.ports id with
    | none, none => True
    | some p, some q => SamePort p q
    | _, _ => False) ∧
  b.device = a.device ∧ b.slaves = a.slaves

/-- General form: in every reachable state, every port that is not marked pending-save is reproduced by a restart. -/
theorem restart_reproduces_saved_ports (cfg : Cfg) (ok : CfgOK cfg) (ops : List Op) (id : String) :
    let st := run cfg (init cfg) ops
    match st.hub.ports id, (boot cfg st.store).hub.ports id with
    | none, none => True
    | some p, some q => p.pendingSave = false → SamePort p q
    | _, _ => False := by
  intro st
  have inv : Inv cfg st := inv_run cfg ok _ ops (inv_init cfg ok)
  have hi := inv.ports id
  cases hp : st.hub.ports id with
  | none =>
    rw [hp] at hi
    have : (boot cfg st.store).hub.ports id = none := by
      simp only [boot, bootPort, hi.1, hi.2.1, Option.map_none]
    rw [this]; trivial
  | some p =>
    rw [hp] at hi
    have hb := bootPort_of_inv cfg st.store id p hi
    have : (boot cfg st.store).hub.ports id
        = some (loadFromData cfg (fresh p.pdef) ((st.store.ports id).getD emptyRec)).1 := by
      simp only [boot, hb, Option.map_some]
    rw [this]
    intro hps
    have hr := hi.synced hps
    exact ⟨hr.pdef, hr.attrs, hr.value⟩

/-- **load ∘ save = id** on everything the property observes: after any history followed by a save (one iteration of
the save loop) and a restart, the hub has the same ports with the same attributes, the same device settings and
password hashes, the same slave devices (connection settings, cached attributes, pending edits), and persisted ports
have their last value. -/
theorem load_save_roundtrip (cfg : Cfg) (ok : CfgOK cfg) (ops : List Op) :
    let st := run cfg (init cfg) (ops ++ [.saveTick])
    SameHub st.hub (boot cfg st.store).hub := by
  intro st
  have inv : Inv cfg st := inv_run cfg ok _ _ (inv_init cfg ok)
  refine ⟨?_, ?_, ?_⟩
  · intro id
    have h := restart_reproduces_saved_ports cfg ok (ops ++ [.saveTick]) id
    simp only at h
    cases hp : st.hub.ports id with
    | none =>
      cases hq : (boot cfg st.store).hub.ports id with
      | none => trivial
      | some q => rw [hp, hq] at h; exact h
    | some p =>
      cases hq : (boot cfg st.store).hub.ports id with
      | none => rw [hp, hq] at h; exact h
      | some q =>
        rw [hp, hq] at h
        apply h
        have e : st = (step cfg (run cfg (init cfg) ops) .saveTick).1 := by
          show run cfg (init cfg) (ops ++ [.saveTick]) = _
          rw [run_append]; rfl
        rw [e] at hp
        exact saveTick_clean cfg _ id p hp
  · exact inv.device
  · exact inv.slaves.symm ▸ rfl

/-- The driver writes of the restart are exactly the expected ones, port by port. -/
theorem restart_writes (cfg : Cfg) (ok : CfgOK cfg) (ops : List Op) (id : String) :
    let st := run cfg (init cfg) (ops ++ [.saveTick])
    (boot cfg st.store).writes id =
      match st.hub.ports id with
      | some p => expectedWrites cfg p
      | none => [] := by
  intro st
  have inv : Inv cfg st := inv_run cfg ok _ _ (inv_init cfg ok)
  have hi := inv.ports id
  cases hp : st.hub.ports id with
  | none =>
    rw [hp] at hi
    simp only [boot, bootPort, hi.1, hi.2.1]
  | some p =>
    rw [hp] at hi
    have hb := bootPort_of_inv cfg st.store id p hi
    have e : st = (step cfg (run cfg (init cfg) ops) .saveTick).1 := by
      show run cfg (init cfg) (ops ++ [.saveTick]) = _
      rw [run_append]; rfl
    have hps : p.pendingSave = false := by
      rw [e] at hp; exact saveTick_clean cfg _ id p hp
    simp only [boot, hb]
    exact (hi.synced hps).writes

/-- **persisted value written once**: after any history + save + restart, a persisted, writable port that had a value
comes back with that value and its driver receives exactly one write — the value passed through the write
transform; a port that is not persisted (or has no value) receives no write at all. -/
theorem persisted_value_written_once (cfg : Cfg) (ok : CfgOK cfg) (ops : List Op) (id : String) (p : Port) :
    let st := run cfg (init cfg) (ops ++ [.saveTick])
    st.hub.ports id = some p →
      (persistedOf p = true → ∀ v, p.value = some v →
        (∃ q, (boot cfg st.store).hub.ports id = some q ∧ q.value = some v) ∧
        (boot cfg st.store).writes id = loadWrites cfg p v) ∧
      (persistedOf p = false → (boot cfg st.store).writes id = []) ∧
      (p.value = none → (boot cfg st.store).writes id = []) := by
  intro st hp
  have hw := restart_writes cfg ok ops id
  have hr := (load_save_roundtrip cfg ok ops).1 id
  simp only at hw hr
  rw [hp] at hw hr
  refine ⟨?_, ?_, ?_⟩
  · intro hper v hv
    constructor
    · cases hq : (boot cfg st.store).hub.ports id with
      | none => rw [hq] at hr; exact hr.elim
      | some q => rw [hq] at hr; exact ⟨q, rfl, hr.2.2 hper v hv⟩
    · rw [hw]; simp only [expectedWrites, hper, hv]
  · intro hper; rw [hw]; simp only [expectedWrites, hper]
  · intro hv; rw [hw]; simp only [expectedWrites, hv]; cases persistedOf p <;> rfl

/-- `p` has no write transform: the attribute is absent (`None`) or the empty text -/
def NoWriteXform (p : Port) : Prop :=
  p.attrs "transform_write" = some (.str "") ∨ p.attrs "transform_write" = none

instance (p : Port) : Decidable (NoWriteXform p) :=
  inferInstanceAs (Decidable (p.attrs "transform_write" = some (.str "") ∨ p.attrs "transform_write" = none))

/-- **persisted value written EXACTLY once** (the positive clause). After any history + save + restart, a WRITABLE,
persisted port that had value `v`, and that is enabled or has no write transform, has received exactly ONE driver
write during the load: a one-element list, whose element is what the model's write transform makes of `v`
(`writeXform cfg p v`: `some w` when the transform `transform_write` yields `w`, `none` when it yields no value) —
and that is `v` itself when the port has no write transform. -/
theorem persisted_value_written_exactly_once (cfg : Cfg) (ok : CfgOK cfg) (ops : List Op) (id : String) (p : Port)
    (v : PVal) :
    let st := run cfg (init cfg) (ops ++ [.saveTick])
    st.hub.ports id = some p → p.pdef.writable = true → persistedOf p = true → p.value = some v →
    (enabledOf p = true ∨ NoWriteXform p) →
      (boot cfg st.store).writes id = [writeXform cfg p v] ∧
      (NoWriteXform p → (boot cfg st.store).writes id = [some v]) := by
  intro st hp hw hper hv hen
  have h := ((persisted_value_written_once cfg ok ops id p hp).1 hper v hv).2
  have h1 : (boot cfg st.store).writes id = [writeXform cfg p v] := by
    rw [h]
    unfold loadWrites
    rw [if_pos hw]
    rcases hen with he | hn | hn
    · rw [if_neg (by rw [he]; simp)]
    · rw [if_neg (by rw [hn]; simp)]
    · rw [if_neg (by rw [hn]; simp)]
  refine ⟨h1, ?_⟩
  intro hn
  rw [h1]
  rcases hn with hn | hn <;> simp [writeXform, hn]

/-- **… and when it is NOT written** (zero writes although the port is persisted and has a value). Two cases, both
SpecChoices recorded from the (repaired) code, not consequences of the property text:
1. the port is not writable — `load_from_data` only restores the last value, there is nothing to write to;
2. the port is DISABLED and has a (non-empty) write transform — evaluating the transform reads the port's own value,
   which raises `DisabledPort` on a disabled port; the repaired `load_from_data` logs the error and skips the write
   (the code as found let the exception abort the start of the hub). The value itself is still restored
   (`persisted_value_written_once`, first conjunct). -/
theorem persisted_value_not_written_when (cfg : Cfg) (ok : CfgOK cfg) (ops : List Op) (id : String) (p : Port)
    (v : PVal) :
    let st := run cfg (init cfg) (ops ++ [.saveTick])
    st.hub.ports id = some p → persistedOf p = true → p.value = some v →
      (p.pdef.writable = false → (boot cfg st.store).writes id = []) ∧
      (enabledOf p = false → ¬ NoWriteXform p → (boot cfg st.store).writes id = []) := by
  intro st hp hper hv
  have h := ((persisted_value_written_once cfg ok ops id p hp).1 hper v hv).2
  constructor
  · intro hw
    rw [h]; unfold loadWrites; rw [hw]; rfl
  · intro he hn
    rw [h]; unfold loadWrites
    have h1 : p.attrs "transform_write" ≠ some (.str "") := fun e => hn (Or.inl e)
    have h2 : p.attrs "transform_write" ≠ none := fun e => hn (Or.inr e)
    split
    · rw [if_pos ⟨he, h1, h2⟩]
    · rfl

/-- the three clauses together are exhaustive: a persisted port with a value gets one write or none, and which of the
two is decided by `writable`, `enabled` and the presence of a write transform alone -/
theorem persisted_value_write_count (cfg : Cfg) (ok : CfgOK cfg) (ops : List Op) (id : String) (p : Port) (v : PVal) :
    let st := run cfg (init cfg) (ops ++ [.saveTick])
    st.hub.ports id = some p → persistedOf p = true → p.value = some v →
      ((boot cfg st.store).writes id).length =
        if p.pdef.writable = true ∧ (enabledOf p = true ∨ NoWriteXform p) then 1 else 0 := by
  intro st hp hper hv
  by_cases hw : p.pdef.writable = true
  · by_cases hen : enabledOf p = true ∨ NoWriteXform p
    · rw [if_pos ⟨hw, hen⟩, (persisted_value_written_exactly_once cfg ok ops id p v hp hw hper hv hen).1]; rfl
    · rw [if_neg (fun h => hen h.2)]
      have he : enabledOf p = false := by
        cases h : enabledOf p with
        | false => rfl
        | true => exact (hen (Or.inl h)).elim
      rw [(persisted_value_not_written_when cfg ok ops id p v hp hper hv).2 he (fun h => hen (Or.inr h))]; rfl
  · rw [if_neg (fun h => hw h.1)]
    have hw' : p.pdef.writable = false := by
      cases h : p.pdef.writable with
      | false => rfl
      | true => exact (hw h).elim
    rw [(persisted_value_not_written_when cfg ok ops id p v hp hper hv).1 hw']; rfl

/-- **deleted stays deleted**: in every reachable state (no save needed), a port id that the hub does not have —
never added, or removed by DELETE /ports/id — is absent after a restart and nothing is written to it; the same for
slave devices. Together with `delete_removes`, a removed port does not reappear. -/
theorem deleted_stays_deleted (cfg : Cfg) (ok : CfgOK cfg) (ops : List Op) (id : String) :
    let st := run cfg (init cfg) ops
    (st.hub.ports id = none → (boot cfg st.store).hub.ports id = none ∧ (boot cfg st.store).writes id = []) ∧
    (st.hub.slaves id = none → (boot cfg st.store).hub.slaves id = none) := by
  intro st
  have inv : Inv cfg st := inv_run cfg ok _ ops (inv_init cfg ok)
  constructor
  · intro hp
    have hi := inv.ports id
    rw [hp] at hi
    simp only [boot, bootPort, hi.1, hi.2.1, Option.map_none, and_self]
  · intro hs
    simp only [boot]
    rw [inv.slaves]; exact hs

/-- a successful DELETE removes the port from the hub and its records from the store (no orphan that a later
POST with the same id could pick up) -/
theorem delete_removes (cfg : Cfg) (st : State) (id : String) (h : (step cfg st (.del id)).2 = .ok) :
    (step cfg st (.del id)).1.hub.ports id = none ∧ (step cfg st (.del id)).1.store.ports id = none ∧
    (step cfg st (.del id)).1.store.vports id = none := by
  simp only [step] at h ⊢
  cases hp : st.hub.ports id with
  | none => rw [hp] at h; cases h
  | some p =>
    rw [hp] at h
    simp only at h ⊢
    by_cases hv : p.pdef.virtual = true
    · simp only [hv, not_true_eq_false, if_false, upd_self, and_self]
    · simp only [hv] at h; cases h

/-! ### the first read after the restart (read and write transforms)

`load_from_data` restores the stored — transformed, user-level — value as the port's last value and hands it to the
driver through the WRITE transform only; the first polling pass then reads the driver back through the READ transform.
The theorems above speak about the port as the load leaves it; `firstRead` is what the hub reports from the first
polling pass on. -/

/-- the first read after the restart is determined by the port as it was before the restart: `read(write(v))` for a
persisted, enabled, writable port, `v` otherwise -/
theorem first_read_after_restart (cfg : Cfg) (ok : CfgOK cfg) (ops : List Op) (id : String) (p : Port) (v : PVal) :
    let st := run cfg (init cfg) (ops ++ [.saveTick])
    st.hub.ports id = some p → persistedOf p = true → p.value = some v →
      ∃ q, (boot cfg st.store).hub.ports id = some q ∧ q.value = some v ∧ firstRead cfg q = firstRead cfg p := by
  intro st hp hper hv
  have hr := (load_save_roundtrip cfg ok ops).1 id
  rw [hp] at hr
  cases hq : (boot cfg st.store).hub.ports id with
  | none => rw [hq] at hr; exact hr.elim
  | some q =>
    rw [hq] at hr
    have hqv := hr.2.2 hper v hv
    exact ⟨q, rfl, hqv, firstRead_congr cfg q p hr.1 hr.2.1 (by rw [hqv, hv])⟩

/-- **persisted value survives the first read**: when the port's read transform undoes its write transform on the
value (`InverseOn`; in particular when it has neither), the persisted value is still reported after the first polling
pass that follows the restart. Without that hypothesis the statement is false for the code as it is:
`non_inverse_transforms_drift` (known finding C07-non-inverse-transforms-drift). -/
theorem persisted_value_survives_first_read (cfg : Cfg) (ok : CfgOK cfg) (ops : List Op) (id : String) (p : Port)
    (v : PVal) (hi : InverseOn cfg p v) :
    let st := run cfg (init cfg) (ops ++ [.saveTick])
    st.hub.ports id = some p → persistedOf p = true → p.value = some v →
      ∃ q, (boot cfg st.store).hub.ports id = some q ∧ q.value = some v ∧ firstRead cfg q = some v := by
  intro st hp hper hv
  obtain ⟨q, hq, hqv, hf⟩ := first_read_after_restart cfg ok ops id p v hp hper hv
  exact ⟨q, hq, hqv, by rw [hf]; exact firstRead_of_inverse cfg p v hv hi⟩

/-! ### non-vacuity and the defects of the code -/

/-- a concrete configuration: texts are canonical as they are, except that `BAD(` does not parse -/
def demoCfg (repaired : Bool) : Cfg :=
  { canon := fun _ t => if t = "BAD(" then none else some t, xf := fun _ v => some v, statics := fun _ => none,
    hist := false, saveOnError := repaired, defName := "hub", hash := fun s => "h:" ++ s, emptyHash := "h:" }

def numDef : VDef := { isNumber := true, min := none, max := none, step := none, integer := none, choices := none }

theorem demoCfg_ok : CfgOK (demoCfg true) := by
  refine ⟨?_, rfl, ?_, by decide, ?_⟩
  · intro k t c h
    simp only [demoCfg] at h ⊢
    by_cases e : t = "BAD("
    · rw [if_pos e] at h; cases h
    · rw [if_neg e] at h
      simp only [Option.some.injEq] at h
      subst h; rw [if_neg e]
  · intro id d h; cases h
  · intro s h
    have := congrArg String.length h
    simp [demoCfg, String.length_append] at this

def attrOf (h : Hub) (id n : String) : Option AVal := (h.ports id).bind (fun p => p.attrs n)

/-- the history of the witness: add a virtual port, PATCH it with a good attribute and an unparsable expression
(the request is answered 400 but `tag` has been applied), let the save loop run -/
def witnessOps : List Op :=
  [.addV "v1" numDef, .patch "v1" [("tag", .str "good"), ("expression", .str "BAD(")], .saveTick]

/-- non-vacuity of the hypotheses and of the statement: the witness history is covered by the theorems (repaired
code) and its port is really there with the new attribute -/
example : attrOf (run (demoCfg true) (init (demoCfg true)) witnessOps).hub "v1" "tag" = some (.str "good") := by
  decide +kernel

example : SameHub (run (demoCfg true) (init (demoCfg true)) witnessOps).hub
    (boot (demoCfg true) (run (demoCfg true) (init (demoCfg true)) witnessOps).store).hub :=
  load_save_roundtrip (demoCfg true) demoCfg_ok [.addV "v1" numDef, .patch "v1" [("tag", .str "good"), ("expression", .str "BAD(")]]

/-- **The unrepaired code violates the property** (`set_port_attrs` raises before `port.save()` when one attribute
is refused): after the witness history the hub reports `tag = "good"`, after a restart it reports `tag = ""`. -/
theorem unrepaired_partial_patch_lost :
    let st := run (demoCfg false) (init (demoCfg false)) witnessOps
    attrOf st.hub "v1" "tag" = some (.str "good") ∧
    attrOf (boot (demoCfg false) st.store).hub "v1" "tag" = some (.str "") := by
  intro st
  constructor
  · decide +kernel
  · have hr : st.store.ports "v1" = some { value := none, fields :=
        [("display_name", .str ""), ("unit", .str ""), ("enabled", .bool true), ("tag", .str ""),
         ("expression", .str ""), ("transform_read", .str ""), ("transform_write", .str ""),
         ("persisted", .bool false), ("internal", .bool false)] } := by decide +kernel
    have hv : st.store.vports "v1" = some numDef := by decide +kernel
    have := boot_vport_attr (demoCfg false) st.store "v1" numDef _ rfl hv hr (by decide +kernel) "tag"
    unfold attrOf
    rw [this]
    decide +kernel

/-! ### known finding: transforms that are not mutually inverse -/

/-- texts are canonical as they are; `ADD(10, $)` adds 10, `SUB($, 10)` subtracts 10 -/
def driftCfg : Cfg :=
  { canon := fun _ t => some t,
    xf := fun t v => match v with
      | .num n => if t = "ADD(10, $)" then some (.num (n + 10)) else if t = "SUB($, 10)" then some (.num (n - 10)) else some v
      | .bool _ => some v,
    statics := fun _ => none, hist := false, saveOnError := true, defName := "hub", hash := fun s => "h:" ++ s,
    emptyHash := "h:" }

theorem driftCfg_ok : CfgOK driftCfg := by
  refine ⟨?_, rfl, ?_, by decide, ?_⟩
  · intro k t c h
    simp only [driftCfg, Option.some.injEq] at h ⊢
  · intro id d h; cases h
  · intro s h
    have := congrArg String.length h
    simp [driftCfg, String.length_append] at this

/-- a persisted virtual port with a read transform and no write transform (what is left of a PATCH whose write
transform was refused); its driver holds 1, the hub reports 11 -/
def driftOps (tw : String) : List Op :=
  [.addV "v1" numDef,
   .patch "v1" [("transform_read", .str "ADD(10, $)"), ("transform_write", .str tw), ("persisted", .bool true)],
   .valueChange "v1" (some (.num 11))]

def portView (cfg : Cfg) (h : Hub) (id : String) : Option (Bool × Option PVal × Option PVal) :=
  (h.ports id).map (fun p => (persistedOf p, p.value, firstRead cfg p))

/-- **The code as it is violates the property for transforms that are not mutually inverse** (known finding
C07-non-inverse-transforms-drift): the port reports 11 before the restart, the load restores 11 and writes 11 to the
driver, and from the first polling pass on the hub reports 21 — the persisted value drifts by the read transform at
every restart. -/
theorem non_inverse_transforms_drift :
    let st := run driftCfg (init driftCfg) (driftOps "" ++ [.saveTick])
    ∃ p q, st.hub.ports "v1" = some p ∧ p.value = some (.num 11) ∧
      (boot driftCfg st.store).hub.ports "v1" = some q ∧ q.value = some (.num 11) ∧
      (boot driftCfg st.store).writes "v1" = [some (.num 11)] ∧
      firstRead driftCfg q = some (.num 21) := by
  intro st
  have hview : portView driftCfg st.hub "v1" = some (true, some (.num 11), some (.num 21)) := by decide +kernel
  unfold portView at hview
  cases hp : st.hub.ports "v1" with
  | none => rw [hp] at hview; cases hview
  | some p =>
    rw [hp] at hview
    simp only [Option.map_some, Option.some.injEq, Prod.mk.injEq] at hview
    obtain ⟨hper, hv, hf⟩ := hview
    obtain ⟨q, hq, hqv, hfq⟩ := first_read_after_restart driftCfg driftCfg_ok (driftOps "") "v1" p (.num 11) hp hper hv
    have hw := (persisted_value_written_once driftCfg driftCfg_ok (driftOps "") "v1" p hp).1 hper (.num 11) hv
    refine ⟨p, q, rfl, hv, hq, hqv, ?_, by rw [hfq]; exact hf⟩
    rw [hw.2]
    have : (st.hub.ports "v1").map (fun p => loadWrites driftCfg p (.num 11)) = some [some (.num 11)] := by
      decide +kernel
    rw [hp] at this
    simpa using this

/-- non-vacuity of `InverseOn` and of `persisted_value_survives_first_read`: the same port with the inverse write
transform `SUB($, 10)` reports 11 after the restart as well -/
example :
    let st := run driftCfg (init driftCfg) (driftOps "SUB($, 10)" ++ [.saveTick])
    portView driftCfg st.hub "v1" = some (true, some (.num 11), some (.num 11)) := by decide +kernel

example (p : Port) (h1 : p.attrs "transform_write" = some (.str "SUB($, 10)"))
    (h2 : p.attrs "transform_read" = some (.str "ADD(10, $)")) (n : Int) : InverseOn driftCfg p (.num n) := by
  intro w hw
  simp only [writeXform, h1, driftCfg] at hw
  simp only [readXform, h2, driftCfg]
  simp at hw
  subst hw
  simp

/-! ### non-vacuity of the write-count theorems: one write with the transformed value, and the two zero-write cases -/

/-- a statically configured, NON-writable, persisted port whose driver reads 5 -/
def roDef : PortDef :=
  { virtual := false, writable := false, vdef := none,
    defaults := [("enabled", .bool true), ("persisted", .bool true)], initial := some (.num 5) }

def roCfg : Cfg := { driftCfg with statics := fun id => if id = "s1" then some roDef else none }

theorem roCfg_ok : CfgOK roCfg := by
  refine ⟨driftCfg_ok.canon, rfl, ?_, by decide, driftCfg_ok.hashNe⟩
  intro id d h
  have hd : d = roDef := by
    simp only [roCfg] at h
    split at h
    · exact (Option.some.inj h).symm
    · cases h
  subst hd
  refine ⟨⟨by decide, ?_⟩, rfl, fun h => by cases h⟩
  intro n v hl old
  simp only [roDef, lookupF] at hl
  split at hl
  · next e => subst e; cases hl; rfl
  · split at hl
    · next e => subst e; cases hl; rfl
    · cases hl

set_option synthInstance.maxSize 512

/-- (writable, persisted, enabled, value, no write transform?, write transform of `v`) of port `id` after
`ops ++ [saveTick]` — everything the hypotheses of the write-count theorems look at, computable by the kernel -/
def caseView (cfg : Cfg) (ops : List Op) (id : String) (v : PVal) :
    Option (Bool × Bool × Bool × Option PVal × Bool × Option PVal) :=
  ((run cfg (init cfg) (ops ++ [.saveTick])).hub.ports id).map
    (fun p => (p.pdef.writable, persistedOf p, enabledOf p, p.value, decide (NoWriteXform p), writeXform cfg p v))

/-- `persisted_value_written_exactly_once` applied to a state given by its view -/
theorem exactly_once_of_view (cfg : Cfg) (ok : CfgOK cfg) (ops : List Op) (id : String) (v : PVal) (en nx : Bool)
    (x : Option PVal) (h : caseView cfg ops id v = some (true, true, en, some v, nx, x)) (hc : en = true ∨ nx = true) :
    (boot cfg (run cfg (init cfg) (ops ++ [.saveTick])).store).writes id = [x] := by
  unfold caseView at h
  cases hp : (run cfg (init cfg) (ops ++ [.saveTick])).hub.ports id with
  | none => rw [hp] at h; cases h
  | some p =>
    rw [hp] at h
    simp only [Option.map_some, Option.some.injEq, Prod.mk.injEq] at h
    obtain ⟨hw, hper, hen, hv, hnx, hx⟩ := h
    rw [(persisted_value_written_exactly_once cfg ok ops id p v hp hw hper hv
      (hc.imp (fun e => hen.trans e) (fun e => of_decide_eq_true (hnx.trans e)))).1, hx]

/-- `persisted_value_not_written_when` applied to a state given by its view -/
theorem not_written_of_view (cfg : Cfg) (ok : CfgOK cfg) (ops : List Op) (id : String) (v : PVal) (w en nx : Bool)
    (x : Option PVal) (h : caseView cfg ops id v = some (w, true, en, some v, nx, x))
    (hc : w = false ∨ (en = false ∧ nx = false)) :
    (boot cfg (run cfg (init cfg) (ops ++ [.saveTick])).store).writes id = [] := by
  unfold caseView at h
  cases hp : (run cfg (init cfg) (ops ++ [.saveTick])).hub.ports id with
  | none => rw [hp] at h; cases h
  | some p =>
    rw [hp] at h
    simp only [Option.map_some, Option.some.injEq, Prod.mk.injEq] at h
    obtain ⟨hw, hper, hen, hv, hnx, _⟩ := h
    have t := persisted_value_not_written_when cfg ok ops id p v hp hper hv
    rcases hc with e | ⟨e1, e2⟩
    · exact t.1 (hw.trans e)
    · exact t.2 (hen.trans e1) (of_decide_eq_false (hnx.trans e2))

/-- `persisted_value_written_exactly_once`, first disjunct: writable, persisted, ENABLED, write transform `SUB($, 10)`,
value 11 — the driver receives the single write 1 (= 11 − 10) -/
example : (boot driftCfg (run driftCfg (init driftCfg) (driftOps "SUB($, 10)" ++ [.saveTick])).store).writes "v1"
    = [some (.num 1)] :=
  exactly_once_of_view driftCfg driftCfg_ok (driftOps "SUB($, 10)") "v1" (.num 11) true false (some (.num 1))
    (by decide +kernel) (Or.inl rfl)

/-- second disjunct: DISABLED but no write transform — still exactly one write, of the value itself -/
example :
    let ops := driftOps "" ++ [.patch "v1" [("enabled", .bool false)]]
    (boot driftCfg (run driftCfg (init driftCfg) (ops ++ [.saveTick])).store).writes "v1" = [some (.num 11)] :=
  exactly_once_of_view driftCfg driftCfg_ok _ "v1" (.num 11) false true (some (.num 11)) (by decide +kernel) (Or.inr rfl)

/-- `persisted_value_not_written_when`, case 2: disabled WITH a write transform — no write (the value 11 is restored) -/
example :
    let ops := driftOps "SUB($, 10)" ++ [.patch "v1" [("enabled", .bool false)]]
    (boot driftCfg (run driftCfg (init driftCfg) (ops ++ [.saveTick])).store).writes "v1" = [] :=
  not_written_of_view driftCfg driftCfg_ok _ "v1" (.num 11) true false false (some (.num 1)) (by decide +kernel)
    (Or.inr ⟨rfl, rfl⟩)

/-- case 1: a NON-writable persisted port (configuration `roCfg` satisfies `CfgOK`) — value 7 restored, no write -/
example : (boot roCfg (run roCfg (init roCfg) ([.valueChange "s1" (some (.num 7))] ++ [.saveTick])).store).writes "s1"
    = [] :=
  not_written_of_view roCfg roCfg_ok _ "s1" (.num 7) false true true (some (.num 7)) (by decide +kernel) (Or.inl rfl)

/-! ### the device record under PATCH /device and PUT /device (= reset + load + set_attrs + save) -/

/-- **device settings and password hashes survive a restart after ANY history** — edits through PATCH /device, resets
through PUT /device (which removes the `device` record from the store before writing it again), restarts anywhere;
no save-loop tick is needed, as both API calls save the record themselves: what a restart loads from the `device`
record is the hub's last device state. -/
theorem device_survives_restart (cfg : Cfg) (ok : CfgOK cfg) (ops : List Op) :
    let st := run cfg (init cfg) ops
    (boot cfg st.store).hub.device = st.hub.device := by
  intro st
  exact (inv_run cfg ok _ ops (inv_init cfg ok)).device

/-- **PUT /device in any reachable state**: the name and the display name are those of the document (the defaults —
host name, `''` — for what the document leaves out: the reset comes first), the three password hashes are the ones in
force before the call, the record written after the reset holds exactly that state, and a restart reports it. -/
theorem put_device_roundtrip (cfg : Cfg) (ok : CfgOK cfg) (ops : List Op) (name dn : Option String) :
    let st := run cfg (init cfg) ops
    let st' := (step cfg st (.putDev name dn)).1
    st'.hub.device = { name := name.getD cfg.defName, displayName := dn.getD "",
                       adminHash := st.hub.device.adminHash, normalHash := st.hub.device.normalHash,
                       viewonlyHash := st.hub.device.viewonlyHash } ∧
    st'.store.device = some (saveDevice st'.hub.device) ∧
    (boot cfg st'.store).hub.device = st'.hub.device := by
  intro st st'
  have inv : Inv cfg st := inv_run cfg ok _ ops (inv_init cfg ok)
  obtain ⟨a, b, c⟩ := inv.devWF
  refine ⟨?_, rfl, (inv_step cfg ok st (.putDev name dn) inv).device⟩
  show (step cfg st (.putDev name dn)).1.hub.device = _
  simp only [step, resetDevice, orEmptyHash, if_neg a, if_neg b, if_neg c]

/-- every device edit — PATCH /device as well as PUT /device — leaves the record of the `device` collection equal to the
hub's device state, whatever was stored (or removed) before -/
theorem device_saved_by_every_edit (cfg : Cfg) (st : State) (op : Op)
    (h : (∃ d, op = .patchDev d) ∨ (∃ n dn, op = .putDev n dn)) :
    (step cfg st op).1.store.device = some (saveDevice (step cfg st op).1.hub.device) := by
  rcases h with ⟨d, rfl⟩ | ⟨n, dn, rfl⟩ <;> rfl

/-- the history of seeded change C07-r4-2: a device save, PUT /device (backup restore), further edits, a restart -/
def deviceOps : List Op :=
  [.patchDev { name := some "hub1", displayName := some "Hub \"one\"", adminPw := some "s3cret" },
   .patchDev { viewonlyPw := some "guest" },
   .putDev (some "hub1") (some "Hub \"one\""),
   .patchDev { displayName := some "cellar", normalPw := some "user" }]

/-- non-vacuity: after that history and a restart the hub reports the last state (the theorem), and that state is the
expected one: restored name, edited display name, all three passwords in force -/
example : (boot (demoCfg true) (run (demoCfg true) (init (demoCfg true)) deviceOps).store).hub.device =
    (run (demoCfg true) (init (demoCfg true)) deviceOps).hub.device :=
  device_survives_restart (demoCfg true) demoCfg_ok deviceOps

example : (boot (demoCfg true) (run (demoCfg true) (init (demoCfg true)) deviceOps).store).hub.device =
    { name := "hub1", displayName := "cellar", adminHash := "h:s3cret", normalHash := "h:user",
      viewonlyHash := "h:guest" } := by
  decide +kernel

/-- a PUT /device whose document has no name: the reset shows (default name), the passwords stay -/
example : (boot (demoCfg true) (run (demoCfg true) (init (demoCfg true))
      [.patchDev { name := some "hub1", adminPw := some "pw" }, .putDev none (some "d")]).store).hub.device =
    { name := "hub", displayName := "d", adminHash := "h:pw", normalHash := "h:", viewonlyHash := "h:" } := by
  decide +kernel

end QtVerif.C07
