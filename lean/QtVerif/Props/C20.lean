import QtVerif.Proofs.Backup
/-!
C20 — backup then restore reproduces the same configuration.

Model: `QtVerif.Model.Backup` on the configuration types of C07. Source: ports as GET /ports reports them (any list
with distinct ids); target hub `st` in ANY other state. Hypotheses: source ports well-formed (`WF`: attribute support
fixed by the driver class, expression texts canonical under C03's print fixpoint — invariants of every reachable state,
proved in C07) and the two hubs run the same static configuration (`TargetOK`).
-/
namespace QtVerif.C20
open QtVerif.Config QtVerif.Backup

/-- what the target must share with the source for an entry (same static configuration on both hubs): a virtual
source port's id is not taken by a non-virtual port of the target and its attribute values have the JSON types of a
new virtual port; a non-virtual source port exists on the target with the same driver definition and types -/
def TargetOK (cfg : Cfg) (b : Option Port) (p : Port) : Prop :=
  (p.pdef.virtual = true ∧ afterReset b = none ∧
    ∃ vd, p.pdef = vportDef cfg.hist vd ∧
      Compatible (setAttr cfg (fresh (vportDef cfg.hist vd)) "enabled" (.bool true)).1 p) ∨
  (∃ t, afterReset b = some t ∧ Compatible t p)

/-- **restore ∘ backup on one entry**: whatever the target hub holds under that id, restoring the GET entry of `p`
yields a port with the same definition, the same value of every attribute and — when the port is enabled (GET
reports null otherwise) — the same value. -/
theorem restore_roundtrip_entry (cfg : Cfg) (p : Port) (id : String) (b : Option Port)
    (hp : WF cfg p) (ht : TargetOK cfg b p) :
    ∃ r, restoreEntry cfg b (docOf id p) = .ok (some r) ∧ r.pdef = p.pdef ∧ r.attrs = p.attrs ∧
      (enabledOf p = true → r.value = p.value) := by
  unfold restoreEntry
  rcases ht with ⟨hv, hb, vd, hvd, hc⟩ | ⟨t, hb, hc⟩
  · rw [hb]
    have e : restoreOn cfg none (docOf id p) =
        restoreOn cfg (some (setAttr cfg (fresh (vportDef cfg.hist vd)) "enabled" (.bool true)).1) (docOf id p) := by
      simp only [restoreOn, docOf, hvd, vportDef, if_true]
    rw [e]
    exact restoreOn_doc cfg p _ id hp hc
  · rw [hb]; exact restoreOn_doc cfg p t id hp hc

/-- **restore ∘ backup on a whole document** (full strength): for every source (any list of well-formed ports with
distinct ids) and every target state running the same static configuration, PUT /ports ACCEPTS the document obtained
from GET /ports of the source, and afterwards the target holds under every entry's id a port with the source's
definition, attributes and (if enabled) value; passwords and everything else outside the document are untouched
(`restore_device`). -/
theorem restore_roundtrip (cfg : Cfg) (src : List (String × Port)) (st : BState)
    (nd : (src.map (·.1)).Nodup)
    (hsrc : ∀ x ∈ src, WF cfg x.2 ∧ TargetOK cfg (st.ports x.1) x.2) :
    (putPorts cfg st (src.map (fun x => docOf x.1 x.2))).2 = .ok ∧
    ∀ x ∈ src, ∃ r, (putPorts cfg st (src.map (fun x => docOf x.1 x.2))).1.ports x.1 = some r ∧
      r.pdef = x.2.pdef ∧ r.attrs = x.2.attrs ∧ (enabledOf x.2 = true → r.value = x.2.value) := by
  have hok : (putPorts cfg st (src.map (fun x => docOf x.1 x.2))).2 = .ok := by
    apply putBody_accepts cfg src (fun id => afterReset (st.ports id)) nd
    intro x hx
    obtain ⟨r, hr, _⟩ := restore_roundtrip_entry cfg x.2 x.1 (st.ports x.1) (hsrc x hx).1 (hsrc x hx).2
    exact ⟨r, hr⟩
  refine ⟨hok, ?_⟩
  intro x hx
  have ndd : ((src.map (fun x => docOf x.1 x.2)).map (·.id)).Nodup := by
    rw [List.map_map]; exact nd
  have hmem : docOf x.1 x.2 ∈ src.map (fun x => docOf x.1 x.2) := List.mem_map_of_mem hx
  obtain ⟨o, h1, h2⟩ := putBody_ok_entry cfg (fun id => afterReset (st.ports id)) _ ndd hok _ hmem
  obtain ⟨r, hr, h3⟩ := restore_roundtrip_entry cfg x.2 x.1 (st.ports x.1) (hsrc x hx).1 (hsrc x hx).2
  unfold restoreEntry at hr
  have : (docOf x.1 x.2).id = x.1 := rfl
  rw [this] at h1 h2
  rw [hr] at h1
  cases h1
  exact ⟨r, h2, h3⟩

/-- **a rejected document names the failing entry and the switches are back on** — for all three restore calls.
PUT /ports: whatever the document and the state, afterwards polling (`updating`) and event delivery (`events`) are
enabled — the `finally:` — and an error carries the id of an entry of the document whose restore step failed.
PUT /devices: the same switches are on afterwards, and an error carries the index of the FIRST entry that fails the
entry schema (every earlier entry is acceptable). PUT /device: a rejected document changes nothing at all — it
validates before it touches anything and never uses the switches. -/
theorem reject_names_entry_and_reenables (cfg : Cfg) (st : BState) (docs : List PortDoc)
    (sdocs : List (Option (String × Slave))) (ddoc : Option DeviceDoc) :
    ((putPorts cfg st docs).1.updating = true ∧ (putPorts cfg st docs).1.events = true ∧
      ∀ id e, (putPorts cfg st docs).2 = .err id e →
        ∃ d ∈ docs, d.id = id ∧ ∃ tgt, restoreOn cfg tgt d = .error e) ∧
    ((putSlavesDoc st sdocs).1.updating = true ∧ (putSlavesDoc st sdocs).1.events = true ∧
      ∀ i, (putSlavesDoc st sdocs).2 = .err i →
        sdocs[i]? = some none ∧ ∀ m, m < i → ∃ x, sdocs[m]? = some (some x)) ∧
    ((putDeviceDoc st ddoc).2 = false → (putDeviceDoc st ddoc).1 = st) := by
  refine ⟨⟨rfl, rfl, fun id e h => putBody_err_names_entry cfg _ docs id e h⟩, ⟨rfl, rfl, ?_⟩, ?_⟩
  · intro i h
    simp only [putSlavesDoc] at h
    cases hf : firstInvalid sdocs 0 with
    | none => rw [hf] at h; cases h
    | some j =>
      rw [hf] at h
      simp only [SlavesResp.err.injEq] at h
      subst h
      have := firstInvalid_spec sdocs 0 j hf
      simpa using this.2
  · intro h
    cases ddoc with
    | none => rfl
    | some d => simp [putDeviceDoc] at h

/-- a document of acceptable entries with distinct names is accepted by PUT /devices and leaves exactly the listed
slave devices -/
theorem restore_slaves_doc (st : BState) (docs : List (String × Slave)) :
    (putSlavesDoc st (docs.map some)).2 = .ok ∧
    (putSlavesDoc st (docs.map some)).1.slaves = (putSlaves st docs).slaves := by
  have hf : firstInvalid (docs.map some) 0 = none :=
    firstInvalid_none _ 0 (fun d hd => by
      simp only [List.mem_map] at hd
      obtain ⟨x, _, rfl⟩ := hd
      exact fun h => by cases h)
  have hm : (docs.map some).filterMap id = docs := by
    induction docs with
    | nil => rfl
    | cons a r ih => simp
  simp only [putSlavesDoc, hf, hm]
  exact ⟨trivial, rfl⟩

/-- PUT /device restores the names and keeps the target's password hashes -/
theorem restore_device (st : BState) (a : Device) :
    getDevice (putDevice st (getDevice a)).device = getDevice a ∧
    (putDevice st (getDevice a)).device.adminHash = st.device.adminHash ∧
    (putDevice st (getDevice a)).device.normalHash = st.device.normalHash ∧
    (putDevice st (getDevice a)).device.viewonlyHash = st.device.viewonlyHash :=
  ⟨rfl, rfl, rfl, rfl⟩

/-- PUT /devices: exactly the listed slave devices, with their settings, cached attributes and pending edits -/
theorem restore_slaves (st : BState) (docs : List (String × Slave)) (nd : (docs.map (·.1)).Nodup) :
    (∀ x ∈ docs, (putSlaves st docs).slaves x.1 = some x.2) ∧
    (∀ n, n ∉ docs.map (·.1) → (putSlaves st docs).slaves n = none) := by
  constructor
  · intro x hx
    simp only [putSlaves]
    induction docs with
    | nil => cases hx
    | cons a r ih =>
      simp only [List.map_cons, List.nodup_cons] at nd
      simp only [List.find?_cons]
      rcases List.mem_cons.mp hx with rfl | hm
      · simp
      · have : a.1 ≠ x.1 := fun e => nd.1 (e ▸ List.mem_map_of_mem (f := (·.1)) hm)
        simp only [this, decide_false]
        exact ih nd.2 hm
  · intro n hn
    simp only [putSlaves]
    induction docs with
    | nil => rfl
    | cons a r ih =>
      simp only [List.map_cons, List.mem_cons, not_or] at hn
      simp only [List.map_cons, List.nodup_cons] at nd
      simp only [List.find?_cons]
      have : ¬ a.1 = n := fun e => hn.1 e.symm
      simp only [this, decide_false]
      exact ih nd.2 hn.2

/-! ### non-vacuity -/

def demoCfg : Cfg :=
  { canon := fun _ t => some t, xf := fun _ v => some v, statics := fun _ => none, hist := false,
    saveOnError := true, defName := "hub", hash := fun s => s, emptyHash := "e" }

def numDef : VDef := { isNumber := true, min := none, max := none, step := none, integer := none, choices := none }

/-- a source port: a new, enabled virtual number port (every hypothesis of the entry theorem is met by it, on an
empty target) -/
def demoPort : Port := (setAttr demoCfg (fresh (vportDef false numDef)) "enabled" (.bool true)).1

theorem sameCtor_self (v : AVal) : sameCtor v v = true := by cases v <;> rfl

example : WF demoCfg demoPort ∧ TargetOK demoCfg none demoPort := by
  have hc : CanonOK demoCfg := by
    intro k t c h
    simp only [demoCfg, Option.some.injEq] at h ⊢
  have hw : WF demoCfg demoPort :=
    setAttr_wf demoCfg hc _ _ _ (fresh_wf demoCfg _ (vportDef_wf demoCfg false numDef))
  refine ⟨hw, Or.inl ⟨rfl, rfl, numDef, rfl, ⟨rfl, fun _ => rfl, ?_⟩⟩⟩
  intro n v w h1 h2
  have : demoPort.attrs n = some w := h2
  rw [h1] at this
  cases this
  exact sameCtor_self v

def errId : PutResp → Option String
  | .err id _ => some id
  | .ok => none

def emptyState : BState :=
  { ports := fun _ => none, device := bootDevice demoCfg none, slaves := fun _ => none, updating := true, events := true }

/-- a document whose second entry is refused (virtual port without definition): the error names `v2` -/
example : errId (putPorts demoCfg emptyState
    [docOf "v1" demoPort, { id := "v2", virtual := true, vdef := none, attrs := [], value := none }]).2 = some "v2" := by
  decide +kernel

/-- the value of an entry is decided AFTER its attributes have been applied: an entry that enables a (non-virtual,
writable) port which is disabled on the target still gets its value written -/
def relayDef : PortDef :=
  { virtual := false, writable := true, vdef := none, defaults := [("enabled", .bool false), ("tag", .str "")],
    initial := none }

def valueAfter (r : Except EntryErr (Option Port)) : Option PVal :=
  match r with
  | .ok (some p) => p.value
  | _ => none

example : valueAfter (restoreOn demoCfg (some (fresh relayDef))
    { id := "relay", virtual := false, vdef := none, attrs := [("enabled", .bool true), ("tag", .str "t")],
      value := some (.num 40) }) = some (.num 40) := by
  decide +kernel

end QtVerif.C20
