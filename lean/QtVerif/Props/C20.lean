import QtVerif.Proofs.Backup
/-!
C20 — backup then restore reproduces the same configuration.

Model: `QtVerif.Model.Backup` on the configuration types of C07. Source: ports as GET /ports reports them (any list
with distinct ids); target hub `st` in ANY other state. Hypotheses: source ports well-formed (`WF`: attribute support
fixed by the driver class, expression texts canonical under C03's print fixpoint — invariants of every reachable state,
proved in C07) and the two hubs run the same static configuration (`TargetOK`).
-/
namespace QtVerif.C20
open QtVerif.Config QtVerif.Backup

/-- what the target must share with the source for an entry (same static configuration on both hubs): a virtual
source port's id is not taken by a non-virtual port of the target and its attribute values have the JSON types of a
new virtual port; a non-virtual source port exists on the target with the same driver definition and types.
(`startPort true b`: the target's port under that id when the loop over the document starts, in the repaired
`put_ports`.) -/
def TargetOK (cfg : Cfg) (b : Option Port) (p : Port) : Prop :=
  (p.pdef.virtual = true ∧ startPort true b = none ∧
    ∃ vd, p.pdef = vportDef cfg.hist vd ∧
      Compatible (setAttr cfg (fresh (vportDef cfg.hist vd)) "enabled" (.bool true)).1 p) ∨
  (∃ t, startPort true b = some t ∧ Compatible t p)

/-- **restore ∘ backup on one entry**: whatever the target hub holds under that id and whatever expressions `m` the
other ports carry at that moment, provided the entry's expression closes no loop with them, restoring the GET entry of
`p` yields a port with the same definition, the same value of every attribute and — when the port is enabled (GET
reports null otherwise) — the same value. -/
theorem restore_roundtrip_entry (cfg : Cfg) (lc : LoopCheck) (m : String → String) (p : Port) (id : String)
    (b : Option Port) (hp : WF cfg p) (ht : TargetOK cfg b p)
    (hl : ∀ c, entryExpr cfg (docOf id p) = some c → lc m id c = false) :
    ∃ r, restoreChk cfg lc m (startPort true b) (docOf id p) = .ok (some r) ∧ r.pdef = p.pdef ∧ r.attrs = p.attrs ∧
      (enabledOf p = true → r.value = p.value) := by
  rcases ht with ⟨hv, hb, vd, hvd, hc⟩ | ⟨t, hb, hc⟩
  · rw [hb]
    obtain ⟨r, hr, h⟩ := restoreChk_doc cfg lc m p _ id hp hc hl
    refine ⟨r, ?_, h⟩
    unfold restoreChk at hr ⊢
    have e : restoreOn cfg none (docOf id p) =
        restoreOn cfg (some (setAttr cfg (fresh (vportDef cfg.hist vd)) "enabled" (.bool true)).1) (docOf id p) := by
      simp only [restoreOn, docOf, hvd, vportDef, if_true]
    rw [loopRefused_false cfg lc m _ (docOf id p) hl] at hr ⊢
    rw [e]; exact hr
  · rw [hb]; exact restoreChk_doc cfg lc m p t id hp hc hl

/-- the expression every source port carries, by id -/
def srcMap (src : List (String × Port)) : String → String :=
  fun id => match src.find? (fun x => x.1 = id) with
    | some x => exprText (some x.2)
    | none => ""

/-- the source configuration is acyclic: no source expression closes a loop with the source's other expressions
(C04's invariant of every API-reachable configuration, in terms of the loop check) -/
def SourceAcyclic (cfg : Cfg) (lc : LoopCheck) (src : List (String × Port)) : Prop :=
  ∀ x ∈ src, ∀ c, entryExpr cfg (docOf x.1 x.2) = some c → lc (srcMap src) x.1 c = false

/-- **restore ∘ backup on a whole document** (full strength, REPAIRED `put_ports`: `clearFirst = true`): for every
acyclic source (any list of well-formed ports with distinct ids), every monotone loop check and every target state
running the same static configuration — whatever expressions its ports carry — PUT /ports ACCEPTS the document
obtained from GET /ports of the source, and afterwards the target holds under every entry's id a port with the
source's definition, attributes and (if enabled) value. For the unrepaired code this is FALSE:
`unrepaired_restore_rejected_by_stale_target_expression`. -/
theorem restore_roundtrip (cfg : Cfg) (lc : LoopCheck) (src : List (String × Port)) (st : BState)
    (nd : (src.map (·.1)).Nodup)
    (hsrc : ∀ x ∈ src, WF cfg x.2 ∧ TargetOK cfg (st.ports x.1) x.2)
    (hmono : Mono lc) (hacy : SourceAcyclic cfg lc src) :
    (putPorts cfg lc true st (src.map (fun x => docOf x.1 x.2))).2 = .ok ∧
    ∀ x ∈ src, ∃ r, (putPorts cfg lc true st (src.map (fun x => docOf x.1 x.2))).1.ports x.1 = some r ∧
      r.pdef = x.2.pdef ∧ r.attrs = x.2.attrs ∧ (enabledOf x.2 = true → r.value = x.2.value) := by
  have key := putBody_roundtrip cfg lc (srcMap src) src (fun id => startPort true (st.ports id)) nd
    (fun id => Or.inl (exprText_startPort_true (st.ports id)))
    (fun x hx => by simp only [srcMap, find_of_nodup src nd x hx])
    (fun x hx m hm => restore_roundtrip_entry cfg lc m x.2 x.1 (st.ports x.1) (hsrc x hx).1 (hsrc x hx).2
      (fun c hc => hmono m (srcMap src) x.1 c hm (hacy x hx c hc)))
  exact key

/-- **a rejected document names the failing entry and the switches are back on** — for all three restore calls.
PUT /ports (repaired or not, any loop check): whatever the document and the state, afterwards polling (`updating`) and
event delivery (`events`) are enabled — the `finally:` — and an error carries the id of an entry of the document whose
restore step failed. PUT /devices: the same switches are on afterwards, and an error carries the index of the FIRST
entry that fails the entry schema (every earlier entry is acceptable). PUT /device: a rejected document changes
nothing at all — it validates before it touches anything and never uses the switches. -/
theorem reject_names_entry_and_reenables (cfg : Cfg) (lc : LoopCheck) (clearFirst : Bool) (st : BState)
    (docs : List PortDoc) (sdocs : List (Option (String × Slave))) (ddoc : Option DeviceDoc) :
    ((putPorts cfg lc clearFirst st docs).1.updating = true ∧ (putPorts cfg lc clearFirst st docs).1.events = true ∧
      ∀ id e, (putPorts cfg lc clearFirst st docs).2 = .err id e →
        ∃ d ∈ docs, d.id = id ∧ ∃ m tgt, restoreChk cfg lc m tgt d = .error e) ∧
    ((putSlavesDoc st sdocs).1.updating = true ∧ (putSlavesDoc st sdocs).1.events = true ∧
      ∀ i, (putSlavesDoc st sdocs).2 = .err i →
        sdocs[i]? = some none ∧ ∀ m, m < i → ∃ x, sdocs[m]? = some (some x)) ∧
    ((putDeviceDoc st ddoc).2 = false → (putDeviceDoc st ddoc).1 = st) := by
  refine ⟨⟨rfl, rfl, fun id e h => putBody_err_names_entry cfg lc _ docs id e h⟩, ⟨rfl, rfl, ?_⟩, ?_⟩
  · intro i h
    simp only [putSlavesDoc] at h
    cases hf : firstInvalid sdocs 0 with
    | none => rw [hf] at h; cases h
    | some j =>
      rw [hf] at h
      simp only [SlavesResp.err.injEq] at h
      subst h
      have := firstInvalid_spec sdocs 0 j hf
      simpa using this.2
  · intro h
    cases ddoc with
    | none => rfl
    | some d => simp [putDeviceDoc] at h

/-- a document of acceptable entries with distinct names is accepted by PUT /devices and leaves exactly the listed
slave devices -/
theorem restore_slaves_doc (st : BState) (docs : List (String × Slave)) :
    (putSlavesDoc st (docs.map some)).2 = .ok ∧
    (putSlavesDoc st (docs.map some)).1.slaves = (putSlaves st docs).slaves := by
  have hf : firstInvalid (docs.map some) 0 = none :=
    firstInvalid_none _ 0 (fun d hd => by
      simp only [List.mem_map] at hd
      obtain ⟨x, _, rfl⟩ := hd
      exact fun h => by cases h)
  have hm : (docs.map some).filterMap id = docs := by
    induction docs with
    | nil => rfl
    | cons a r ih => simp
  simp only [putSlavesDoc, hf, hm]
  exact ⟨trivial, rfl⟩

/-- PUT /device restores the names and keeps the target's password hashes -/
theorem restore_device (st : BState) (a : Device) :
    getDevice (putDevice st (getDevice a)).device = getDevice a ∧
    (putDevice st (getDevice a)).device.adminHash = st.device.adminHash ∧
    (putDevice st (getDevice a)).device.normalHash = st.device.normalHash ∧
    (putDevice st (getDevice a)).device.viewonlyHash = st.device.viewonlyHash :=
  ⟨rfl, rfl, rfl, rfl⟩

/-- PUT /devices: exactly the listed slave devices, with their settings, cached attributes and pending edits -/
theorem restore_slaves (st : BState) (docs : List (String × Slave)) (nd : (docs.map (·.1)).Nodup) :
    (∀ x ∈ docs, (putSlaves st docs).slaves x.1 = some x.2) ∧
    (∀ n, n ∉ docs.map (·.1) → (putSlaves st docs).slaves n = none) := by
  constructor
  · intro x hx
    simp only [putSlaves]
    induction docs with
    | nil => cases hx
    | cons a r ih =>
      simp only [List.map_cons, List.nodup_cons] at nd
      simp only [List.find?_cons]
      rcases List.mem_cons.mp hx with rfl | hm
      · simp
      · have : a.1 ≠ x.1 := fun e => nd.1 (e ▸ List.mem_map_of_mem (f := (·.1)) hm)
        simp only [this, decide_false]
        exact ih nd.2 hm
  · intro n hn
    simp only [putSlaves]
    induction docs with
    | nil => rfl
    | cons a r ih =>
      simp only [List.map_cons, List.mem_cons, not_or] at hn
      simp only [List.map_cons, List.nodup_cons] at nd
      simp only [List.find?_cons]
      have : ¬ a.1 = n := fun e => hn.1 e.symm
      simp only [this, decide_false]
      exact ih nd.2 hn.2

/-! ### non-vacuity -/

def demoCfg : Cfg :=
  { canon := fun _ t => some t, xf := fun _ v => some v, statics := fun _ => none, hist := false,
    saveOnError := true, defName := "hub", hash := fun s => s, emptyHash := "e" }

def numDef : VDef := { isNumber := true, min := none, max := none, step := none, integer := none, choices := none }

/-- a source port: a new, enabled virtual number port (every hypothesis of the entry theorem is met by it, on an
empty target) -/
def demoPort : Port := (setAttr demoCfg (fresh (vportDef false numDef)) "enabled" (.bool true)).1

theorem sameCtor_self (v : AVal) : sameCtor v v = true := by cases v <;> rfl

example : WF demoCfg demoPort ∧ TargetOK demoCfg none demoPort := by
  have hc : CanonOK demoCfg := by
    intro k t c h
    simp only [demoCfg, Option.some.injEq] at h ⊢
  have hw : WF demoCfg demoPort :=
    setAttr_wf demoCfg hc _ _ _ (fresh_wf demoCfg _ (vportDef_wf demoCfg false numDef))
  refine ⟨hw, Or.inl ⟨rfl, rfl, numDef, rfl, ⟨rfl, fun _ => rfl, ?_⟩⟩⟩
  intro n v w h1 h2
  have : demoPort.attrs n = some w := h2
  rw [h1] at this
  cases this
  exact sameCtor_self v

def errId : PutResp → Option String
  | .err id _ => some id
  | .ok => none

def emptyState : BState :=
  { ports := fun _ => none, device := bootDevice demoCfg none, slaves := fun _ => none, updating := true, events := true }

/-- a document whose second entry is refused (virtual port without definition): the error names `v2` -/
example : errId (putPorts demoCfg (fun _ _ _ => false) true emptyState
    [docOf "v1" demoPort, { id := "v2", virtual := true, vdef := none, attrs := [], value := none }]).2 = some "v2" := by
  decide +kernel

/-- the value of an entry is decided AFTER its attributes have been applied: an entry that enables a (non-virtual,
writable) port which is disabled on the target still gets its value written -/
def relayDef : PortDef :=
  { virtual := false, writable := true, vdef := none, defaults := [("enabled", .bool false), ("tag", .str "")],
    initial := none }

def valueAfter (r : Except EntryErr (Option Port)) : Option PVal :=
  match r with
  | .ok (some p) => p.value
  | _ => none

example : valueAfter (restoreOn demoCfg (some (fresh relayDef))
    { id := "relay", virtual := false, vdef := none, attrs := [("enabled", .bool true), ("tag", .str "t")],
      value := some (.num 40) }) = some (.num 40) := by
  decide +kernel

/-! ### the unrepaired `put_ports` violates the property: stale target expressions -/

/-- two writable non-virtual ports (same hardware on source and target) -/
def exprPortDef : PortDef :=
  { virtual := false, writable := true, vdef := none, defaults := [("enabled", .bool false), ("expression", .str "")],
    initial := none }

def withExpr (t : String) : Port := (setAttr demoCfg (fresh exprPortDef) "expression" (.str t)).1

/-- references of the two texts of the witness -/
def witnessRefs (t : String) : List String := if t = "$q" then ["q"] else if t = "$p" then ["p"] else []

/-- source: p := $q, q without expression (acyclic, API-reachable); target: p without expression, q := $p -/
def witnessSrc : List (String × Port) := [("p", withExpr "$q"), ("q", withExpr "")]

def witnessTarget : BState :=
  { emptyState with ports := fun id => if id = "p" then some (withExpr "") else if id = "q" then some (withExpr "$p")
                                       else none }

/-- the loop check used by the witness is monotone (hypothesis of `restore_roundtrip`, non-trivial instance) -/
example : Mono (loopsWith witnessRefs 4) := mono_loopsWith witnessRefs (by decide) 4

/-- the witness source is acyclic in the sense of `restore_roundtrip` -/
example : SourceAcyclic demoCfg (loopsWith witnessRefs 4) witnessSrc := by
  intro x hx c hc
  simp only [witnessSrc, List.mem_cons, List.not_mem_nil, or_false] at hx
  rcases hx with rfl | rfl
  · have : entryExpr demoCfg (docOf "p" (withExpr "$q")) = some "$q" := by decide +kernel
    rw [this] at hc
    cases hc
    decide +kernel
  · have : entryExpr demoCfg (docOf "q" (withExpr "")) = none := by decide +kernel
    rw [this] at hc
    cases hc

/-- **The unrepaired code violates the property**: `port.reset()` resets nothing, so the target's `q := $p` is still in
place when the backup's first entry `p := $q` goes through the checked assignment: the restore of an acyclic backup is
rejected as a circular dependency at `p`. With the repair (expressions of the remaining ports cleared first) the same
document is accepted. -/
theorem unrepaired_restore_rejected_by_stale_target_expression :
    errId (putPorts demoCfg (loopsWith witnessRefs 4) false witnessTarget
      (witnessSrc.map (fun x => docOf x.1 x.2))).2 = some "p" ∧
    errId (putPorts demoCfg (loopsWith witnessRefs 4) true witnessTarget
      (witnessSrc.map (fun x => docOf x.1 x.2))).2 = none := by
  constructor <;> decide +kernel

end QtVerif.C20
