import QtVerif.Proofs.Backup
import QtVerif.Proofs.BackupTrace
import QtVerif.Proofs.Peripherals
/-!
C20 — backup then restore reproduces the same configuration.

Model: `QtVerif.Model.Backup` on the configuration types of C07. Source: ports as GET /ports reports them (any list
with distinct ids); target hub `st` in ANY other state. Hypotheses: source ports well-formed (`WF`: attribute support
fixed by the driver class, expression texts canonical under C03's print fixpoint — invariants of every reachable state,
proved in C07) and the two hubs run the same static configuration (`TargetOK`).

What is covered, and what is NOT:
* PUT /ports: ids of the document (`restore_roundtrip`), ids outside it (`restore_roundtrip_outside_document`), the
  GET /ports document of the result (`restore_get_ports_identical`), the first failing entry on the actual
  intermediate state (`reject_names_first_failing_entry`), the switches along a small-step trace of the try/finally
  (`switches_off_during_restore_and_on_afterwards`). PUT /device, PUT /devices: `restore_device`, `restore_slaves`,
  `restore_slaves_doc`; the switches along the small-step trace of the try/finally of PUT /devices
  (`slaves_switches_off_during_restore_and_on_afterwards`).
* GET/PUT /peripherals (`Model.Peripherals`): `peripherals_restore_roundtrip`, `peripherals_static_survive`,
  `peripherals_refused_document_outcome` (what the unrepaired code leaves behind), `peripherals_invariant`.
* NOT MODELLED: the limit on the number of virtual ports, sequences, slave ports; the creation of a peripheral's ports
  (only a flag), hence the joint statement `restoreRoundtripWithPeripheralsFull` at the end of the file is proved in its
  first conjunct only.
-/
namespace QtVerif.C20
open QtVerif.Config QtVerif.Backup

/-- what the target must share with the source for an entry (same static configuration on both hubs): a virtual
source port's id is not taken by a non-virtual port of the target and its attribute values have the JSON types of a
new virtual port; a non-virtual source port exists on the target with the same driver definition and types.
(`startPort true b`: the target's port under that id when the loop over the document starts, in the repaired
`put_ports`.) -/
def TargetOK (cfg : Cfg) (b : Option Port) (p : Port) : Prop :=
  (p.pdef.virtual = true ∧ startPort true b = none ∧
    ∃ vd, p.pdef = vportDef cfg.hist vd ∧
      Compatible (setAttr cfg (fresh (vportDef cfg.hist vd)) "enabled" (.bool true)).1 p) ∨
  (∃ t, startPort true b = some t ∧ Compatible t p)

/-- **restore ∘ backup on one entry**: whatever the target hub holds under that id and whatever expressions `m` the
other ports carry at that moment, provided the entry's expression closes no loop with them, restoring the GET entry of
`p` yields a port with the same definition, the same value of every attribute and — when the port is enabled (GET
reports null otherwise) — the same value. -/
theorem restore_roundtrip_entry (cfg : Cfg) (lc : LoopCheck) (m : String → String) (p : Port) (id : String)
    (b : Option Port) (hp : WF cfg p) (ht : TargetOK cfg b p)
    (hl : ∀ c, entryExpr cfg (docOf id p) = some c → lc m id c = false) :
    ∃ r, restoreChk cfg lc m (startPort true b) (docOf id p) = .ok (some r) ∧ r.pdef = p.pdef ∧ r.attrs = p.attrs ∧
      (enabledOf p = true → r.value = p.value) := by
  rcases ht with ⟨hv, hb, vd, hvd, hc⟩ | ⟨t, hb, hc⟩
  · rw [hb]
    obtain ⟨r, hr, h⟩ := restoreChk_doc cfg lc m p _ id hp hc hl
    refine ⟨r, ?_, h⟩
    unfold restoreChk at hr ⊢
    have e : restoreOn cfg none (docOf id p) =
        restoreOn cfg (some (setAttr cfg (fresh (vportDef cfg.hist vd)) "enabled" (.bool true)).1) (docOf id p) := by
      simp only [restoreOn, docOf, hvd, vportDef, if_true]
    rw [loopRefused_false cfg lc m _ (docOf id p) hl] at hr ⊢
    rw [e]; exact hr
  · rw [hb]; exact restoreChk_doc cfg lc m p t id hp hc hl

/-- the expression every source port carries, by id -/
def srcMap (src : List (String × Port)) : String → String :=
  fun id => match src.find? (fun x => x.1 = id) with
    | some x => exprText (some x.2)
    | none => ""

/-- the source configuration is acyclic: no source expression closes a loop with the source's other expressions
(C04's invariant of every API-reachable configuration, in terms of the loop check) -/
def SourceAcyclic (cfg : Cfg) (lc : LoopCheck) (src : List (String × Port)) : Prop :=
  ∀ x ∈ src, ∀ c, entryExpr cfg (docOf x.1 x.2) = some c → lc (srcMap src) x.1 c = false

/-- **restore ∘ backup on a whole document, the ids OF the document** (REPAIRED `put_ports`: `clearFirst = true`;
full strength for the ports part only, and only together with `restore_roundtrip_outside_document` /
`restore_get_ports_identical`, which say what happens to the ids the document does not mention; peripherals are not
modelled — see the header): for every
acyclic source (any list of well-formed ports with distinct ids), every monotone loop check and every target state
running the same static configuration — whatever expressions its ports carry — PUT /ports ACCEPTS the document
obtained from GET /ports of the source, and afterwards the target holds under every entry's id a port with the
source's definition, attributes and (if enabled) value. For the unrepaired code this is FALSE:
`unrepaired_restore_rejected_by_stale_target_expression`. -/
theorem restore_roundtrip (cfg : Cfg) (lc : LoopCheck) (src : List (String × Port)) (st : BState)
    (nd : (src.map (·.1)).Nodup)
    (hsrc : ∀ x ∈ src, WF cfg x.2 ∧ TargetOK cfg (st.ports x.1) x.2)
    (hmono : Mono lc) (hacy : SourceAcyclic cfg lc src) :
    (putPorts cfg lc true st (src.map (fun x => docOf x.1 x.2))).2 = .ok ∧
    ∀ x ∈ src, ∃ r, (putPorts cfg lc true st (src.map (fun x => docOf x.1 x.2))).1.ports x.1 = some r ∧
      r.pdef = x.2.pdef ∧ r.attrs = x.2.attrs ∧ (enabledOf x.2 = true → r.value = x.2.value) := by
  have key := putBody_roundtrip cfg lc (srcMap src) src (fun id => startPort true (st.ports id)) nd
    (fun id => Or.inl (exprText_startPort_true (st.ports id)))
    (fun x hx => by simp only [srcMap, find_of_nodup src nd x hx])
    (fun x hx m hm => restore_roundtrip_entry cfg lc m x.2 x.1 (st.ports x.1) (hsrc x hx).1 (hsrc x hx).2
      (fun c hc => hmono m (srcMap src) x.1 c hm (hacy x hx c hc)))
  exact key

/-- **the ids the document does NOT mention** (any document, repaired or not, accepted or rejected): PUT /ports leaves
under such an id exactly what its reset phase left (`startPort`): nothing if the target had no port or a VIRTUAL port
there — every extra virtual port of the target has disappeared —, and otherwise the target's non-virtual port in its
reset state: same definition, same value, same attributes except the expression, which the repaired code clears
(`clearExpr`; `port.reset()` = `load_from_data({})` itself applies no attribute, so in the code as in the model the
"reset state" of a static port is NOT a factory state: a backup restores a static port's attributes only if the
document mentions it). -/
theorem restore_roundtrip_outside_document (cfg : Cfg) (lc : LoopCheck) (clearFirst : Bool) (st : BState)
    (docs : List PortDoc) (id : String) (hid : id ∉ docs.map (·.id)) :
    (putPorts cfg lc clearFirst st docs).1.ports id = startPort clearFirst (st.ports id) ∧
    (st.ports id = none → (putPorts cfg lc clearFirst st docs).1.ports id = none) ∧
    (∀ p, st.ports id = some p → p.pdef.virtual = true → (putPorts cfg lc clearFirst st docs).1.ports id = none) ∧
    (∀ p, st.ports id = some p → p.pdef.virtual = false →
      (putPorts cfg lc clearFirst st docs).1.ports id = some (clearExpr clearFirst p) ∧
      (clearExpr clearFirst p).pdef = p.pdef ∧ (clearExpr clearFirst p).value = p.value ∧
      (∀ n, n ≠ "expression" → (clearExpr clearFirst p).attrs n = p.attrs n) ∧
      (clearFirst = true → exprText (some (clearExpr clearFirst p)) = "")) := by
  have h0 : (putPorts cfg lc clearFirst st docs).1.ports id = startPort clearFirst (st.ports id) :=
    putBody_other cfg lc _ docs id hid
  have hc := startPort_cases clearFirst (st.ports id)
  refine ⟨h0, fun h => h0.trans (hc.1 h), fun p h hv => h0.trans (hc.2.1 p h hv), fun p h hv => ?_⟩
  refine ⟨h0.trans (hc.2.2 p h hv), ?_, ?_, ?_, ?_⟩
  · cases clearFirst <;> rfl
  · cases clearFirst <;> rfl
  · intro n hn
    cases clearFirst
    · rfl
    · simp only [clearExpr, if_true, hn, if_false]
  · intro hcf
    subst hcf
    have := exprText_startPort_true (some p)
    rw [(startPort_cases true (some p)).2.2 p rfl hv] at this
    exact this

/-- **the restored hub answers GET /ports like the source** (repaired `put_ports`; ports part, on this model). Under
the hypotheses of `restore_roundtrip`:
(a) GET /ports of the result, read over the ids of the document, IS the document (same entries — definition,
    attributes, value —, same order);
(b) every virtual port of the result is a virtual port of the source: no virtual port of the target survives, none is
    invented;
(c) a port of the result that the document does not mention is a non-virtual port of the target in its reset state;
(d) if moreover the document mentions every non-virtual port of the target (same static configuration on both hubs:
    the source reports them all), the result holds NO port outside the document, so over ANY enumeration of ids
    GET /ports of the result equals GET /ports of the source. -/
theorem restore_get_ports_identical (cfg : Cfg) (lc : LoopCheck) (src : List (String × Port)) (st : BState)
    (nd : (src.map (·.1)).Nodup)
    (hsrc : ∀ x ∈ src, WF cfg x.2 ∧ TargetOK cfg (st.ports x.1) x.2)
    (hmono : Mono lc) (hacy : SourceAcyclic cfg lc src) :
    (putPorts cfg lc true st (src.map (fun x => docOf x.1 x.2))).2 = .ok ∧
    getPorts (putPorts cfg lc true st (src.map (fun x => docOf x.1 x.2))).1.ports (src.map (·.1)) =
      src.map (fun x => docOf x.1 x.2) ∧
    (∀ id q, (putPorts cfg lc true st (src.map (fun x => docOf x.1 x.2))).1.ports id = some q →
      q.pdef.virtual = true → ∃ x ∈ src, x.1 = id ∧ x.2.pdef.virtual = true ∧ docOf id q = docOf x.1 x.2) ∧
    (∀ id q, (putPorts cfg lc true st (src.map (fun x => docOf x.1 x.2))).1.ports id = some q →
      id ∉ src.map (·.1) → ∃ p, st.ports id = some p ∧ p.pdef.virtual = false ∧ q = clearExpr true p) ∧
    ((∀ id p, st.ports id = some p → p.pdef.virtual = false → id ∈ src.map (·.1)) →
      (∀ id, id ∉ src.map (·.1) →
        (putPorts cfg lc true st (src.map (fun x => docOf x.1 x.2))).1.ports id = none) ∧
      ∀ ids, getPorts (putPorts cfg lc true st (src.map (fun x => docOf x.1 x.2))).1.ports ids =
        getPorts (srcPorts src) ids) := by
  obtain ⟨hok, hin⟩ := restore_roundtrip cfg lc src st nd hsrc hmono hacy
  have hmapid : (src.map (fun x => docOf x.1 x.2)).map (·.id) = src.map (·.1) := by
    rw [List.map_map]; rfl
  have hout : ∀ id, id ∉ src.map (·.1) →
      (putPorts cfg lc true st (src.map (fun x => docOf x.1 x.2))).1.ports id = startPort true (st.ports id) :=
    fun id hid => (restore_roundtrip_outside_document cfg lc true st _ id (by rw [hmapid]; exact hid)).1
  have hdoc : ∀ x ∈ src,
      ((putPorts cfg lc true st (src.map (fun x => docOf x.1 x.2))).1.ports x.1).map (docOf x.1) =
        some (docOf x.1 x.2) := by
    intro x hx
    obtain ⟨r, hr, h1, h2, h3⟩ := hin x hx
    rw [hr, Option.map_some, docOf_congr x.1 r x.2 h1 h2 h3]
  have houtcases : ∀ id q, (putPorts cfg lc true st (src.map (fun x => docOf x.1 x.2))).1.ports id = some q →
      id ∉ src.map (·.1) → ∃ p, st.ports id = some p ∧ p.pdef.virtual = false ∧ q = clearExpr true p := by
    intro id q hq hid
    rw [hout id hid] at hq
    have hc := startPort_cases true (st.ports id)
    cases hp : st.ports id with
    | none => rw [hc.1 hp] at hq; cases hq
    | some p =>
      cases hv : p.pdef.virtual with
      | true => rw [hc.2.1 p hp hv] at hq; cases hq
      | false =>
        rw [hc.2.2 p hp hv] at hq
        exact ⟨p, rfl, hv, (Option.some.inj hq).symm⟩
  refine ⟨hok, ?_, ?_, houtcases, ?_⟩
  · exact filterMap_map_of_forall src (·.1) _ (fun x => docOf x.1 x.2) hdoc
  · intro id q hq hv
    by_cases hid : id ∈ src.map (·.1)
    · obtain ⟨x, hx, rfl⟩ := List.mem_map.mp hid
      obtain ⟨r, hr, h1, h2, h3⟩ := hin x hx
      rw [hr] at hq
      have hrq : r = q := Option.some.inj hq
      rw [← hrq] at hv ⊢
      exact ⟨x, hx, rfl, by rw [← h1]; exact hv, docOf_congr x.1 r x.2 h1 h2 h3⟩
    · rw [hout id hid] at hq
      rw [startPort_not_virtual true _ q hq] at hv
      cases hv
  · intro hcover
    have hnone : ∀ id, id ∉ src.map (·.1) →
        (putPorts cfg lc true st (src.map (fun x => docOf x.1 x.2))).1.ports id = none := by
      intro id hid
      cases hq : (putPorts cfg lc true st (src.map (fun x => docOf x.1 x.2))).1.ports id with
      | none => rfl
      | some q =>
        obtain ⟨p, hp, hv, _⟩ := houtcases id q hq hid
        exact absurd (hcover id p hp hv) hid
    refine ⟨hnone, fun ids => ?_⟩
    have hpt : ∀ id, ((putPorts cfg lc true st (src.map (fun x => docOf x.1 x.2))).1.ports id).map (docOf id) =
        (srcPorts src id).map (docOf id) := by
      intro id
      by_cases hid : id ∈ src.map (·.1)
      · obtain ⟨x, hx, rfl⟩ := List.mem_map.mp hid
        rw [hdoc x hx]
        simp only [srcPorts, find_of_nodup src nd x hx, Option.map_some]
      · rw [hnone id hid]
        simp only [srcPorts, find_none_of_not_mem src id hid, Option.map_none]
    simp only [getPorts]
    congr 1
    funext id
    exact hpt id

/-- **a rejected PUT /ports names the FIRST failing entry, judged on the ACTUAL intermediate state** (repaired or not,
any loop check, any document, any state): the document splits as `pre ++ d :: post` with `d.id` the id the error
carries; the prefix `pre` on its own is ACCEPTED from the state the reset phase leaves (so no earlier entry fails);
`d` is refused, with exactly the reported reason, by the loop body run on the port registered under its id and on the
expressions carried by the ports in the state `pre` left behind — not on some invented state —; and what the rejected
call leaves registered is that state plus whatever the creation step of `d` added (entries of `post` are never
looked at). -/
theorem reject_names_first_failing_entry (cfg : Cfg) (lc : LoopCheck) (clearFirst : Bool) (st : BState)
    (docs : List PortDoc) (id : String) (e : EntryErr) (h : (putPorts cfg lc clearFirst st docs).2 = .err id e) :
    ∃ pre d post, docs = pre ++ d :: post ∧ d.id = id ∧
      (putPorts cfg lc clearFirst st pre).2 = .ok ∧
      restoreChk cfg lc (exprMap (putPorts cfg lc clearFirst st pre).1.ports)
        ((putPorts cfg lc clearFirst st pre).1.ports d.id) d = .error e ∧
      (putPorts cfg lc clearFirst st docs).1.ports =
        upd (putPorts cfg lc clearFirst st pre).1.ports d.id
          (createdFor cfg ((putPorts cfg lc clearFirst st pre).1.ports d.id) d) ∧
      (∀ x, x ∉ pre.map (·.id) →
        (putPorts cfg lc clearFirst st pre).1.ports x = startPort clearFirst (st.ports x)) :=
  let ⟨pre, d, post, e1, e2, e3, e4, e5⟩ :=
    putBody_first_failing cfg lc (fun id => startPort clearFirst (st.ports id)) docs id e h
  ⟨pre, d, post, e1, e2, e3, e4, e5, fun x hx => putBody_other cfg lc _ pre x hx⟩

/-- **the switches along the try/finally of PUT /ports** (any document, any state, repaired or not, any loop check,
ANY outcome of the body — including an error at any entry). On the small-step trace of the call
(`Proofs/BackupTrace.lean`: states after `disable`, after the reset phase and after every entry the loop got to;
then the `finally:` applied to the last of them):
* the trace starts in the state the request found and ENDS exactly where the executable model `putPorts` ends —
  same final state, same response;
* in EVERY state between `disable` and `finally` polling and event delivery are OFF (a body step rewrites the port
  registry only; the values are carried, not re-asserted);
* the intermediate states are the executable model's: the state recorded after the `k + 1`-th entry carries the
  registry `putPorts` leaves on the first `k + 1` entries;
* after the `finally:` both are ON — also when the body raised;
* the loop got to all entries of an accepted document, and to exactly the accepted prefix plus the failing entry of
  a rejected one (the exception leaves the loop; the `finally:` still runs).
That the CODE's `finally:` does what `switchesOn` does is checked by the harness probe (after a rejected document a
driver-side change is still polled and still raises a value-change event), not by this theorem. -/
theorem switches_off_during_restore_and_on_afterwards (cfg : Cfg) (lc : LoopCheck) (clearFirst : Bool) (st : BState)
    (docs : List PortDoc) :
    (putPortsTrace cfg lc clearFirst st docs).before = st ∧
    ((putPortsTrace cfg lc clearFirst st docs).after, (putPortsTrace cfg lc clearFirst st docs).resp) =
      putPorts cfg lc clearFirst st docs ∧
    (∀ s ∈ (putPortsTrace cfg lc clearFirst st docs).during, s.updating = false ∧ s.events = false) ∧
    (putPortsTrace cfg lc clearFirst st docs).during ≠ [] ∧
    (∀ k s, (putPortsTrace cfg lc clearFirst st docs).during[k + 2]? = some s →
      s.ports = (putPorts cfg lc clearFirst st (docs.take (k + 1))).1.ports) ∧
    ((putPortsTrace cfg lc clearFirst st docs).after.updating = true ∧
      (putPortsTrace cfg lc clearFirst st docs).after.events = true) ∧
    ((putPorts cfg lc clearFirst st docs).2 = .ok →
      (putPortsTrace cfg lc clearFirst st docs).during.length = 2 + docs.length) ∧
    (∀ id e, (putPorts cfg lc clearFirst st docs).2 = .err id e →
      ∃ pre d post, docs = pre ++ d :: post ∧ d.id = id ∧
        (putPortsTrace cfg lc clearFirst st docs).during.length = 2 + (pre.length + 1) ∧
        (putPortsTrace cfg lc clearFirst st docs).after.updating = true ∧
        (putPortsTrace cfg lc clearFirst st docs).after.events = true) := by
  have hag := putPortsTrace_agrees cfg lc clearFirst st docs
  have hresp : (putPortsTrace cfg lc clearFirst st docs).resp = (putPorts cfg lc clearFirst st docs).2 :=
    congrArg Prod.snd hag
  have hlen := bodyTrace_length cfg lc (resetPorts clearFirst (switchesOff st)) docs
  refine ⟨rfl, hag, putPortsTrace_during_off cfg lc clearFirst st docs, ?_,
    putPortsTrace_prefix cfg lc clearFirst st docs, ⟨rfl, rfl⟩, ?_, ?_⟩
  · simp [putPortsTrace]
  · intro h
    rw [← hresp] at h
    have := hlen.1 h
    simp only [putPortsTrace, List.length_cons, this]
    omega
  · intro id e h
    rw [← hresp] at h
    obtain ⟨pre, d, post, e1, e2, _, e4⟩ := hlen.2 id e h
    refine ⟨pre, d, post, e1, e2, ?_, rfl, rfl⟩
    simp only [putPortsTrace, List.length_cons, e4]
    omega

/-- **the switches along the try/finally of PUT /devices** (any document, any state, ANY outcome — including a
validation failure at any entry). On the small-step trace of the call (`Proofs/BackupTrace.lean`, `putSlavesTrace`:
the state after `disable`, after the removal of the old slave devices, after every entry the validation loop got to,
after every added entry; then the `finally:` applied to the last of them):
* the trace starts in the state the request found and ENDS exactly where the executable model `putSlavesDoc` ends —
  same final state, same response;
* in EVERY state between `disable` and `finally` polling and event delivery are OFF (removal, validation and
  additions rewrite the slave registry only; the values are carried, not re-asserted);
* the first state is the one the request found with the switches off, the second has an empty slave registry;
* after the `finally:` both are ON — also when the validation raised;
* accepted document: every entry was validated, then every entry added (`2 + n + n` states), and the state recorded
  after the `k + 1`-th addition carries the registry the executable model `putSlaves` leaves on the first `k + 1`
  entries;
* document rejected at entry `i` (the FIRST entry that fails the schema — every earlier one is acceptable): the
  states in between are exactly: switches off, then `i + 2` times the EMPTIED registry (after the removal and after
  each of the `i + 1` entries validated) — nothing is added, the old slave devices are gone, and the `finally:` still
  turns the switches on.
That the CODE's `finally:` does what `switchesOn` does is checked by the harness probe, not by this theorem. -/
theorem slaves_switches_off_during_restore_and_on_afterwards (st : BState) (docs : List (Option (String × Slave))) :
    (putSlavesTrace st docs).before = st ∧
    ((putSlavesTrace st docs).after, (putSlavesTrace st docs).resp) = putSlavesDoc st docs ∧
    (∀ s ∈ (putSlavesTrace st docs).during, s.updating = false ∧ s.events = false) ∧
    (putSlavesTrace st docs).during[0]? = some { st with events := false, updating := false } ∧
    (∃ s, (putSlavesTrace st docs).during[1]? = some s ∧ ∀ n, s.slaves n = none) ∧
    ((putSlavesTrace st docs).after.updating = true ∧ (putSlavesTrace st docs).after.events = true) ∧
    ((putSlavesDoc st docs).2 = .ok →
      (putSlavesTrace st docs).during.length = 2 + docs.length + docs.length ∧
      (∀ k s, (putSlavesTrace st docs).during[2 + docs.length + k]? = some s →
        s.slaves = (putSlaves st ((docs.filterMap id).take (k + 1))).slaves) ∧
      (putSlavesTrace st docs).after.updating = true ∧ (putSlavesTrace st docs).after.events = true) ∧
    (∀ i, (putSlavesDoc st docs).2 = .err i →
      docs[i]? = some none ∧ (∀ m, m < i → ∃ x, docs[m]? = some (some x)) ∧
      (putSlavesTrace st docs).during =
        switchesOff st :: List.replicate (i + 2) (removeSlaves (switchesOff st)) ∧
      (∀ n, (putSlavesTrace st docs).after.slaves n = none) ∧
      (putSlavesTrace st docs).after.updating = true ∧ (putSlavesTrace st docs).after.events = true) := by
  have hag := putSlavesTrace_agrees st docs
  have hresp : (putSlavesTrace st docs).resp = (putSlavesDoc st docs).2 := congrArg Prod.snd hag
  have hafter : (putSlavesTrace st docs).after = (putSlavesDoc st docs).1 := congrArg Prod.fst hag
  have hlen := putSlavesTrace_length st docs
  refine ⟨rfl, hag, putSlavesTrace_during_off st docs, rfl, ⟨_, rfl, fun _ => rfl⟩, ⟨rfl, rfl⟩, ?_, ?_⟩
  · intro h
    rw [← hresp] at h
    exact ⟨hlen.1 h, fun k s hk => putSlavesTrace_prefix st docs k s h hk, rfl, rfl⟩
  · intro i h
    have hspec : docs[i]? = some none ∧ ∀ m, m < i → ∃ x, docs[m]? = some (some x) := by
      simp only [putSlavesDoc] at h
      cases hf : firstInvalid docs 0 with
      | none => rw [hf] at h; cases h
      | some j =>
        rw [hf] at h
        simp only [SlavesResp.err.injEq] at h
        subst h
        have := firstInvalid_spec docs 0 j hf
        simpa using this.2
    refine ⟨hspec.1, hspec.2, putSlavesTrace_failure st docs i (hresp.trans h), ?_, rfl, rfl⟩
    intro n
    rw [hafter]
    simp only [putSlavesDoc] at h ⊢
    cases hf : firstInvalid docs 0 with
    | none => rw [hf] at h; cases h
    | some j => rfl

/-- **a rejected document names the failing entry and the switches are back on** — for all three restore calls.
PUT /ports (repaired or not, any loop check): whatever the document and the state, afterwards polling (`updating`) and
event delivery (`events`) are enabled, and an error carries the id of an entry of the document whose restore step
failed. HONEST READING of the two switch clauses here: they hold BY CONSTRUCTION of the big-step model (`putPorts` /
`putSlavesDoc` write the constants `true`, the proof is `rfl`); the meaningful statement for PUT /ports — switches off
in every intermediate state and on after the `finally:` on the success AND the error path — is
`switches_off_during_restore_and_on_afterwards`, and the tie to the code's `finally:` is the harness probe (a
driver-side change after a rejected document is still polled and still raises an event). Likewise the entry clause
here is existential over SOME expression map and target; the statement about the FIRST failing entry on the ACTUAL
intermediate state is `reject_names_first_failing_entry` (this clause is now derived from it).
PUT /devices: the same switches are on afterwards (by construction here, as above; the small-step statement — off in
every intermediate state, on after the `finally:` on the success AND the error path — is
`slaves_switches_off_during_restore_and_on_afterwards`), and an error carries the index of the
FIRST entry that fails the entry schema (every earlier entry is acceptable). PUT /device: a rejected document changes
nothing at all — it validates before it touches anything and never uses the switches. -/
theorem reject_names_entry_and_reenables (cfg : Cfg) (lc : LoopCheck) (clearFirst : Bool) (st : BState)
    (docs : List PortDoc) (sdocs : List (Option (String × Slave))) (ddoc : Option DeviceDoc) :
    ((putPorts cfg lc clearFirst st docs).1.updating = true ∧ (putPorts cfg lc clearFirst st docs).1.events = true ∧
      ∀ id e, (putPorts cfg lc clearFirst st docs).2 = .err id e →
        ∃ d ∈ docs, d.id = id ∧ ∃ m tgt, restoreChk cfg lc m tgt d = .error e) ∧
    ((putSlavesDoc st sdocs).1.updating = true ∧ (putSlavesDoc st sdocs).1.events = true ∧
      ∀ i, (putSlavesDoc st sdocs).2 = .err i →
        sdocs[i]? = some none ∧ ∀ m, m < i → ∃ x, sdocs[m]? = some (some x)) ∧
    ((putDeviceDoc st ddoc).2 = false → (putDeviceDoc st ddoc).1 = st) := by
  refine ⟨⟨rfl, rfl, fun id e h => ?_⟩, ⟨rfl, rfl, ?_⟩, ?_⟩
  · obtain ⟨pre, d, post, e1, e2, _, e4, _⟩ := reject_names_first_failing_entry cfg lc clearFirst st docs id e h
    exact ⟨d, by rw [e1]; simp, e2, _, _, e4⟩
  · intro i h
    simp only [putSlavesDoc] at h
    cases hf : firstInvalid sdocs 0 with
    | none => rw [hf] at h; cases h
    | some j =>
      rw [hf] at h
      simp only [SlavesResp.err.injEq] at h
      subst h
      have := firstInvalid_spec sdocs 0 j hf
      simpa using this.2
  · intro h
    cases ddoc with
    | none => rfl
    | some d => simp [putDeviceDoc] at h

/-- a document of acceptable entries with distinct names is accepted by PUT /devices and leaves exactly the listed
slave devices -/
theorem restore_slaves_doc (st : BState) (docs : List (String × Slave)) :
    (putSlavesDoc st (docs.map some)).2 = .ok ∧
    (putSlavesDoc st (docs.map some)).1.slaves = (putSlaves st docs).slaves := by
  have hf : firstInvalid (docs.map some) 0 = none :=
    firstInvalid_none _ 0 (fun d hd => by
      simp only [List.mem_map] at hd
      obtain ⟨x, _, rfl⟩ := hd
      exact fun h => by cases h)
  have hm : (docs.map some).filterMap id = docs := by
    induction docs with
    | nil => rfl
    | cons a r ih => simp
  simp only [putSlavesDoc, hf, hm]
  exact ⟨trivial, rfl⟩

/-- PUT /device restores the names and keeps the target's password hashes -/
theorem restore_device (st : BState) (a : Device) :
    getDevice (putDevice st (getDevice a)).device = getDevice a ∧
    (putDevice st (getDevice a)).device.adminHash = st.device.adminHash ∧
    (putDevice st (getDevice a)).device.normalHash = st.device.normalHash ∧
    (putDevice st (getDevice a)).device.viewonlyHash = st.device.viewonlyHash :=
  ⟨rfl, rfl, rfl, rfl⟩

/-- PUT /devices: exactly the listed slave devices, with their settings, cached attributes and pending edits -/
theorem restore_slaves (st : BState) (docs : List (String × Slave)) (nd : (docs.map (·.1)).Nodup) :
    (∀ x ∈ docs, (putSlaves st docs).slaves x.1 = some x.2) ∧
    (∀ n, n ∉ docs.map (·.1) → (putSlaves st docs).slaves n = none) := by
  constructor
  · intro x hx
    simp only [putSlaves]
    induction docs with
    | nil => cases hx
    | cons a r ih =>
      simp only [List.map_cons, List.nodup_cons] at nd
      simp only [List.find?_cons]
      rcases List.mem_cons.mp hx with rfl | hm
      · simp
      · have : a.1 ≠ x.1 := fun e => nd.1 (e ▸ List.mem_map_of_mem (f := (·.1)) hm)
        simp only [this, decide_false]
        exact ih nd.2 hm
  · intro n hn
    simp only [putSlaves]
    induction docs with
    | nil => rfl
    | cons a r ih =>
      simp only [List.map_cons, List.mem_cons, not_or] at hn
      simp only [List.map_cons, List.nodup_cons] at nd
      simp only [List.find?_cons]
      have : ¬ a.1 = n := fun e => hn.1 e.symm
      simp only [this, decide_false]
      exact ih nd.2 hn.2

/-! ### non-vacuity -/

def demoCfg : Cfg :=
  { canon := fun _ t => some t, xf := fun _ v => some v, statics := fun _ => none, hist := false,
    saveOnError := true, defName := "hub", hash := fun s => s, emptyHash := "e" }

def numDef : VDef := { isNumber := true, min := none, max := none, step := none, integer := none, choices := none }

/-- a source port: a new, enabled virtual number port (every hypothesis of the entry theorem is met by it, on an
empty target) -/
def demoPort : Port := (setAttr demoCfg (fresh (vportDef false numDef)) "enabled" (.bool true)).1

theorem sameCtor_self (v : AVal) : sameCtor v v = true := by cases v <;> rfl

example : WF demoCfg demoPort ∧ TargetOK demoCfg none demoPort := by
  have hc : CanonOK demoCfg := by
    intro k t c h
    simp only [demoCfg, Option.some.injEq] at h ⊢
  have hw : WF demoCfg demoPort :=
    setAttr_wf demoCfg hc _ _ _ (fresh_wf demoCfg _ (vportDef_wf demoCfg false numDef))
  refine ⟨hw, Or.inl ⟨rfl, rfl, numDef, rfl, ⟨rfl, fun _ => rfl, ?_⟩⟩⟩
  intro n v w h1 h2
  have : demoPort.attrs n = some w := h2
  rw [h1] at this
  cases this
  exact sameCtor_self v

def errId : PutResp → Option String
  | .err id _ => some id
  | .ok => none

def emptyState : BState :=
  { ports := fun _ => none, device := bootDevice demoCfg none, slaves := fun _ => none, updating := true, events := true }

/-- a document whose second entry is refused (virtual port without definition): the error names `v2` -/
example : errId (putPorts demoCfg (fun _ _ _ => false) true emptyState
    [docOf "v1" demoPort, { id := "v2", virtual := true, vdef := none, attrs := [], value := none }]).2 = some "v2" := by
  decide +kernel

/-- the value of an entry is decided AFTER its attributes have been applied: an entry that enables a (non-virtual,
writable) port which is disabled on the target still gets its value written -/
def relayDef : PortDef :=
  { virtual := false, writable := true, vdef := none, defaults := [("enabled", .bool false), ("tag", .str "")],
    initial := none }

def valueAfter (r : Except EntryErr (Option Port)) : Option PVal :=
  match r with
  | .ok (some p) => p.value
  | _ => none

example : valueAfter (restoreOn demoCfg (some (fresh relayDef))
    { id := "relay", virtual := false, vdef := none, attrs := [("enabled", .bool true), ("tag", .str "t")],
      value := some (.num 40) }) = some (.num 40) := by
  decide +kernel

/-! ### the unrepaired `put_ports` violates the property: stale target expressions -/

/-- two writable non-virtual ports (same hardware on source and target) -/
def exprPortDef : PortDef :=
  { virtual := false, writable := true, vdef := none, defaults := [("enabled", .bool false), ("expression", .str "")],
    initial := none }

def withExpr (t : String) : Port := (setAttr demoCfg (fresh exprPortDef) "expression" (.str t)).1

/-- references of the two texts of the witness -/
def witnessRefs (t : String) : List String := if t = "$q" then ["q"] else if t = "$p" then ["p"] else []

/-- source: p := $q, q without expression (acyclic, API-reachable); target: p without expression, q := $p -/
def witnessSrc : List (String × Port) := [("p", withExpr "$q"), ("q", withExpr "")]

def witnessTarget : BState :=
  { emptyState with ports := fun id => if id = "p" then some (withExpr "") else if id = "q" then some (withExpr "$p")
                                       else none }

/-- the loop check used by the witness is monotone (hypothesis of `restore_roundtrip`, non-trivial instance) -/
example : Mono (loopsWith witnessRefs 4) := mono_loopsWith witnessRefs (by decide) 4

/-- the witness source is acyclic in the sense of `restore_roundtrip` -/
example : SourceAcyclic demoCfg (loopsWith witnessRefs 4) witnessSrc := by
  intro x hx c hc
  simp only [witnessSrc, List.mem_cons, List.not_mem_nil, or_false] at hx
  rcases hx with rfl | rfl
  · have : entryExpr demoCfg (docOf "p" (withExpr "$q")) = some "$q" := by decide +kernel
    rw [this] at hc
    cases hc
    decide +kernel
  · have : entryExpr demoCfg (docOf "q" (withExpr "")) = none := by decide +kernel
    rw [this] at hc
    cases hc

/-- **The unrepaired code violates the property**: `port.reset()` resets nothing, so the target's `q := $p` is still in
place when the backup's first entry `p := $q` goes through the checked assignment: the restore of an acyclic backup is
rejected as a circular dependency at `p`. With the repair (expressions of the remaining ports cleared first) the same
document is accepted. -/
theorem unrepaired_restore_rejected_by_stale_target_expression :
    errId (putPorts demoCfg (loopsWith witnessRefs 4) false witnessTarget
      (witnessSrc.map (fun x => docOf x.1 x.2))).2 = some "p" ∧
    errId (putPorts demoCfg (loopsWith witnessRefs 4) true witnessTarget
      (witnessSrc.map (fun x => docOf x.1 x.2))).2 = none := by
  constructor <;> decide +kernel

/-! ### non-vacuity of the new statements -/

def errOf : PutResp → Option (String × EntryErr)
  | .err id e => some (id, e)
  | .ok => none

theorem errOf_some (r : PutResp) (id : String) (e : EntryErr) (h : errOf r = some (id, e)) : r = .err id e := by
  cases r with
  | ok => cases h
  | err id' e' =>
    simp only [errOf, Option.some.injEq, Prod.mk.injEq] at h
    rw [h.1, h.2]

/-- a target that holds an extra virtual port `vx` (not in any document below) and the virtual port `v1` -/
def targetWithExtra : BState :=
  { emptyState with ports := fun id => if id = "vx" ∨ id = "v1" then some demoPort else none }

def badDocs : List PortDoc :=
  [docOf "v1" demoPort, { id := "v2", virtual := true, vdef := none, attrs := [], value := none },
   docOf "v3" demoPort]

/-- the hypothesis of `reject_names_first_failing_entry` is met: the second entry of `badDocs` is refused -/
example : (putPorts demoCfg (fun _ _ _ => false) true targetWithExtra badDocs).2 = .err "v2" .invalidDef :=
  errOf_some _ _ _ (by decide +kernel)

/-- `restore_roundtrip_outside_document` on it: `vx` is outside the document (hypothesis met) and is gone afterwards;
`v1` was re-created by the accepted prefix, `v3` (behind the failing entry) was never reached -/
example : "vx" ∉ badDocs.map (·.id) ∧
    ((putPorts demoCfg (fun _ _ _ => false) true targetWithExtra badDocs).1.ports "vx").isSome = false ∧
    ((putPorts demoCfg (fun _ _ _ => false) true targetWithExtra badDocs).1.ports "v1").isSome = true ∧
    ((putPorts demoCfg (fun _ _ _ => false) true targetWithExtra badDocs).1.ports "v3").isSome = false := by
  refine ⟨by decide, ?_, ?_, ?_⟩ <;> decide +kernel

/-- the trace of that rejected call: `disable`, reset, entry `v1`, entry `v2` (raises) — four states, switches off in
all of them although the target had them on; `v1` is already registered in the third; the `finally:` turns them on -/
example :
    ((putPortsTrace demoCfg (fun _ _ _ => false) true targetWithExtra badDocs).during.map
      (fun s => (s.updating, s.events, (s.ports "vx").isSome, (s.ports "v1").isSome))) =
      [(false, false, true, true), (false, false, false, false), (false, false, false, true),
       (false, false, false, true)] ∧
    (targetWithExtra.updating, targetWithExtra.events) = (true, true) ∧
    ((putPortsTrace demoCfg (fun _ _ _ => false) true targetWithExtra badDocs).after.updating,
     (putPortsTrace demoCfg (fun _ _ _ => false) true targetWithExtra badDocs).after.events) = (true, true) := by
  refine ⟨?_, rfl, rfl⟩
  decide +kernel

theorem withExpr_attrs_other (t n : String) (h : n ≠ "expression") :
    (withExpr t).attrs n = lookupF n exprPortDef.defaults := by
  simp only [withExpr, setAttr, upd, h, if_false]
  rfl

theorem withExpr_attrs_expr (t : String) : ∃ c, (withExpr t).attrs "expression" = some (.str c) := by
  by_cases ht : t = ""
  · exact ⟨"", by simp [withExpr, setAttr, setVal, setText, kindOf, upd, fresh, exprPortDef, lookupF, ht]⟩
  · exact ⟨t, by simp [withExpr, setAttr, setVal, setText, kindOf, upd, fresh, exprPortDef, lookupF, demoCfg, ht]⟩

/-- same hardware, any two expressions: the target's port after the reset phase is compatible with the source's -/
theorem compatible_withExpr (a b : String) : Compatible (clearExpr true (withExpr a)) (withExpr b) := by
  obtain ⟨ca, hca⟩ := withExpr_attrs_expr a
  obtain ⟨cb, hcb⟩ := withExpr_attrs_expr b
  have hte : (clearExpr true (withExpr a)).attrs "expression" = some (.str "") := by
    simp only [clearExpr, if_true, hca, Option.map_some]
  have hto : ∀ n, n ≠ "expression" → (clearExpr true (withExpr a)).attrs n = (withExpr b).attrs n := by
    intro n hn
    simp only [clearExpr, if_true, hn, if_false]
    rw [withExpr_attrs_other a n hn, withExpr_attrs_other b n hn]
  refine ⟨rfl, fun n => ?_, fun n v w h1 h2 => ?_⟩
  · by_cases hn : n = "expression"
    · subst hn; rw [hte, hcb]; rfl
    · rw [hto n hn]
  · by_cases hn : n = "expression"
    · subst hn
      rw [hte] at h2; rw [hcb] at h1
      cases h1; cases h2; rfl
    · rw [hto n hn, h1] at h2
      cases h2
      exact sameCtor_self v

/-- **every hypothesis of `restore_get_ports_identical` (covering hypothesis included) is met by the witness pair**:
well-formed source ports, a target running the same static configuration with DIFFERENT (and, for the unrepaired code,
fatal) expressions, a monotone loop check, an acyclic source — so its conclusions hold of it -/
example : (witnessSrc.map (·.1)).Nodup ∧
    (∀ x ∈ witnessSrc, WF demoCfg x.2 ∧ TargetOK demoCfg (witnessTarget.ports x.1) x.2) ∧
    (∀ id p, witnessTarget.ports id = some p → p.pdef.virtual = false → id ∈ witnessSrc.map (·.1)) := by
  have hc : CanonOK demoCfg := by
    intro k t c h
    simp only [demoCfg, Option.some.injEq] at h ⊢
  have hd : DefWF demoCfg exprPortDef := by
    refine ⟨by decide, ?_⟩
    intro n v h old
    simp only [exprPortDef, lookupF] at h
    by_cases h1 : "enabled" = n
    · subst h1
      simp only [if_true, Option.some.injEq] at h
      subst h; rfl
    · simp only [h1, if_false] at h
      by_cases h2 : "expression" = n
      · subst h2
        simp only [if_true, Option.some.injEq] at h
        subst h; rfl
      · simp only [h2, if_false] at h
        cases h
  have hw : ∀ t, WF demoCfg (withExpr t) := fun t => setAttr_wf demoCfg hc _ _ _ (fresh_wf demoCfg _ hd)
  refine ⟨by decide, ?_, ?_⟩
  · intro x hx
    simp only [witnessSrc, List.mem_cons, List.not_mem_nil, or_false] at hx
    rcases hx with rfl | rfl
    · exact ⟨hw _, Or.inr ⟨clearExpr true (withExpr ""), rfl, compatible_withExpr _ _⟩⟩
    · exact ⟨hw _, Or.inr ⟨clearExpr true (withExpr "$p"), rfl, compatible_withExpr _ _⟩⟩
  · intro id p h _
    simp only [witnessTarget] at h
    by_cases h1 : id = "p"
    · subst h1; decide
    · by_cases h2 : id = "q"
      · subst h2; decide
      · simp only [h1, h2, if_false] at h
        cases h

/-! ### non-vacuity of the PUT /devices trace -/

def demoSlave (host : String) : Slave :=
  { enabled := true, scheme := "http", host := host, port := 80, path := "/", pwHash := "h", pollInterval := 0,
    listenEnabled := true, lastSync := 0, attrs := [], provAttrs := [] }

/-- a target that has the slave device `old` registered, switches on -/
def targetWithSlave : BState :=
  { emptyState with slaves := fun n => if n = "old" then some (demoSlave "old.local") else none }

/-- the second entry fails the POST /devices schema -/
def badSlaveDocs : List (Option (String × Slave)) :=
  [some ("s1", demoSlave "s1.local"), none, some ("s3", demoSlave "s3.local")]

def goodSlaveDocs : List (Option (String × Slave)) :=
  [some ("s1", demoSlave "s1.local"), some ("s3", demoSlave "s3.local")]

/-- the trace of the rejected call: `disable` (old device still registered), removal, entry 0 validated, entry 1
raises — four states, switches off in all of them although the target had them on; `old` is gone, nothing was added;
the error carries index 1; the `finally:` turns the switches on -/
example :
    (putSlavesDoc targetWithSlave badSlaveDocs).2 = .err 1 ∧ (putSlavesTrace targetWithSlave badSlaveDocs).resp = .err 1 ∧
    ((putSlavesTrace targetWithSlave badSlaveDocs).during.map
      (fun s => (s.updating, s.events, (s.slaves "old").isSome, (s.slaves "s1").isSome))) =
      [(false, false, true, false), (false, false, false, false), (false, false, false, false),
       (false, false, false, false)] ∧
    (targetWithSlave.updating, targetWithSlave.events) = (true, true) ∧
    (let a := (putSlavesTrace targetWithSlave badSlaveDocs).after
     (a.updating, a.events, (a.slaves "old").isSome, (a.slaves "s1").isSome, (a.slaves "s3").isSome)) =
      (true, true, false, false, false) := by
  decide

/-- the trace of an accepted call: `disable`, removal, two entries validated, two entries added — six states,
switches off in all of them; `s1` is registered from the fifth on, `s3` in the sixth; switches on afterwards -/
example :
    (putSlavesDoc targetWithSlave goodSlaveDocs).2 = .ok ∧
    ((putSlavesTrace targetWithSlave goodSlaveDocs).during.map
      (fun s => (s.updating, s.events, (s.slaves "old").isSome, (s.slaves "s1").isSome, (s.slaves "s3").isSome))) =
      [(false, false, true, false, false), (false, false, false, false, false), (false, false, false, false, false),
       (false, false, false, false, false), (false, false, false, true, false), (false, false, false, true, true)] ∧
    (let a := (putSlavesTrace targetWithSlave goodSlaveDocs).after
     (a.updating, a.events, (a.slaves "old").isSome, a.slaves "s1", (a.slaves "s3").isSome)) =
      (true, true, false, some (demoSlave "s1.local"), true) := by
  decide

/-! ### peripherals (GET / PUT /peripherals)

`Model.Peripherals` mirrors the registry and the four API functions as the code is; `Proofs.Peripherals` has the lemmas.
Hypotheses of the round trip, all facts of a source hub that is reachable through the API (`peripherals_invariant`
below) and of "the two hubs run the same static configuration": effective ids distinct, `WFP` (the name, if supplied, is
the id; ids are non-empty — the auto id starts with `peripheral_`), static peripherals first, every non-static entry of
the document still constructible (`Addable`: the driver loads and takes the GET form of the entry — with `id` and
`name: null` filled in). -/
section Peripherals
open QtVerif.Peripherals

/-- **GET after PUT(GET source) = GET source**, for every target registry with the same static peripherals and every
source registry: the document is accepted, the registry afterwards is the source's static part followed by the source's
non-static peripherals in order, each under its own effective id (named, explicit id or auto id alike) and with its
ports; so GET /peripherals answers exactly the backup document. -/
theorem peripherals_restore_roundtrip (cfg : Peripherals.Cfg) (tgt src : List Periph)
    (hschema : ∀ p ∈ src, cfg.schemaOk (toJson p) = true)
    (hw : ∀ p ∈ src, WFP p) (ha : ∀ p ∈ src, p.static = false → Addable cfg p)
    (hnd : (ids src).Nodup) (hsf : StaticsFirst src)
    (hstat : tgt.filter (·.static) = src.filter (·.static)) :
    (putPeripherals cfg tgt (getPeripherals src)).2 = .ok ∧
    getPeripherals (putPeripherals cfg tgt (getPeripherals src)).1 = getPeripherals src ∧
    ids (putPeripherals cfg tgt (getPeripherals src)).1 = ids src ∧
    ∀ p ∈ (putPeripherals cfg tgt (getPeripherals src)).1, p.static = false → p.ports = true := by
  have h := put_get_source cfg tgt src hschema hw ha hnd hsf hstat
  refine ⟨by rw [h], get_put_get cfg tgt src hschema hw ha hnd hsf hstat, ?_, ?_⟩
  · rw [h]
    conv => rhs; rw [hsf]
    simp [ids, List.map_map, Function.comp_def, ported]
  · exact put_ok_ports cfg tgt _ _ (by rw [h])

/-- the static peripherals of the target survive every PUT /peripherals untouched — accepted, refused or invalid -/
theorem peripherals_static_survive (cfg : Peripherals.Cfg) (reg : List Periph) (doc : List Entry) :
    (putPeripherals cfg reg doc).1.filter (·.static) = reg.filter (·.static) :=
  put_statics_survive cfg reg doc

/-- what the code does with a document it refuses (the known finding `C20-put-peripherals-failing-entry-unnamed`): the
`k`-th entry is the first one `add` refuses on the registry built so far; the target's own non-static peripherals are
gone, the entries before the `k`-th are registered and NONE of them has ports. (That the error names entry `k` is what
the property asks; the code raises the registry's bare exception — `k` is a fact of the run, not of the response.) -/
theorem peripherals_refused_document_outcome (cfg : Peripherals.Cfg) (reg reg' : List Periph) (doc : List Entry)
    (k : Nat) (kind : AddErr) (h : putPeripherals cfg reg doc = (reg', .raised k kind)) :
    ∃ pre e post added, doc = pre ++ e :: post ∧ k = pre.length ∧ e.static = false ∧
      addAll cfg (reg.filter (·.static)) 0 [] pre = (added, .ok) ∧
      add cfg (reg.filter (·.static) ++ added) (popStatic e) false = .error kind ∧
      reg' = reg.filter (·.static) ++ added ∧ ∀ p ∈ added, p.static = false ∧ p.ports = false :=
  put_raised cfg reg reg' doc k kind h

/-- a hub for the examples: the auto id sees whether `name` is null or absent (as the hash over all parameters does) -/
def demoPCfg : Peripherals.Cfg :=
  { auto := fun e => match e.name with | .null => "peripheral_n" | _ => "peripheral_a",
    loadable := fun d => d = "Board" ∨ d = "Beacon", ctorOk := fun e => e.params ≠ 13, schemaOk := fun _ => true }

def fixedP : Periph := { effId := "fixed", name := some "fixed", driver := "Beacon", params := 0, static := true, ports := true }

/-- source: POST a named board, a board with an explicit id only, a board with neither -/
def demoSource : List Periph :=
  let r := (postPeripheral demoPCfg [fixedP] ⟨.val "boiler", .absent, "Board", 32, false⟩).1
  let r := (postPeripheral demoPCfg r ⟨.absent, .val "attic_board", "Board", 33, false⟩).1
  (postPeripheral demoPCfg r ⟨.absent, .absent, "Board", 34, false⟩).1

/-- target: the two unnamed ones deleted, another board added -/
def demoTarget : List Periph :=
  let r := (deletePeripheral demoSource "attic_board").1
  let r := (deletePeripheral r "peripheral_a").1
  (postPeripheral demoPCfg r ⟨.val "garden", .absent, "Board", 48, false⟩).1

/-- the hypotheses of `peripherals_restore_roundtrip` hold of the demo hubs, and its conclusion computes: the unnamed
peripherals come back under `attic_board` and `peripheral_a`, although the hash of the GET form of the third entry
(`name: null`) would be `peripheral_n` -/
example :
    ids demoSource = ["fixed", "boiler", "attic_board", "peripheral_a"] ∧
    ids demoTarget = ["fixed", "boiler", "garden"] ∧
    (ids demoSource).Nodup ∧ StaticsFirst demoSource ∧
    demoTarget.filter (·.static) = demoSource.filter (·.static) ∧
    (putPeripherals demoPCfg demoTarget (getPeripherals demoSource)).2 = .ok ∧
    getPeripherals (putPeripherals demoPCfg demoTarget (getPeripherals demoSource)).1 = getPeripherals demoSource ∧
    withPorts (putPeripherals demoPCfg demoTarget (getPeripherals demoSource)).1
      = ["fixed", "boiler", "attic_board", "peripheral_a"] ∧
    (getPeripherals demoSource).map demoPCfg.auto = ["peripheral_a", "peripheral_a", "peripheral_n", "peripheral_n"] := by
  decide

/-- a refused document (third entry: unknown driver; and: an id used twice): the call ends at that entry, `boiler` is
registered without ports, the target's `garden` is gone, the static peripheral is untouched -/
example :
    let bad := (getPeripherals demoSource).map (fun e => if e.id = .val "attic_board" then { e with driver := "Nope" } else e)
    let dup := (getPeripherals demoSource).map (fun e => if e.id = .val "peripheral_a" then { e with id := .val "boiler" } else e)
    (putPeripherals demoPCfg demoTarget bad).2 = .raised 2 .noSuchDriver ∧
    ids (putPeripherals demoPCfg demoTarget bad).1 = ["fixed", "boiler"] ∧
    withPorts (putPeripherals demoPCfg demoTarget bad).1 = ["fixed"] ∧
    (putPeripherals demoPCfg demoTarget dup).2 = .raised 3 .duplicate ∧
    ids (putPeripherals demoPCfg demoTarget dup).1 = ["fixed", "boiler", "attic_board"] := by
  decide

/-- the hypotheses of the round trip are invariants of the registry (`Inv`: distinct effective ids, `WFP`, no static
peripheral after a non-static one): POST, DELETE and PUT /peripherals — accepted or refused — keep them, provided the
auto id is never empty (it starts with `peripheral_`); and `Inv` gives the three hypotheses -/
theorem peripherals_invariant (cfg : Peripherals.Cfg) (hauto : ∀ e, cfg.auto e ≠ "") (reg : List Periph) (h : Inv reg) :
    (∀ e, Inv (postPeripheral cfg reg e).1) ∧ (∀ id, Inv (deletePeripheral reg id).1) ∧
    (∀ doc, Inv (putPeripherals cfg reg doc).1) ∧
    ((ids reg).Nodup ∧ (∀ p ∈ reg, WFP p) ∧ StaticsFirst reg) :=
  ⟨fun e => inv_post cfg hauto reg e h, fun id => inv_delete reg id h, fun doc => inv_put cfg hauto reg doc h,
   h.1, h.2.1, staticsFirst_of_pairwise reg h.2.2⟩

/-- the round trip for registries satisfying the invariant -/
theorem peripherals_restore_roundtrip_reachable (cfg : Peripherals.Cfg) (tgt src : List Periph) (hsrc : Inv src)
    (hschema : ∀ p ∈ src, cfg.schemaOk (toJson p) = true) (ha : ∀ p ∈ src, p.static = false → Addable cfg p)
    (hstat : tgt.filter (·.static) = src.filter (·.static)) :
    (putPeripherals cfg tgt (getPeripherals src)).2 = .ok ∧
    getPeripherals (putPeripherals cfg tgt (getPeripherals src)).1 = getPeripherals src :=
  have h := peripherals_restore_roundtrip cfg tgt src hschema hsrc.2.1 ha hsrc.1
    (staticsFirst_of_pairwise src hsrc.2.2) hstat
  ⟨h.1, h.2.1⟩

theorem demo_auto_nonempty : ∀ e, demoPCfg.auto e ≠ "" := by
  intro e; unfold demoPCfg; simp only; split <;> decide

/-- the demo source is reachable: three POSTs on a registry holding the static peripheral -/
example : Inv demoSource :=
  have h0 : Inv [fixedP] :=
    ⟨by decide, by intro p hp; simp only [List.mem_singleton] at hp; subst hp
                   exact ⟨by decide, by intro n hn; simp [truthy, fixedP] at hn; simp [fixedP, hn]⟩,
     by simp [StaticsFirstP]⟩
  inv_post _ demo_auto_nonempty _ _ (inv_post _ demo_auto_nonempty _ _ (inv_post _ demo_auto_nonempty _ _ h0))

end Peripherals

/-! ### what is still missing

The frontend's backup restores PUT /peripherals before PUT /ports; the ports of a restored peripheral are re-created from
its driver definition and then receive their attributes through PUT /ports as non-virtual ports (`restore_roundtrip` with
`TargetOK`: the port exists on the target with the same definition — which is what `peripherals_restore_roundtrip`
provides: same peripherals, ports initialised). That link is NOT a theorem: `Model.Backup` and `Model.Peripherals` are two
models, the creation of a port by `init_ports` is only the flag `Periph.ports`. Over an abstract joint API the full clause
is the following; its FIRST conjunct is `peripherals_restore_roundtrip` for `Model.Peripherals`, its second conjunct is
checked on the real hub by the harness only (GET /ports after PUT /peripherals + PUT /ports == GET /ports of the source,
peripheral ports with attributes included): -/

/-- NOT PROVED, NOT INSTANTIATED — names the clause that is missing from the statements above. `Hub`: hub states;
`getPeripherals` / `putPeripherals`: GET and PUT /peripherals; `getPorts`: GET /ports. A full-strength round trip would
say: restoring the peripherals document of the source onto any target reproduces that document, and the ports document
of a peripherals-then-ports restore equals the source's. -/
def restoreRoundtripWithPeripheralsFull (Hub PDoc PortsDoc : Type) (getPeripherals : Hub → PDoc)
    (putPeripherals : Hub → PDoc → Hub) (getPorts : Hub → PortsDoc) (putPorts : Hub → PortsDoc → Hub) : Prop :=
  ∀ src tgt : Hub,
    getPeripherals (putPeripherals tgt (getPeripherals src)) = getPeripherals src ∧
    getPorts (putPorts (putPeripherals tgt (getPeripherals src)) (getPorts src)) = getPorts src

end QtVerif.C20
