import QtVerif.Proofs.PortIOStage
/-!
C14 — Per-port driver calls never overlap and writes keep request order.

Property theorems only; helper lemmas and the two inductive invariants are in `QtVerif/Proofs/PortIO.lean`, the
model (transition system whose actions are the atomic stretches between `await`s of `_write_value_queued`,
`_write_value_loop`, `read_transformed_value` and the direct write of `load_from_data`) in `QtVerif/Model/PortIO.lean`.

Every theorem quantifies over every reachable state, i.e. every interleaving of enabled actions of any length
(`Reachable c s`), and over every configuration `c` (every queue capacity `c.cap`, 0 = unbounded as in
`asyncio.Queue`) unless a hypothesis says otherwise. `c.lockFix = true` is the repaired code
(fixes/C14-load-write-lock.diff), `c.readGuard = true` the `_reading` test of `read_transformed_value`.

Submission order. `submit` of the port slice is the atomic enqueue. The property speaks about the order in which values
are *submitted*, i.e. the order of the calls of the public `transform_and_write_value`; between the call and the
enqueue the write transform is evaluated, which suspends the caller (value-dependent number of loop iterations). The
tie "enqueue order = call order" is the stage system `tstep` (Model/PortIO.lean, second part): theorems
`call_order_is_queue_order` (repaired code, FIFO hand-over through `_submit_lock`, fixes/C14-submit-order-lock.diff) and
`unrepaired_call_order_broken` (code before that fix). On the real code it is watched by the correspondence cases whose
ports carry a function transform (`tr >= 2` in harness/props/c14.py: MUL, ADD, lazy IF with unequal branches, IF that
fails for one value; null / failing / both-branch values in same-instant bursts from API, direct and sequence
submitters): submissions are logged at the ENTRY of the public call and the driver must receive the transformed values
in that order (corpus witnesses W2, W2b and the `[5, None, 7]` case). The `transform_write` attribute itself may be set,
changed and cleared between and during the calls (`setTr`): the stage reads it when a call gets the submit lock; the
driver `Driver/C14.lean` runs the stage system on the schedules observed on the real code ("dyn" cases of the harness:
attribute changes interleaved with submissions whose transform evaluation is suspended; corpus witness W3).
-/
namespace QtVerif.PortIO.C14
open QtVerif.PortIO

/-- **Reads never overlap**: with the `_reading` guard at most one `read_value` call of a port is in flight. -/
theorem reads_exclusive (c : Cfg) (hg : c.readGuard = true) (s : State) (h : Reachable c s) : s.rIn ≤ 1 :=
  ctl_reads_le_one (reachable_inv h).1 hg

/-- **Writes never overlap** (repaired code): at most one `write_value` call of a port is in flight, counting the
writer task's calls and the direct call made while loading persisted data. -/
theorem writes_exclusive (c : Cfg) (hf : c.lockFix = true) (s : State) (h : Reachable c s) : s.wIn ≤ 1 :=
  ctl_writes_le_one (reachable_inv h).1 hf

/-- The code as found at the pinned commit (`lockFix = false`: `load_from_data` calls `write_value` directly while the
writer task is free to run) lets two writes overlap: the load-time write is in flight, a value is submitted, the writer
task takes it and enters `write_value`. For every capacity. -/
theorem unrepaired_writes_overlap (cap : Nat) :
    ∃ s, Reachable { cap := cap, lockFix := false } s ∧ s.wIn = 2 := by
  refine ⟨_, exec_reachable [.loadWriteBegin, .submit 9, .writerTake] Reachable.init rfl, ?_⟩
  rfl

/-- The informative flags of the code mean what their accessors say: `is_reading()` is true exactly while a read is
in flight (with the guard), `is_writing()` exactly while the writer task holds an entry (waiting for the lock or inside
`write_value`); the load-time direct write does not set it. -/
theorem flags_track_calls (c : Cfg) (s : State) (h : Reachable c s) :
    (c.readGuard = true → (s.reading = true ↔ s.rIn = 1)) ∧
    (s.writingFlag = true ↔ (held s ≠ [] ∨ inFlight s ≠ [])) := by
  refine ⟨fun hg => ?_, (reachable_inv h).1.flag⟩
  have := (reachable_inv h).1.rOne hg
  cases hr : s.reading <;> simp [hr] at this ⊢ <;> omega

/-- Without the `_reading` test two reads overlap (so `reads_exclusive` rests on the guard, not on the model's shape). -/
theorem unguarded_reads_overlap (cap : Nat) :
    ∃ s, Reachable { cap := cap, readGuard := false } s ∧ s.rIn = 2 :=
  ⟨_, exec_reachable [.readBegin, .readBegin] Reachable.init rfl, rfl⟩

/-- **Write order (refinement).** In every reachable state, the values that have entered the driver, followed by the
entry the writer holds, followed by the queue, are exactly the submission sequence with the dropped entries removed —
same order, nothing invented, nothing else lost. -/
theorem write_order (c : Cfg) (s : State) (h : Reachable c s) :
    s.started ++ held s ++ s.queue = s.submitted.filter (fun e => !(dropped s).contains e) :=
  ((reachable_inv h).2.order).symm

/-- In a quiescent state (nothing queued, writer idle) the sequence of values written IS the submission sequence
minus the dropped ones. -/
theorem write_order_quiescent (c : Cfg) (s : State) (h : Reachable c s) (hq : quiescent s) :
    s.started = s.submitted.filter (fun e => !(dropped s).contains e) := by
  have := write_order c s h
  obtain ⟨hq1, hq2⟩ := hq
  have hheld : held s = [] := by rcases hq2 with h' | h' <;> simp [held, h']
  rw [hheld, hq1] at this
  simpa using this

/-- FIFO: tickets enter the driver in strictly increasing order, and everything still pending is newer. -/
theorem write_order_fifo (c : Cfg) (s : State) (h : Reachable c s) :
    ((s.started ++ held s ++ s.queue).map (·.tk)).Pairwise (· < ·) :=
  started_tks_sorted (reachable_inv h).2

/-- The queue never holds more than `cap` entries. -/
theorem queue_bounded (c : Cfg) (hc : 0 < c.cap) (s : State) (h : Reachable c s) : s.queue.length ≤ c.cap :=
  (reachable_inv h).2.bound hc

/-- **Drop only when full, oldest first.** Every drop happened while the queue held exactly `cap` entries
(so `cap` others — the rest of the queue and the new submission — were pending), the dropped entry was the head:
older than every other queued entry and than the submission that caused the drop. -/
theorem drop_only_when_full (c : Cfg) (s : State) (h : Reachable c s) :
    ∀ d ∈ s.drops, 0 < c.cap ∧ (d.e :: d.rest).length = c.cap ∧ (∀ r ∈ d.rest, d.e.tk < r.tk) ∧ d.e.tk < d.cause :=
  (reachable_inv h).2.dropsOk

/-- One submission drops at most one entry (the causing tickets of the drop records are strictly increasing). -/
theorem one_drop_per_overflow (c : Cfg) (s : State) (h : Reachable c s) :
    (s.drops.map (·.cause)).Pairwise (· < ·) :=
  (reachable_inv h).2.causes

/-- **It — and only it — is told.** A ticket is resolved with the queue-full error iff it was dropped. -/
theorem queue_full_iff_dropped (c : Cfg) (s : State) (h : Reachable c s) (tk : Nat) :
    (tk, Outcome.queueFull) ∈ s.resolved ↔ tk ∈ (dropped s).map (·.tk) :=
  full_iff_dropped (reachable_inv h).2 tk

/-- A dropped entry never reaches the driver. -/
theorem dropped_never_written (c : Cfg) (s : State) (h : Reachable c s) (e : Entry) (he : e ∈ dropped s) :
    e ∉ s.started :=
  dropped_not_started (reachable_inv h).2 e he

/-- A ticket has entered the driver iff it is in flight or resolved with the result of its own write (ok / error). -/
theorem written_iff_write_result (c : Cfg) (s : State) (h : Reachable c s) (tk : Nat) :
    ((∃ o, o ≠ Outcome.queueFull ∧ (tk, o) ∈ s.resolved) ∨ tk ∈ (inFlight s).map (·.tk)) ↔
      tk ∈ s.started.map (·.tk) :=
  written_iff_resolved (reachable_inv h).2 tk

/-- **Every ticket is resolved at most once.** -/
theorem every_ticket_resolved_at_most_once (c : Cfg) (s : State) (h : Reachable c s) :
    (s.resolved.map (·.1)).Nodup :=
  resolved_nodup (reachable_inv h).2

/-- **In any quiescent state every ticket is resolved, exactly once**: the resolved tickets are a permutation of
`0 … nextTk-1`, the tickets handed out (`submitted_tickets`). -/
theorem quiescent_every_ticket_resolved_once (c : Cfg) (s : State) (h : Reachable c s) (hq : quiescent s) :
    (s.resolved.map (·.1)).Perm (List.range s.nextTk) :=
  quiescent_resolved_perm (reachable_inv h).2 hq

theorem submitted_tickets (c : Cfg) (s : State) (h : Reachable c s) :
    s.submitted.map (·.tk) = List.range s.nextTk :=
  (reachable_inv h).2.tks

/-- **Quiescence is reached when driver calls terminate**: in a non-quiescent state an internal action (a step of the
writer task or the completion of a driver call) is enabled — no deadlock, also not on the write lock — … -/
theorem writer_never_stuck (c : Cfg) (s : State) (h : Reachable c s) (hq : ¬ quiescent s) :
    ∃ a, a.internal = true ∧ (step c s a).isSome = true :=
  not_quiescent_enabled (reachable_inv h).1 hq

/-- … and every internal action decreases `measure` (4·queued + writer stage + load write in flight), so after at
most `measure s` internal actions with no new submission the port is quiescent. -/
theorem internal_action_decreases_measure (c : Cfg) (s s' : State) (a : Action) (ha : a.internal = true)
    (hs : step c s a = some s') : measure s' < measure s :=
  internal_decreases ha hs

/-- **Any number of ports**: in every reachable state of a system of ports (each with its own capacity), every port
is in a reachable state of its own slice, hence all of the above holds per port; in particular reads and writes of
each port are exclusive. -/
theorem system_calls_exclusive (cfgs : List Cfg) (σ : Sys) (h : SysReachable cfgs σ)
    (p : Nat) (c : Cfg) (s : State) (hp : σ[p]? = some (c, s)) :
    Reachable c s ∧ (c.readGuard = true → s.rIn ≤ 1) ∧ (c.lockFix = true → s.wIn ≤ 1) := by
  have hr := ((sys_reachable_port h).2 p c s hp).2
  exact ⟨hr, fun hg => reads_exclusive c hg s hr, fun hf => writes_exclusive c hf s hr⟩

/-- **Call order is queue order** (repaired code), for every history of changes of the `transform_write` attribute
(`setTr` between and during the calls) and every transform table `xf`: in every reachable state of the stage system the
calls made are the calls that left the stage, in the same order, followed by those still in the stage; the values
queued so far are exactly the values of the calls that left with an evaluated transform — each the transform the call
read when it got the submit lock, applied to the value it submitted —, in call order; and the port component is a
reachable port state (so every theorem above applies to it, with `submitted` in call order). -/
theorem call_order_is_queue_order (xf : Nat → Int → Int) (c : Cfg) (t : TState) (h : TReachable true xf c t) :
    t.entered = t.passed.map (·.call) ++ t.stage ∧
    t.port.submitted.map (·.val) = (t.passed.filter (·.ok)).map (·.queuedVal xf) ∧
    Reachable c t.port :=
  let i := treachable_inv h
  ⟨i.calls, i.queued, i.reach⟩

/-- The code before fixes/C14-submit-order-lock.diff (no FIFO hand-over: the caller whose transform evaluation finishes
first is queued first) breaks the order: calls 1 then 2, the second one is queued — and written — first. -/
theorem unrepaired_call_order_broken (xf : Nat → Int → Int) (cap : Nat) :
    ∃ t, TReachable false xf { cap := cap } t ∧ t.entered.map (·.val) = [1, 2] ∧
      t.port.started.map (·.val) = [2] ∧ t.port.queue.map (·.val) = [1] := by
  refine ⟨_, texec_reachable [.enter 1, .enter 2, .jump 1, .port .writerTake, .jump 0] TReachable.init rfl, ?_⟩
  cases cap <;> exact ⟨rfl, rfl, rfl⟩

/-! ### Non-vacuity: concrete schedules that meet the hypotheses and exercise drop, lock wait and order. -/

/-- cap 2: five submissions while the first write is slow; tickets 1 and 2 are dropped (each while 2 were queued),
0, 3, 4 are written in order; the run ends quiescent with every ticket resolved. -/
def demo : List Action :=
  [.submit 10, .writerTake, .submit 11, .submit 12, .submit 13, .submit 14, .readBegin, .writeEnd true, .readEnd,
   .confirmEnd, .writerTake, .writeEnd false, .confirmEnd, .writerTake, .writeEnd true, .confirmEnd]

example : (exec { cap := 2 } State.init demo).map (fun s => (s.started.map (·.val), (dropped s).map (·.tk),
      s.resolved, s.queue.length, s.wIn, s.rIn))
    = some ([10, 13, 14], [1, 2],
        [(1, .queueFull), (2, .queueFull), (0, .ok), (3, .err), (4, .ok)], 0, 0, 0) := by rfl

example : ∃ s, exec { cap := 2 } State.init demo = some s ∧ Reachable { cap := 2 } s ∧ quiescent s ∧ s.drops ≠ [] := by
  refine ⟨_, rfl, exec_reachable demo Reachable.init rfl, ?_, ?_⟩
  · exact ⟨rfl, Or.inl rfl⟩
  · intro h; cases h

/-- Repaired code: the writer takes an entry while the load-time write is in flight and waits for the lock; the next
submission still finds room (the taken entry has left the queue); writes stay exclusive. -/
example : (exec { cap := 1 } State.init
      [.loadWriteBegin, .submit 9, .writerTake, .submit 8, .loadWriteEnd, .writerAcquire]).map
        (fun s => (s.wIn, s.started.map (·.val), s.queue.map (·.val), s.drops.length)) = some (1, [9], [8], 0) := by
  rfl

/-- … and `writerAcquire` is not enabled while the load-time write holds the lock. -/
example : exec { cap := 1 } State.init [.loadWriteBegin, .submit 9, .writerTake, .writerAcquire] = none := by
  rfl

/-- A non-quiescent reachable state (hypothesis of `writer_never_stuck`) and an internal step from it. -/
example : ∃ s, Reachable { cap := 1 } s ∧ ¬ quiescent s :=
  ⟨_, exec_reachable [.submit 1] Reachable.init rfl, fun h => by cases h.1⟩

/-- An internal step (hypotheses of `internal_action_decreases_measure`): the writer takes the submitted entry, the
measure drops from 4 to 2. -/
example : ∃ s s', exec { cap := 1 } State.init [.submit 1] = some s ∧ step { cap := 1 } s .writerTake = some s' ∧
    Action.internal .writerTake = true ∧ measure s = 4 ∧ measure s' = 2 :=
  ⟨_, _, rfl, rfl, rfl, rfl, rfl⟩

/-- Two ports, a step on each (hypotheses of `system_calls_exclusive`). -/
example : ∃ σ, SysReachable [{ cap := 1 }, { cap := 4 }] σ ∧ (σ[1]?).map (fun x => x.2.queue.length) = some 1 := by
  refine ⟨_, SysReachable.step 1 (.submit 5) (SysReachable.step 0 .readBegin SysReachable.init rfl) rfl, rfl⟩

/-- A transform table for the examples: transform 2 multiplies by 10, every other one adds 1000. -/
def xfDemo (k : Nat) (v : Int) : Int := if k = 2 then v * 10 else v + 1000

/-- The stage with FIFO hand-over: three calls, the middle one's transform fails, a `jump` is not enabled. -/
example : (texec true xfDemo { cap := 4 } {} [.enter 5, .enter 105, .enter 7, .pass true, .acquire, .pass false,
      .acquire, .pass true, .port .writerTake]).map
        (fun t => (t.port.submitted.map (·.val), t.port.started.map (·.val), t.stage.length))
    = some ([5, 7], [5], 0) := by rfl

example : texec true xfDemo { cap := 4 } {} [.enter 5, .enter 7, .jump 1] = none := by rfl

/-- The transform is cleared while the first call evaluates it and a second call is made (seeded change C14-r4-1: the
second call must still queue behind the first): 5 is queued as 50, then 7 as it is; the second call cannot pass, nor
take the lock, before the first has left. -/
example : (texec true xfDemo { cap := 4 } {} [.setTr 2, .enter 5, .setTr 0, .enter 7, .pass true, .acquire,
      .pass true]).map (fun t => (t.port.submitted.map (·.val), t.passed.map (·.tr))) = some ([50, 7], [2, 0]) := by
  rfl

example : texec true xfDemo { cap := 4 } {} [.setTr 2, .enter 5, .setTr 0, .enter 7, .acquire] = none := by rfl

/-- The attribute changes while a call waits for the lock: the waiting call evaluates the transform it finds when it
gets the lock (3), not the one set when it was made (2); a call on a free lock reads it at once. -/
example : (texec true xfDemo { cap := 4 } {} [.setTr 2, .enter 5, .enter 6, .setTr 3, .pass true, .setTr 0, .setTr 3,
      .acquire, .setTr 2, .pass true, .enter 8, .setTr 0, .pass true]).map
        (fun t => (t.port.submitted.map (·.val), t.passed.map (·.tr), t.entered.map (·.tr)))
    = some ([50, 1006, 80], [2, 3, 2], [2, 2, 2]) := by rfl

/-- Two ports with different capacities. -/
example : SysReachable [{ cap := 1 }, { cap := 4 }]
    (([({ cap := 1 }, State.init), ({ cap := 4 }, State.init)] : Sys)) := SysReachable.init

end QtVerif.PortIO.C14
