import QtVerif.Proofs.SlaveExposed
import QtVerif.Proofs.SlaveAllSteps
import QtVerif.Proofs.SlaveNames
/-!
C12 — The master's mirror of a slave follows the slave.

"Once the master has processed everything an online slave reported (through listening, polling or pushed events), it
exposes exactly one port per port of the slave and no others, each with the slave's current value and the slave's
current attributes. With listening or pushed events, the successive values the master reports for a port are the
values the slave reported, in the same order, none missing."

Property theorems only; definitions (`mview`, `sview`, `Synced`, `NoPending`, `Inv`, `Step`, `run`, `dedupFrom`, …)
and all helper lemmas are in `QtVerif/Proofs/SlaveMirror.lean`, the model in `QtVerif/Model/Slave.lean`.
Everything is proved for every `fix : Fix` (code as found and repaired), every state, every history; no bounds.
Standing hypotheses: the slave's session queue does not overflow (the model's queue is unbounded) and the master is
in a steady state, i.e. nothing is pending for provisioning (`NoPending`, preserved by every event).
-/
namespace QtVerif.Slave.C12
open QtVerif.Slave QtVerif.Slave.Ex

/-! ### 1. Every event kind makes the mirror follow the remote change -/

/-- **The heart.** If the mirror agrees with the slave and the slave makes any change `c` (value, attributes,
port added, port removed, device attributes) that emits event `e`, then handling `e` makes the mirror agree with
the changed slave. -/
theorem handler_tracks_change (fix : Fix) (m : Master) (s s' : SlaveSt) (c : Change) (e : Ev)
    (hs : Synced m s) (hn : NoPending m) (hc : applyChange s c = (s', some e)) : Synced (stepEvent fix m e) s' :=
  synced_stepEvent fix hs hn hc

example : Synced m0 s0 ∧ NoPending m0 ∧
    applyChange s0 (.setValue 1 (some 8)) = (⟨[⟨2, [(0, 0)], none⟩, ⟨1, [(0, 1), (5, 20)], some 8⟩], [(9, 1)], []⟩,
      some (.valueChange 1 (some 8))) := by decide
example : ∃ s' e, applyChange s0 (.setAttrs 2 [(0, 1)] (some 1)) = (s', some e) := ⟨_, _, rfl⟩
example : ∃ s' e, applyChange s0 (.addPort ⟨3, [], none⟩) = (s', some e) := ⟨_, _, rfl⟩
example : ∃ s' e, applyChange s0 (.removePort 1) = (s', some e) := ⟨_, _, rfl⟩
example : ∃ s' e, applyChange s0 (.setDev [(9, 2)]) = (s', some e) := ⟨_, _, rfl⟩

/-- The steady state is kept by every event … -/
theorem noPending_stepEvent (fix : Fix) (m : Master) (e : Ev) (h : NoPending m) : NoPending (stepEvent fix m e) :=
  QtVerif.Slave.noPending_stepEvent fix m e h

/-- … and by every batch of events. -/
theorem noPending_handleEvents (fix : Fix) (m : Master) (evs : List Ev) (h : NoPending m) :
    NoPending (handleEvents fix m evs) :=
  QtVerif.Slave.noPending_handleEvents fix evs m h

example : NoPending m0 := by decide
example : ¬ NoPending mPending := by decide

/-! ### 2–4. The replication invariant holds along every history -/

/-- A remote change (with its event appended to the session queue) keeps the invariant. -/
theorem inv_remote_step (fix : Fix) (m : Master) (s : SlaveSt) (c : Change) (hn : NoPending m) (hi : Inv fix m s) :
    Inv fix m (remoteStep s c) :=
  inv_remoteStep fix c hn hi

/-- A listen response that delivers a prefix of the pending events, in order, keeps the invariant. -/
theorem inv_listen_batch (fix : Fix) (m : Master) (s : SlaveSt) (q1 q2 : List Ev) (hq : s.queue = q1 ++ q2)
    (hi : Inv fix m s) : Inv fix (handleEvents fix m q1) { s with queue := q2 } :=
  inv_listenBatch fix hq hi

/-- Any sequence of remote changes keeps the invariant. -/
theorem inv_history (fix : Fix) (m : Master) (s : SlaveSt) (cs : List Change) (hn : NoPending m) (hi : Inv fix m s) :
    Inv fix m (cs.foldl remoteStep s) :=
  QtVerif.Slave.inv_history fix cs hn hi

/-- **Every interleaving** of remote changes and listen responses (each delivering any number `k` of the oldest
pending events) keeps the invariant and the steady state. -/
theorem inv_run (fix : Fix) (m : Master) (s : SlaveSt) (steps : List Step) (hn : NoPending m) (hi : Inv fix m s) :
    NoPending (run fix (m, s) steps).1 ∧ Inv fix (run fix (m, s) steps).1 (run fix (m, s) steps).2 :=
  QtVerif.Slave.inv_run fix steps (m, s) hn hi

-- the invariant with a non-empty queue (three pending events), where the mirror itself is NOT yet in sync
example : s1.queue.length = 3 ∧ Inv Fix.asFound m0 s1 ∧ Inv Fix.repaired m0 s1 ∧ ¬ Synced m0 s1 := by decide
example : s1.queue = s1.queue.take 1 ++ s1.queue.drop 1 := by decide
-- a run that interleaves changes and partial deliveries and ends with one event still pending
example : (run Fix.asFound (m0, s0)
    [.remote (.setValue 1 (some 8)), .remote (.addPort ⟨3, [(0, 1)], some 4⟩), .listen 1, .remote (.removePort 2),
     .listen 1]).2.queue = [.portRemove 2] := by decide

/-! ### 5. Once everything reported has been processed, the mirror is the slave -/

/-- When the session queue is empty (everything reported has been processed), the mirror agrees with the slave. -/
theorem mirror_eq_after_drain (fix : Fix) (m : Master) (s : SlaveSt) (hi : Inv fix m s) (hq : s.queue = []) :
    Synced m s :=
  synced_of_inv_drained fix hi hq

/-- End to end: from a synced steady state, after any interleaving of changes and deliveries, delivering the rest
of the queue leaves the mirror equal to the slave. -/
theorem mirror_eq_after_run_and_drain (fix : Fix) (m : Master) (s : SlaveSt) (steps : List Step)
    (hn : NoPending m) (hi : Inv fix m s) :
    Synced (handleEvents fix (run fix (m, s) steps).1 (run fix (m, s) steps).2.queue) (run fix (m, s) steps).2 :=
  (QtVerif.Slave.inv_run fix steps (m, s) hn hi).2

/-- What `Synced` says: the master exposes a port for an id exactly when the slave has one, and then with the
slave's attributes and the slave's value as newest remote value. -/
theorem exactly_the_slave_ports (m : Master) (s : SlaveSt) (h : Synced m s) (id : Nat) :
    (findPort m.ports id).isSome = (findS s.ports id).isSome ∧
    ∀ p q, findPort m.ports id = some p → findS s.ports id = some q →
      p.id = id ∧ q.id = id ∧ p.attrs = q.attrs ∧ p.lastRemote = q.value :=
  synced_unfold h id

example : Synced m0 s0 ∧ Inv Fix.asFound m0 s0 ∧ s0.queue = [] := by decide

/-- After the hub's ticks the value shown by GET /ports (`lastRead`) is the newest remote value … -/
theorem reported_value_after_ticks (fix : Fix) (p : MPort) (he : p.enabled = true) (hq : p.rq ≠ []) :
    (drainPort fix p.rq.length p).2.lastRead = p.lastRemote := by
  rw [drainPort_spec fix _ p he (Nat.le_refl _)]
  exact drained_lastRead fix p hq

/-- … and nothing is left in the queue. -/
theorem queue_empty_after_ticks (fix : Fix) (p : MPort) (n : Nat) (he : p.enabled = true) (hn : p.rq.length ≤ n) :
    (drainPort fix n p).2.rq = [] := by
  rw [drainPort_spec fix n p he hn]
  exact drained_rq fix p

example : ∃ p ∈ m0.ports, p.enabled = true ∧ p.rq ≠ [] := by decide

/-! ### 7(a). The hub reports the queued values in order, none missing -/

/-- The series of value changes reported while the queue of an enabled port is read is the queue itself, oldest
first, minus the entries equal to their predecessor (no *change* to report). -/
theorem drain_reports_queue (fix : Fix) (p : MPort) (he : p.enabled = true) :
    (drainPort fix p.rq.length p).1 = dedupFrom p.lastRead p.rq := by
  rw [drainPort_spec fix _ p he (Nat.le_refl _)]

example : (drainPort Fix.repaired 4 ⟨1, [], [some 5, some 6, some 6, some 7], some 5, [], false, some 5, true⟩).1 =
    [some 6, some 7] := by decide
-- a value is pending (repaired `read_value`): the same series is reported, the cached value stays the user's 9
example : drainPort Fix.repaired 4 ⟨1, [], [some 5, some 6, some 6, some 7], some 9, [], true, some 5, true⟩ =
    ([some 6, some 7], ⟨1, [], [], some 9, [], true, some 7, true⟩) := by decide
example : drainPort Fix.asFound 4 ⟨1, [], [some 5, some 6, some 6, some 7], some 9, [], true, some 5, true⟩ =
    ([some 6, some 7], ⟨1, [], [], some 7, [], true, some 7, true⟩) := by decide

/-! ### 5b. Exactly one port per slave port -/

/-- Port ids stay duplicate-free on the slave under every change … -/
theorem nodup_remoteStep (s : SlaveSt) (c : Change) (h : (s.ports.map (·.id)).Nodup) :
    ((remoteStep s c).ports.map (·.id)).Nodup :=
  QtVerif.Slave.nodup_remoteStep s c h

/-- … and on the master under every event batch (and under `fetchPorts`, see `nodup_fetch`). -/
theorem nodup_handleEvents (fix : Fix) (m : Master) (evs : List Ev) (h : (m.ports.map (·.id)).Nodup) :
    ((handleEvents fix m evs).ports.map (·.id)).Nodup :=
  QtVerif.Slave.nodup_handleEvents fix evs m h

theorem nodup_fetch (fix : Fix) (m : Master) (resp : List PortMsg) (h : (m.ports.map (·.id)).Nodup) :
    ((fetchPorts fix m resp).ports.map (·.id)).Nodup :=
  nodup_fetchPorts fix m resp h

/-- A synced mirror with duplicate-free ids has exactly one port per slave port and no others: the id lists are
permutations of each other (registry order may differ). -/
theorem one_port_per_slave_port (m : Master) (s : SlaveSt) (h : Synced m s) (hm : (m.ports.map (·.id)).Nodup)
    (hs : (s.ports.map (·.id)).Nodup) : (m.ports.map (·.id)).Perm (s.ports.map (·.id)) :=
  synced_ids_perm h hm hs

example : Synced m0 s0 ∧ (m0.ports.map (·.id)).Nodup ∧ (s0.ports.map (·.id)).Nodup ∧
    m0.ports.map (·.id) ≠ s0.ports.map (·.id) := by decide

/-! ### 6. Reconnect: a full fetch at one slave state resynchronises the mirror -/

/-- Whatever the mirror held before (stale ports, missing ports, ports that no longer exist), after
`fetch_and_update_ports` on the slave's answer the mirror equals the slave. Needs only the steady state on the
master and duplicate-free ids in the slave's answer (kept by every slave change: `nodup_remoteStep`). -/
theorem fetch_resyncs (fix : Fix) (m : Master) (s : SlaveSt) (hn : NoPending m) (hnd : (s.ports.map (·.id)).Nodup) :
    Synced (fetchPorts fix { m with dev := s.dev } (s.ports.map SPort.msg)) s :=
  fetchPorts_synced fix m s hn hnd

-- m0 against a slave where port 1 changed, port 2 is gone and port 3 is new
example : NoPending m0 ∧ (s1.ports.map (·.id)).Nodup ∧ ¬ Synced m0 s1 := by decide
example : NoPending m0 ∧ ([⟨1, [(0, 1)], some 3⟩, ⟨4, [], none⟩].map SPort.id).Nodup ∧
    (fetchPorts Fix.asFound m0 ([⟨1, [(0, 1)], some 3⟩, ⟨4, [], none⟩].map SPort.msg)).ports.map (·.id) = [1, 4] := by
  decide

/-! ### 7(b). The values the slave reports reach the hub in order, none missing -/

/-- Slave side: successive writes to one port emit one value-change event per write that changes the value. -/
theorem slave_reports_changes (s : SlaveSt) (id : Nat) (sp : SPort) (vs : List PVal) (hf : findS s.ports id = some sp) :
    ((vs.map (Change.setValue id)).foldl remoteStep s).queue =
      s.queue ++ (dedupFrom sp.value vs).map (Ev.valueChange id) :=
  setValues_queue id vs s sp hf

/-- Master side: a series of value-change events for a port with no pending value appends to its remote queue
exactly the event values that differ from their predecessor (starting from the newest known value), in order. -/
theorem events_land_in_order (fix : Fix) (m : Master) (id : Nat) (p : MPort) (vs : List PVal)
    (hf : findPort m.ports id = some p) (hpv : p.provValue = false) :
    findPort (handleEvents fix m (vs.map (Ev.valueChange id))).ports id =
      some { p with rq := p.rq ++ dedupFrom p.lastRemote vs } :=
  valueChanges_rq fix id vs m p hf hpv

/-- **Values in order, none missing**: after the events, the hub's ticks on the (enabled) port report the change
series of the values that were still queued followed by the event values. -/
theorem values_in_order (fix : Fix) (m : Master) (id : Nat) (p : MPort) (vs : List PVal)
    (hf : findPort m.ports id = some p) (hpv : p.provValue = false) (he : p.enabled = true)
    (hr : p.rq = [] → p.lastRead = p.cached) :
    ∃ p', findPort (handleEvents fix m (vs.map (Ev.valueChange id))).ports id = some p' ∧
      (drainPort fix p'.rq.length p').1 = dedupFrom p.lastRead (p.rq ++ vs) :=
  reported_series fix id vs m p hf hpv he hr

example : ∃ p, findPort m0.ports 1 = some p ∧ p.provValue = false ∧ p.enabled = true ∧ p.rq ≠ [] ∧
    (p.rq = [] → p.lastRead = p.cached) := ⟨_, rfl, rfl, rfl, by decide, by decide⟩
example : findS s0.ports 1 = some ⟨1, [(0, 1), (5, 20)], some 7⟩ := by decide
example : dedupFrom (some 5) ([some 7] ++ [some 7, some 8, some 8, none, some 8]) = [some 7, some 8, none, some 8] := by
  decide

/-! ### 8. Polling resynchronises; supersession in the session queue is harmless -/

/-- **One poll, exactly.** What the mirror shows for every id after `_poll_once` saw the slave's ports: a port
unknown before is added with the slave's attributes but no value yet; a known port gets the slave's value, and the
slave's attributes when `attrsDiffer` sees a difference; a port the slave no longer has is removed. -/
theorem poll_view (fix : Fix) (m : Master) (s : SlaveSt) (hn : NoPending m) (id : Nat) :
    mview (pollPorts fix m (s.ports.map SPort.msg)) id =
      match mview m id with
      | none => (findS s.ports id).map (fun sp => ⟨sp.attrs, none⟩)
      | some pv => (findS s.ports id).map
          (fun sp => ⟨if attrsDiffer pv.attrs sp.attrs then sp.attrs else pv.attrs, sp.value⟩) :=
  pollPorts_view fix m s hn id

/-- After one poll the mirror has exactly the slave's port ids … -/
theorem poll_exactly_the_slave_ids (fix : Fix) (m : Master) (s : SlaveSt) (hn : NoPending m) (id : Nat) :
    (mview (pollPorts fix m (s.ports.map SPort.msg)) id).isSome = (sview s id).isSome :=
  poll_ids fix m s hn id

/-- … and, when the slave has no port the master did not know yet, the slave's values and (as dictionaries) the
slave's attributes. -/
theorem poll_resyncs (fix : Fix) (m : Master) (s : SlaveSt) (hn : NoPending m)
    (hk : ∀ sp ∈ s.ports, (mview m sp.id).isSome = true) : PollSynced (pollPorts fix m (s.ports.map SPort.msg)) s :=
  poll_synced_of_known fix m s hn hk

/-- From any steady state, two successive polls of the same slave state resynchronise everything. -/
theorem poll_twice_resyncs (fix : Fix) (m : Master) (s : SlaveSt) (hn : NoPending m) :
    PollSynced (pollPorts fix (pollPorts fix m (s.ports.map SPort.msg)) (s.ports.map SPort.msg)) s :=
  poll_twice_synced fix m s hn

/-- The poll itself adds a newly discovered port without the value the slave reported (`_poll_once` pops `value`
before `_handle_port_add`): the master shows `null` for it until the value fetch of `handle_enable` is answered
(enabled port, master ready: `poll_new_port_value_fetch`) or until the next poll (`poll_twice_resyncs`). -/
theorem poll_once_new_port_has_no_value :
    ∃ m s, NoPending m ∧ (s.ports.map (·.id)).Nodup ∧ (sview s 3).map (·.value) = some (some 4) ∧
      (mview (pollPorts Fix.repaired m (s.ports.map SPort.msg)) 3).map (·.value) = some none :=
  ⟨m0, s1, by decide⟩

/-- A port discovered by a poll shows the slave's attributes and value once the follow-up
`GET /ports/<id>/value` is answered with the slave's value. -/
theorem poll_new_port_value_fetch (fix : Fix) (m : Master) (s : SlaveSt) (hn : NoPending m) (id : Nat) (sp : SPort)
    (hnew : mview m id = none) (hs : findS s.ports id = some sp) :
    mview (valueResp (pollPorts fix m (s.ports.map SPort.msg)) id sp.value) id = some ⟨sp.attrs, sp.value⟩ :=
  poll_then_valueResp fix m s hn id sp hnew hs

example : NoPending m0 ∧ mview m0 3 = none ∧ findS s1.ports 3 = some ⟨3, [(0, 1)], some 4⟩ := by decide

-- a slave whose ports are all known to m0 but with other values/attributes: hypotheses of `poll_resyncs`
example : NoPending m0 ∧ (∀ sp ∈ ([⟨1, [(0, 1), (5, 21)], some 9⟩] : List SPort), (mview m0 sp.id).isSome = true) ∧
    ¬ Synced m0 ⟨[⟨1, [(0, 1), (5, 21)], some 9⟩], [(9, 1)], []⟩ := by decide
example : mview (pollPorts Fix.asFound m0 ([⟨1, [(0, 1), (5, 21)], some 9⟩].map SPort.msg)) 1 =
    some ⟨[(0, 1), (5, 21)], some 9⟩ := by decide

/-- **Supersession.** Dropping an older queued port-update of a port when a newer port-update (carrying a value) of
the same port is queued does not change what the mirror finally shows (ports, attributes, values, device). -/
theorem supersession_harmless (fix : Fix) (m : Master) (hn : NoPending m) (q1 q2 : List Ev) (old new : PortMsg)
    (hid : old.id = new.id) (hv : new.value.isSome = true) :
    mview (handleEvents fix m (q1 ++ [.portUpdate old] ++ q2 ++ [.portUpdate new])) =
      mview (handleEvents fix m (q1 ++ q2 ++ [.portUpdate new])) ∧
    (handleEvents fix m (q1 ++ [.portUpdate old] ++ q2 ++ [.portUpdate new])).dev =
      (handleEvents fix m (q1 ++ q2 ++ [.portUpdate new])).dev :=
  supersede_portUpdate fix m hn q1 q2 old new hid hv

example : NoPending m0 ∧ (⟨1, [(0, 0)], some (some 1)⟩ : PortMsg).id = (⟨1, [(0, 1)], some (some 2)⟩ : PortMsg).id ∧
    (⟨1, [(0, 1)], some (some 2)⟩ : PortMsg).value.isSome = true := by decide

/-! ### 9. Reconnect with pending edits: push, then refresh (general form of §6, no steady state assumed)

`applyReqs s (pushReqs fix m)` is the slave after it received the provisioning pushes of `_handle_online`
(`applyReq`: PATCH /ports/<id>, PATCH /ports/<id>/value with a body, PATCH /device). -/

/-- **Reconnect = push pending, then refresh** (listen mode, code as found or repaired, ANY pending edits, ANY
mirror content): when the refresh is answered at slave state `s'`, the mirror equals `s'` and nothing is pending.
`hdev`: every pending device attribute has a cached value (the offline edit path sets both together). -/
theorem reconnect_resyncs (fix : Fix) (rf : List Nat) (m : Master) (s' : SlaveSt) (hmode : m.mode = .listen)
    (hdev : ∀ n ∈ m.devProv, (m.dev.get? n).isSome) (hnd : (s'.ports.map (·.id)).Nodup) :
    Synced (handleOnline fix rf m (some s'.dev) (some (s'.ports.map SPort.msg))).2 s' ∧
    NoPending (handleOnline fix rf m (some s'.dev) (some (s'.ports.map SPort.msg))).2 :=
  reconnect_synced fix rf m s' hmode hdev hnd

-- a master with three kinds of pending edits, far from the slave state s1 it reconnects to
example : mOff.mode = .listen ∧ (∀ n ∈ mOff.devProv, (mOff.dev.get? n).isSome) ∧ (s1.ports.map (·.id)).Nodup ∧
    ¬ NoPending mOff ∧ ¬ Synced mOff s1 := by decide
example : Synced (handleOnline Fix.asFound [] mOff (some s1.dev) (some (s1.ports.map SPort.msg))).2 s1 := by decide

/-- The pushes do not change which ports the slave has (so its ids stay duplicate-free). -/
theorem pushes_keep_slave_ids (s : SlaveSt) (l : List Req) (h : (s.ports.map (·.id)).Nodup) :
    ((applyReqs s l).ports.map (·.id)).Nodup :=
  applyReqs_nodup l s h

example : (s0.ports.map (·.id)).Nodup := by decide

/-- (i) A pending value is the slave's value after the pushes (repaired code: the push carries the value). -/
theorem pushed_value_reaches_slave (fix : Fix) (hvb : fix.valueBody = true) (m : Master) (s : SlaveSt) (p : MPort)
    (hp : p ∈ m.ports) (hnd : (m.ports.map (·.id)).Nodup) (hs : (findS s.ports p.id).isSome) (v : Int)
    (hv : p.pendValue = some v) :
    (findS (applyReqs s (pushReqs fix m)).ports p.id).map (·.value) = some (some v) :=
  pushed_value_in_slave fix hvb m s p hp hnd hs v hv

/-- (ii) Every pending attribute is among the slave's attributes of that port after the pushes. -/
theorem pushed_attr_reaches_slave (fix : Fix) (m : Master) (s : SlaveSt) (p : MPort)
    (hp : p ∈ m.ports) (hnd : (m.ports.map (·.id)).Nodup) (hs : (findS s.ports p.id).isSome) (n : Nat) (v : Int)
    (hv : (n, v) ∈ p.pendAttrs) :
    (findS (applyReqs s (pushReqs fix m)).ports p.id).bind (fun q => q.attrs.get? n) = some v :=
  pushed_attr_in_slave fix m s p hp hnd hs n v hv

/-- (iii) Every pending device attribute is among the slave's device attributes after the pushes. -/
theorem pushed_dev_reaches_slave (fix : Fix) (m : Master) (s : SlaveSt) (n : Nat) (v : Int)
    (hv : (n, v) ∈ m.pendDev) : (applyReqs s (pushReqs fix m)).dev.get? n = some v :=
  pushed_dev_in_slave fix m s n v hv

example : ∃ p ∈ mOff.ports, Fix.repaired.valueBody = true ∧ (mOff.ports.map (·.id)).Nodup ∧
    (findS s0.ports p.id).isSome ∧ p.pendValue = some 9 ∧ (5, 21) ∈ p.pendAttrs ∧ (9, 2) ∈ mOff.pendDev :=
  ⟨⟨1, [(0, 1), (5, 21)], [], some 9, [5], true, some 5, true⟩, by decide⟩
example : sPushed = ⟨[⟨2, [(0, 0)], none⟩, ⟨1, [(0, 1), (5, 21)], some 9⟩], [(9, 2)], []⟩ := by decide
-- the code as found sends the value push without a body: the slave's value stays what it was
example : (findS (applyReqs s0 (pushReqs Fix.asFound mOff)).ports 1).map (·.value) = some (some 7) := by decide

/-- **`mirror_eq_after_drain`, general form.** The master may hold any pending edits when the slave comes back
(listen mode). The slave receives the pushes (state `s' = applyReqs s (pushReqs fix m)`), the refresh is answered
from `s'`; then the mirror equals `s'`, nothing is pending any more, and the mirror shows every edit made while
the slave was offline — the pending value (repaired push), every pending attribute, every pending device
attribute — now also held by the slave: mirror ⊕ pending = slave. -/
theorem mirror_eq_after_drain_general (fix : Fix) (rf : List Nat) (m : Master) (s : SlaveSt)
    (hmode : m.mode = .listen) (hdev : ∀ n ∈ m.devProv, (m.dev.get? n).isSome)
    (hnds : (s.ports.map (·.id)).Nodup) (hndm : (m.ports.map (·.id)).Nodup) :
    Synced (handleOnline fix rf m (some (applyReqs s (pushReqs fix m)).dev)
      (some ((applyReqs s (pushReqs fix m)).ports.map SPort.msg))).2 (applyReqs s (pushReqs fix m)) ∧
    NoPending (handleOnline fix rf m (some (applyReqs s (pushReqs fix m)).dev)
      (some ((applyReqs s (pushReqs fix m)).ports.map SPort.msg))).2 ∧
    (∀ p ∈ m.ports, (findS s.ports p.id).isSome →
      (fix.valueBody = true → ∀ v, p.pendValue = some v →
        (mview (handleOnline fix rf m (some (applyReqs s (pushReqs fix m)).dev)
          (some ((applyReqs s (pushReqs fix m)).ports.map SPort.msg))).2 p.id).map (·.value) = some (some v)) ∧
      (∀ n v, (n, v) ∈ p.pendAttrs →
        (mview (handleOnline fix rf m (some (applyReqs s (pushReqs fix m)).dev)
          (some ((applyReqs s (pushReqs fix m)).ports.map SPort.msg))).2 p.id).bind
            (fun pv => pv.attrs.get? n) = some v)) ∧
    (∀ n v, (n, v) ∈ m.pendDev →
      (handleOnline fix rf m (some (applyReqs s (pushReqs fix m)).dev)
        (some ((applyReqs s (pushReqs fix m)).ports.map SPort.msg))).2.dev.get? n = some v) :=
  reconnect_carries_edits fix rf m s hmode hdev hnds hndm

example : mOff.mode = .listen ∧ (∀ n ∈ mOff.devProv, (mOff.dev.get? n).isSome) ∧ (s0.ports.map (·.id)).Nodup ∧
    (mOff.ports.map (·.id)).Nodup ∧ ¬ NoPending mOff := by decide
example : mview (handleOnline Fix.repaired [] mOff (some sPushed.dev) (some (sPushed.ports.map SPort.msg))).2 1 =
    some ⟨[(0, 1), (5, 21)], some 9⟩ := by decide

/-! ### 10. Pushed-events mode: every synchronisation run resynchronises -/

/-- `_provision_and_update` (apply_provisioning, fetch device, fetch ports) answered at slave state `s'`: the mirror
equals `s'` and nothing is pending, whatever was pending and whatever the mirror held. -/
theorem pushed_sync_resyncs (fix : Fix) (rf : List Nat) (m : Master) (s' : SlaveSt)
    (hdev : ∀ n ∈ m.devProv, (m.dev.get? n).isSome) (hnd : (s'.ports.map (·.id)).Nodup) :
    Synced (provisionAndUpdate fix rf m (some s'.dev) (some (s'.ports.map SPort.msg))).2 s' ∧
    NoPending (provisionAndUpdate fix rf m (some s'.dev) (some (s'.ports.map SPort.msg))).2 :=
  pushed_synced fix rf m s' hdev hnd

/-- One pushed event (handled out of band) followed by its run. `hrep`: a device-update event reports every
pending device attribute (a real device reports its whole attribute set) — otherwise the event replaces the cache
and a pending name loses its value (`hdev` would fail for the run). -/
theorem pushed_step_resyncs (fix : Fix) (rf : List Nat) (m : Master) (e : Ev) (s' : SlaveSt)
    (hdev : ∀ n ∈ m.devProv, (m.dev.get? n).isSome)
    (hrep : ∀ a, e = .deviceUpdate a → ∀ n ∈ m.devProv, a.has n = true) (hnd : (s'.ports.map (·.id)).Nodup) :
    Synced (pushedStep fix rf m e (some s'.dev) (some (s'.ports.map SPort.msg))).2 s' ∧
    NoPending (pushedStep fix rf m e (some s'.dev) (some (s'.ports.map SPort.msg))).2 :=
  pushedStep_synced fix rf m e s' hdev hrep hnd

example : (∀ n ∈ mOff.devProv, (mOff.dev.get? n).isSome) ∧ (s1.ports.map (·.id)).Nodup ∧
    (∀ a, Ev.deviceUpdate [(9, 3), (8, 0)] = .deviceUpdate a → ∀ n ∈ mOff.devProv, a.has n = true) := by
  refine ⟨by decide, by decide, ?_⟩
  intro a ha; cases ha; decide
example : Synced (pushedStep Fix.asFound [] mOff (.valueChange 1 (some 3)) (some s1.dev)
    (some (s1.ports.map SPort.msg))).2 s1 := by decide
-- `hrep` is not superfluous: a device update that omits the pending name 9 replaces the cache, the pending name
-- loses its value, `apply_provisioning` then has nothing to send for it and leaves it pending
example : (∀ n ∈ mOff.devProv, (mOff.dev.get? n).isSome) ∧
    ¬ NoPending (pushedStep Fix.repaired [] mOff (.deviceUpdate [(8, 0)]) (some s1.dev)
      (some (s1.ports.map SPort.msg))).2 := by decide

/-! ### 11. Polling converges, device attributes included -/

/-- One `_poll_once` of an online, ready master in the steady state settles the device attributes: the cache equals
the slave's device attributes as a dictionary (replaced when `attrsDiffer` sees a difference). -/
theorem poll_device_converges (fix : Fix) (rf : List Nat) (m : Master) (d : Attrs) (ps : List PortMsg)
    (hon : m.online = true) (hrd : m.ready = true) (hn : NoPending m) :
    ∀ n, (pollOnce fix rf m d (some ps)).2.dev.get? n = d.get? n :=
  pollOnce_dev fix rf m d ps hon hrd hn

/-- `_poll_once` keeps the master online, ready and in the steady state (so polls can be iterated). -/
theorem poll_keeps_steady (fix : Fix) (rf : List Nat) (m : Master) (d : Attrs) (ps : List PortMsg)
    (hon : m.online = true) (hrd : m.ready = true) (hn : NoPending m) :
    (pollOnce fix rf m d (some ps)).2.online = true ∧ (pollOnce fix rf m d (some ps)).2.ready = true ∧
    NoPending (pollOnce fix rf m d (some ps)).2 :=
  pollOnce_keeps fix rf m d ps hon hrd hn

/-- **Two polls of an unchanged slave converge**: same port ids, the slave's values, the slave's port attributes
and device attributes as dictionaries. -/
theorem poll_converges (fix : Fix) (rf : List Nat) (m : Master) (s : SlaveSt)
    (hon : m.online = true) (hrd : m.ready = true) (hn : NoPending m) :
    PollSynced (pollOnce fix rf (pollOnce fix rf m s.dev (some (s.ports.map SPort.msg))).2 s.dev
      (some (s.ports.map SPort.msg))).2 s ∧
    ∀ n, (pollOnce fix rf (pollOnce fix rf m s.dev (some (s.ports.map SPort.msg))).2 s.dev
      (some (s.ports.map SPort.msg))).2.dev.get? n = s.dev.get? n :=
  pollOnce_twice fix rf m s hon hrd hn

example : mPoll.online = true ∧ mPoll.ready = true ∧ NoPending mPoll := by decide
example : (pollOnce Fix.asFound [] mPoll sPoll.dev (some (sPoll.ports.map SPort.msg))).2.dev = sPoll.dev ∧
    mview (pollOnce Fix.asFound [] mPoll sPoll.dev (some (sPoll.ports.map SPort.msg))).2 3 = some ⟨[(0, 1)], none⟩ ∧
    mview (pollOnce Fix.asFound [] (pollOnce Fix.asFound [] mPoll sPoll.dev (some (sPoll.ports.map SPort.msg))).2
      sPoll.dev (some (sPoll.ports.map SPort.msg))).2 3 = some ⟨[(0, 1)], some 4⟩ := by decide

/-! ### 12. The offline invariant "mirror ⊕ pending = slave" (no steady state assumed; code as found and repaired)

`OverlaySynced m s`: same port ids; every attribute that is not pending has the slave's value; where no value is
pending the newest remote value is the slave's. What IS pending is the user's: that half is C13 (`Kept`), and it is
the half the code as found loses on a port-update. -/

/-- **Every event kind keeps it**: the slave makes any change `c` emitting `e`; handling `e` keeps the overlay
invariant, pending edits or not. -/
theorem overlay_handler_tracks_change (fix : Fix) (m : Master) (s s' : SlaveSt)
    (c : Change) (e : Ev) (ho : OverlaySynced m s) (hc : applyChange s c = (s', some e)) :
    OverlaySynced (stepEvent fix m e) s' :=
  overlay_stepEvent fix ho hc

/-- A synced mirror satisfies it, whatever is pending. -/
theorem overlay_of_mirror_eq (m : Master) (s : SlaveSt) (h : Synced m s) : OverlaySynced m s :=
  overlay_of_synced h

/-- Offline edits keep it (they only enlarge the pending set): attribute … -/
theorem overlay_edit_attr (m : Master) (s : SlaveSt) (id n : Nat) (v : Int) (ho : OverlaySynced m s) :
    OverlaySynced (editAttr m id n v).1 s :=
  overlay_editAttr m s id n v ho

/-- … value … -/
theorem overlay_edit_value (m : Master) (s : SlaveSt) (hoff : m.online = false) (id : Nat) (v : Int) (ok : Bool)
    (ho : OverlaySynced m s) : OverlaySynced (editValue m id v ok).1 s :=
  overlay_editValue m s hoff id v ok ho

/-- … device attribute (ports not concerned). -/
theorem overlay_edit_dev (m : Master) (s : SlaveSt) (n : Nat) (v : Int) (ho : OverlaySynced m s) :
    OverlaySynced (editDev m n v).1 s :=
  overlay_editDev m s n v ho

/-- **Along every interleaving** of remote changes and listen responses (the `run` of §2–4), with any pending
edits: replaying the still-queued events on the mirror gives a mirror that follows the slave in everything that is
not pending. -/
theorem overlay_history (fix : Fix) (m : Master) (s : SlaveSt) (steps : List Step)
    (hi : OverlayInv fix m s) : OverlayInv fix (run fix (m, s) steps).1 (run fix (m, s) steps).2 :=
  overlayInv_run fix steps (m, s) hi

/-- Remote changes each delivered at once. -/
theorem overlay_history_delivered (fix : Fix) (m : Master) (s : SlaveSt)
    (cs : List Change) (ho : OverlaySynced m s) :
    OverlaySynced (cs.foldl (deliverStep fix) (m, s)).1 (cs.foldl (deliverStep fix) (m, s)).2 :=
  overlay_deliverAll fix cs (m, s) ho

/-- With nothing pending the overlay invariant is agreement on port ids, values and (as dictionaries) attributes. -/
theorem overlay_nopending (m : Master) (s : SlaveSt) (hn : NoPending m) (ho : OverlaySynced m s) : PollSynced m s :=
  pollSynced_of_overlay hn ho

-- a master that goes offline in sync, then takes an attribute edit and a value edit: hypotheses of the above,
-- with pending edits and a mirror that is no longer equal to the slave
example : Synced (goOffline m0) s0 ∧ (goOffline m0).online = false ∧
    (editAttr (goOffline m0) 1 5 21).1.online = false ∧
    ¬ NoPending (editValue (editAttr (goOffline m0) 1 5 21).1 1 9 true).1 ∧
    ¬ Synced (editValue (editAttr (goOffline m0) 1 5 21).1 1 9 true).1 s0 := by decide
example : OverlaySynced (editValue (editAttr (goOffline m0) 1 5 21).1 1 9 true).1 s0 :=
  overlay_edit_value _ _ (by decide) 1 9 true (overlay_edit_attr _ _ 1 5 21 (overlay_of_mirror_eq _ _ (by decide)))
example : s0.queue = [] ∧ ∃ s' e, applyChange s0 (.setAttrs 1 [(0, 1), (5, 30)] (some 2)) = (s', some e) :=
  ⟨rfl, _, _, rfl⟩
-- the code as found drops the pending attribute when the slave reports the port: the invariant's other half
-- (pending = the user's) is C13; here the repaired handler keeps 5 ↦ 21 while taking 0 from the slave
example : (findPort (stepEvent Fix.repaired (editAttr (goOffline m0) 1 5 21).1
    (.portUpdate ⟨1, [(0, 0), (5, 30)], some (some 2)⟩)).ports 1).map (·.attrs) = some [(0, 0), (5, 21)] := by decide

/-! ### 13. The value the master EXPOSES (`lastRead`, what GET /ports shows), not only the newest remote value

`ExposedInv m`: for every port, when the remote queue is empty the exposed value is the cached one
(`p.rq = [] → p.lastRead = p.cached`, i.e. `= p.lastRemote`). It is the hypothesis `hr` of `values_in_order` and the
missing `rq = []` case of `reported_value_after_ticks`.

`ExposedInvF fix m` is the form that holds along the runs for the behaviour selected by `fix`. With `read_value` as
found it is `ExposedInv m`. With the repaired `read_value` (`keepPendingValue`: the popped value is reported but does
not replace `_cached_value` while a value is pending provisioning) `lastRead` follows the popped values and `cached`
stays the user's value while a value is pending, so it says: every port with NO VALUE PENDING satisfies
`p.rq = [] → p.lastRead = p.cached`, and every port with a value pending has one cached (the value the reconnect
will push). With no value pending anywhere the two coincide (`exposed_invariant_forms_agree`). -/

/-- **Invariant along every run** of the combined action type `MAct` — listen batches / pushed events, ticks,
going offline, refresh fetch, reconnect (`_handle_online`), pushed-events run (`_provision_and_update`), both parts
of `_poll_once`, value-fetch answers, master-side edits of values, port attributes and device attributes — for the
code as found and repaired. `GuardedRun`: a reconnect pushes pending values with a body the slave accepts (trivial
when no value is pending) and, with `read_value` as found only, value writes are made while the slave is online. -/
theorem exposed_value_invariant (fix : Fix) (m : Master) (l : List MAct) (h : ExposedInvF fix m)
    (hg : GuardedRun fix m l) : ExposedInvF fix (mrun fix m l) :=
  exposed_mrun fix l m h hg

/-- It holds of the empty hub, hence of every master state reached by such a run. -/
theorem exposed_value_from_start (fix : Fix) (mode : Mode) (l : List MAct)
    (hg : GuardedRun fix (Master.init mode) l) : ExposedInvF fix (mrun fix (Master.init mode) l) :=
  exposed_mrun fix l _ (exposedF_init fix mode) hg

/-- `read_value` as found: the former statement, on `ExposedInv` itself. -/
theorem exposed_value_invariant_as_found (fix : Fix) (hk : fix.keepPendingValue = false) (m : Master) (l : List MAct)
    (h : ExposedInv m) (hg : GuardedRun fix m l) : ExposedInv (mrun fix m l) :=
  (exposedInvF_asFound fix hk _).mp (exposed_mrun fix l m ((exposedInvF_asFound fix hk m).mpr h) hg)

/-- The two forms agree on every master state with no value pending (whatever `fix`) … -/
theorem exposed_invariant_forms_agree (fix : Fix) (m : Master) (hn : NoValuePending m) :
    ExposedInvF fix m ↔ ExposedInv m :=
  exposedInvF_noValuePending fix m hn

/-- … and port by port: along the runs, a port with no value pending exposes the cached value once its queue is
empty. -/
theorem exposed_when_no_value_pending (fix : Fix) (m : Master) (h : ExposedInvF fix m) (p : MPort) (hp : p ∈ m.ports)
    (hpv : p.provValue = false) : p.rq = [] → p.lastRead = p.cached :=
  (h p hp).2 (by rw [hpv, Bool.and_false])

/-- Repaired `read_value`, a value pending: the ticks expose the queued slave values but the cached value — what the
reconnect will push — stays the user's (`lastRead ≠ cached` is then the normal situation, not a violation). -/
theorem pending_value_survives_ticks (fix : Fix) (hk : fix.keepPendingValue = true) (p : MPort)
    (he : p.enabled = true) (hpv : p.provValue = true) :
    (drainPort fix p.rq.length p).2.cached = p.cached ∧ (drainPort fix p.rq.length p).2.provValue = true ∧
    (drainPort fix p.rq.length p).2.rq = [] ∧
    (p.rq ≠ [] → (drainPort fix p.rq.length p).2.lastRead = p.lastRemote) :=
  pending_value_cached_after_ticks fix hk p he hpv

example : ExposedInv m0 := by
  intro p hp
  simp only [m0, Master.init, List.mem_cons, List.mem_nil_iff, or_false] at hp
  rcases hp with rfl | rfl <;> intro h <;> first | rfl | cases h
example : NoValuePending m0 := by
  intro p hp
  simp only [m0, Master.init, List.mem_cons, List.mem_nil_iff, or_false] at hp
  rcases hp with rfl | rfl <;> rfl
example : GuardedRun Fix.asFound m0
    [.events [.valueChange 1 (some 8)], .tick, .editValue 1 3 true, .goOffline, .editAttr 1 5 21,
     .reconnect [] (some []) (some [⟨1, [(0, 1)], some (some 4)⟩]), .pollPorts [⟨1, [(0, 1)], some none⟩], .tick] := by
  decide
-- repaired: the run may also write a value while the slave is offline (and tick over it) before the reconnect
example : GuardedRun Fix.repaired m0
    [.events [.valueChange 1 (some 8)], .goOffline, .editValue 1 3 true, .tick, .editAttr 1 5 21,
     .reconnect [] (some []) (some [⟨1, [(0, 1)], some (some 4)⟩]), .pollPorts [⟨1, [(0, 1)], some none⟩], .tick] := by
  decide
example : ¬ GuardedRun Fix.asFound m0 [.goOffline, .editValue 1 3 true] := by decide

/-- With `read_value` as found the guard on value writes is not superfluous: the OFFLINE write stores the user's value
in `_cached_value` and leaves `_last_read_value` alone, so the master keeps exposing the old value 7 while the newest
"remote" value it works with is 9 (until the reconnect queues the pushed value) — `ExposedInv` fails although the
queue is empty. That lag is the subject of C13; the repaired invariant `ExposedInvF` records it as "a value is
pending on the port" and still holds (second part). -/
theorem exposed_broken_by_offline_write :
    let m := (drain Fix.asFound (goOffline m0)).2
    let m' := (editValue m 1 9 true).1
    (∀ p ∈ m.ports, p.rq = [] → p.lastRead = p.cached) ∧
    (findPort m'.ports 1).map (fun p => (p.rq, p.lastRead, p.lastRemote)) = some ([], some 7, some 9) ∧
    (drain Fix.repaired (goOffline m0)).2 = m ∧
    (findPort m'.ports 1).map (fun p => (p.provValue, p.cached)) = some (true, some 9) := by
  decide

/-- `reported_value_after_ticks` without `p.rq ≠ []`: after the hub's ticks an enabled port exposes its newest
remote value, nothing is left queued, attributes and id are untouched. -/
theorem reported_value_after_ticks_all (fix : Fix) (p : MPort) (he : p.enabled = true)
    (hx : p.rq = [] → p.lastRead = p.cached) :
    (drainPort fix p.rq.length p).2.lastRead = p.lastRemote ∧ (drainPort fix p.rq.length p).2.rq = [] ∧
    (drainPort fix p.rq.length p).2.attrs = p.attrs ∧ (drainPort fix p.rq.length p).2.id = p.id :=
  exposed_after_ticks fix p he hx

/-- `values_in_order` with `hr` discharged by the invariant. -/
theorem values_in_order_exposed (fix : Fix) (m : Master) (id : Nat) (p : MPort) (vs : List PVal)
    (hx : ExposedInv m) (hf : findPort m.ports id = some p) (hpv : p.provValue = false) (he : p.enabled = true) :
    ∃ p', findPort (handleEvents fix m (vs.map (Ev.valueChange id))).ports id = some p' ∧
      (drainPort fix p'.rq.length p').1 = dedupFrom p.lastRead (p.rq ++ vs) :=
  reported_series fix id vs m p hf hpv he (hx p (findPort_mem hf))

/-- The same from the run invariant `ExposedInvF` (no value is pending on the port: `hpv`). -/
theorem values_in_order_along_runs (fix : Fix) (m : Master) (id : Nat) (p : MPort) (vs : List PVal)
    (hx : ExposedInvF fix m) (hf : findPort m.ports id = some p) (hpv : p.provValue = false) (he : p.enabled = true) :
    ∃ p', findPort (handleEvents fix m (vs.map (Ev.valueChange id))).ports id = some p' ∧
      (drainPort fix p'.rq.length p').1 = dedupFrom p.lastRead (p.rq ++ vs) :=
  reported_series fix id vs m p hf hpv he ((hx p (findPort_mem hf)).2 (by rw [hpv, Bool.and_false]))

/-- **The drained mirror, on the exposed value.** Everything the slave reported has been processed (`Inv`, empty
session queue), the exposed-value invariant holds; then for every port id the master has a port exactly when the
slave has one, and after the hub's ticks an enabled port EXPOSES the slave's current value, with the slave's
attributes, and nothing queued. -/
theorem mirror_exposes_slave_values_after_drain (fix : Fix) (m : Master) (s : SlaveSt) (hi : Inv fix m s)
    (hq : s.queue = []) (hx : ExposedInv m) (id : Nat) :
    (findPort m.ports id).isSome = (findS s.ports id).isSome ∧
    ∀ p q, findPort m.ports id = some p → findS s.ports id = some q → p.enabled = true →
      (drainPort fix p.rq.length p).2.lastRead = q.value ∧ (drainPort fix p.rq.length p).2.attrs = q.attrs ∧
      (drainPort fix p.rq.length p).2.rq = [] ∧ (drainPort fix p.rq.length p).2.id = q.id := by
  have hs := synced_of_inv_drained fix hi hq
  obtain ⟨h1, h2⟩ := synced_unfold hs id
  refine ⟨h1, ?_⟩
  intro p q hp hqq he
  obtain ⟨hpi, hqi, ha, hv⟩ := h2 p q hp hqq
  obtain ⟨e1, e2, e3, e4⟩ := exposed_after_ticks fix p he (hx p (findPort_mem hp))
  exact ⟨e1.trans hv, e3.trans ha, e2, by rw [e4, hpi, hqi]⟩

example : Inv Fix.asFound m0 s0 ∧ s0.queue = [] ∧ findPort m0.ports 1 = some ⟨1, [(0, 1), (5, 20)], [some 7], some 5, [], false, some 5, true⟩ ∧
    findS s0.ports 1 = some ⟨1, [(0, 1), (5, 20)], some 7⟩ := by decide

/-! ### 14. Presentation: `<slave>.<id>`, master-owned attributes excepted, expression/history attributes as `device_*`

`Scheme` abstracts the names of qtoggleserver/slaves/ports.py over interned attribute names: `MASTER_ATTRS`
(`masterOwned`), the `(device_)*expression` / `(device_)*history_*` family (`renamed`), `device_` ++ k (`dev`) and
the stripping `name[7:]` of `get_attr` / `set_attr` (`undev`). `getAttr` is `SlavePort.get_attr`, `slaveName` the
name mapping of `SlavePort.set_attr`, `presentKey` the name under which a slave attribute appears. -/

/-- A slave attribute is shown under its presented name: `k` itself, or `device_k` for the expression/history
family (so the slave's `expression` is the master's `device_expression`, its `device_expression` the master's
`device_device_expression`, …). -/
theorem shown_attr_is_slave_attr (sc : Scheme) (own cached : Attrs) (k n : Nat) (v : Int)
    (hk : presentKey sc k = some n) (hv : cached.get? k = some v) : getAttr sc own cached n = some v :=
  getAttr_presented sc own cached k n v hk hv

/-- Master-owned names show the master's own attribute whatever the slave reports under that name. -/
theorem master_owned_excepted (sc : Scheme) (own cached : Attrs) (n : Nat) (h : sc.masterOwned n = true) :
    getAttr sc own cached n = own.get? n :=
  getAttr_masterOwned sc own cached n h

/-- The `device_` renaming loses nothing: no two slave attributes are shown under one name … -/
theorem device_renaming_injective (sc : Scheme) (a b n : Nat) (ha : presentKey sc a = some n)
    (hb : presentKey sc b = some n) : a = b :=
  presentKey_inj sc a b n ha hb

/-- … and `set_attr`'s name mapping inverts it: editing the shown name addresses the slave attribute it shows. -/
theorem device_renaming_invertible (sc : Scheme) (k n : Nat) (h : presentKey sc k = some n) :
    slaveName sc n = some k :=
  slaveName_presentKey sc k n h

/-- The `<slave>.<id>` id determines both the slave and the remote id. -/
theorem slave_dot_id_injective (n1 n2 i1 i2 : Nat) (h : ((n1, i1) : Nat × Nat) = (n2, i2)) : n1 = n2 ∧ i1 = i2 :=
  shown_id_inj n1 n2 i1 i2 h

/-- **The shown view after the drain is the presentation of the slave's port**: id `<slave>.<id>`, every attribute
as `get_attr` shows it (master-owned from the master, the others from the slave, the expression/history family
under `device_*`), and the exposed value. -/
theorem shown_mirror_eq_after_drain (fix : Fix) (sc : Scheme) (name : Nat) (own : Attrs) (m : Master) (s : SlaveSt)
    (hi : Inv fix m s) (hq : s.queue = []) (hx : ExposedInv m) (id : Nat) (p : MPort) (q : SPort)
    (hp : findPort m.ports id = some p) (hqq : findS s.ports id = some q) (he : p.enabled = true) :
    shownM sc name own (drainPort fix p.rq.length p).2 = shownS sc name own q := by
  obtain ⟨e1, e2, _, e4⟩ := (mirror_exposes_slave_values_after_drain fix m s hi hq hx id).2 p q hp hqq he
  unfold shownM shownS
  rw [e1, e2, e4]

-- the example scheme: expression = 1 (shown as 101), 5 an ordinary attribute, 21 = tag (master-owned, not renamed)
example : presentKey sc0 1 = some 101 ∧ presentKey sc0 101 = some 201 ∧ presentKey sc0 5 = some 5 ∧
    presentKey sc0 21 = none ∧ slaveName sc0 101 = some 1 ∧ slaveName sc0 1 = none ∧ slaveName sc0 5 = some 5 := by
  decide
example : getAttr sc0 [(1, 70), (21, 3)] [(0, 1), (1, 40), (21, 9), (5, 20)] 1 = some 70 ∧
    getAttr sc0 [(1, 70), (21, 3)] [(0, 1), (1, 40), (21, 9), (5, 20)] 101 = some 40 ∧
    getAttr sc0 [(1, 70), (21, 3)] [(0, 1), (1, 40), (21, 9), (5, 20)] 21 = some 3 ∧
    getAttr sc0 [(1, 70), (21, 3)] [(0, 1), (1, 40), (21, 9), (5, 20)] 5 = some 20 := by decide

/-! ### 15. One step relation for everything — what is proved, what is not

Proved for EVERY run of the combined `MAct` (§13): the exposed-value invariant. Proved per combination for the
agreement with the slave:
  remote change + listen batches, any interleaving ........ `inv_run` (steady state), `overlay_history` (any pending)
  offline / online edits (attribute, value, device) ....... `overlay_edit_attr/value/dev`
  going offline, reconnect (push + fetch) ................. `reconnect_resyncs`, `mirror_eq_after_drain_general`
  pushed-events run ....................................... `pushed_sync_resyncs`, `pushed_step_resyncs`
  polling ................................................. `poll_view`, `poll_converges`
  ticks ................................................... do not touch `lastRemote`/attributes with no value pending
                                                            (`drained_lastRemote`); with one pending, repaired, they
                                                            leave the cached value the user's (`drained_cached_pending`)
Proved as ONE theorem (this section): the overlay invariant `OverlayInv` along every run that interleaves the slave's
own history (`Step`: remote changes, listen deliveries) with ticks, going offline, attribute edits and device edits,
events still queued in the session or not —
  as stated (`mirrorInvariantAllStepsFull`, no side condition) ... FALSE: `mirrorInvariantAllStepsFull_false`; the
                                                            step that breaks it is the TICK on a port with a value
                                                            pending (`tick_breaks_overlay_as_found`, `…_uncached`)
  with `PendCached` (a pending value is cached and the tick
  leaves it alone) ........................................ `mirror_invariant_all_steps_partial`
  no value pending, code as found or repaired .............. `mirror_invariant_all_steps_no_value_pending`
  repaired `read_value`, `ExposedInvF` (§13's invariant) ... `mirror_invariant_all_steps_repaired`
  the same with value writes made while the slave is
  OFFLINE, repaired `read_value` (`AllGuardedRun`) ........ `mirror_invariant_all_steps_offline_writes`
  one-step form, each constructor ......................... `all_steps_one_step`
Still not part of one theorem: reconnect / poll / pushed-events steps (they re-establish `Synced` outright by the
theorems listed above) and ONLINE value writes (the written value is queued before the slave has reported it and the
mirror re-converges only with the slave's next event). -/

/-- The statement as first written, WITHOUT a side condition on pending values: `OverlayInv` (replaying the
still-queued session events on the mirror gives a mirror that follows the slave in everything that is not pending) is
kept by a combined run in which remote changes and listen deliveries (`Step`) are interleaved with ticks, offline edits
and going offline. It is false (`mirrorInvariantAllStepsFull_false`); `mirror_invariant_all_steps_partial` is the same
statement with the side condition `PendCached`. -/
def mirrorInvariantAllStepsFull : Prop :=
  ∀ (fix : Fix) (l : List (Step ⊕ MAct)) (m : Master) (s : SlaveSt),
    (∀ a ∈ l, match a with
      | .inl _ => True
      | .inr (.tick) | .inr (.goOffline) | .inr (.editAttr _ _ _) | .inr (.editDev _ _) => True
      | .inr _ => False) →
    OverlayInv fix m s →
    OverlayInv fix
      (l.foldl (fun ms a => match a with
        | .inl st => runStep fix ms st
        | .inr act => (mact fix ms.1 act, ms.2)) (m, s)).1
      (l.foldl (fun ms a => match a with
        | .inl st => runStep fix ms st
        | .inr act => (mact fix ms.1 act, ms.2)) (m, s)).2

/-- The step function of `mirrorInvariantAllStepsFull` is `allStep` … -/
theorem allStep_eq (fix : Fix) :
    (fun (ms : Master × SlaveSt) (a : Step ⊕ MAct) => match a with
      | .inl st => runStep fix ms st
      | .inr act => (mact fix ms.1 act, ms.2)) = allStep fix := by
  funext ms a; cases a <;> rfl

/-- … and its condition on the steps is `AllowedStep`. -/
theorem allowedStep_iff (a : Step ⊕ MAct) :
    (match a with
      | .inl _ => True
      | .inr (.tick) | .inr (.goOffline) | .inr (.editAttr _ _ _) | .inr (.editDev _ _) => True
      | .inr _ => False) ↔ AllowedStep a := by
  cases a with
  | inl st => exact Iff.rfl
  | inr act => cases act <;> exact Iff.rfl

/-- **One step, every constructor**: a step of the slave's history (remote change, listen delivery of any prefix of
the session queue) or one of the four master actions keeps `PendCached` and `OverlayInv`. -/
theorem all_steps_one_step (fix : Fix) (m : Master) (s : SlaveSt) (a : Step ⊕ MAct) (ha : AllowedStep a)
    (hp : PendCached fix m) (hi : OverlayInv fix m s) :
    PendCached fix (allStep fix (m, s) a).1 ∧ OverlayInv fix (allStep fix (m, s) a).1 (allStep fix (m, s) a).2 :=
  allInv_step fix (m, s) a ha hp hi

/-- **The overlay invariant along every combined run** (the statement of `mirrorInvariantAllStepsFull` with the side
condition `PendCached fix m`: every port with a value pending provisioning has it cached, and `read_value` is the
repaired one, which leaves it alone). Whatever is still queued in the session, whatever is pending: after any
interleaving of remote changes, listen deliveries, ticks, going offline, attribute edits and device edits, replaying
the still-queued events on the mirror gives a mirror that follows the slave in everything that is not pending — and
the side condition holds again. -/
theorem mirror_invariant_all_steps_partial (fix : Fix) (l : List (Step ⊕ MAct)) (m : Master) (s : SlaveSt)
    (hl : ∀ a ∈ l, match a with
      | .inl _ => True
      | .inr (.tick) | .inr (.goOffline) | .inr (.editAttr _ _ _) | .inr (.editDev _ _) => True
      | .inr _ => False)
    (hp : PendCached fix m) (hi : OverlayInv fix m s) :
    PendCached fix
      (l.foldl (fun ms a => match a with
        | .inl st => runStep fix ms st
        | .inr act => (mact fix ms.1 act, ms.2)) (m, s)).1 ∧
    OverlayInv fix
      (l.foldl (fun ms a => match a with
        | .inl st => runStep fix ms st
        | .inr act => (mact fix ms.1 act, ms.2)) (m, s)).1
      (l.foldl (fun ms a => match a with
        | .inl st => runStep fix ms st
        | .inr act => (mact fix ms.1 act, ms.2)) (m, s)).2 := by
  rw [allStep_eq fix]
  exact allInv_run fix l (m, s) (fun a ha => (allowedStep_iff a).mp (hl a ha)) hp hi

/-- **With offline value writes.** Repaired `read_value` (`AllGuardedRun` asks `keepPendingValue` and
`m.online = false` at each value write; the other actions are those of `mirrorInvariantAllStepsFull`): the runs may
also write values while the slave is offline — the written value becomes pending and from then on nothing is claimed
of that port's values (that half is C13's). -/
theorem mirror_invariant_all_steps_offline_writes (fix : Fix) (l : List (Step ⊕ MAct)) (m : Master) (s : SlaveSt)
    (hg : AllGuardedRun fix (m, s) l) (hp : PendCached fix m) (hi : OverlayInv fix m s) :
    PendCached fix (allRun fix (m, s) l).1 ∧ OverlayInv fix (allRun fix (m, s) l).1 (allRun fix (m, s) l).2 :=
  allInv_run_guarded fix l (m, s) hg hp hi

/-- `allRun` is the fold of `mirrorInvariantAllStepsFull` (whose condition on the steps implies `AllGuardedRun`:
`allGuardedRun_of_allowed`). -/
theorem allRun_eq (fix : Fix) (l : List (Step ⊕ MAct)) (m : Master) (s : SlaveSt) :
    allRun fix (m, s) l = l.foldl (fun ms a => match a with
        | .inl st => runStep fix ms st
        | .inr act => (mact fix ms.1 act, ms.2)) (m, s) := by
  rw [allStep_eq fix]; rfl

/-- Code as found or repaired, **no value pending** on any port (attribute and device edits may be pending): the
statement of `mirrorInvariantAllStepsFull` holds. -/
theorem mirror_invariant_all_steps_no_value_pending (fix : Fix) (l : List (Step ⊕ MAct)) (m : Master) (s : SlaveSt)
    (hl : ∀ a ∈ l, match a with
      | .inl _ => True
      | .inr (.tick) | .inr (.goOffline) | .inr (.editAttr _ _ _) | .inr (.editDev _ _) => True
      | .inr _ => False)
    (hn : NoValuePending m) (hi : OverlayInv fix m s) :
    OverlayInv fix
      (l.foldl (fun ms a => match a with
        | .inl st => runStep fix ms st
        | .inr act => (mact fix ms.1 act, ms.2)) (m, s)).1
      (l.foldl (fun ms a => match a with
        | .inl st => runStep fix ms st
        | .inr act => (mact fix ms.1 act, ms.2)) (m, s)).2 :=
  (mirror_invariant_all_steps_partial fix l m s hl (pendCached_of_noValuePending fix m hn) hi).2

/-- **Repaired `read_value`**, any pending edits, values included: with the exposed-value invariant of §13 (which holds
along every guarded run from the empty hub: `exposed_value_from_start`) the statement of
`mirrorInvariantAllStepsFull` holds. -/
theorem mirror_invariant_all_steps_repaired (fix : Fix) (hk : fix.keepPendingValue = true) (l : List (Step ⊕ MAct))
    (m : Master) (s : SlaveSt)
    (hl : ∀ a ∈ l, match a with
      | .inl _ => True
      | .inr (.tick) | .inr (.goOffline) | .inr (.editAttr _ _ _) | .inr (.editDev _ _) => True
      | .inr _ => False)
    (hx : ExposedInvF fix m) (hi : OverlayInv fix m s) :
    OverlayInv fix
      (l.foldl (fun ms a => match a with
        | .inl st => runStep fix ms st
        | .inr act => (mact fix ms.1 act, ms.2)) (m, s)).1
      (l.foldl (fun ms a => match a with
        | .inl st => runStep fix ms st
        | .inr act => (mact fix ms.1 act, ms.2)) (m, s)).2 :=
  (mirror_invariant_all_steps_partial fix l m s hl (pendCached_of_exposed fix hk m hx) hi).2

/-- **The step that breaks the unconditional statement, code as found**: the tick, on a port with a value pending.
The mirror is in sync with a slave whose port 1 reports null; the slave goes offline and the user writes 9 (pending);
the slave's value becomes 8 and the event is ignored because a value is pending; `read_value` AS FOUND then pops the
queued null into `_cached_value`, over the pending value: nothing is pending any more and the mirror's newest remote
value is null while the slave's is 8. This is the behaviour repaired by
fixes/C13-offline-write-kept-over-queued-values.diff (`keepPendingValue`); under the repaired `read_value` the same run
keeps the invariant (last part). -/
theorem tick_breaks_overlay_as_found :
    Synced mNull sNull ∧ OverlayInv Fix.asFound mNullW sNull ∧
    ¬ OverlayInv Fix.asFound
      (allRun Fix.asFound (mNullW, sNull) [.inl (.remote (.setValue 1 (some 8))), .inl (.listen 1), .inr .tick]).1
      (allRun Fix.asFound (mNullW, sNull) [.inl (.remote (.setValue 1 (some 8))), .inl (.listen 1), .inr .tick]).2 ∧
    OverlayInv Fix.repaired
      (allRun Fix.repaired (mNullW, sNull) [.inl (.remote (.setValue 1 (some 8))), .inl (.listen 1), .inr .tick]).1
      (allRun Fix.repaired (mNullW, sNull) [.inl (.remote (.setValue 1 (some 8))), .inl (.listen 1), .inr .tick]).2 :=
  overlayInv_tick_asFound_false

/-- **Repaired `read_value`**: the tick breaks it only from a state in which a value is marked pending with NOTHING
cached. `write_value` caches the value it marks pending and nothing else sets the mark, so no run reaches such a state
(`PendCached` is an invariant: `mirror_invariant_all_steps_partial`, `exposed_value_from_start`); the unconditional
statement quantifies over it all the same. The invariant was too strong as stated, the repaired code is not at fault. -/
theorem tick_breaks_overlay_uncached :
    OverlayInv Fix.repaired mUncached sUncached ∧ ¬ PendCached Fix.repaired mUncached ∧
    ¬ OverlayInv Fix.repaired (allStep Fix.repaired (mUncached, sUncached) (.inr .tick)).1
        (allStep Fix.repaired (mUncached, sUncached) (.inr .tick)).2 :=
  overlayInv_tick_uncached_false

/-- The unconditional statement is false (witness: `tick_breaks_overlay_as_found`). -/
theorem mirrorInvariantAllStepsFull_false : ¬ mirrorInvariantAllStepsFull := by
  intro h
  obtain ⟨_, h2, h3, _⟩ := overlayInv_tick_asFound_false
  refine h3 ?_
  have := h Fix.asFound [.inl (.remote (.setValue 1 (some 8))), .inl (.listen 1), .inr .tick] mNullW sNull
    (fun a ha => by
      simp only [List.mem_cons, List.mem_nil_iff, or_false] at ha
      rcases ha with rfl | rfl | rfl <;> trivial) h2
  rw [allStep_eq] at this
  exact this

-- a combined run: the slave changes a value, the user edits an attribute offline, the hub ticks, the listen response
-- delivers the event, the slave is found unreachable (again). Hypotheses of `mirror_invariant_all_steps_partial` …
example : Synced (goOffline m0) s0 ∧ s0.queue = [] ∧ PendCached Fix.repaired (goOffline m0) ∧
    PendCached Fix.asFound (goOffline m0) ∧ NoValuePending (goOffline m0) ∧
    ∀ a ∈ ([.inl (.remote (.setValue 1 (some 8))), .inr (.editAttr 1 5 21), .inr .tick, .inl (.listen 1),
      .inr .goOffline] : List (Step ⊕ MAct)), AllowedStep a := by decide
-- … its conclusion on that run …
example : OverlayInv Fix.repaired
    (allRun Fix.repaired (goOffline m0, s0) [.inl (.remote (.setValue 1 (some 8))), .inr (.editAttr 1 5 21),
      .inr .tick, .inl (.listen 1), .inr .goOffline]).1
    (allRun Fix.repaired (goOffline m0, s0) [.inl (.remote (.setValue 1 (some 8))), .inr (.editAttr 1 5 21),
      .inr .tick, .inl (.listen 1), .inr .goOffline]).2 :=
  (allInv_run Fix.repaired _ (goOffline m0, s0) (by decide) (by decide)
    (overlay_of_mirror_eq _ _ (by decide))).2
-- … which is not trivial: the mirror has moved (queue read by the tick, then the new value queued), it is no longer
-- equal to the slave (attribute 5 is the user's 21, the slave's is 20) and what is not pending is the slave's
example :
    let r := allRun Fix.repaired (goOffline m0, s0) [.inl (.remote (.setValue 1 (some 8))), .inr (.editAttr 1 5 21),
      .inr .tick, .inl (.listen 1), .inr .goOffline]
    r.2.queue = [] ∧ ¬ Synced r.1 r.2 ∧ r.1 ≠ goOffline m0 ∧
    (findPort r.1.ports 1).map (fun p => (p.attrs, p.prov, p.rq, p.cached, p.lastRemote)) =
      some ([(0, 1), (5, 21)], [5], [some 8], some 7, some 8) ∧
    (findS r.2.ports 1).map (fun q => (q.attrs, q.value)) = some ([(0, 1), (5, 20)], some 8) :=
  ⟨by decide, by decide, by decide, by decide, by decide⟩

-- a run with a value written while the slave is offline (repaired `read_value`): the slave's next value is ignored
-- for the mirror's value (a value is pending) and the tick leaves the written value cached
example : AllGuardedRun Fix.repaired (goOffline m0, s0) [.inr (.editValue 1 9 true),
    .inl (.remote (.setValue 1 (some 8))), .inr (.editAttr 1 5 21), .inl (.listen 1), .inr .tick] ∧
    ¬ AllGuardedRun Fix.asFound (goOffline m0, s0) [.inr (.editValue 1 9 true)] ∧
    ¬ AllGuardedRun Fix.repaired (m0, s0) [.inr (.editValue 1 9 true)] := by decide
example :
    let r := allRun Fix.repaired (goOffline m0, s0) [.inr (.editValue 1 9 true),
      .inl (.remote (.setValue 1 (some 8))), .inr (.editAttr 1 5 21), .inl (.listen 1), .inr .tick]
    (findPort r.1.ports 1).map (fun p => (p.attrs, p.prov, p.rq)) = some ([(0, 1), (5, 21)], [5], []) ∧
    (findPort r.1.ports 1).map (fun p => (p.cached, p.provValue, p.lastRead)) = some (some 9, true, some 7) ∧
    (findS r.2.ports 1).map (fun q => (q.attrs, q.value)) = some ([(0, 1), (5, 20)], some 8) :=
  ⟨by decide, by decide, by decide⟩

/-! ### 16. The attribute SET follows the slave; the `device_` mapping on real names, at any nesting depth

A port-update (event, polled difference, full fetch: all go through `_handle_port_update`) REPLACES the cached
attributes by the reported ones: an attribute the slave's port no longer has disappears from the mirror (unless it is
pending provisioning, repaired code). The name mapping of `get_attr` / `set_attr` strips exactly ONE `device_` from
a name of the expression/history family, so a hub slave's `device_expression` is the master's
`device_device_expression` and its `expression` the master's `device_expression` (`QtVerif/Model/SlaveNames.lean`,
character-level, run by the driver against the real `SlavePort`). -/

/-- The cache after a port-update is the reported attribute set (overlaid with the pending attributes, repaired code):
nothing else of the old cache survives. -/
theorem port_update_replaces_cache (fix : Fix) (p : MPort) (msg : PortMsg) :
    (applyPortUpdate fix p msg).1.attrs = if fix.keepPending then msg.attrs.update p.pendAttrs else msg.attrs :=
  applyPortUpdate_attrs fix p msg

/-- **An attribute absent from the update is absent from the mirror unless pending.** -/
theorem port_update_drops_absent_attribute (fix : Fix) (p : MPort) (msg : PortMsg) (n : Nat)
    (hm : msg.attrs.has n = false) (hp : p.pendAttrs.has n = false) :
    (applyPortUpdate fix p msg).1.attrs.has n = false :=
  applyPortUpdate_drops fix p msg n hm hp

-- the port had max (= 7) and min (= 6); the update reports min only: max is gone, min and the rest follow the update
example : ((applyPortUpdate Fix.repaired ⟨1, [(0, 1), (6, 0), (7, 120)], [], none, [], false, none, true⟩
      ⟨1, [(0, 1), (6, 3)], none⟩).1.attrs = [(0, 1), (6, 3)]) ∧
    Attrs.has [(0, 1), (6, 3)] 7 = false ∧ (MPort.pendAttrs ⟨1, [(0, 1), (6, 0), (7, 120)], [], none, [], false, none, true⟩).has 7 = false := by
  decide

open Names in
/-- **Exactly one `device_` is stripped**, whatever the nesting depth: the master's `device_` ++ k is the slave's k for
every k of the family (`expression`, `device_expression`, `device_device_history_interval`, …). `hown`: no master-owned
name starts with `device_` (true of `MASTER_ATTRS`). -/
theorem device_prefix_stripped_once (owned : List Name) (hown : ∀ o ∈ owned, stripDev o = none) (k : Name)
    (hf : family k = true) : Names.slaveName owned (devPrefix ++ k) = some k :=
  slaveName_dev owned hown k hf

open Names in
/-- `set_attr`'s mapping undoes the presentation on real names, nested prefixes included. -/
theorem device_renaming_invertible_names (owned : List Name) (hown : ∀ o ∈ owned, stripDev o = none) (k n : Name)
    (h : Names.presentName owned k = some n) : Names.slaveName owned n = some k :=
  slaveName_presentName owned hown k n h

open Names in
/-- No two slave attributes are shown under one name. -/
theorem device_renaming_injective_names (owned : List Name) (hown : ∀ o ∈ owned, stripDev o = none) (a b n : Name)
    (ha : Names.presentName owned a = some n) (hb : Names.presentName owned b = some n) : a = b :=
  presentName_inj owned a b n ha hb hown

open Names in
example : let owned := ["id", "tag", "expression", "history_interval", "history_retention", "online", "last_sync",
      "expires"].map String.toList
    (∀ o ∈ owned, stripDev o = none) ∧ family "device_expression".toList = true ∧
    Names.slaveName owned "device_device_expression".toList = some "device_expression".toList ∧
    Names.slaveName owned "device_expression".toList = some "expression".toList ∧
    Names.slaveName owned "expression".toList = none ∧ Names.slaveName owned "device_unit".toList = some "device_unit".toList ∧
    Names.presentName owned "device_history_interval".toList = some "device_device_history_interval".toList ∧
    Names.presentName owned "tag".toList = none ∧ Names.presentName owned "unit".toList = some "unit".toList := by
  decide

end QtVerif.Slave.C12
