import QtVerif.Proofs.JsonFile
/-!
C08 — JSON store: a crash at any point leaves the pre- or post-operation state.

Property theorems only; the model is `QtVerif/Model/JsonFile.lean`, helper lemmas are in `QtVerif/Proofs/JsonFile.lean`.

Everything below is for every lawful serialisation `c` (round trip; no proper prefix of a serialised document parses —
validated by the harness on every document of every run), both values of the constructor flag `use_backup`, every
history `h : List (Ev D)` of completed operations, crashed operations (any crash point `(k, j)`: `k` steps of `_save`
done, `j` bytes of the `k`-th step's write out) each followed by a restart, and clean restarts — of any length, with
any number of consecutive crashes — and every modifying operation `f : D → D`. No bound on anything.

`Cfg.repaired = true` is json.py with fixes/C08-atomic-save.diff; the code as found at the pinned commit
(`repaired = false`) violates the property: `unrepaired_…` theorems.
-/
namespace QtVerif.JsonFile.C08
open QtVerif.JsonFile
open QtVerif.JsonFile.Witness (d1 d2 d3)
variable {D : Type}

/-- **Crash atomicity.** After any history, a crash at any point `(k, j)` inside the save of any operation `f`, followed
by a restart: no step was refused by the OS, the new process starts (no start-up failure), and the store it sees is
exactly the content before the operation or exactly the content after it. -/
theorem crash_atomic {c : Codec D} (hc : c.Lawful) (ub : Bool) (h : List (Ev D)) (f : D → D) (k j : Nat) :
    ∃ s s', life c ⟨true, ub⟩ h = .ok s ∧ life c ⟨true, ub⟩ (h ++ [.crashOp f k j]) = .ok s' ∧
      (s'.mem = s.mem ∨ s'.mem = f s.mem) := by
  obtain ⟨s, h1, _, h3⟩ := life_ok hc ub h
  obtain ⟨s', g1, g2, _⟩ := step_ok hc ub s (.crashOp f k j) h3
  refine ⟨s, s', h1, ?_, ?_⟩
  · simp [life_append, h1, Sys.run, g1]
  · exact specStep_crash g2

/-- **Never an empty store** unless the content before or after the operation is the empty store. -/
theorem never_empty_unless_pre_or_post {c : Codec D} (hc : c.Lawful) (ub : Bool) (h : List (Ev D)) (f : D → D)
    (k j : Nat) :
    ∃ s s', life c ⟨true, ub⟩ h = .ok s ∧ life c ⟨true, ub⟩ (h ++ [.crashOp f k j]) = .ok s' ∧
      (s'.mem = c.empty → s.mem = c.empty ∨ f s.mem = c.empty) := by
  obtain ⟨s, s', h1, h2, h3⟩ := crash_atomic hc ub h f k j
  exact ⟨s, s', h1, h2, fun e => by rcases h3 with h3 | h3 <;> simp [← h3, e]⟩

/-- **The commit point is the last step** (`os.replace(temp, file)`): a crash before it yields the old content, a crash
after it the new content — for every byte prefix `j` of the write and from every directory a history can leave. -/
theorem commit_point {c : Codec D} (hc : c.Lawful) (ub : Bool) (h : List (Ev D)) (f : D → D) (k j : Nat) :
    ∃ s s', life c ⟨true, ub⟩ h = .ok s ∧ life c ⟨true, ub⟩ (h ++ [.crashOp f k j]) = .ok s' ∧
      (k < (saveSteps c ⟨true, ub⟩ s.fs (f s.mem)).length → s'.mem = s.mem) ∧
      ((saveSteps c ⟨true, ub⟩ s.fs (f s.mem)).length ≤ k → s'.mem = f s.mem) := by
  obtain ⟨s, h1, _, h3⟩ := life_ok hc ub h
  obtain ⟨s', g1, _, g3, g4⟩ := crash_step_detail hc ub s f k j h3
  exact ⟨s, s', h1, by simp [life_append, h1, Sys.run, g1], g3, g4⟩

/-- **The data file is never partial or empty**: in the directory left by a crash it is absent, or the complete
serialisation of the content the restarted process sees. -/
theorem crash_leaves_data_file_whole {c : Codec D} (hc : c.Lawful) (ub : Bool) (h : List (Ev D)) (f : D → D)
    (k j : Nat) :
    ∃ s', life c ⟨true, ub⟩ (h ++ [.crashOp f k j]) = .ok s' ∧
      (s'.fs .data = none ∨ s'.fs .data = some (c.ser s'.mem)) := by
  obtain ⟨s', h1, _, h3⟩ := life_ok hc ub (h ++ [.crashOp f k j])
  exact ⟨s', h1, inv_data_whole h3⟩

/-- **No acknowledged data is lost, over whole histories.** Every history runs without fault, the content seen by
the process follows the atomic reference store (`SpecRun`: a completed operation applies `f`; a crashed one applies
`f` or nothing; a restart changes nothing), and what is on disk at the end loads as exactly that content. -/
theorem no_ack_loss {c : Codec D} (hc : c.Lawful) (ub : Bool) (h : List (Ev D)) :
    ∃ s, life c ⟨true, ub⟩ h = .ok s ∧ SpecRun c.empty h s.mem ∧ load c ⟨true, ub⟩ s.fs = .ok s.mem := by
  obtain ⟨s, h1, h2, h3⟩ := life_ok hc ub h
  exact ⟨s, h1, h2, load_of_inv hc ub s.fs s.mem h3⟩

/-- **An acknowledged operation is the base of everything later**: whatever happens after `op f` completed (crashes,
repeated crashes, crashes during the first save after a crash, restarts, more operations), the later contents evolve
from `f m` by the atomic reference — `f m` itself can only be replaced by a later operation's result. -/
theorem ack_is_base {c : Codec D} (hc : c.Lawful) (ub : Bool) (h tl : List (Ev D)) (f : D → D) :
    ∃ s s', life c ⟨true, ub⟩ h = .ok s ∧ life c ⟨true, ub⟩ (h ++ .op f :: tl) = .ok s' ∧
      SpecRun (f s.mem) tl s'.mem := by
  obtain ⟨s, h1, _, h3⟩ := life_ok hc ub h
  obtain ⟨s1, g1, g2, g3⟩ := step_ok hc ub s (.op f) h3
  obtain ⟨s2, k1, k2, _⟩ := run_ok hc ub tl s1 g3
  rw [specStep_op g2] at k2
  exact ⟨s, s2, h1, by simp [life_append, h1, Sys.run, g1, k1], k2⟩

/-- Acknowledged data survives any number of restarts. -/
theorem acked_survives_restarts {c : Codec D} (hc : c.Lawful) (ub : Bool) (h : List (Ev D)) (f : D → D) (n : Nat) :
    ∃ s s', life c ⟨true, ub⟩ h = .ok s ∧
      life c ⟨true, ub⟩ (h ++ .op f :: List.replicate n .restart) = .ok s' ∧ s'.mem = f s.mem := by
  obtain ⟨s, s', h1, h2, h3⟩ := ack_is_base hc ub h (List.replicate n .restart) f
  exact ⟨s, s', h1, h2, specRun_restarts _ _ _ h3⟩

/-- A completed save leaves the new content in the data file; with `use_backup` the previous data file (if any) is the
backup, otherwise the backup is untouched. -/
theorem save_completes (c : Codec D) (ub : Bool) (fs : Fs) (d : D) :
    ∃ fs', runSteps fs (saveSteps c ⟨true, ub⟩ fs d) = .ok fs' ∧ fs' .data = some (c.ser d) ∧
      (∀ x, ub = true → fs .data = some x → fs' .backup = some x) ∧
      ((ub = false ∨ fs .data = none) → fs' .backup = fs .backup) :=
  save_result ub fs d

/-! ### Concurrent batches: the event-loop atomicity assumption, made explicit

All theorems above are about serial histories: an `Ev.op f` mutates the in-memory store and saves it in ONE step. The hub
is an asyncio program in which several coroutines use the one driver; the theorems apply to it under the assumption

  **A (event-loop atomicity)**: a modifying driver operation contains no suspension point (`await`) between its first
  mutation of `self._data` and the end of its `_save`,

because then the event loop can only run the operations of a concurrent batch one whole operation at a time, i.e. the
execution is `σ.map Ev.op` for some order `σ` of (some of) the batch. A is a fact about the Python code, not about the
model; it is tied to the code by the harness's concurrent stream (a multi-record update/remove on a 120–300 record
collection gathered with 1–2 other operations, crash points across the whole execution, the restarted store must be
a whole-operation state that contains every acknowledged operation). -/

/-- **Under A, any interleaving of a batch with a crash yields a whole-operation state**: after any history, let the
event loop have completed the operations `σ` of the batch `ops` (in that order) and die at any crash point inside the
next one, `g`. The restarted store is `σ` applied completely, or `σ` then `g` applied completely — every acknowledged
operation is in it, and it is a whole-operation state of the batch. -/
theorem interleaving_whole_op_state {c : Codec D} (hc : c.Lawful) (ub : Bool) (h : List (Ev D))
    (ops σ rest : List (D → D)) (g : D → D) (hp : (σ ++ g :: rest).Perm ops) (k j : Nat) :
    ∃ s s', life c ⟨true, ub⟩ h = .ok s ∧
      life c ⟨true, ub⟩ (h ++ (σ.map Ev.op ++ [.crashOp g k j])) = .ok s' ∧
      (s'.mem = applyAll σ s.mem ∨ s'.mem = applyAll (σ ++ [g]) s.mem) ∧
      WholeOpState ops s.mem s'.mem := by
  obtain ⟨s, s', h1, h2, h3⟩ := ops_then_crash hc ub h σ g k j
  refine ⟨s, s', h1, h2, h3, ?_⟩
  rcases h3 with e | e
  · exact ⟨σ, g :: rest, hp, e⟩
  · exact ⟨σ ++ [g], rest, by simpa using hp, e⟩

/-- **Without A the conclusion fails** (this is what a suspension point inside an operation does): operation
`f2 ∘ f1` is suspended after `f1`; the concurrent operation `g` then mutates and saves — its save persists the
half-applied `f1` — and the process dies anywhere before `f2 ∘ f1`'s own commit. Every single save is atomic, yet the
restarted store is not a whole-operation state of the batch `[f2 ∘ f1, g]`. -/
theorem nonatomic_operation_breaks_whole_op_state :
    memOf (life docCodec ⟨true, true⟩ [.op (Witness.g ∘ Witness.f1), .crashOp Witness.f2 2 1]) = .ok ⟨101, 0⟩ ∧
    ¬ WholeOpState [Witness.f2 ∘ Witness.f1, Witness.g] docCodec.empty (⟨101, 0⟩ : Doc) :=
  ⟨by rfl, half_applied_not_whole⟩

/-- non-vacuity of `interleaving_whole_op_state`: a batch of three, two completed, crash in the third before and
after its commit point -/
example :
    memOf (life docCodec ⟨true, true⟩ ([Ev.op Witness.g, Ev.op Witness.f1] ++ [.crashOp Witness.f2 3 0])) = .ok ⟨101, 0⟩ ∧
    memOf (life docCodec ⟨true, true⟩ ([Ev.op Witness.g, Ev.op Witness.f1] ++ [.crashOp Witness.f2 5 0])) = .ok ⟨111, 0⟩ ∧
    ([Witness.g, Witness.f1] ++ Witness.f2 :: []).Perm [Witness.f1, Witness.f2, Witness.g] := by
  refine ⟨by rfl, by rfl, ?_⟩
  exact (List.Perm.swap _ _ _).trans ((List.Perm.cons _ (List.Perm.swap _ _ _)))

/-! ### The code as found at the pinned commit (`repaired = false`) violates the property -/

/-- Witness 1 (use_backup on): `d1` acknowledged; crash of the next operation right after `os.rename(file, backup)`
(step 1 of 4 done): the data file is missing, the new process starts with an EMPTY store — neither `d1` nor `d2` —
although the backup holds `d1`. Not an allowed outcome of the atomic reference. -/
theorem unrepaired_crash_after_rename_empty_store :
    ∃ h : List (Ev Doc), memOf (life docCodec ⟨false, true⟩ h) = .ok docCodec.empty ∧
      ∀ m, SpecRun docCodec.empty h m → m ≠ docCodec.empty :=
  ⟨[.op fun _ => d1, .crashOp (fun _ => d2) 1 0], by rfl, fun m hm => by
    rcases specRun_op_crash _ _ _ _ _ _ hm with e | e <;> subst e <;> decide⟩

/-- Witness 2 (use_backup on): crash right after `open(file, 'wb')` created the new file (2 of 4 steps, no byte
written): empty data file ⇒ EMPTY store. -/
theorem unrepaired_crash_after_create_empty_store :
    ∃ h : List (Ev Doc), memOf (life docCodec ⟨false, true⟩ h) = .ok docCodec.empty ∧
      ∀ m, SpecRun docCodec.empty h m → m ≠ docCodec.empty :=
  ⟨[.op fun _ => d1, .crashOp (fun _ => d2) 2 0], by rfl, fun m hm => by
    rcases specRun_op_crash _ _ _ _ _ _ hm with e | e <;> subst e <;> decide⟩

/-- Witness 3 (use_backup on): two crashes in a row inside the write (3 bytes out each time). The first leaves a
corrupt data file (the restart falls back to the backup: fine); the next save renames the corrupt file over the good
backup, and its own crash leaves both files corrupt: START-UP FAILURE. -/
theorem unrepaired_two_crashes_startup_failure :
    memOf (life docCodec ⟨false, true⟩
      [.op fun _ => d1, .crashOp (fun _ => d2) 2 3, .crashOp (fun _ => d3) 2 3]) = .error (.load .backupCorrupt) := by
  rfl

/-- Witness 3b (use_backup on): the very first save crashes inside the write: partial data file, no backup yet:
START-UP FAILURE (the fall-back opens a backup that does not exist). -/
theorem unrepaired_first_save_startup_failure :
    memOf (life docCodec ⟨false, true⟩ [.crashOp (fun _ => d1) 1 3]) = .error (.load .backupMissing) := by
  rfl

/-- Witness 4 (use_backup off): a crash inside the in-place write leaves a partial file: START-UP FAILURE; a crash
right after the create leaves an empty file: EMPTY store. -/
theorem unrepaired_no_backup_partial_or_empty :
    memOf (life docCodec ⟨false, false⟩ [.op fun _ => d1, .crashOp (fun _ => d2) 1 3]) = .error (.load .corrupt) ∧
    memOf (life docCodec ⟨false, false⟩ [.op fun _ => d1, .crashOp (fun _ => d2) 1 0]) = .ok docCodec.empty := by
  exact ⟨by rfl, by rfl⟩

/-! ### Non-vacuity -/

/-- The hypothesis `c.Lawful` is met by a concrete codec (the one the line-protocol driver runs). -/
example : docCodec.Lawful := docCodec_lawful

/-- A concrete history on the repaired model: acknowledged `d1`; crash in the window between the two `os.replace`
calls (data file missing, backup = `d1`, temp = `d2`); the restarted process sees `d1`; a crash inside the next
write (first save after a crash; the data file is still missing) still yields `d1`; then `d3` completes and survives
a restart; the backup still holds `d1`. -/
example :
    ∃ s, life docCodec ⟨true, true⟩
        [.op fun _ => d1, .crashOp (fun _ => d2) 4 0, .crashOp (fun _ => d3) 1 3, .op fun _ => d3, .restart] = .ok s ∧
      (s.mem, s.fs .data, s.fs .backup) = (d3, some (docCodec.ser d3), some (docCodec.ser d1)) :=
  ⟨_, rfl, by decide⟩

/-- Both sides of the commit point are reachable: the last step of a 5-step save. -/
example :
    memOf (life docCodec ⟨true, true⟩ [.op fun _ => d1, .crashOp (fun _ => d2) 4 0]) = .ok d1 ∧
    memOf (life docCodec ⟨true, true⟩ [.op fun _ => d1, .crashOp (fun _ => d2) 5 0]) = .ok d2 ∧
    (saveSteps docCodec ⟨true, true⟩ (fun _ => some []) d2).length = 5 := by
  exact ⟨by rfl, by rfl, by rfl⟩

end QtVerif.JsonFile.C08
