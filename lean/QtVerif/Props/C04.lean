import QtVerif.Proofs.Deps
/-!
# C04 — Expression assignments never create a dependency cycle

Model: `QtVerif.Deps` (`Model/Deps.lean`): `checkLoops` mirrors `core/expressions/__init__.py:check_loops`,
`assign`/`clear` mirror `BasePort.attr_set_expression`, `addPort`/`removePort`/`setEnabled`/`reload`/`restore` the other ways
the dependency graph can change.  Specification (`Proofs/Deps.lean`):

* `Reads h p q`  : `p`, `q` registered, `q ≠ p`, the expression installed on `p` contains `$q` (or is reached as `$`).
  "Reads the value of" is the *syntactic* relation: every `$id` occurrence in the expression tree
  (`Expr.portValueIds`), at any depth, inside any function — whatever trigger-dependency set (`get_deps()`) a function
  chooses to report. The walk of the model goes over the syntax tree, and so does the oracle of the harness (it walks
  `.args` / `PortValue.port_id` of the real expression objects, and draws from every function of the live registry), so
  a function whose dependency reporting differs from its arguments cannot hide a reference from the check unnoticed;
* `TG (Reads h) p q` : a non-empty path `p → … → q`;  `Acyclic h := ∀ p, ¬ TG (Reads h) p p`;
* `Reach h t q`  : `t` reachable from `q` along the edges the walk follows (self-edges included, zero or more steps).

All theorems hold for every hub (any number of ports), every expression tree (any nesting) and every history.
-/
namespace QtVerif.C04
open QtVerif.Syntax QtVerif.Deps

/-- The walk is total: the fuel `checkLoops` hands out is never exhausted. -/
theorem walk_total (h : Hub) (port : String) (e : Expr) :
    walk h port (h.ports.length + 1) [port] 1 port e ≠ none ∧ checkLoops h port e ≠ .fuel :=
  ⟨Deps.walk_total h port _ [port] 1 port e List.mem_cons_self (Nat.le_refl 1) (unseen_target_lt h port),
   checkLoops_ne_fuel h port e⟩

/-- Fuel irrelevance: any amount of fuel above the number of registered ports gives the same walk. -/
theorem walk_fuel_irrelevant (h : Hub) (port : String) (e : Expr) (f : Nat) (hf : h.ports.length < f) :
    walk h port f [port] 1 port e = walk h port (h.ports.length + 1) [port] 1 port e :=
  Deps.walk_fuel_irrelevant h port f _ [port] 1 port e List.mem_cons_self (Nat.le_refl 1)
    (Nat.lt_of_le_of_lt (unseen_le_length h [port]) hf) (unseen_target_lt h port)

/-- DFS-with-seen-set correctness: `check_loops` reports a loop iff the candidate expression refers to a registered
port other than `port` from which `port` is reachable through the installed expressions (a non-empty path
`port → q → … → port` once the candidate is installed). -/
theorem walk_true_iff_reach (h : Hub) (port : String) (e : Expr) :
    checkLoops h port e = .loop ↔ ∃ q ∈ e.portValueIds port, q ≠ port ∧ h.Has q ∧ Reach h port q :=
  checkLoops_loop_iff h port e

/-- An assignment (accepted or refused, parsed or not) never turns an acyclic hub into a cyclic one. -/
theorem assign_preserves_acyclic (h : Hub) (id : String) (parsed : Option Expr) (ha : Acyclic h) :
    Acyclic (assign h id parsed).1 :=
  assign_acyclic h id parsed ha

/-- After any history of assignments, clearings, port additions and removals, disable/enable, restarts and backup
restores (`PUT /ports`), starting from the empty hub, the reads relation between distinct registered ports is acyclic. -/
theorem reachable_acyclic (ops : List Op) : Acyclic (run Hub.empty ops) :=
  run_acyclic ops Hub.empty empty_acyclic

/-- The same for hubs whose ports may go away while their persisted record is kept (`remove(persisted_data=False)`:
hub stop, peripheral removed) and come back later (`core.ports.load`, `POST /ports` under the same id, restart), and
for hubs with driver (non-virtual) ports (`addStatic`), which `DELETE` refuses and `PUT /ports` keeps (blanked): the
other ports may meanwhile have been given expressions that refer to the absent id, so a record can hold the second half
of a cycle; it goes through the checked assignment again when it is loaded, and every reachable hub is acyclic. -/
theorem reachable_acyclic_absent (ops : List SOp) : Acyclic (srun {} ops).hub :=
  srun_acyclic ops {} empty_acyclic

/-- Why the record must be re-checked: installing a persisted expression unchecked (register, then store) closes a
cycle in a history that the checked path handles by dropping the record's expression. -/
theorem unchecked_load_closes_cycle :
    ∃ (s : Sys) (r : PortEntry) (e : Expr), Acyclic s.hub ∧ s.record r.id = some r ∧ r.expr = some e ∧
      s.hub.get r.id = none ∧ ¬ Acyclic ((register s.hub r.id r.enabled).setExpr r.id (some e)) ∧
      (loadRecord s.hub r r.enabled).exprOf r.id = none := by
  refine ⟨srun {} [.hub (.addPort "a"), .hub (.addPort "c"),
      .hub (.assign "c" (some (.call "ADD" [.portVal "a", .lit "1"]))), .unload "c",
      .hub (.assign "a" (some (.call "MUL" [.portVal "c", .lit "2"])))],
    ⟨"c", true, some (.call "ADD" [.portVal "a", .lit "1"])⟩, .call "ADD" [.portVal "a", .lit "1"],
    reachable_acyclic_absent _, by rfl, rfl, by decide, ?_, by decide⟩
  intro hac
  refine hac "a" (TG.cons (b := "c") ?_ (TG.single ?_))
  · exact ⟨by decide, by decide, by decide, by decide⟩
  · exact ⟨by decide, by decide, by decide, by decide⟩

/-- A restart re-checks every persisted expression, so the reloaded hub is acyclic whatever had been persisted. -/
theorem reload_heals (h : Hub) : Acyclic (reload h) :=
  reload_acyclic h

/-- A refused assignment (no such port, parse error, circular dependency) leaves the hub — hence the previous
expression — exactly as it was. -/
theorem reject_keeps_state (h : Hub) (id : String) (parsed : Option Expr) (hrej : (assign h id parsed).2 ≠ .ok) :
    (assign h id parsed).1 = h := by
  unfold assign at *
  cases hg : h.get id with
  | none => rfl
  | some p =>
    cases parsed with
    | none => rfl
    | some e =>
      rw [hg] at hrej
      simp only [] at hrej ⊢
      cases hc : checkLoops h id e with
      | loop => rfl
      | fuel => rfl
      | ok => rw [hc] at hrej; exact absurd rfl hrej

/-- An accepted assignment installs exactly the candidate on that port and touches no other port. -/
theorem accept_installs (h : Hub) (id : String) (e : Expr) (hacc : (assign h id (some e)).2 = .ok) :
    (assign h id (some e)).1.exprOf id = some e ∧ ∀ x, x ≠ id → (assign h id (some e)).1.exprOf x = h.exprOf x := by
  unfold assign at *
  cases hg : h.get id with
  | none => rw [hg] at hacc; cases hacc
  | some p =>
    rw [hg] at hacc
    simp only [] at hacc ⊢
    cases hc : checkLoops h id e with
    | loop => rw [hc] at hacc; cases hacc
    | fuel => rw [hc] at hacc; cases hacc
    | ok => exact ⟨exprOf_setExpr_self h id _ (has_of_get hg), fun x hx => exprOf_setExpr_other h id x _ hx⟩

/-- The outcome of an assignment of a parsed expression to a registered port is `ok` or `circular`, and it is
`circular` exactly when `check_loops` reports a loop. -/
theorem assign_outcome (h : Hub) (id : String) (e : Expr) (hid : h.Has id) :
    (assign h id (some e)).2 = (if checkLoops h id e = .loop then .circular else .ok) := by
  unfold assign
  unfold Hub.Has at hid
  cases hg : h.get id with
  | none => simp [hg] at hid
  | some p =>
    simp only []
    have := checkLoops_ne_fuel h id e
    cases hc : checkLoops h id e <;> simp_all

/-- Completeness of the refusal: on an acyclic hub, an assignment whose installation would close a cycle is
refused with the circular-dependency error. -/
theorem cycle_closing_is_rejected (h : Hub) (id : String) (e : Expr) (ha : Acyclic h) (hid : h.Has id)
    (hcyc : ¬ Acyclic (h.setExpr id (some e))) : (assign h id (some e)).2 = .circular := by
  rw [assign_outcome h id e hid]
  have hne := checkLoops_ne_fuel h id e
  cases hc : checkLoops h id e with
  | loop => rfl
  | fuel => exact absurd hc hne
  | ok => exact absurd (setExpr_acyclic h id e ha hid hc) hcyc

/-- No false reject: a circular-dependency refusal means that installing the candidate would create the cycle
`id → … → id` among distinct registered ports; so an assignment that closes no cycle is never refused as circular. -/
theorem no_false_reject (h : Hub) (id : String) (e : Expr) (hcirc : (assign h id (some e)).2 = .circular) :
    TG (Reads (h.setExpr id (some e))) id id := by
  have hid : h.Has id := by
    unfold assign at hcirc
    unfold Hub.Has
    cases hg : h.get id with
    | none => rw [hg] at hcirc; cases hcirc
    | some p => rfl
  rw [assign_outcome h id e hid] at hcirc
  by_cases hl : checkLoops h id e = .loop
  · exact loop_closes_cycle h id e hid hl
  · rw [if_neg hl] at hcirc; cases hcirc

theorem acyclic_result_not_refused (h : Hub) (id : String) (e : Expr) (hac : Acyclic (h.setExpr id (some e))) :
    (assign h id (some e)).2 ≠ .circular :=
  fun hc => hac id (no_false_reject h id e hc)

/-- Self-reference (and references to unregistered ports) only: accepted, whatever the rest of the hub looks like. -/
theorem self_reference_accepted (h : Hub) (id : String) (e : Expr) (hid : h.Has id)
    (hself : ∀ q ∈ e.portValueIds id, q = id ∨ ¬ h.Has q) : (assign h id (some e)).2 = .ok := by
  rw [assign_outcome h id e hid]
  have : ¬ checkLoops h id e = .loop := by
    rw [checkLoops_loop_iff]
    rintro ⟨q, hq, hqi, hhas, _⟩
    rcases hself q hq with h1 | h2
    · exact hqi h1
    · exact h2 hhas
  rw [if_neg this]

/-! ## Backup restore (`PUT /ports`) on hubs with driver ports -/

/-- `PUT /ports` on a hub with driver (non-virtual) ports, which remain: whatever the hub held, the restored hub is
acyclic (the remaining ports are blanked, every entry goes through the checked assignment). -/
theorem restore_acyclic_over (keep : List String) (h : Hub) (entries : List Entry) :
    Acyclic (restoreOver keep h entries).1 :=
  restoreOver_acyclic keep h entries

/-- The expressions of the configuration being replaced play no part in a restore: a stale expression on a port that
remains (one that reads a port which the backup makes read it back, say) cannot get an entry refused. -/
theorem restore_ignores_stale (keep : List String) (h : Hub) (id : String) (e : Option Expr) (entries : List Entry) :
    restoreOver keep (h.setExpr id e) entries = restoreOver keep h entries :=
  restoreOver_ignores_stale keep h id e entries

/-- No false reject under `PUT /ports`: a restore that answers circular-dependency was refused at one definite entry
`en` of the document, all entries before it were applied, and installing `en`'s expression on the configuration
restored so far — the blanked remaining ports plus the entries before `en`, nothing of the old configuration — would
close the cycle `en.id → … → en.id` among distinct registered ports. So a cycle-free document is never refused as
circular. -/
theorem restore_no_false_reject (keep : List String) (h : Hub) (entries : List Entry)
    (hc : (restoreOver keep h entries).2 = .circular) :
    ∃ pre en post e, entries = pre ++ en :: post ∧ en.expr = .text (some e) ∧
      (restoreLoop (remaining keep h) pre).2 = .ok ∧
      TG (Reads ((entryHub (restoreLoop (remaining keep h) pre).1 en).setExpr en.id (some e))) en.id en.id := by
  obtain ⟨pre, en, post, hsplit, hok, hcirc⟩ := restoreLoop_circular entries _ hc
  obtain ⟨e, hexpr, hassign⟩ := restoreEntry_circular _ en hcirc
  exact ⟨pre, en, post, e, hsplit, hexpr, hok, no_false_reject _ en.id e hassign⟩

/-! ## Concurrent requests

`Micro`, `runMicro`, `Shuffle` (`Proofs/Deps.lean`): a request is a list of micro steps — suspensions and **atomic**
hub operations; for an assignment the atomic step is `check_loops` *and* the store to `_expression` with no suspension
between the verdict and the installation.  That atomicity with respect to the event loop is not provable about
asyncio code from here: it is the tie watched by the concurrent correspondence cases of the harness (batches of
assignments started together on hubs where `attr_set_expression` really suspends — a running value sequence being
cancelled, pending evaluations, disabled ports); their oracle is exactly the conclusion of `interleaving_serial` below
(outcomes and graph equal those of some serial order) plus acyclicity.  `nonatomic_interleaving_closes_cycle` shows what
happens without it. -/

/-- Every schedule of micro steps — hence every interleaving of concurrent requests whose check+install steps are
atomic — keeps the hub acyclic. -/
theorem interleaving_acyclic (h : Hub) (ha : Acyclic h) (reqs : List (List Micro)) (sched : List Micro)
    (_hs : Shuffle reqs sched) : Acyclic (runMicro h sched) :=
  runMicro_acyclic sched h ha

/-- Every interleaving is equivalent to a serial order: the hub it produces is the one obtained by running the
requests' operations one after the other in some permutation. -/
theorem interleaving_serial (h : Hub) (reqs : List (List Micro)) (sched : List Micro) (hs : Shuffle reqs sched) :
    ∃ order : List Op, order.Perm (reqs.flatMap atomics) ∧ runMicro h sched = run h order :=
  ⟨atomics sched, shuffle_atomics_perm hs, runMicro_eq_run sched h⟩

/-- Without atomicity (both checks run against the old graph, both candidates are installed afterwards) two
individually acceptable assignments close a cycle. -/
theorem nonatomic_interleaving_closes_cycle :
    ∃ (h : Hub) (a b : String) (ea eb : Expr), Acyclic h ∧ checkLoops h a ea = .ok ∧ checkLoops h b eb = .ok ∧
      ¬ Acyclic ((h.setExpr a (some ea)).setExpr b (some eb)) := by
  refine ⟨run Hub.empty [.addPort "a", .addPort "b"], "a", "b", .call "ADD" [.portVal "b", .lit "1"],
    .call "MUL" [.portVal "a", .lit "2"], reachable_acyclic _, by decide, by decide, ?_⟩
  intro hac
  refine hac "a" (TG.cons (b := "b") ?_ (TG.single ?_))
  · exact ⟨by decide, by decide, by decide, by decide⟩
  · exact ⟨by decide, by decide, by decide, by decide⟩

/-! ## Non-vacuity: concrete instances (three ports, nested references, a disabled port, a dangling reference) -/

def viaOps : List Op :=
  [.addPort "a", .addPort "b", .addPort "c",
   .assign "a" (some (.call "ADD" [.portVal "b", .lit "1"])),
   .assign "b" (some (.call "MUL" [.selfVal, .portVal "c"])),
   .setEnabled "b" false]

/-- a = ADD($b, 1); b = MUL($, $c) (disabled); c has no expression; `$zz` is not registered.
Built by a history from the empty hub, hence acyclic. -/
def hub3 : Hub := run Hub.empty viaOps

example : hub3.ports.map (fun p => (p.id, p.enabled, p.expr.map Expr.print))
    = [("a", true, some "ADD($b, 1)"), ("b", false, some "MUL($, $c)"), ("c", true, none)] := by decide
theorem hub3_acyclic : Acyclic hub3 := reachable_acyclic viaOps
example : hub3.ports.length < 10 := by decide                       -- hypothesis of `walk_fuel_irrelevant`

-- closing c → a → b → c through a nested reference is refused as circular and keeps the state
example : (assign hub3 "c" (some (.call "IF" [.lit "1", .call "ADD" [.portVal "a", .lit "2"], .lit "3"]))).2 = .circular := by
  decide
example : (assign hub3 "c" (some (.call "IF" [.lit "1", .call "ADD" [.portVal "a", .lit "2"], .lit "3"]))).1.ports.length = 3 := by
  decide
-- self reference + a reference to a port that already reads itself + a dangling reference: accepted
example : (assign hub3 "c" (some (.call "IF" [.portVal "c", .selfVal, .portVal "zz"]))).2 = .ok := by decide
example : ∀ q ∈ (Expr.call "IF" [.portVal "c", .selfVal, .portVal "zz"]).portValueIds "c", q = "c" ∨ ¬ hub3.Has q := by
  intro q hq
  simp [Expr.portValueIds, argsPortValueIds] at hq
  rcases hq with rfl | rfl
  · exact Or.inl rfl
  · exact Or.inr (by decide)
-- a reference to `b` (which reads itself and `c`) from `c` closes c → b → c
example : (assign hub3 "c" (some (.portVal "b"))).2 = .circular := by decide
-- the same reference from `a` does not
example : (assign hub3 "a" (some (.portVal "c"))).2 = .ok := by decide
-- `@a` (a port reference, not a value) is not followed
example : (assign hub3 "c" (some (.portRef "a"))).2 = .ok := by decide
-- hypotheses of `cycle_closing_is_rejected` (with `hub3_acyclic`), `reject_keeps_state`, `acyclic_result_not_refused`
example : hub3.Has "c" := by decide
example : ¬ Acyclic (hub3.setExpr "c" (some (.portVal "b"))) :=
  fun hac => hac "c" (no_false_reject hub3 "c" (.portVal "b") (by decide))
example : (assign hub3 "c" (some (.portVal "b"))).2 ≠ .ok := by decide
example : Acyclic (hub3.setExpr "a" (some (.portVal "c"))) :=
  setExpr_acyclic hub3 "a" (.portVal "c") hub3_acyclic (by decide) (by decide)
-- a refused parse
example : (assign hub3 "c" none).2 = .parseError := by decide
-- the reference is dangling when assigned, the port is added later, the closing assignment is then refused
example : (run Hub.empty [.addPort "a", .assign "a" (some (.portVal "b")), .addPort "b"]).ports.length = 2 := by decide
example : (assign (run Hub.empty [.addPort "a", .assign "a" (some (.portVal "b")), .addPort "b"]) "b" (some (.portVal "a"))).2
    = .circular := by decide

-- PUT /ports: the entry that would close x → y → x aborts the restore; what was restored so far stays (acyclic)
example : (restore hub3 [⟨"x", none, .text (some (.portVal "y"))⟩,
                         ⟨"y", some false, .text (some (.call "MUL" [.portVal "x", .lit "2"]))⟩,
                         ⟨"z", none, .absent⟩]).2 = .circular := by decide
example : (restore hub3 [⟨"x", none, .text (some (.portVal "y"))⟩,
                         ⟨"y", some false, .text (some (.call "MUL" [.portVal "x", .lit "2"]))⟩,
                         ⟨"z", none, .absent⟩]).1.ports.map (fun p => (p.id, p.enabled, p.expr.map Expr.print))
    = [("x", true, some "$y"), ("y", false, none)] := by decide

-- PUT /ports on a hub with driver ports `relay`, `sensor` and the virtual port `mode`; relay currently reads mode.
-- The backup makes mode read relay and gives relay another expression (entries in id order): cycle-free, restored in full
def hubDrv : Sys := srun {} [.addStatic "relay", .addStatic "sensor", .hub (.addPort "mode"),
  .hub (.assign "relay" (some (.call "ADD" [.portVal "mode", .lit "1"])))]
def backupDrv : List Entry :=
  [⟨"mode", some true, .text (some (.call "MUL" [.portVal "relay", .lit "2"]))⟩,
   ⟨"relay", some true, .text (some (.call "ADD" [.portVal "sensor", .lit "1"]))⟩, ⟨"sensor", some true, .empty⟩]
example : hubDrv.statics = ["relay", "sensor"] := by decide
example : (sstep hubDrv (.hub (.restore backupDrv))).2 = .ok := by decide
example : (sstep hubDrv (.hub (.restore backupDrv))).1.hub.ports.map (fun p => (p.id, p.enabled, p.expr.map Expr.print))
    = [("relay", true, some "ADD($sensor, 1)"), ("sensor", true, none), ("mode", true, some "MUL($relay, 2)")] := by decide
-- … whereas applying the entries over the remaining ports WITHOUT blanking them first refuses the entry of `mode`
example : (restoreLoop ⟨hubDrv.hub.ports.filter fun p => hubDrv.statics.contains p.id⟩ backupDrv).2 = .circular := by decide
-- a backup that does hold a cycle is refused at the entry closing it (hypothesis of `restore_no_false_reject`)
example : (restoreOver hubDrv.statics hubDrv.hub
    [⟨"mode", some true, .text (some (.call "MUL" [.portVal "relay", .lit "2"]))⟩,
     ⟨"relay", some true, .text (some (.call "ADD" [.portVal "mode", .lit "1"]))⟩]).2 = .circular := by decide
-- DELETE of a driver port is refused
example : (sstep hubDrv (.hub (.removePort "relay"))).2 = .notRemovable := by decide

-- two concurrent requests `a := $b` (suspends first: its sequence is being cancelled) and `b := $a`: an interleaving
example : Shuffle [[.suspend, .atomic (.assign "a" (some (.portVal "b")))], [.atomic (.assign "b" (some (.portVal "a")))]]
    [.suspend, .atomic (.assign "b" (some (.portVal "a"))), .atomic (.assign "a" (some (.portVal "b")))] :=
  .take (pre := []) .suspend (.take (pre := [[.atomic (.assign "a" (some (.portVal "b")))]]) (post := []) _
    (.take (pre := []) _ (.drop (.drop .nil))))

-- c := ADD($a,1); c goes away, record kept; a := MUL($c,2) is accepted (c is not registered); c is loaded again:
-- its persisted expression is refused, c comes back without expression, a keeps its own
example : ((srun {} [.hub (.addPort "a"), .hub (.addPort "c"), .hub (.assign "c" (some (.call "ADD" [.portVal "a", .lit "1"]))),
      .unload "c", .hub (.assign "a" (some (.call "MUL" [.portVal "c", .lit "2"]))), .load "c"]).hub.ports.map
      fun p => (p.id, p.enabled, p.expr.map Expr.print)) = [("a", true, some "MUL($c, 2)"), ("c", true, none)] := by decide
-- a full restart after the same edits: registered ports are loaded first, the absent one last and loses its expression
example : ((srun {} [.hub (.addPort "a"), .hub (.addPort "c"), .hub (.assign "c" (some (.call "ADD" [.portVal "a", .lit "1"]))),
      .unload "c", .hub (.assign "a" (some (.call "MUL" [.portVal "c", .lit "2"]))), .hub .reload]).hub.ports.map
      fun p => (p.id, p.enabled, p.expr.map Expr.print)) = [("a", true, some "MUL($c, 2)"), ("c", true, none)] := by decide

end QtVerif.C04
