import QtVerif.Proofs.TimeFnsPause
import QtVerif.Proofs.TimeFnsDelay
import QtVerif.Proofs.TimeFnsHistory
/-!
C16 — Time-processing functions follow their temporal specification; the hub's skipping of evaluations while such a
function is "paused" never changes the value a port takes.

Property theorems only. Model: `QtVerif/Model/TimeFns.lean` (mirrors timeprocessing.py, various.py, base.py,
functions.py, main.py:handle_value_changes); helper lemmas: `Proofs/TimeFns.lean`, `Proofs/TimeFnsDelay.lean`,
`Proofs/TimeFnsPause.lean`, `Proofs/TimeFnsHistory.lean`.

DERIV / INTEG / FMAVG / FMEDIAN are specified at the level of the HISTORY (`…_of_accepted`): the right-hand sides are
written with `accepted interval h` (the greedy sub-history of samples spaced by the sampling interval), `consecutive`
(neighbouring pairs) and `evaluated thr` (accepted samples not reached across a time jump) only — no memory, no step
function. `deriv_spec`, `integ_spec`, `fmavg_spec`, `fmedian_spec` are the ONE-STEP forms (the step function with the
memory made an explicit argument) and are kept as intermediate lemmas.

Every theorem quantifies over ALL histories (any length, any gaps, jumps beyond the time-jump threshold) and all
parameter values; the constants of the code (`HISTORY_SIZE`, `QUEUE_SIZE`, `TIME_JUMP_THRESHOLD`) are the fields of
`Params` and are universally quantified. Carrier: `Int` (exact, ordered) where order matters; any carrier `α` for
DERIV / INTEG / the edge functions (the theorem is about WHICH samples enter the formula; IEEE rounding is modelled,
not verified). Histories are lists, oldest sample first; `runFn step m h` are the outputs of a function over the
history `h` of its argument values starting from memory `m` (`{}` = a freshly parsed expression).

The model proper is the REPAIRED code (`Params.fixed = true`, fixes/C16-pause-deadlines.diff); `fixed = false` is the
code as found, for which the pause sentence is false (`unrepaired_…`).
-/
namespace QtVerif.TimeFns.C16
open QtVerif.TimeFns Num

/-! ## DELAY -/

/-- **DELAY reproduces the input as it was `d` ago.** For every history with non-decreasing evaluation times in which
fewer than `HISTORY_SIZE` input changes are pending before each evaluation, the newest output is the value of the
newest sample taken at or before `now - d` (the first sample while there is none). -/
theorem delay_spec (P : Params) (hH : 1 ≤ P.H) (d : Int) (h : List (Int × Int)) (x : Int × Int)
    (hs : TimeSorted (h ++ [x])) (hno : NoOverflow P.H d (h ++ [x])) :
    (runFn (delayStep' P d) {} (h ++ [x])).getLast?
      = some (.ok (((((h ++ [x]).filter (fun e => decide (e.1 ≤ x.1 - d))).getLast?).map (·.2)).getD
          (firstVal (h ++ [x])))) := by
  rw [delay_last P hH d h x hs hno, delayedValue_eq_sample _ _ _ _ hs]

/-- Beyond the bound: for EVERY history the queue never holds more than `HISTORY_SIZE` entries (the oldest pending
changes are forgotten, so the output skips them). -/
theorem delay_queue_bounded (P : Params) (hH : 1 ≤ P.H) (d : Int) (m : Mem Int) (x : Int × Int)
    (hm : m.q.length ≤ P.H) : (delayStep' P d m x).1.q.length ≤ P.H :=
  QtVerif.TimeFns.delay_queue_bounded P hH d m x hm

/-- The queue is exactly the list of input changes that are not yet `d` old (so "pending transitions" of the
hypothesis above is a statement about the input, not about the implementation). -/
theorem delay_queue_is_pending_changes (P : Params) (hH : 1 ≤ P.H) (d : Int) (h : List (Int × Int))
    (hs : TimeSorted h) (hno : NoOverflow P.H d h) :
    (memAfter (delayStep' P d) {} h).q = (changes none h).filter (fun e => !due (lastTime h) d e) :=
  (delay_inv P hH d h hs hno).q

example : NoOverflow 2 100 [(1000, 1), (1200, 2), (1250, 2), (1400, 3)] ∧
    TimeSorted [(1000, 1), (1200, 2), (1250, 2), (1400, 3)] := by
  refine ⟨?_, by unfold TimeSorted; decide⟩
  intro k hk
  have : k = 0 ∨ k = 1 ∨ k = 2 ∨ k = 3 := by simp at hk; omega
  rcases this with rfl | rfl | rfl | rfl <;> decide
example : runFn (delayStep' { H := 2 } 100) {} [(1000, 1), (1200, 2), (1250, 2), (1400, 3)]
    = [.ok 1, .ok 1, .ok 1, .ok 2] := by decide

/-! ## SAMPLE / FREEZE -/

/-- **SAMPLE holds a value for the given duration**: once `v` was sampled at `t` with duration `d`, every later
evaluation less than `d` after `t` yields `v` and changes nothing, whatever the inputs. -/
theorem sample_holds (m : Mem Int) (t v d : Int) (hm : m.t = t ∧ m.v = some v ∧ m.d = some d)
    (xs : List (Int × Int × Int)) (hx : ∀ x ∈ xs, x.1 - t < d) :
    memAfter sampleStep m xs = m ∧ ∀ r ∈ runFn sampleStep m xs, r = .ok v :=
  QtVerif.TimeFns.sample_holds m t v d hm xs hx

/-- … and samples the current input at the first evaluation at least `d` after `t` (then holds that one). -/
theorem sample_resamples (m : Mem Int) (x : Int × Int × Int) (h : ¬ (x.1 - m.t < m.dur)) :
    (sampleStep m x).2.1 = .ok x.2.1 ∧
    (sampleStep m x).1.t = x.1 ∧ (sampleStep m x).1.v = some x.2.1 ∧ (sampleStep m x).1.d = some x.2.2 :=
  QtVerif.TimeFns.sample_resamples m x h

/-- **FREEZE holds a value for the given duration**: after a change was let through at `t` with duration `d`, every
later evaluation not later than `t + d` yields that value and changes nothing, whatever the inputs. -/
theorem freeze_holds (m : Mem Int) (t v d : Int) (ht : t ≠ 0) (hm : m.t = t ∧ m.v = some v ∧ m.d = some d)
    (xs : List (Int × Int × Int)) (hx : ∀ x ∈ xs, x.1 - t ≤ d) :
    memAfter freezeStep m xs = m ∧ ∀ r ∈ runFn freezeStep m xs, r = .ok v :=
  QtVerif.TimeFns.freeze_holds m t v d ht hm xs hx

/-- … and follows the input again at the first evaluation later than `t + d`: a different input is let through and
frozen for the current duration, an equal one leaves the output as it is. -/
theorem freeze_follows (m : Mem Int) (x : Int × Int × Int) (h : m.t = 0 ∨ m.dur < x.1 - m.t) :
    (differs x.2.1 m.v = true →
      (freezeStep m x).2.1 = .ok x.2.1 ∧ (freezeStep m x).1.t = x.1 ∧ (freezeStep m x).1.v = some x.2.1 ∧
      (freezeStep m x).1.d = some x.2.2) ∧
    (differs x.2.1 m.v = false → (freezeStep m x).2.1 = lastValue m ∧ (freezeStep m x).1.t = 0 ∧
      (freezeStep m x).1.v = m.v) :=
  QtVerif.TimeFns.freeze_follows m x h

/-- `sampleStep` / `freezeStep` are what the tree evaluator does on `SAMPLE($i, $j)` / `FREEZE($i, $j)`. -/
theorem sample_freeze_steps_are_the_evaluator (P : Params) (env : Env Int) (now : Int) (m : Mem Int) (p : Int)
    (i j : Nat) (v d : Int) (hi : envGet env i = .ok v) (hj : envGet env j = .ok d) :
    (evalNode P env now (.fn .sample m p [.port i, .port j])).2 = (sampleStep m (now, v, d)).2.1 ∧
    (evalNode P env now (.fn .freeze m p [.port i, .port j])).2 = (freezeStep m (now, v, d)).2.1 :=
  ⟨(evalNode_sample_ports P env now m p i j v d hi hj).1, (evalNode_freeze_ports P env now m p i j v d hi hj).1⟩

example : runFn sampleStep {} [(1000, 5, 100), (1050, 6, 100), (1099, 7, 100), (1100, 8, 300), (1399, 9, 100),
    (1400, 10, 100)] = [.ok 5, .ok 5, .ok 5, .ok 8, .ok 8, .ok 10] := by decide
example : runFn freezeStep {} [(1000, 5, 100), (1050, 6, 100), (1100, 7, 100), (1101, 8, 300), (1401, 9, 100),
    (1402, 8, 100)] = [.ok 5, .ok 5, .ok 5, .ok 8, .ok 8, .ok 8] := by decide

/-! ## HELD -/

/-- **HELD is true exactly when the input has equalled the value for at least the duration.** For every history with
non-decreasing evaluation times the newest output is `heldSpec`: the trailing run of samples equal to `f` started at
least `d` before the newest sample (and is not just starting). -/
theorem held_spec (P : Params) (f d : Int) (h : List (Int × Int)) (x : Int × Int)
    (hmono : (h ++ [x]).Pairwise (fun a b => a.1 ≤ b.1)) :
    (runFn (heldStep' P f d) {} (h ++ [x])).getLast? = some (.ok (if heldSpec f d (h ++ [x]) then 1 else 0)) :=
  held_last P f d h x hmono

/-- For a positive duration the "not just starting" clause is implied by the duration. -/
theorem held_spec_positive_duration (f d : Int) (hd : 0 < d) (h : List (Int × Int)) :
    heldSpec f d h = match heldRun f h with
      | [] => false
      | x :: r => decide (d ≤ x.1 - (r.getLast?.getD x).1) :=
  heldSpec_pos f d hd h

example : runFn (heldStep' {} 1 500) {} [(1000, 0), (1100, 1), (1300, 1), (1599, 1), (1600, 1), (1700, 0), (1800, 1)]
    = [.ok 0, .ok 0, .ok 0, .ok 0, .ok 1, .ok 0, .ok 0] := by decide

/-! ## RISING / FALLING / ACC / ACCINC / HYST depend only on the previous sample -/

theorem rising_depends_only_on_previous_sample {α : Type} [Num α] (m : Mem α) (h : List α) (p c : α) :
    (runFn (fun m v => risingStep m v) m (h ++ [p] ++ [c])).getLast? = some (.ok (risingOf (some p) c)) :=
  rising_last m h p c

theorem falling_depends_only_on_previous_sample {α : Type} [Num α] (m : Mem α) (h : List α) (p c : α) :
    (runFn (fun m v => fallingStep m v) m (h ++ [p] ++ [c])).getLast? = some (.ok (fallingOf (some p) c)) :=
  falling_last m h p c

theorem acc_depends_only_on_previous_sample {α : Type} [Num α] (m : Mem α) (h : List (α × α)) (p c : α × α) :
    (runFn (fun m (va : α × α) => accStep m va.1 va.2) m (h ++ [p] ++ [c])).getLast?
      = some (.ok (accOf (some p.1) c.1 c.2)) :=
  acc_last m h p c

theorem accinc_depends_only_on_previous_sample {α : Type} [Num α] (m : Mem α) (h : List (α × α)) (p c : α × α) :
    (runFn (fun m (va : α × α) => accIncStep m va.1 va.2) m (h ++ [p] ++ [c])).getLast?
      = some (.ok (accIncOf (some p.1) c.1 c.2)) :=
  accinc_last m h p c

/-- HYST: the new output is a function of the previous output and the current sample and thresholds only. -/
theorem hyst_depends_only_on_previous_output {α : Type} [Num α] (m : Mem α) (v th1 th2 : α) :
    (hystStep m v th1 th2).1.s = hystOf m.s v th1 th2 ∧
    (hystStep m v th1 th2).2.1 = .ok (ofInt (hystOf m.s v th1 th2 : Nat)) :=
  hyst_step m v th1 th2

example : runFn (fun m (v : Int) => risingStep m v) {} [3, 3, 5, 4, 4, 9] = [.ok 0, .ok 0, .ok 1, .ok 0, .ok 0, .ok 1] := by
  decide

/-! ## DERIV / INTEG -/

/-- One-step form of DERIV (intermediate lemma; the history-level statement is
`deriv_is_difference_quotient_of_accepted`): the step function equals `derivSpec`, the same case analysis with the
remembered sample as an explicit argument. -/
theorem deriv_spec {α : Type} [Num α] (P : Params) (interval : α) (h : List (Int × α)) (m : Mem α) :
    runFn (fun m (x : Int × α) => derivStep P m x.1 x.2 interval) m h = derivSpec P.thr interval (memBase m) h :=
  QtVerif.TimeFns.deriv_spec P interval h m

/-- One-step form of INTEG under feedback (intermediate lemma; the history-level statement is
`integ_is_trapezoid_sum_of_accepted`). -/
theorem integ_spec {α : Type} [Num α] (P : Params) (interval : α) (h : List (Int × α)) (m : Mem α) (a : α) :
    integFeedback P interval m a h = integArea P.thr interval a (memBase m) h :=
  integ_trapezoid_sum P interval h m a

/-! ### The accepted samples: "samples spaced by the sampling interval"

`accepted interval h` is defined greedily, oldest sample first: the first sample is accepted, a later one is accepted
unless it is closer than `interval` to the LAST ACCEPTED one (`lt (ofInt Δt) interval`, the comparison of the code). A
sample more than `TIME_JUMP_THRESHOLD` after the accepted one is accepted like any other (it becomes the new base);
the jump only removes the pair it closes from the formulas below. -/

/-- The defining equation, newest sample last. -/
theorem accepted_greedy {α : Type} [Num α] (interval : α) (h : List (Int × α)) (x : Int × α) :
    accepted interval (h ++ [x]) =
      match (accepted interval h).getLast? with
      | none => accepted interval h ++ [x]
      | some p => if lt (ofInt (x.1 - p.1)) interval then accepted interval h else accepted interval h ++ [x] :=
  accepted_snoc interval h x

/-- What the definition yields: a sub-history that starts with the first sample and whose neighbours are never closer
than the interval. -/
theorem accepted_is_spaced_subhistory {α : Type} [Num α] (interval : α) (h : List (Int × α)) :
    (accepted interval h).Sublist h ∧ (accepted interval h).head? = h.head? ∧
    ∀ pq ∈ consecutive (accepted interval h), lt (ofInt (pq.2.1 - pq.1.1)) interval = false := by
  refine ⟨accepted_sublist interval h, ?_, accepted_spaced interval h⟩
  cases h with
  | nil => rfl
  | cons x r => exact accepted_head interval x r

/-- `consecutive` is "each element with its successor". -/
theorem consecutive_is_zip_with_tail {β : Type} (l : List β) : consecutive l = l.zip l.tail := consecutive_eq_zip l

/-- **DERIV computes the difference quotient over samples spaced by the sampling interval.** For every history `h`
(any length, gaps, jumps, times in any order) and a positive interval: when the newest sample `x` is accepted, `p` is
the accepted sample before it and the two are not separated by a time jump, the newest output of a freshly parsed
`DERIV` is `(x.value − p.value) / (x.time − p.time) · 1000` (per second; times are milliseconds). -/
theorem deriv_is_difference_quotient_of_accepted {α : Type} [Num α] (P : Params) (interval : α)
    (hpos : lt (ofInt 0 : α) interval = true) (h : List (Int × α)) (p x : Int × α)
    (hp : (accepted interval h).getLast? = some p)
    (hx : accepted interval (h ++ [x]) = accepted interval h ++ [x])
    (hj : x.1 - p.1 ≤ P.thr) :
    (runFn (derivStep' P interval) {} (h ++ [x])).getLast?
      = some (.ok (mul (div (sub x.2 p.2) (ofInt (x.1 - p.1))) (ofInt 1000))) :=
  ((deriv_last_of_accepted P interval hpos h x).2 p hp).2.2 ((accepted_grows_iff interval h p x hp).mp hx) hj

/-- … and nothing else is produced: the first sample of a history yields 0; a sample that is not accepted, or that is
more than the time-jump threshold after the accepted one (it only becomes the new base), yields no value. -/
theorem deriv_yields_nothing_otherwise {α : Type} [Num α] (P : Params) (interval : α)
    (hpos : lt (ofInt 0 : α) interval = true) (h : List (Int × α)) (x : Int × α) :
    (h = [] → (runFn (derivStep' P interval) {} (h ++ [x])).getLast? = some (.ok (ofInt 0))) ∧
    (∀ p, (accepted interval h).getLast? = some p →
      accepted interval (h ++ [x]) = accepted interval h ∨ x.1 - p.1 > P.thr →
      (runFn (derivStep' P interval) {} (h ++ [x])).getLast? = some (.error .skipped)) :=
  ⟨fun he => (deriv_last_of_accepted P interval hpos h x).1 (by rw [he]; rfl),
   fun p hp hx => deriv_last_skipped P interval hpos h p x hp hx⟩

/-- The carrier `Int` spelled out. -/
theorem deriv_is_difference_quotient_of_accepted_int (P : Params) (interval : Int) (hpos : 0 < interval)
    (h : List (Int × Int)) (p x : Int × Int) (hp : (accepted interval h).getLast? = some p)
    (hx : accepted interval (h ++ [x]) = accepted interval h ++ [x]) (hj : x.1 - p.1 ≤ P.thr) :
    (runFn (derivStep' P interval) {} (h ++ [x])).getLast? = some (.ok ((x.2 - p.2) / (x.1 - p.1) * 1000)) :=
  deriv_is_difference_quotient_of_accepted P interval (by simpa using hpos) h p x hp hx hj

/-- Outside the hypothesis (interval not positive): a sample at the very time of the accepted one divides by zero — the
evaluation raises and the sample is not adopted. -/
theorem deriv_zero_gap_raises {α : Type} [Num α] (P : Params) (interval : α)
    (hnp : lt (ofInt 0 : α) interval = false) (m : Mem α) (p x : Int × α) (hb : memBase m = some p)
    (h0 : x.1 = p.1) (hthr : 0 ≤ P.thr) :
    (derivStep' P interval m x).1 = m ∧ (derivStep' P interval m x).2.1 = .error .exc :=
  QtVerif.TimeFns.deriv_zero_gap_raises P interval hnp m p x hb h0 hthr

/-- **INTEG computes the trapezoid sum over samples spaced by the sampling interval.** With the accumulator fed back
from the port (`INTEG($x, $, T)`; a skipped evaluation leaves the port alone), for EVERY history, interval and
threshold the port value of a freshly parsed `INTEG` is the initial value plus — added oldest first — the areas
`(vᵢ + vᵢ₋₁) · (tᵢ − tᵢ₋₁) / 2000` (value·seconds) of the neighbouring accepted samples that are not separated by a
time jump. No hypothesis. -/
theorem integ_is_trapezoid_sum_of_accepted {α : Type} [Num α] (P : Params) (interval a0 : α)
    (h : List (Int × α)) :
    integFeedback P interval {} a0 h =
      (((consecutive (accepted interval h)).filter (fun pq => decide (pq.2.1 - pq.1.1 ≤ P.thr))).map
        (fun pq => div (mul (add pq.2.2 pq.1.2) (ofInt (pq.2.1 - pq.1.1))) (ofInt 2000))).foldl add a0 := by
  rw [integFeedback_eq_foldl]
  exact (integ_inv P interval a0 h).2

/-- The carrier `Int` spelled out: initial value + Σ of the areas. -/
theorem integ_is_trapezoid_sum_of_accepted_int (P : Params) (interval a0 : Int) (h : List (Int × Int)) :
    integFeedback P interval {} a0 h =
      a0 + (((consecutive (accepted interval h)).filter (fun pq => decide (pq.2.1 - pq.1.1 ≤ P.thr))).map
        (fun pq => (pq.2.2 + pq.1.2) * (pq.2.1 - pq.1.1) / 2000)).sum := by
  rw [integ_is_trapezoid_sum_of_accepted, foldl_add_eq_sum]
  rfl

/-! Non-vacuity: six samples, one of them too early (1050), one reached across a time jump (5000; threshold 1000). -/

def exHist : List (Int × Int) := [(1000, 100), (1050, 990), (1100, 300), (1200, 600), (5000, 700), (5100, 1100)]

example : accepted (100 : Int) exHist = [(1000, 100), (1100, 300), (1200, 600), (5000, 700), (5100, 1100)] ∧
    evaluated 1000 (accepted (100 : Int) exHist) = [(1000, 100), (1100, 300), (1200, 600), (5100, 1100)] := by decide
/-- the hypotheses of `deriv_is_difference_quotient_of_accepted` at the newest sample, and at the fourth one -/
example : (accepted (100 : Int) exHist.dropLast).getLast? = some (5000, 700) ∧
    accepted (100 : Int) (exHist.dropLast ++ [(5100, 1100)]) = accepted (100 : Int) exHist.dropLast ++ [(5100, 1100)] ∧
    (5100 : Int) - 5000 ≤ ({ thr := 1000 } : Params).thr := by decide
example : runFn (derivStep' { thr := 1000 } (100 : Int)) {} exHist
    = [.ok 0, .error .skipped, .ok 2000, .ok 3000, .error .skipped, .ok 4000] := by decide
example : integFeedback (α := Int) { thr := 1000 } 100 {} 10 exHist = 10 + (20 + 45 + 90) := by decide
example : runFn (fun m (x : Int × Int) => derivStep {} m x.1 x.2 100) {} [(1000, 100), (1050, 200), (1100, 300),
    (1300, 100)] = [.ok 0, .error .skipped, .ok 2000, .ok (-1000)] := by decide
example : integFeedback (α := Int) {} 100 {} 10 [(1000, 1000), (1050, 2000), (1100, 3000), (1300, 1000)]
    = 10 + 200 + 400 := by decide

/-! ## FMAVG / FMEDIAN -/

/-- One-step form of FMAVG (intermediate lemma; the history-level statement is `fmavg_is_mean_of_last_accepted`):
the step function equals `fmSpec … meanOf`, the same case analysis with time and window as explicit arguments. -/
theorem fmavg_spec (P : Params) (w : Nat) (hw : 1 ≤ w) (hQ : 1 ≤ P.Q) (interval : Int) (h : List (Int × Int))
    (m : Mem Int) (acc : List Int) (hm : m.w = lastK (min w P.Q) acc) :
    runFn (fmStep' P P.Q meanOf w interval) m h = fmSpec P.thr meanOf (min w P.Q) interval m.t acc h :=
  fm_spec P P.Q meanOf w hw hQ interval h m acc hm

/-- One-step form of FMEDIAN (intermediate lemma; see `fmedian_is_upper_median_of_last_accepted`). -/
theorem fmedian_spec (P : Params) (w : Nat) (hw : 1 ≤ w) (hQ : 1 ≤ P.Qm) (interval : Int) (h : List (Int × Int))
    (m : Mem Int) (acc : List Int) (hm : m.w = lastK (min w P.Qm) acc) :
    runFn (fmStep' P P.Qm medianOf w interval) m h = fmSpec P.thr medianOf (min w P.Qm) interval m.t acc h :=
  fm_spec P P.Qm medianOf w hw hQ interval h m acc hm

/-- Which median: the element at index `⌊n/2⌋` of the ascending arrangement of the window — the UPPER of the two
middle samples for an even count (the code's choice, recorded as such). -/
theorem fmedian_is_upper_median (win : List Int) (hne : win ≠ []) :
    ∃ s : List Int, s.Perm win ∧ s.Pairwise (· ≤ ·) ∧ ∃ hlt : win.length / 2 < s.length,
      medianOf win = .ok s[win.length / 2] :=
  medianOf_spec win hne

/-- The aggregate of FMAVG unfolded (`rfl`; used by `fmavg_is_mean_of_last_accepted`). -/
theorem fmavg_is_mean (win : List Int) : meanOf win = .ok (win.foldl (· + ·) 0 / (win.length : Int)) := rfl

/-- **FMAVG computes the mean over the last `w` samples spaced by the sampling interval.** For every history of
positive times (any gaps, jumps, order), a constant integral width `w ≥ 1` and any interval: when the newest sample is
accepted and not reached across a time jump, the newest output of a freshly parsed `FMAVG` is `Σ win / |win|`, where
`win` are the VALUES of the last `min(w, QUEUE_SIZE)` evaluated accepted samples (fewer while the history is short); the
window ends with the newest value. -/
theorem fmavg_is_mean_of_last_accepted (P : Params) (w : Nat) (hw : 1 ≤ w) (hQ : 1 ≤ P.Q) (interval : Int)
    (h : List (Int × Int)) (x : Int × Int) (hpos : ∀ y ∈ h ++ [x], 0 < y.1)
    (hx : accepted interval (h ++ [x]) = accepted interval h ++ [x])
    (hj : ∀ p, (accepted interval h).getLast? = some p → x.1 - p.1 ≤ P.thr) :
    let win := lastK (min w P.Q) ((evaluated P.thr (accepted interval (h ++ [x]))).map (·.2))
    (runFn (fmStep' P P.Q meanOf w interval) {} (h ++ [x])).getLast? = some (.ok (win.sum / (win.length : Int))) ∧
    ∃ pre, win = pre ++ [x.2] := by
  intro win
  refine ⟨?_, window_ends_with_newest P.thr (min w P.Q) (by omega) interval h x hx hj⟩
  rw [fm_last_evaluated P P.Q meanOf w hw hQ interval h x hpos hx hj, List.sum_eq_foldl]
  rfl

/-- **FMEDIAN computes the (upper) median over the last `w` samples spaced by the sampling interval.** Same
hypotheses; the newest output is the element at index `⌊|win|/2⌋` of the ascending arrangement of the window `win` of
the last `min(w, QUEUE_SIZE)` evaluated accepted values: the median for an odd count, the UPPER of the two middle
values for an even one. -/
theorem fmedian_is_upper_median_of_last_accepted (P : Params) (w : Nat) (hw : 1 ≤ w) (hQ : 1 ≤ P.Qm)
    (interval : Int) (h : List (Int × Int)) (x : Int × Int) (hpos : ∀ y ∈ h ++ [x], 0 < y.1)
    (hx : accepted interval (h ++ [x]) = accepted interval h ++ [x])
    (hj : ∀ p, (accepted interval h).getLast? = some p → x.1 - p.1 ≤ P.thr) :
    let win := lastK (min w P.Qm) ((evaluated P.thr (accepted interval (h ++ [x]))).map (·.2))
    (∃ pre, win = pre ++ [x.2]) ∧
    ∃ s : List Int, s.Perm win ∧ s.Pairwise (· ≤ ·) ∧ ∃ hlt : win.length / 2 < s.length,
      (runFn (fmStep' P P.Qm medianOf w interval) {} (h ++ [x])).getLast? = some (.ok s[win.length / 2]) := by
  intro win
  have hend := window_ends_with_newest P.thr (min w P.Qm) (by omega) interval h x hx hj
  refine ⟨hend, ?_⟩
  have hne : win ≠ [] := by
    obtain ⟨pre, hpre⟩ := hend
    intro hc
    have : win = pre ++ [x.2] := hpre
    rw [hc] at this
    simp at this
  obtain ⟨s, hperm, hsorted, hlt, hmed⟩ := medianOf_spec win hne
  refine ⟨s, hperm, hsorted, hlt, ?_⟩
  rw [fm_last_evaluated P P.Qm medianOf w hw hQ interval h x hpos hx hj]
  exact congrArg some hmed

/-- … and nothing else is produced: a sample that is not accepted, or that is more than the time-jump threshold after
the accepted one (its value never enters the window; it only re-bases the clock), yields no value. -/
theorem fm_yields_nothing_otherwise (P : Params) (Q : Nat) (agg : List Int → Res Int) (w : Nat) (hw : 1 ≤ w)
    (hQ : 1 ≤ Q) (interval : Int) (h : List (Int × Int)) (x p : Int × Int) (hpos : ∀ y ∈ h ++ [x], 0 < y.1)
    (hp : (accepted interval h).getLast? = some p)
    (hx : accepted interval (h ++ [x]) = accepted interval h ∨ x.1 - p.1 > P.thr) :
    (runFn (fmStep' P Q agg w interval) {} (h ++ [x])).getLast? = some (.error .skipped) :=
  fm_last_skipped P Q agg w hw hQ interval h x p hpos hp hx

example : runFn (fmStep' { Q := 3 } 3 meanOf 5 100) {} [(1000, 3), (1050, 100), (1100, 9), (1200, 6), (1300, 30)]
    = [.ok 3, .error .skipped, .ok 6, .ok 6, .ok 15] := by decide
example : runFn (fmStep' {} 1024 medianOf 4 100) {} [(1000, 3), (1100, 9), (1200, 6), (1300, 30), (1400, 1)]
    = [.ok 3, .ok 9, .ok 6, .ok 9, .ok 9] := by decide

/-- Non-vacuity on `exHist` (one sample too early, one reached across a jump): the hypotheses at the newest sample,
the window, and the outputs (width 2: the value 700 reached across the jump never enters the window; the median of
`[600, 1100]` is the upper one). -/
example : (∀ y ∈ exHist.dropLast ++ [(5100, 1100)], (0 : Int) < y.1) ∧
    accepted (100 : Int) (exHist.dropLast ++ [(5100, 1100)]) = accepted (100 : Int) exHist.dropLast ++ [(5100, 1100)] ∧
    (∀ p, (accepted (100 : Int) exHist.dropLast).getLast? = some p → (5100 : Int) - p.1 ≤ 1000) ∧
    lastK 2 ((evaluated 1000 (accepted (100 : Int) exHist)).map (·.2)) = [600, 1100] := by
  refine ⟨by decide, by decide, ?_, by decide⟩
  intro p hp
  have : (accepted (100 : Int) exHist.dropLast).getLast? = some (5000, 700) := by decide
  rw [this] at hp; cases hp; decide
example : runFn (fmStep' { thr := 1000 } 1024 meanOf 2 100) {} exHist
    = [.ok 100, .error .skipped, .ok 200, .ok 450, .error .skipped, .ok 850] := by decide
example : runFn (fmStep' { thr := 1000 } 1024 medianOf 2 100) {} exHist
    = [.ok 100, .error .skipped, .ok 300, .ok 600, .error .skipped, .ok 1100] := by decide

/-! ## SEQUENCE -/

/-- **SEQUENCE cycles through its values by elapsed time**: the output depends on the elapsed time only modulo the
total of the delays. -/
theorem sequence_periodic (m : Mem Int) (now n : Int) (args : List Int) :
    let total := (seqPairs args).foldl (fun acc p => acc + p.2) 0
    0 < total → (sequenceStep m (now + n * total) args).2.1 = (sequenceStep m now args).2.1 :=
  QtVerif.TimeFns.sequence_periodic m now n args

/-- The output is picked by the elapsed time since the start `m.t`, modulo the total. -/
theorem sequence_value (m : Mem Int) (now : Int) (args : List Int) (p : Int × Int) (r : List (Int × Int))
    (hp : seqPairs args = p :: r) (ht : 0 < sumDelays (p :: r)) :
    (sequenceStep m now args).2.1 =
      .ok ((seqPick ((now - m.t) % sumDelays (p :: r)) (p :: r) 0).getD p.1) :=
  QtVerif.TimeFns.sequence_value m now args p r hp ht

/-- Value `i` is shown while `d₀+…+dᵢ₋₁ < elapsed ≤ d₀+…+dᵢ` (value 0 also at elapsed 0). -/
theorem sequence_window (e : Int) (pre post : List (Int × Int)) (v d s : Int) (hpre : ∀ p ∈ pre, 0 ≤ p.2)
    (hlo : pre = [] ∨ s + sumDelays pre < e) (hhi : e ≤ s + sumDelays pre + d) :
    seqPick e (pre ++ (v, d) :: post) s = some v :=
  seqPick_window e pre post v d s hpre hlo hhi

/-- The cycle starts at the first evaluation and its start never moves. -/
theorem sequence_start (m : Mem Int) (now : Int) :
    (m.t = 0 → (preStep .sequence m now).t = now) ∧ (m.t ≠ 0 → preStep .sequence m now = m) :=
  QtVerif.TimeFns.sequence_start m now

example : (List.map (fun now => (sequenceStep ({ t := 1000 } : Mem Int) now [7, 100, 8, 200, 9, 50]).2.1)
    [1000, 1100, 1101, 1300, 1301, 1350, 1351, 1450]) =
    [.ok 7, .ok 7, .ok 8, .ok 8, .ok 9, .ok 7, .ok 7, .ok 7] := by decide

/-! ## Pausing is unobservable -/

/-- **No-op before the deadline** (any nesting): a tree that was just evaluated at `now` and reports "paused" at
`now'` (own deadline and, recursively, the deadlines of all arguments that are functions) re-evaluates at `now'`, on
the same port values, to the same result with all memories unchanged. -/
theorem noop_before_deadline (P : Params) (hP : P.fixed = true) (env : Env Int) (now now' : Int) (h0 : 0 < now)
    (h0' : 0 ≤ now') (n : Node Int) (hp : okPaused now' (evalNode P env now n).1 = true) :
    (evalNode P env now' (evalNode P env now n).1).2 = (evalNode P env now n).2 ∧
    erase (evalNode P env now' (evalNode P env now n).1).1 = erase (evalNode P env now n).1 :=
  node_noop P hP env now now' h0 h0' n hp

/-- **The hub's skipping of evaluations while a function is paused never changes the value the port takes compared
with evaluating on every tick.** For EVERY expression tree (any functions, any nesting, any initial memories and
deadlines), every tick history with positive times whose first tick evaluates (setting an expression forces an
evaluation) and in which a tick that is not triggered by a dependency sees the port values of the tick before, the
port-value sequence under the skip rule (`runLoop P true`) equals the one of the every-tick reference
(`runLoop P false`). Holds for the repaired pause rule. -/
theorem pause_skip_unobservable (P : Params) (hP : P.fixed = true) (st : PortSt Int) (tk0 : Tick Int)
    (rest : List (Tick Int)) (hfirst : tk0.trig = true) (hpos : ∀ tk ∈ tk0 :: rest, 0 < tk.now)
    (htr : TrigOk tk0.env rest) :
    runLoop P true st (tk0 :: rest) = runLoop P false st (tk0 :: rest) :=
  skip_unobservable P hP st tk0 rest hfirst hpos htr

/-! ### Passes vs. the evaluation task (`has_pending_eval`)

A polling pass only queues an evaluation; passes also happen right after any confirmed port write, so a pass can see
an evaluation that is queued but has not run. -/

/-- When the evaluation task runs after every pass (nothing is ever pending) the two-step model is `loopStep` with the
skip rule, for which `pause_skip_unobservable` holds — wherever the pending-evaluation shortcut is applied. -/
theorem drained_passes_are_the_loop (P : Params) (g : Bool) (st : PortSt Int) (ticks : List (Tick Int)) :
    runDrained P g st ticks = runLoop P true st ticks :=
  runDrained_eq_runLoop P g ticks st

/-- The code's rule: a pass that sees a changed dependency always queues an evaluation carrying the values of that
pass, whatever is pending or paused (the shortcuts apply to pure `asap` triggers only). -/
theorem value_change_always_queues (P : Params) (q : QPort Int) (tk : Tick Int) (h : tk.trig = true) :
    (passStep P false q tk).queue = q.queue ++ [(tk.now, tk.env)] ∧ (passStep P false q tk).st = q.st :=
  trig_always_queues P q tk h

/-- `FREEZE($a, 1000)`: set at 1000 with `$a = 1`; at 2050 the timer has just run out and the tick's pass queues an
evaluation (old values); a second pass at the same instant (as fired after any confirmed write) sees `$a = 5` before
the evaluation task has run; then plain ticks. -/
def freezeTree : Node Int := .fn .freeze {} 0 [.port 0, .lit (some 1000)]
def lostChangeSchedule : List (Ev Int) :=
  [.pass ⟨1000, [some 1], true⟩, .run, .pass ⟨1500, [some 1], false⟩, .run,
   .pass ⟨2050, [some 1], false⟩, .pass ⟨2050, [some 5], true⟩, .run,
   .pass ⟨2100, [some 5], false⟩, .run, .pass ⟨4000, [some 5], false⟩, .run, .pass ⟨14000, [some 5], false⟩, .run]

/-- **Applying the pending-evaluation shortcut to value-change triggers loses a change**: the queued evaluation
carries the old value and ends with FREEZE pausing without limit, so the port keeps 1 for ever although the input is
5 — while the code's rule (shortcut on pure `asap` triggers only) queues a second evaluation and the port follows. -/
theorem pending_guard_on_all_triggers_loses_change :
    (runEvents {} true ⟨⟨freezeTree, none⟩, []⟩ lostChangeSchedule).getLast? = some (some 1) ∧
    (runEvents {} false ⟨⟨freezeTree, none⟩, []⟩ lostChangeSchedule).getLast? = some (some 5) := by
  decide

/-! The two witnesses of defect D7 (and the hypotheses of the theorem met by them). -/

def freshFn (k : Fn) (args : List (Node Int)) : Node Int := .fn k {} 0 args

/-- `HELD(GT($a, 5), 1, 500)` -/
def heldTree : Node Int := freshFn .held [freshFn .gt [.port 0, .lit (some 5)], .lit (some 1), .lit (some 500)]
def heldTicks : List (Tick Int) :=
  [⟨1000, [some 0], true⟩, ⟨1100, [some 6], true⟩, ⟨1250, [some 7], true⟩, ⟨1600, [some 7], false⟩,
   ⟨1650, [some 7], false⟩]

/-- `FREEZE(DELAY($a, 500), 100)` -/
def nestTree : Node Int := freshFn .freeze [freshFn .delay [.port 0, .lit (some 500)], .lit (some 100)]
def nestTicks : List (Tick Int) :=
  [⟨1000, [some 0], true⟩, ⟨1100, [some 6], true⟩, ⟨1150, [some 6], false⟩, ⟨1650, [some 6], false⟩]

/-- The code as found: HELD re-evaluated while waiting (the inner comparison stays true while `$a` changes) pauses
for ever and never becomes true, although evaluating on every tick makes it true. -/
theorem unrepaired_held_never_true :
    runLoop { fixed := false } true ⟨heldTree, none⟩ heldTicks = [some 0, some 0, some 0, some 0, some 0] ∧
    runLoop { fixed := false } false ⟨heldTree, none⟩ heldTicks = [some 0, some 0, some 0, some 1, some 1] := by
  decide

/-- The code as found: the pause of the outer function hides the deadline of the inner one. -/
theorem unrepaired_nested_misses_change :
    runLoop { fixed := false } true ⟨nestTree, none⟩ nestTicks = [some 0, some 0, some 0, some 0] ∧
    runLoop { fixed := false } false ⟨nestTree, none⟩ nestTicks = [some 0, some 0, some 0, some 6] := by
  decide

/-- Hence the pause sentence is false for the code as found. -/
theorem unrepaired_pause_skip_observable :
    ∃ (st : PortSt Int) (ticks : List (Tick Int)),
      runLoop { fixed := false } true st ticks ≠ runLoop { fixed := false } false st ticks :=
  ⟨⟨heldTree, none⟩, heldTicks, by decide⟩

/-! Non-vacuity: both witnesses meet the hypotheses of `pause_skip_unobservable`, and the repaired model yields the
every-tick series on them. -/
example : TrigOk [some (0 : Int)] heldTicks.tail ∧ (∀ tk ∈ heldTicks, 0 < tk.now) := by
  refine ⟨by simp [heldTicks, TrigOk], by decide⟩
example : runLoop {} true ⟨heldTree, none⟩ heldTicks = [some 0, some 0, some 0, some 1, some 1] := by decide
example : runLoop {} true ⟨nestTree, none⟩ nestTicks = [some 0, some 0, some 0, some 6] := by decide
/-- an edge function below a pausing one keeps the outer one awake: `DELAY(RISING($a), 100)` -/
example : runLoop {} true ⟨freshFn .delay [freshFn .rising [.port 0], .lit (some 100)], none⟩
    [⟨1000, [some 0], true⟩, ⟨1050, [some 1], true⟩, ⟨1100, [some 1], false⟩, ⟨1150, [some 1], false⟩,
     ⟨1200, [some 1], false⟩] = [some 0, some 0, some 0, some 1, some 0] := by decide

end QtVerif.TimeFns.C16
