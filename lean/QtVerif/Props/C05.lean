import QtVerif.Proofs.ValueDomainWitness
/-!
C05 — API value writes are validated against the port's declared value domain.

Model: `QtVerif.ValueDomain` (Model/ValueDomain.lean), the repaired code (`Cfg.repaired`).
Spec:  `InDomain`, `WF`, `specDelivery`, `LegitCall`, `Settled` (Proofs/ValueDomainSpec.lean); lemmas in
       Proofs/ValueDomain.lean; the concrete ports `dStep`, `dDoc`, `dInt` of the examples in Proofs/ValueDomainWitness.lean.
All theorems are for every port definition, every JSON value (numbers = exact rationals of any magnitude/precision),
every write-transform function, every port state and every request history; nothing is bounded.
-/
namespace QtVerif.ValueDomain.C05

open QtVerif.ValueDomain

/-! ### 1. accepted iff in the domain -/

/-- **accept_iff_in_domain.** A value write request is answered "accepted" iff the port exists, is enabled and
writable, and the value is of the port's type and lies in its declared domain — for every well-formed port definition
and every JSON value, provided the write transform evaluates on that value (otherwise the answer is 500, see
`error_code_order`). -/
theorem accept_iff_in_domain (st : PState) (known : Bool) (v : JVal) (hwf : WF st.d) (hj : v.isJson)
    (htw : performWrite st.d (adapt Cfg.repaired st.d v) ≠ none) :
    (step Cfg.repaired st (.value known v)).2 = .ok ↔
      known = true ∧ st.d.enabled = true ∧ st.d.writable = true ∧ InDomain st.d v := by
  have hs := handleValue_spec st known v hwf hj
  simp only [step, handle]
  cases hk : known with
  | false => rw [hk] at hs; rw [hs.1 rfl]; simp
  | true =>
    rw [hk] at hs
    by_cases hd : InDomain st.d v
    · cases hen : st.d.enabled with
      | false => rw [hs.2.2.1 rfl hd hen]; simp
      | true =>
        cases hw : st.d.writable with
        | false => rw [hs.2.2.2.1 rfl hd hen hw]; simp
        | true =>
          cases hp : performWrite st.d (adapt Cfg.repaired st.d v) with
          | none => exact absurd hp htw
          | some x => rw [hs.2.2.2.2.2 rfl hd hen hw x hp]; simp [hd]
    · rw [hs.2.1 rfl hd]; simp [hd]

/-- The validation procedure alone (no state): it returns the (adapted) value iff the value is in the domain, and
otherwise says invalid-value — never anything else. -/
theorem validate_iff_in_domain (d : PortDef) (v : JVal) (hwf : WF d) (hj : v.isJson) :
    (validateValue Cfg.repaired d v = .ok (adapt Cfg.repaired d v) ↔ InDomain d v) ∧
    (¬ InDomain d v → validateValue Cfg.repaired d v = .error .invalidValue) :=
  validate_spec d v hwf hj

-- non-vacuity: the hypotheses are met by the step-0.1 port with its "times two" transform and the value 0.3 …
example : WF dStep := wf_dStep
example : TwRespectsJson dStep := tw_dStep
example : (JVal.num (3 / 10) false).isJson := trivial
example : (JVal.num 5 true).isJson := ⟨5, by decide +kernel⟩
-- … 0.3 (a float token) is in the domain of [0,10] step 0.1 and is accepted; 0.25 is not and is refused
example : InDomain dStep (.num (3 / 10) false) :=
  (validate_iff_in_domain dStep (.num (3 / 10) false) wf_dStep trivial).1.1 (by decide +kernel)
example : (step Cfg.repaired { d := dStep } (.value true (.num (3 / 10) false))).2 = .ok := by decide +kernel
example : (step Cfg.repaired { d := dStep } (.value true (.num (1 / 4) false))).2 = .err .invalidValue := by
  decide +kernel
example : performWrite dStep (adapt Cfg.repaired dStep (.num (3 / 10) false)) ≠ none := by decide +kernel

/-! ### 2. which error -/

/-- **error_code_order.** The answer is fixed by the first failing condition, in this order: unknown port (404
no-such-port), value outside the domain (400 invalid-value, whatever the enabled/writable flags are), disabled port
(400 port-disabled), read-only port (400 read-only-port), write transform failing to evaluate (500); otherwise the
request is accepted. In every refusal the port state is returned unchanged. -/
theorem error_code_order (st : PState) (known : Bool) (v : JVal) (hwf : WF st.d) (hj : v.isJson) :
    (known = false → handleValue Cfg.repaired st known v = (st, .err .noSuchPort)) ∧
    (known = true → ¬ InDomain st.d v → handleValue Cfg.repaired st known v = (st, .err .invalidValue)) ∧
    (known = true → InDomain st.d v → st.d.enabled = false →
      handleValue Cfg.repaired st known v = (st, .err .portDisabled)) ∧
    (known = true → InDomain st.d v → st.d.enabled = true → st.d.writable = false →
      handleValue Cfg.repaired st known v = (st, .err .readOnlyPort)) ∧
    (known = true → InDomain st.d v → st.d.enabled = true → st.d.writable = true →
      performWrite st.d (adapt Cfg.repaired st.d v) = none →
      handleValue Cfg.repaired st known v = (st, .err .unexpected)) ∧
    (known = true → InDomain st.d v → st.d.enabled = true → st.d.writable = true →
      ∀ x, performWrite st.d (adapt Cfg.repaired st.d v) = some x →
      handleValue Cfg.repaired st known v = ({ st with calls := st.calls ++ [x] }, .ok)) :=
  handleValue_spec st known v hwf hj

/-- **value_write_ignores_expression.** Whether the port follows a value expression plays no part in a value request
(`PATCH /ports/{id}/value`): same answer, same driver call, whichever variant of the code — in particular an in-domain
write to an enabled writable port that has an expression is accepted and delivered (`error_code_order` has no hypothesis
on `hasExpression`). Only the sequence endpoint refuses such a port. -/
theorem value_write_ignores_expression (cfg : Cfg) (st : PState) (known : Bool) (v : JVal) (b : Bool) :
    (handleValue cfg { st with d := { st.d with hasExpression := b } } known v).2 = (handleValue cfg st known v).2 ∧
    (handleValue cfg { st with d := { st.d with hasExpression := b } } known v).1.calls =
      (handleValue cfg st known v).1.calls := by
  have hval : validateValue cfg { st.d with hasExpression := b } v = validateValue cfg st.d v := rfl
  have hpw : ∀ w, performWrite { st.d with hasExpression := b } w = performWrite st.d w := fun _ => rfl
  simp only [handleValue, hval, hpw]
  cases known <;> simp
  cases validateValue cfg st.d v <;> simp
  cases st.d.enabled <;> simp
  cases st.d.writable <;> simp
  rename_i w
  cases performWrite st.d w <;> simp

-- non-vacuity: 0.3 on the step-0.1 port that follows an expression is accepted and delivered (times two) …
example : (step Cfg.repaired { d := { dStep with hasExpression := true } } (.value true (.num (3 / 10) false))).2 = .ok := by
  decide +kernel
example : (step Cfg.repaired { d := { dStep with hasExpression := true } } (.value true (.num (3 / 10) false))).1.calls
    = [.num (3 / 5) false] := by decide +kernel
-- … while a sequence of in-domain values is refused on that port, and accepted without the expression
example : (step Cfg.repaired { d := { dStep with hasExpression := true } }
    (.sequence true [.num (3 / 10) false] [.num 100 true] (.num 1 true))).2 = .err .portWithExpression := by decide +kernel
example : (step Cfg.repaired { d := dStep }
    (.sequence true [.num (3 / 10) false] [.num 100 true] (.num 1 true))).2 = .ok := by decide +kernel
-- … after the disabled and read-only tests
example : (step Cfg.repaired { d := { dStep with hasExpression := true, writable := false } }
    (.sequence true [.num (3 / 10) false] [.num 100 true] (.num 1 true))).2 = .err .readOnlyPort := by decide +kernel

-- non-vacuity: an out-of-domain value on a disabled read-only port is "invalid-value", an in-domain one "port-disabled"
example : (handleValue Cfg.repaired { d := { dInt with enabled := false, writable := false } } true
    (.num 11 true)).2 = .err .invalidValue := by decide +kernel
example : (handleValue Cfg.repaired { d := { dInt with enabled := false, writable := false } } true
    (.num 10 true)).2 = .err .portDisabled := by decide +kernel

/-! ### 3. a rejected request changes nothing -/

/-- **reject_is_pure.** Whatever the request (value or sequence, any values, JSON proper or not) and whichever variant
of the code (`cfg`), a refused request leaves the whole port state as it was: no driver call, the driver's call log,
the installed sequence and the clock untouched. `Settled` (no emission of the installed sequence is due) holds for the
state between any two requests, see `reachable_settled`. -/
theorem reject_is_pure (cfg : Cfg) (st : PState) (r : Req) (hs : Settled st)
    (h : isReject (step cfg st r).2 = true) : (step cfg st r).1 = st :=
  step_reject cfg st r hs h

/-- The hypothesis of `reject_is_pure` holds after every step, hence in every reachable state. -/
theorem reachable_settled (cfg : Cfg) (st : PState) (r : Req) : Settled (step cfg st r).1 :=
  step_settled cfg st r

-- non-vacuity: a settled state with a running sequence; the refused sequence request does not cancel it
example : Settled { d := dInt, now := 5, pend := [(100, .num 1 true)] } := by
  intro p hp; simp at hp; subst hp; decide
example : isReject (step Cfg.repaired { d := dInt, now := 5, pend := [(100, .num 1 true)] }
    (.sequence true [.num 11 true] [.num 10 true] (.num 1 true))).2 = true := by decide +kernel
example : (step Cfg.repaired { d := dInt, now := 5, pend := [(100, .num 1 true)] }
    (.sequence true [.num 11 true] [.num 10 true] (.num 1 true))).1.pend = [(100, .num 1 true)] := by decide +kernel

/-! ### 4. what the driver receives -/

/-- **delivered_value.** An accepted value request hands the driver exactly one value: the value after the port's
write transform, coerced to the port type (`specDelivery`), up to the int/float look of a number. -/
theorem delivered_value (st : PState) (known : Bool) (v : JVal) (hwf : WF st.d) (hj : v.isJson)
    (htw : TwRespectsJson st.d) (hs : Settled st)
    (hok : (step Cfg.repaired st (.value known v)).2 = .ok) :
    ∃ x y, (step Cfg.repaired st (.value known v)).1 = { st with calls := st.calls ++ [x] } ∧
      specDelivery st.d v = some y ∧ x.same y := by
  have hsp := handleValue_spec st known v hwf hj
  simp only [step, handle] at hok ⊢
  cases hk : known with
  | false => rw [hk] at hsp hok; rw [hsp.1 rfl] at hok; cases hok
  | true =>
    rw [hk] at hsp hok
    by_cases hd : InDomain st.d v
    · cases hen : st.d.enabled with
      | false => rw [hsp.2.2.1 rfl hd hen] at hok; cases hok
      | true =>
        cases hw : st.d.writable with
        | false => rw [hsp.2.2.2.1 rfl hd hen hw] at hok; cases hok
        | true =>
          cases hp : performWrite st.d (adapt Cfg.repaired st.d v) with
          | none => rw [hsp.2.2.2.2.1 rfl hd hen hw hp] at hok; cases hok
          | some x =>
            obtain ⟨y, hy, hxy⟩ := (performWrite_spec st.d v hwf htw hd).2 x hp
            refine ⟨x, y, ?_, hy, hxy⟩
            rw [hsp.2.2.2.2.2 rfl hd hen hw x hp]
            exact flush_settled _ hs
    · rw [hsp.2.1 rfl hd] at hok; cases hok

-- non-vacuity: 0.3 through "times two" reaches the driver as 0.6
example : (step Cfg.repaired { d := dStep } (.value true (.num (3 / 10) false))).1.calls = [.num (3 / 5) false] := by
  decide +kernel
example : specDelivery dStep (.num (3 / 10) false) = some (.num (3 / 5) false) := by decide +kernel
-- 5.0 on an integer port (no transform) reaches the driver as the integer 5
example : (step Cfg.repaired { d := dInt } (.value true (.num 5 false))).1.calls = [.num 5 true] := by decide +kernel

/-! ### 5. sequence requests: the same validation for every element -/

/-- **sequence_accept_iff.** A well-shaped sequence request is accepted iff the port exists, is enabled and writable,
follows no value expression and *every* value is in the port's domain; the error is fixed by the first failing condition
in the order unknown port, shape, length mismatch, a value outside the domain (invalid-field), disabled, read-only, port
with an expression (port-with-expression: a rule of the sequence endpoint only, see `value_write_ignores_expression`);
a refusal returns the state unchanged and an acceptance installs exactly the (adapted) values. -/
theorem sequence_accept_iff (st : PState) (known : Bool) (values delays : List JVal) (rep : JVal)
    (hwf : WF st.d) (hj : ∀ v, v ∈ values → v.isJson) :
    (known = false → handleSeq Cfg.repaired st known values delays rep = (st, .err .noSuchPort)) ∧
    (known = true → shapeOk Cfg.repaired values delays rep = false →
      handleSeq Cfg.repaired st known values delays rep = (st, .err .invalidRequest)) ∧
    (known = true → shapeOk Cfg.repaired values delays rep = true → values.length ≠ delays.length →
      handleSeq Cfg.repaired st known values delays rep = (st, .err .invalidField)) ∧
    (known = true → shapeOk Cfg.repaired values delays rep = true → values.length = delays.length →
      (¬ ∀ v, v ∈ values → InDomain st.d v) →
      handleSeq Cfg.repaired st known values delays rep = (st, .err .invalidField)) ∧
    (known = true → shapeOk Cfg.repaired values delays rep = true → values.length = delays.length →
      (∀ v, v ∈ values → InDomain st.d v) → st.d.enabled = false →
      handleSeq Cfg.repaired st known values delays rep = (st, .err .portDisabled)) ∧
    (known = true → shapeOk Cfg.repaired values delays rep = true → values.length = delays.length →
      (∀ v, v ∈ values → InDomain st.d v) → st.d.enabled = true → st.d.writable = false →
      handleSeq Cfg.repaired st known values delays rep = (st, .err .readOnlyPort)) ∧
    (known = true → shapeOk Cfg.repaired values delays rep = true → values.length = delays.length →
      (∀ v, v ∈ values → InDomain st.d v) → st.d.enabled = true → st.d.writable = true → st.d.hasExpression = true →
      handleSeq Cfg.repaired st known values delays rep = (st, .err .portWithExpression)) ∧
    (known = true → shapeOk Cfg.repaired values delays rep = true → values.length = delays.length →
      (∀ v, v ∈ values → InDomain st.d v) → st.d.enabled = true → st.d.writable = true → st.d.hasExpression = false →
      handleSeq Cfg.repaired st known values delays rep =
        ({ st with pend := passes st.now (delays.map delayMs).sum (values.map (adapt Cfg.repaired st.d))
                            (delays.map delayMs) (delayMs rep) }, .ok)) :=
  handleSeq_spec st known values delays rep hwf hj

-- non-vacuity: [0.3, 0.5] every 100 ms twice on the step-0.1 port is accepted and written (transformed) in order
example : (run Cfg.repaired { d := dStep }
    [.sequence true [.num (3 / 10) false, .num (1 / 2) false] [.num 100 true, .num 100 true] (.num 2 true),
     .advance 1000]).calls = [.num (3 / 5) false, .num 1 false, .num (3 / 5) false, .num 1 false] := by decide +kernel

/-! ### 6. over whole histories: the driver only ever sees legitimate values of the definition in force -/

/-- **driver_sees_only_domain_values.** Take a port in ANY state with no sequence installed (a fresh port, or a port just
redefined, see `after_redefine`); after ANY history of requests that keep its definition (value writes, sequence writes,
enable/disable, time passing; any JSON values, any interleaving) the driver's call log is the old log followed by values
each of which is the transformed-and-coerced image of a JSON value of the domain of the definition in force: a refused or
out-of-domain value never reaches the driver, neither at once nor later through a sequence. -/
theorem driver_sees_only_domain_values (st : PState) (rs : List Req) (hwf : WF st.d) (htw : TwRespectsJson st.d)
    (hp : st.pend = []) (hj : ∀ r, r ∈ rs → r.isJson ∧ r.keepsDef) :
    ∃ new, (run Cfg.repaired st rs).calls = st.calls ++ new ∧ ∀ x, x ∈ new → LegitCall st.d x := by
  have hinv : Inv st.d st.calls st := ⟨⟨st.d.enabled, rfl⟩, ⟨[], by simp, by simp⟩, by simp [hp]⟩
  obtain ⟨_, ⟨new, hnew, hc⟩, _⟩ := inv_run st.d st.calls st rs hwf hinv hj
  exact ⟨new, hnew, fun x hx => good_legit st.d x hwf htw (hc x hx)⟩

/-- **after_redefine.** When the port is removed and created again under the same id with definition `d` (DELETE + POST,
or a backup restore), whatever the earlier history was — earlier definition, accepted values, a running sequence — every
value the driver is handed from then on (until the next redefinition) is legitimate for `d`, the definition in force,
not for any earlier one; and nothing of the old port is written any more. -/
theorem after_redefine (st : PState) (d : PortDef) (rs : List Req) (hwf : WF d) (htw : TwRespectsJson d)
    (hj : ∀ r, r ∈ rs → r.isJson ∧ r.keepsDef) :
    ∃ new, (run Cfg.repaired st (.redefine d :: rs)).calls = st.calls ++ new ∧ ∀ x, x ∈ new → LegitCall d x := by
  have h1 : (step Cfg.repaired st (.redefine d)).1 = { st with d := d, pend := [] } := by
    simp [step, handle, flush]
  simp only [run, h1]
  exact driver_sees_only_domain_values { st with d := d, pend := [] } rs hwf htw rfl hj

-- non-vacuity: a history (of JSON values proper) mixing refused and accepted requests; only the accepted values arrive
example : ∀ r, r ∈ [Req.value true (.num (1 / 4) false), .value true (.num (3 / 10) false), .disable, .enable,
    .sequence true [.num (1 / 2) false] [.num 100 true] (.num 1 true), .advance 101] → r.isJson ∧ r.keepsDef := by
  intro r hr
  simp only [List.mem_cons, List.mem_nil_iff, or_false] at hr
  rcases hr with rfl | rfl | rfl | rfl | rfl | rfl <;> simp [Req.isJson, JVal.isJson, Req.keepsDef]
example : (run Cfg.repaired { d := dStep }
    [.value true (.num (1 / 4) false), .value true (.num (3 / 10) false), .disable, .value true (.num (1 / 2) false),
     .enable, .value true (.num 11 true), .value true (.num 10 true)]).calls =
    [.num (3 / 5) false, .num 20 false] := by decide +kernel
-- a port 0..10 step 0.1 redefined as the integer port 0..10 while a sequence runs: 0.3 was fine before, is refused after,
-- the rest of the old sequence is never written, 7 is written
example : (run Cfg.repaired { d := dStep }
    [.sequence true [.num (3 / 10) false, .num (1 / 2) false] [.num 100 true, .num 100 true] (.num 1 true),
     .redefine dInt, .value true (.num (3 / 10) false), .advance 1000, .value true (.num 7 true)]).calls =
    [.num (3 / 5) false, .num 7 true] := by decide +kernel

/-! ### 6a. driver-computed attributes: what the driver declares, once in force, is the definition that decides -/

/-- **declared_attributes_in_force.** A port whose driver computes its attributes (write-protect switch, resolution,
range): when what the driver declares comes into force — the first polling pass after the change, which drops the
attribute cache of every enabled port — while no sequence is installed, nothing but the definition changes (the call log,
the clock stay), and from then on a value request is judged by the NEW definition `d`, whatever the old one was: it is
accepted iff the port exists, `d` is enabled and writable and the value is in the domain of `d`. (The harness sends the
model `redefine d` at exactly that polling pass.) -/
theorem declared_attributes_in_force (st : PState) (d : PortDef) (known : Bool) (v : JVal) (hp : st.pend = [])
    (hwf : WF d) (hj : v.isJson) (htw : performWrite d (adapt Cfg.repaired d v) ≠ none) :
    step Cfg.repaired st (.redefine d) = ({ st with d := d }, .ok) ∧
    ((step Cfg.repaired (step Cfg.repaired st (.redefine d)).1 (.value known v)).2 = .ok ↔
      known = true ∧ d.enabled = true ∧ d.writable = true ∧ InDomain d v) := by
  have h1 : step Cfg.repaired st (.redefine d) = ({ st with d := d }, .ok) := by
    simp [step, handle, flush, hp]
  refine ⟨h1, ?_⟩
  rw [h1]
  exact accept_iff_in_domain { st with d := d } known v hwf hj htw

-- non-vacuity: the step-0.1 port, unlocked, has accepted 0.3; the driver then declares it read-only: 0.3 is refused with
-- read-only-port and the driver sees nothing more; declared writable again, 0.3 is accepted again
example : ({ d := dStep, now := 7, calls := [.num (3 / 5) false] } : PState).pend = [] := rfl
example : (step Cfg.repaired (step Cfg.repaired { d := dStep } (.redefine { dStep with writable := false })).1
    (.value true (.num (3 / 10) false))).2 = .err .readOnlyPort := by decide +kernel
example : (run Cfg.repaired { d := dStep }
    [.value true (.num (3 / 10) false), .redefine { dStep with writable := false }, .value true (.num (3 / 10) false),
     .redefine dStep, .value true (.num (1 / 2) false)]).calls = [.num (3 / 5) false, .num 1 false] := by decide +kernel

/-! ### 6b. overlapping requests: exactly one driver call per accepted request -/

/-- **one_call_per_accepted_request.** A burst of value requests (however they overlap: the model serves them in the
order they were submitted) on a port with no sequence installed hands the driver exactly one value per request that is
served (`served`: known port, enabled, writable, value valid, transform evaluates) — its own transformed-coerced value, in
request order — and nothing for the refused ones. No accepted request is merged with, or superseded by, another. -/
theorem one_call_per_accepted_request (cfg : Cfg) (st : PState) (rs : List (Bool × JVal)) (hp : st.pend = []) :
    run cfg st (rs.map fun r => .value r.1 r.2) =
      { st with calls := st.calls ++ rs.filterMap (served cfg st.d) } :=
  run_values_calls cfg st rs hp

-- non-vacuity: four overlapping writes, one of them invalid: three driver calls, in order
example : (run Cfg.repaired { d := dInt } ([(true, .num 1 true), (true, .num 2 true), (true, .num 11 true),
    (true, .num 4 false)].map fun r => .value r.1 r.2)).calls = [.num 1 true, .num 2 true, .num 4 true] := by
  decide +kernel

/-! ### 7. the defects of the unrepaired code (counter-examples, replayed on the real code by the harness corpus) -/

/-- **unrepaired_step_grid.** With the grid test in binary floating point (`(value - min) % step`), 0.3 — which IS on
the grid 0 + k·0.1 and inside [0, 10] — is refused. -/
theorem unrepaired_step_grid :
    InDomain dStep (.num (3 / 10) false) ∧
    validateValue { Cfg.repaired with exactGrid := false } dStep (.num (3 / 10) false) = .error .invalidValue :=
  ⟨(validate_iff_in_domain dStep (.num (3 / 10) false) wf_dStep trivial).1.1 (by decide +kernel), by decide +kernel⟩

/-- **unrepaired_integral_float.** With Draft4's `integer` applied to the token, `5.0` — an integral number inside
[0, 10] — is refused by an integer port. -/
theorem unrepaired_integral_float :
    InDomain dInt (.num 5 false) ∧
    validateValue { Cfg.repaired with integralFloats := false } dInt (.num 5 false) = .error .invalidValue :=
  ⟨(validate_iff_in_domain dInt (.num 5 false) wf_dInt trivial).1.1 (by decide +kernel), by decide +kernel⟩

/-- **unrepaired_choices_step.** With the grid test applied on top of the choices, the port of the docstring example
of core/ports.py (min 1, step 5, choices 2 and 4) refuses each of its own choices. -/
theorem unrepaired_choices_step :
    InDomain dDoc (.num 2 true) ∧ InDomain dDoc (.num 4 true) ∧
    validateValue { Cfg.repaired with choicesOverrideGrid := false } dDoc (.num 2 true) = .error .invalidValue ∧
    validateValue { Cfg.repaired with choicesOverrideGrid := false } dDoc (.num 4 true) = .error .invalidValue :=
  ⟨(validate_iff_in_domain dDoc (.num 2 true) wf_dDoc ⟨2, by decide +kernel⟩).1.1 (by decide +kernel),
   (validate_iff_in_domain dDoc (.num 4 true) wf_dDoc ⟨4, by decide +kernel⟩).1.1 (by decide +kernel),
   by decide +kernel, by decide +kernel⟩

end QtVerif.ValueDomain.C05
