import QtVerif.Proofs.IntegrationStoreDrivers
/-!
# Integration C07 × C06 — the restart round trip over the persistence DRIVERS

C07's store is abstract (`Config.Store`: total by-id lookup functions); C06 proves that the JSON and Redis driver models
refine the reference record store `Ref`. Here the two are composed: the persistence writes of a C07 history
(`writes`: `port.save()` / `vports.add` / `device.save()` = `persist.replace` by id, i.e. replace-or-insert; DELETE and
`device.reset` = `persist.remove` by id) are translated to C06 `Store.Op`s (`traffic`), shown to lie in the contract
domains of C06's theorems (`traffic_ok`, `writes_ok`: string ids, distinct keys, `WF` values — the record codecs
`portCodec` / `vdefCodec` / `deviceCodec` of `Proofs/IntegrationStoreCodec.lean`), the reference store after them is
shown to hold exactly the abstract store (`rel_run` + `tracks_traffic`), and C06's strong refinement transfers every
`persist.get` of the restart to the drivers (`driver_answers`).

**PARTIAL** — what is missing (hence `…_partial`):
* the `slaves` collection: histories with PUT/DELETE/PATCH /devices are excluded (`SupportedRun`); the loaded store
  takes its `slaves` component from the abstract store;
* a save-loop iteration is covered only in states where no port is pending (`Supported … .saveTick`): the model keeps the
  hub's port table as a total function, so the list of `port.save()` calls of `save_loop` cannot be enumerated; ports
  saved by the API calls themselves (POST/PATCH /ports, which save at once) are covered;
* loads are by-id reads (`persist.get` = query with filter `{id}`), as the Config model's `boot` reads its store; the
  query-all of `vports.init` is not modelled;
* the record codecs are model-level (attributes nested under "attrs"), not the byte layout of the real hub's records;
* the Mongo driver (C06 has no unconditional run-level theorem for it).
-/
namespace QtVerif.IntegrationStore
open QtVerif.Store QtVerif.Config

/-- the C06 operation sequence of a C07 history -/
def storeOps (cfg : Cfg) (ops : List Config.Op) : List Store.Op :=
  traffic (fun _ _ => none) (writes cfg (init cfg) ops)

/-- what a restart reads back through a driver in state `s` (by-id reads, decoded) -/
def loadedStore {σ : Type} (drv : σ → Store.Op → σ × Res) (s : σ) (slaves : String → Option Slave) : Config.Store :=
  { ports := fun id => readSlot portCodec (drv s (readOp cPorts (strOf id))).2,
    vports := fun id => readSlot vdefCodec (drv s (readOp cVports (strOf id))).2,
    device := readSlot deviceCodec (drv s (readOp cDevice devId)).2,
    slaves := slaves }

/-- **abstraction function**: after the traffic of any supported history the reference store of C06 holds, under the
embedded ids, exactly the encoded records of C07's abstract store, and never rejected an operation -/
theorem ref_store_holds_config_store_partial (cfg : Cfg) (ops : List Config.Op) (hs : SupportedRun cfg (init cfg) ops) :
    ∃ V, Tracks (refRun [] (storeOps cfg ops)) V ∧ Rel (run cfg (init cfg) ops).store V ∧
      ∀ r ∈ refResults [] (storeOps cfg ops), r.outside = false :=
  ⟨_, (tracks_traffic _ [] _ tracks_init).1, rel_run cfg ops _ _ (rel_init cfg) hs, (tracks_traffic _ [] _ tracks_init).2⟩

/-- **one theorem over any driver** that strongly agrees with the reference store (C06's `AgreeStrongBy`) on the
traffic followed by a read: what the restart loads through the driver is the abstract store of C07 -/
theorem loaded_store_eq_partial {σ : Type} (drv : σ → Store.Op → σ × Res) (norm : Res → Res) (s0 : σ)
    (hnorm : ∀ {ρ : Type} (cd : Codec ρ), cd.Lawful → ∀ i o,
      readSlot cd (norm (.recs (o.map (fun r => full i (cd.enc r))).toList)) = o)
    (cfg : Cfg) (ops : List Config.Op) (hs : SupportedRun cfg (init cfg) ops)
    (hag : ∀ c i, AgreeStrongBy norm (storeOps cfg ops ++ [readOp c i])
      (runWith drv s0 [] (storeOps cfg ops ++ [readOp c i]))) :
    loadedStore drv (drvRun drv s0 (storeOps cfg ops)) (run cfg (init cfg) ops).store.slaves
      = (run cfg (init cfg) ops).store := by
  have hrel := rel_run cfg ops _ _ (rel_init cfg) hs
  have hp : ∀ id, readSlot portCodec (drv (drvRun drv s0 (storeOps cfg ops)) (readOp cPorts (strOf id))).2
      = (run cfg (init cfg) ops).store.ports id := by
    intro id
    rw [storeOps, driver_answers drv norm s0 _ cPorts (strOf id) (hag _ _), hrel.ports id]
    exact hnorm portCodec portCodec_lawful _ _
  have hv : ∀ id, readSlot vdefCodec (drv (drvRun drv s0 (storeOps cfg ops)) (readOp cVports (strOf id))).2
      = (run cfg (init cfg) ops).store.vports id := by
    intro id
    rw [storeOps, driver_answers drv norm s0 _ cVports (strOf id) (hag _ _), hrel.vports id]
    exact hnorm vdefCodec vdefCodec_lawful _ _
  have hd : readSlot deviceCodec (drv (drvRun drv s0 (storeOps cfg ops)) (readOp cDevice devId)).2
      = (run cfg (init cfg) ops).store.device := by
    rw [storeOps, driver_answers drv norm s0 _ cDevice devId (hag _ _), hrel.device]
    exact hnorm deviceCodec deviceCodec_lawful _ _
  simp only [loadedStore, hp, hv, hd]

/-- the traffic of a C07 history lies in the contract domains of `json_refines_ref_strong` / `redis_refines_ref_strong` -/
theorem storeOps_in_contract_domain (ft : FloatText) (cfg : Cfg) (ops : List Config.Op) (c i : Str) :
    ∀ op ∈ storeOps cfg ops ++ [readOp c i], OpOK (WF ft) op ∧ op ≠ .reload := by
  intro op h
  rcases List.mem_append.mp h with h | h
  · exact traffic_ok ft _ _ (writes_ok ft cfg ops _) op h
  · simp only [List.mem_singleton] at h; subst h; exact readOp_ok ft c i

/-- **C07 × C06, JSON driver**: after any supported history followed by a save, a restart that loads its records through
the JSON driver model reports the same hub (C07's `SameHub`) -/
theorem restart_roundtrip_with_json_driver_partial (fx : Fix) (hfx : fx.jsonUpdFilt = true) (ft : FloatText)
    (cfg : Cfg) (ok : CfgOK cfg) (ops : List Config.Op) (hs : SupportedRun cfg (init cfg) (ops ++ [.saveTick])) :
    let st := run cfg (init cfg) (ops ++ [.saveTick])
    let js := drvRun (Json.step fx ft) [] (storeOps cfg (ops ++ [.saveTick]))
    loadedStore (Json.step fx ft) js st.store.slaves = st.store ∧
    C07.SameHub st.hub (boot cfg (loadedStore (Json.step fx ft) js st.store.slaves)).hub := by
  intro st js
  have e : loadedStore (Json.step fx ft) js st.store.slaves = st.store :=
    loaded_store_eq_partial (Json.step fx ft) id [] (fun cd hl i o => readSlot_id cd hl i o) cfg _ hs
      (fun c i => C06.json_refines_ref_strong fx hfx ft _
        (fun op h => (storeOps_in_contract_domain ft cfg _ c i op h).2))
  exact ⟨e, by rw [e]; exact C07.load_save_roundtrip cfg ok ops⟩

/-- **C07 × C06, Redis driver** (repaired code, any float/date environment with `FtLaw`) -/
theorem restart_roundtrip_with_redis_driver_partial (ft : FloatText) (law : FtLaw ft)
    (cfg : Cfg) (ok : CfgOK cfg) (ops : List Config.Op) (hs : SupportedRun cfg (init cfg) (ops ++ [.saveTick])) :
    let st := run cfg (init cfg) (ops ++ [.saveTick])
    let ks := drvRun (Redis.step Fix.repaired ft) [] (storeOps cfg (ops ++ [.saveTick]))
    loadedStore (Redis.step Fix.repaired ft) ks st.store.slaves = st.store ∧
    C07.SameHub st.hub (boot cfg (loadedStore (Redis.step Fix.repaired ft) ks st.store.slaves)).hub := by
  intro st ks
  have e : loadedStore (Redis.step Fix.repaired ft) ks st.store.slaves = st.store :=
    loaded_store_eq_partial (Redis.step Fix.repaired ft) normRes [] (fun cd hl i o => readSlot_norm cd hl i o) cfg _ hs
      (fun c i => C06.redis_refines_ref_strong ft law _
        (fun op h => (storeOps_in_contract_domain ft cfg _ c i op h).1))
  exact ⟨e, by rw [e]; exact C07.load_save_roundtrip cfg ok ops⟩

/-! ### non-vacuity: add two virtual ports, set an attribute, delete one, edit the device, restart, save -/

def demoOps : List Config.Op :=
  [.addV "v1" C07.numDef, .addV "v2" C07.numDef, .patch "v1" [("tag", .str "a\"b")], .del "v2",
   .patchDev { name := some "hub1" }, .restart]

/-- the hypothesis `SupportedRun` is satisfiable by that history … -/
theorem demoOps_supported : SupportedRun (C07.demoCfg true) (init (C07.demoCfg true)) demoOps :=
  ⟨trivial, trivial, trivial, trivial, trivial, trivial, trivial⟩

/-- … so the reference store of C06, after the history's traffic, holds C07's abstract store -/
example : ∃ V, Tracks (refRun [] (storeOps (C07.demoCfg true) demoOps)) V ∧
    Rel (run (C07.demoCfg true) (init (C07.demoCfg true)) demoOps).store V ∧
    ∀ r ∈ refResults [] (storeOps (C07.demoCfg true) demoOps), r.outside = false :=
  ref_store_holds_config_store_partial (C07.demoCfg true) demoOps demoOps_supported

/-- … and both drivers hand the restart exactly that store (the conclusion is about a non-empty store:
`C07`'s `attrOf` example style is not repeated here) -/
example (ft : FloatText) :
    loadedStore (Json.step Fix.repaired ft) (drvRun (Json.step Fix.repaired ft) [] (storeOps (C07.demoCfg true) demoOps))
      (run (C07.demoCfg true) (init (C07.demoCfg true)) demoOps).store.slaves
    = (run (C07.demoCfg true) (init (C07.demoCfg true)) demoOps).store :=
  loaded_store_eq_partial (Json.step Fix.repaired ft) id [] (fun cd hl i o => readSlot_id cd hl i o) _ _ demoOps_supported
    (fun c i => C06.json_refines_ref_strong Fix.repaired rfl ft _
      (fun op h => (storeOps_in_contract_domain ft _ _ c i op h).2))

end QtVerif.IntegrationStore
