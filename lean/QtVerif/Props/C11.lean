import QtVerif.Proofs.Sessions
import QtVerif.Proofs.SessionsDelivery
import QtVerif.Proofs.SessionsLoss
/-!
C11 — Listeners get each permitted event once, in order; never one above their level.

Property theorems only; helper lemmas are in `QtVerif/Proofs/Sessions*.lean`, the model in
`QtVerif/Model/Sessions.lean`. All theorems quantify over every history of triggers / listens / ticks,
any number of sessions, every queue capacity `cap` and expiry factor `fac` (no bound on anything).
-/
namespace QtVerif.Sessions.C11
open QtVerif.Sessions

/-- **Level safety.** No response ever contains an event whose required level exceeds the level of the
request that receives it (repaired `reset_and_wait`, `filt = true`). -/
theorem level_safe (cap fac : Nat) (ops : List Op) :
    ∀ r ∈ (run true cap fac State.init ops).2, ∀ e ∈ r.events, e.req ≤ r.level :=
  run_level_safe cap fac ops

/-- The code as found at the pinned commit (`filt = false`: the queue is not filtered when a listen
rebinds the session to a lower level) violates level safety: admin listen (answered by keep-alive),
device-update queued at admin level, then a view-only listen on the same session id receives it. -/
theorem unrepaired_not_level_safe :
    ∃ ops, ∃ r ∈ (run false 4 10 State.init ops).2, ∃ e ∈ r.events, ¬ e.req ≤ r.level :=
  ⟨[.listen 1 100 30 1 0, .tick 5, .trigger ⟨0, .deviceUpdate, 30, 0⟩, .listen 1 101 10 1 6],
   ⟨101, 10, [⟨0, .deviceUpdate, 30, 0⟩]⟩, by decide, ⟨0, .deviceUpdate, 30, 0⟩, by decide, by decide⟩

/-- **Refinement of the queue discipline to the declarative `squash`.** A burst of triggers changes
every session's pending list to the squash (dedup + drop-oldest) of what was pending plus the permitted
events of the burst, and does nothing else. -/
theorem triggers_refine_squash (cap : Nat) (st : State) (es : List Ev) :
    es.foldl (trigger cap) st = ⟨st.sessions.map (fun s => afterTriggers cap s es)⟩ :=
  triggers_eq_squash cap st es

/-- **Exactly once, in trigger order, nothing invented**: what is pending is a sub-list (order kept) of
what was pending followed by what was triggered. -/
theorem delivered_in_order_once (cap : Nat) (init l : List Ev) :
    (squash cap init l).Sublist (init ++ l) := squash_sublist cap init l

/-- **Nothing is lost except as the property allows**: a pending or triggered event that is not
delivered was superseded by a newer duplicate (same object, update class) or at least `cap` newer
events were pending after it. Trigger serials are strictly increasing. -/
theorem lost_only_if_superseded_or_overflow (cap : Nat) (init l : List Ev) (x : Ev)
    (hs : (init ++ l).Pairwise (fun a b => a.id < b.id))
    (hx : x ∈ init ++ l) (hn : x ∉ squash cap init l) :
    (∃ d ∈ l, x.id < d.id ∧ d.dup x = true) ∨ cap ≤ (newer x (init ++ l)).length :=
  lost_only_if cap init l x hs hx hn

/-- With no duplicates and at most `cap` events, every event is delivered, in order. -/
theorem all_delivered_when_no_dup_no_overflow (cap : Nat) (init l : List Ev)
    (hd : ∀ a ∈ init ++ l, ∀ b ∈ l, b.dup a = false) (hc : (init ++ l).length ≤ cap) :
    squash cap init l = init ++ l := squash_id cap init l hd hc

/-- The newest event is always delivered. -/
theorem newest_always_delivered (cap : Nat) (init l : List Ev) (e : Ev) :
    (squash cap init (l ++ [e])).getLast? = some e := squash_last cap init l e

/-- **Answered at the tick**: after `sessions.update()` no waiting listen call has a non-empty queue and
none has outlived its timeout. -/
theorem answered_at_tick (filt : Bool) (cap fac now : Nat) (st : State) :
    ∀ s ∈ (step filt cap fac st (.tick now)).1.sessions,
      (s.active.isSome → s.queue = []) ∧ (s.active.isSome → ¬ now - s.accessed > s.timeout) :=
  tickList_answered fac now st.sessions

/-- **Answered at once** when events are already queued: after a listen call the session never waits
while holding events. -/
theorem listen_answers_if_queued (filt : Bool) (s : Sess) (r lvl timeout now : Nat) :
    (listenSess filt s r lvl timeout now).1.active.isSome →
    (listenSess filt s r lvl timeout now).1.queue = [] :=
  listenSess_answered filt s r lvl timeout now

/-! ### Run level: what ONE session receives ACROSS all its responses

Definitions (in `Proofs/SessionsRun.lean`, `SessionsProj.lean`, `SessionsDelivery.lean`):
* `reqsOf sid ops` — the request ids of the `listen sid req …` ops of `ops` (this is how requests are tied
  to sessions);
* `responsesOf filt cap fac sid ops` — the responses of `run filt cap fac State.init ops`, in response
  order, whose request id is in `reqsOf sid ops`;
* `delivered filt cap fac sid ops` (= `D`) — the concatenation of their event lists;
* `finalSess filt cap fac sid ops` — the session `sid` in the final state, `pend` its queue oldest first;
* `trigs ops` — the events of the `.trigger` ops, in order; `SerialsIncreasing ops` — their serials `Ev.id`
  strictly increase;
* `ReqsSeparate sid ops` — no listen op of ANOTHER session re-uses a request id of a listen op of `sid`
  (a request is a fresh future in the code; without this the request id does not identify the session and
  `D` would mix sessions).
All statements quantify over every history, every number of sessions, `cap`, `fac`. -/

/-- **Conservation across responses.** Everything session `sid` is sent over the whole history, followed
by what it still holds at the end, is a sub-list of the triggered events in trigger order: nothing
invented, nothing repeated, nothing reordered — across responses, listens, keep-alives, expiry and
re-creation of the session. -/
theorem delivered_sublist_of_triggers (cap fac sid : Nat) (ops : List Op) (hsep : ReqsSeparate sid ops) :
    (delivered true cap fac sid ops ++ pend (finalSess true cap fac sid ops)).Sublist (trigs ops) :=
  delivered_pend_sublist true cap fac sid ops hsep

/-- **(1) In trigger order and at most once, across responses.** `D` (followed by what is still
queued) is strictly increasing in the trigger serial. -/
theorem delivered_across_responses_in_order_once (cap fac sid : Nat) (ops : List Op)
    (hser : SerialsIncreasing ops) (hsep : ReqsSeparate sid ops) :
    (delivered true cap fac sid ops ++ pend (finalSess true cap fac sid ops)).Pairwise
      (fun a b => a.id < b.id) :=
  hser.sublist (delivered_pend_sublist true cap fac sid ops hsep)

/-- hence no trigger serial occurs twice in `D` -/
theorem delivered_exactly_once (cap fac sid : Nat) (ops : List Op)
    (hser : SerialsIncreasing ops) (hsep : ReqsSeparate sid ops) :
    ((delivered true cap fac sid ops).map (·.id)).Nodup :=
  List.pairwise_map.mpr
    (((hser.sublist (delivered_sublist true cap fac sid ops hsep))).imp (fun h => Nat.ne_of_lt h))

/-- **(2) Triggered and permitted.** Every event of `D` (i) was triggered, (ii) was triggered at a moment
when session `sid` existed with a level that permits it (the level it had when the event was queued),
and (iii) sits in a response of `sid` whose level permits it. -/
theorem delivered_were_triggered_and_permitted (cap fac sid : Nat) (ops : List Op)
    (hsep : ReqsSeparate sid ops) :
    ∀ e ∈ delivered true cap fac sid ops,
      Op.trigger e ∈ ops ∧
      (∃ pre post s, ops = pre ++ Op.trigger e :: post ∧
        find sid (run true cap fac State.init pre).1.sessions = some s ∧ e.req ≤ s.level) ∧
      (∃ r ∈ (run true cap fac State.init ops).2, r.req ∈ reqsOf sid ops ∧ e ∈ r.events ∧ e.req ≤ r.level) := by
  intro e he
  refine ⟨mem_trigs.mp ((delivered_sublist true cap fac sid ops hsep).subset he),
    delivered_permitted true cap fac sid ops hsep e (List.mem_append_left _ he), ?_⟩
  obtain ⟨r, h1, h2, h3⟩ := delivered_in_response true cap fac sid ops e he
  exact ⟨r, h1, h2, h3, run_level_safe cap fac ops r h1 e h3⟩

/-- **(3) Nothing is lost except as allowed.** Let `e` be triggered (`ops = pre ++ .trigger e :: post`)
at a moment when session `sid` exists with a level that permits it. If `e` is in no response of `sid`
and is not queued in `sid` at the end, then one of the following happened afterwards:
* a later trigger `d` superseded it (`d.dup e`: same object, update class);
* a later permitted trigger `d` pushed it out of the bounded queue while at least `cap` newer events
  were pending (those queued just before `d`, and `d` itself);
* a later listen call of `sid` rebound the session to a level that does not permit `e` (the repaired
  `reset_and_wait` filters the queue; this is required by level safety);
* a later tick expired the session.
This lifts `lost_only_if_superseded_or_overflow` from `squash` to `run`; the last two causes do not exist
at the level of `squash`, at run level they are real (see the examples below). -/
theorem lost_only_if_superseded_overflow_relevelled_or_expired (cap fac sid : Nat)
    (ops pre post : List Op) (e : Ev) (s : Sess)
    (hser : SerialsIncreasing ops) (hsep : ReqsSeparate sid ops)
    (hops : ops = pre ++ Op.trigger e :: post)
    (hex : find sid (run true cap fac State.init pre).1.sessions = some s) (hperm : e.req ≤ s.level)
    (hn : e ∉ delivered true cap fac sid ops ++ pend (finalSess true cap fac sid ops)) :
    (∃ d, Op.trigger d ∈ post ∧ e.id < d.id ∧ d.dup e = true) ∨
    (∃ mid d rest s', post = mid ++ Op.trigger d :: rest ∧
        finalSess true cap fac sid (pre ++ Op.trigger e :: mid) = some s' ∧ d.req ≤ s'.level ∧ e.id < d.id ∧
        cap ≤ (newer e (pend (finalSess true cap fac sid (pre ++ Op.trigger e :: mid)) ++ [d])).length) ∨
    (∃ r lvl t n, Op.listen sid r lvl t n ∈ post ∧ lvl < e.req) ∨
    (∃ mid now rest, post = mid ++ Op.tick now :: rest ∧
        finalSess true cap fac sid (pre ++ Op.trigger e :: (mid ++ [Op.tick now])) = none) :=
  run_lost cap fac sid ops pre post e s hser hsep hops hex hperm hn

/-! Non-vacuity of the run-level statements: two sessions, session 1 listens three times (the second
listen lowers its level), six triggers with dedup (serial 0 superseded by 1), overflow (`cap = 2`) and a
level-filtered event; `D` of session 1 spans three responses. -/
def demoOps : List Op :=
  [.listen 1 100 30 5 0, .listen 2 200 30 5 0,
   .trigger ⟨0, .portUpdate, 10, 7⟩, .tick 1,
   .trigger ⟨1, .portUpdate, 10, 7⟩, .trigger ⟨2, .deviceUpdate, 30, 0⟩, .trigger ⟨3, .valueChange, 10, 7⟩,
   .listen 1 101 10 5 2,
   .trigger ⟨4, .deviceUpdate, 30, 0⟩, .trigger ⟨5, .valueChange, 10, 8⟩,
   .listen 1 102 10 5 3, .tick 4, .listen 2 201 30 5 5]

example : SerialsIncreasing demoOps := by unfold SerialsIncreasing; decide
example : ReqsSeparate 1 demoOps := reqsSeparate_of_check (by decide)
example : ReqsSeparate 2 demoOps := reqsSeparate_of_check (by decide)
example : (responsesOf true 2 10 1 demoOps).map (fun r => (r.req, r.level, r.events.map (·.id)))
    = [(100, 30, [0]), (101, 10, [3]), (102, 10, [5])] := by decide
example : (delivered true 2 10 1 demoOps).map (·.id) = [0, 3, 5] := by decide
example : (delivered true 2 10 2 demoOps).map (·.id) = [0, 4, 5] := by decide


/-- the hypotheses of (3) are satisfiable: in `demoOps`, serial 1 (pushed out by overflow) and serial 2
(dropped when listen 101 lowers the level to 10) were permitted when triggered and are never delivered
to session 1 -/
example : ∃ pre post s, demoOps = pre ++ Op.trigger ⟨1, .portUpdate, 10, 7⟩ :: post ∧
    find 1 (run true 2 10 State.init pre).1.sessions = some s ∧ (10 : Nat) ≤ s.level ∧
    (⟨1, .portUpdate, 10, 7⟩ : Ev) ∉ delivered true 2 10 1 demoOps ++ pend (finalSess true 2 10 1 demoOps) :=
  ⟨demoOps.take 4, demoOps.drop 5, _, rfl, rfl, by decide, by decide⟩
example : ∃ pre post s, demoOps = pre ++ Op.trigger ⟨2, .deviceUpdate, 30, 0⟩ :: post ∧
    find 1 (run true 2 10 State.init pre).1.sessions = some s ∧ (30 : Nat) ≤ s.level ∧
    (⟨2, .deviceUpdate, 30, 0⟩ : Ev) ∉ delivered true 2 10 1 demoOps ++ pend (finalSess true 2 10 1 demoOps) :=
  ⟨demoOps.take 5, demoOps.drop 6, _, rfl, rfl, by decide, by decide⟩

/-! Non-vacuity: a concrete history exercising dedup, overflow, level filtering and keep-alive. -/
example :
    (run true 2 10 State.init
      [.listen 1 100 30 5 0, .trigger ⟨0, .portUpdate, 10, 7⟩, .trigger ⟨1, .portUpdate, 10, 7⟩,
       .trigger ⟨2, .deviceUpdate, 30, 0⟩, .trigger ⟨3, .valueChange, 10, 7⟩, .tick 1,
       .listen 1 101 10 5 2, .tick 9]).2.map (fun r => (r.req, r.level, r.events.map (·.id)))
      = [(100, 30, [2, 3]), (101, 10, [])] := by decide

example : (⟨0, .portUpdate, 10, 7⟩ : Ev).id < (⟨1, .portUpdate, 10, 7⟩ : Ev).id ∧
    (⟨1, .portUpdate, 10, 7⟩ : Ev).dup ⟨0, .portUpdate, 10, 7⟩ = true := by decide

end QtVerif.Sessions.C11
