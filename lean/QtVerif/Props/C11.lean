import QtVerif.Proofs.Sessions
/-!
C11 — Listeners get each permitted event once, in order; never one above their level.

Property theorems only; helper lemmas are in `QtVerif/Proofs/Sessions.lean`, the model in
`QtVerif/Model/Sessions.lean`. All theorems quantify over every history of triggers / listens / ticks,
any number of sessions, every queue capacity `cap` and expiry factor `fac` (no bound on anything).
-/
namespace QtVerif.Sessions.C11
open QtVerif.Sessions

/-- **Level safety.** No response ever contains an event whose required level exceeds the level of the
request that receives it (repaired `reset_and_wait`, `filt = true`). -/
theorem level_safe (cap fac : Nat) (ops : List Op) :
    ∀ r ∈ (run true cap fac State.init ops).2, ∀ e ∈ r.events, e.req ≤ r.level :=
  run_level_safe cap fac ops

/-- The code as found at the pinned commit (`filt = false`: the queue is not filtered when a listen
rebinds the session to a lower level) violates level safety: admin listen (answered by keep-alive),
device-update queued at admin level, then a view-only listen on the same session id receives it. -/
theorem unrepaired_not_level_safe :
    ∃ ops, ∃ r ∈ (run false 4 10 State.init ops).2, ∃ e ∈ r.events, ¬ e.req ≤ r.level :=
  ⟨[.listen 1 100 30 1 0, .tick 5, .trigger ⟨0, .deviceUpdate, 30, 0⟩, .listen 1 101 10 1 6],
   ⟨101, 10, [⟨0, .deviceUpdate, 30, 0⟩]⟩, by decide, ⟨0, .deviceUpdate, 30, 0⟩, by decide, by decide⟩

/-- **Refinement of the queue discipline to the declarative `squash`.** A burst of triggers changes
every session's pending list to the squash (dedup + drop-oldest) of what was pending plus the permitted
events of the burst, and does nothing else. -/
theorem triggers_refine_squash (cap : Nat) (st : State) (es : List Ev) :
    es.foldl (trigger cap) st = ⟨st.sessions.map (fun s => afterTriggers cap s es)⟩ :=
  triggers_eq_squash cap st es

/-- **Exactly once, in trigger order, nothing invented**: what is pending is a sub-list (order kept) of
what was pending followed by what was triggered. -/
theorem delivered_in_order_once (cap : Nat) (init l : List Ev) :
    (squash cap init l).Sublist (init ++ l) := squash_sublist cap init l

/-- **Nothing is lost except as the property allows**: a pending or triggered event that is not
delivered was superseded by a newer duplicate (same object, update class) or at least `cap` newer
events were pending after it. Trigger serials are strictly increasing. -/
theorem lost_only_if_superseded_or_overflow (cap : Nat) (init l : List Ev) (x : Ev)
    (hs : (init ++ l).Pairwise (fun a b => a.id < b.id))
    (hx : x ∈ init ++ l) (hn : x ∉ squash cap init l) :
    (∃ d ∈ l, x.id < d.id ∧ d.dup x = true) ∨ cap ≤ (newer x (init ++ l)).length :=
  lost_only_if cap init l x hs hx hn

/-- With no duplicates and at most `cap` events, every event is delivered, in order. -/
theorem all_delivered_when_no_dup_no_overflow (cap : Nat) (init l : List Ev)
    (hd : ∀ a ∈ init ++ l, ∀ b ∈ l, b.dup a = false) (hc : (init ++ l).length ≤ cap) :
    squash cap init l = init ++ l := squash_id cap init l hd hc

/-- The newest event is always delivered. -/
theorem newest_always_delivered (cap : Nat) (init l : List Ev) (e : Ev) :
    (squash cap init (l ++ [e])).getLast? = some e := squash_last cap init l e

/-- **Answered at the tick**: after `sessions.update()` no waiting listen call has a non-empty queue and
none has outlived its timeout. -/
theorem answered_at_tick (filt : Bool) (cap fac now : Nat) (st : State) :
    ∀ s ∈ (step filt cap fac st (.tick now)).1.sessions,
      (s.active.isSome → s.queue = []) ∧ (s.active.isSome → ¬ now - s.accessed > s.timeout) :=
  tickList_answered fac now st.sessions

/-- **Answered at once** when events are already queued: after a listen call the session never waits
while holding events. -/
theorem listen_answers_if_queued (filt : Bool) (s : Sess) (r lvl timeout now : Nat) :
    (listenSess filt s r lvl timeout now).1.active.isSome →
    (listenSess filt s r lvl timeout now).1.queue = [] :=
  listenSess_answered filt s r lvl timeout now

/-! Non-vacuity: a concrete history exercising dedup, overflow, level filtering and keep-alive. -/
example :
    (run true 2 10 State.init
      [.listen 1 100 30 5 0, .trigger ⟨0, .portUpdate, 10, 7⟩, .trigger ⟨1, .portUpdate, 10, 7⟩,
       .trigger ⟨2, .deviceUpdate, 30, 0⟩, .trigger ⟨3, .valueChange, 10, 7⟩, .tick 1,
       .listen 1 101 10 5 2, .tick 9]).2.map (fun r => (r.req, r.level, r.events.map (·.id)))
      = [(100, 30, [2, 3]), (101, 10, [])] := by decide

example : (⟨0, .portUpdate, 10, 7⟩ : Ev).id < (⟨1, .portUpdate, 10, 7⟩ : Ev).id ∧
    (⟨1, .portUpdate, 10, 7⟩ : Ev).dup ⟨0, .portUpdate, 10, 7⟩ = true := by decide

end QtVerif.Sessions.C11
