import QtVerif.Proofs.EvalLazy
import QtVerif.Proofs.EvalRatFull
import QtVerif.Proofs.EvalBits
import QtVerif.Proofs.EvalTime
/-!
C02 — Expression evaluation matches the reference semantics of the language.

Property theorems only; the model is `QtVerif/Model/Eval.lean` (+ `Model/Num.lean`), helper lemmas are in
`QtVerif/Proofs/Eval*.lean`.  Unless a carrier is named, every theorem holds for EVERY float carrier `α` with ANY
`PyFloat α` instance, every expression tree (no depth / arity bound) and every context (any assignment of port
states, values, role, clock, literal table).

`eval` is the REPAIRED evaluator (first failing argument in argument order; POW stays in the reals);
`evalU` is the code as found at the pinned commit — see the `unrepaired_…` theorems at the end.

**Scope of the value-level statements.** The structural theorems (totality, taxonomy, strictness, laziness, frame,
domains) hold for every carrier. The VALUE-level specifications are proved (i) over `Int` — the bool/int fragment,
where Python's arithmetic is exact and carrier-independent (`add_mul_ints_spec`, `mod_ints_spec`, `round_int_spec`,
`cmp_logic_sign_ints_spec`, `bitwise_spec`, `lut_nearest_spec` …) — and (ii) over the exact rational carrier `exactRat`
(`lawful_carrier_specs`, `time_spec`), i.e. for the function the float code approximates. For the binary64 carrier
(`Float`) NO value-level specification is proved here: Lean's `Float` is opaque to the logic, so for floats the
specification IS the model (`Model/Eval.lean` + `Model/Num.lean`, executed), and what ties it to the real code is the
bit-exact comparison of the correspondence check, not a Lean theorem.
-/
set_option linter.unusedSimpArgs false
namespace QtVerif.Eval.C02
open QtVerif.Eval QtVerif.Syntax QtVerif.Num

variable {α : Type} [PyFloat α]

/-! ## 1. Totality and coverage -/

/-- **Evaluation is total and the model covers the whole fragment.** `eval` is defined by structural recursion (Lean
accepted its termination), and on every well-formed expression — a port reference alone, or a tree of known
functions with accepted arities whose literals are literals — it yields one of the outcomes of the language
(value / port / unavailable / evaluation error / Python exception), never `outside`. -/
theorem eval_total_on_wellformed (e : Expr) (c : Ctx α) (h : wfTop c.lit e = true) : eval e c ≠ .outside := by
  intro ho
  cases e with
  | portRef id => simp only [eval, portRefValue] at ho; split at ho <;> cases ho
  | selfRef => simp only [eval, portRefValue] at ho; split at ho <;> cases ho
  | lit t => have := eval_inside (.lit t) c (by simpa [wfTop, isRef] using h); rw [ho] at this; exact this
  | portVal id => have := eval_inside (.portVal id) c rfl; rw [ho] at this; exact this
  | selfVal => have := eval_inside .selfVal c rfl; rw [ho] at this; exact this
  | call n args =>
    have := eval_inside (.call n args) c (by simpa [wfTop, isRef] using h); rw [ho] at this; exact this

/-- **Values stay in the value domain of the language**: the (repaired) evaluator never yields a complex number. -/
theorem eval_never_complex (e : Expr) (c : Ctx α) : eval e c ≠ .complexVal := by
  intro h; have := eval_real e c; rw [h] at this; exact this

/-! ## 2. Port lookup taxonomy: missing → error, disabled → error, enabled without value → unavailable -/

/-- `$id`: the registry is asked first, then the enabled flag, then the context snapshot. A context value of a
missing or disabled port is never looked at. -/
theorem port_lookup_taxonomy (id : String) (c : Ctx α) :
    (c.reg id = none → eval (.portVal id) c = .error .unknownPort) ∧
    (∀ p, c.reg id = some p → p.enabled = false → eval (.portVal id) c = .error .disabledPort) ∧
    (∀ p, c.reg id = some p → p.enabled = true → c.vals id = none → eval (.portVal id) c = .unavailable) ∧
    (∀ p v, c.reg id = some p → p.enabled = true → c.vals id = some v → eval (.portVal id) c = .val v) := by
  refine ⟨?_, ?_, ?_, ?_⟩
  · intro h; simp [eval, portValue, h]
  · intro p h he; simp [eval, portValue, h, he]
  · intro p h he hv; simp [eval, portValue, h, he, hv]
  · intro p v h he hv; simp [eval, portValue, h, he, hv]

/-- `$` (own value): in a transform it is the context value of the own port; in every other role it is the port's
live last-read value — with the same three-way taxonomy. -/
theorem self_value_taxonomy (c : Ctx α) :
    (c.role ∈ c.transformRoles → eval .selfVal c = eval (.portVal c.selfId) c) ∧
    (c.role ∉ c.transformRoles →
      (c.reg c.selfId = none → eval .selfVal c = .error .unknownPort) ∧
      (∀ p, c.reg c.selfId = some p → p.enabled = false → eval .selfVal c = .error .disabledPort) ∧
      (∀ p, c.reg c.selfId = some p → p.enabled = true → p.lastRead = none → eval .selfVal c = .unavailable) ∧
      (∀ p v, c.reg c.selfId = some p → p.enabled = true → p.lastRead = some v → eval .selfVal c = .val v)) := by
  refine ⟨?_, ?_⟩
  · intro h; simp [eval, selfValue, h]
  · intro h
    refine ⟨?_, ?_, ?_, ?_⟩
    · intro hr; simp [eval, selfValue, h, hr]
    · intro p hr he; simp [eval, selfValue, h, hr, he]
    · intro p hr he hl; simp [eval, selfValue, h, hr, he, hl]
    · intro p v hr he hl; simp [eval, selfValue, h, hr, he, hl]

/-- `@id` yields the port object, or an evaluation error if there is no such port (enabled or not is irrelevant). -/
theorem port_ref_taxonomy (id : String) (c : Ctx α) :
    (c.reg id = none → eval (.portRef id) c = .error .unknownPort) ∧
    (∀ p, c.reg id = some p → eval (.portRef id) c = .portObj id) := by
  constructor
  · intro h; simp [eval, portRefValue, h]
  · intro p h; simp [eval, portRefValue, h]

/-- Literals: `unavailable` is unavailable; a number is the float Python's `int()`/`float()` made of the text. -/
theorem literal_value (t : String) (c : Ctx α) :
    (c.lit t = .unavailable → eval (.lit t) c = .unavailable) ∧
    (∀ x, c.lit t = .num x → eval (.lit t) c = .val (.f x)) := by
  constructor
  · intro h; simp [eval, litValue, h]
  · intro x h; simp [eval, litValue, h]

/-! ## 3. Strict functions: eager arguments, first failing argument (in argument order) wins -/

/-- **First failing argument wins.** If the arguments before `a` evaluate to values and `a` does not, the call
fails exactly as `a` does (unavailable stays unavailable, an error stays that error) — whatever the later arguments
do and however deep `a` is. -/
theorem strict_first_failure (n : String) (pre post : List Expr) (a : Expr) (c : Ctx α)
    (hk : fnKind n = .strict) (hr : (pre ++ a :: post).any isRef = false)
    (hpre : ∀ x ∈ pre, (eval x c).isVal = true) (ha : (eval a c).isVal = false) :
    eval (.call n (pre ++ a :: post)) c = eval a c :=
  eval_strict_fail n pre post a c hk hr hpre ha

/-- If every argument evaluates to a value, the call is the function body applied to those values. -/
theorem strict_applies_to_values (n : String) (args : List Expr) (c : Ctx α) (vs : List (Val α))
    (hk : fnKind n = .strict) (hr : args.any isRef = false) (hv : evalArgs args c = vs.map Res.val) :
    eval (.call n args) c = applyFn true c.nowMs n vs :=
  eval_strict_vals n args c vs hk hr hv

/-- A strict call yields a value only if every one of its arguments does: "no value" always propagates. -/
theorem strict_value_needs_all_values (n : String) (args : List Expr) (c : Ctx α) (v : Val α)
    (hk : fnKind n = .strict) (hr : args.any isRef = false) (h : eval (.call n args) c = .val v) :
    ∀ a ∈ args, (eval a c).isVal = true :=
  eval_strict_val_only_if n args c v hk hr h

/-! ## 4. Laziness -/

/-- **IF** evaluates its condition, then only the selected branch: the other branch is irrelevant (it may be
unavailable, an error, a crash — anything), and a failing condition is the outcome. -/
theorem if_lazy (a b d : Expr) (c : Ctx α) (hr : [a, b, d].any isRef = false) :
    ((eval a c).truthyVal → eval (.call "IF" [a, b, d]) c = eval b c) ∧
    ((eval a c).falsyVal → eval (.call "IF" [a, b, d]) c = eval d c) ∧
    ((eval a c).isVal = false → eval (.call "IF" [a, b, d]) c = eval a c) := by
  rw [eval_if "IF" a b d c rfl hr]
  refine ⟨?_, ?_, ?_⟩
  · rintro ⟨v, hv, ht⟩; simp [ifSel, hv, ht]
  · rintro ⟨v, hv, ht⟩; simp [ifSel, hv, ht]
  · intro h; cases he : eval a c <;> simp_all [ifSel, Res.isVal]

/-- **AND** goes left to right and stops at the first argument that is not a truthy value: a falsy value gives 0,
a failure is the outcome; the arguments after it are irrelevant. -/
theorem and_short_circuit (pre post : List Expr) (a : Expr) (c : Ctx α)
    (hr : (pre ++ a :: post).any isRef = false) (hl : 2 ≤ (pre ++ a :: post).length)
    (hpre : ∀ x ∈ pre, (eval x c).truthyVal) :
    ((eval a c).falsyVal → eval (.call "AND" (pre ++ a :: post)) c = .val (.i 0)) ∧
    ((eval a c).isVal = false → eval (.call "AND" (pre ++ a :: post)) c = eval a c) := by
  rw [eval_and "AND" _ c rfl hr hl]
  exact evalAnd_decided pre post a c hpre

theorem and_all_true (args : List Expr) (c : Ctx α) (hr : args.any isRef = false) (hl : 2 ≤ args.length)
    (h : ∀ a ∈ args, (eval a c).truthyVal) : eval (.call "AND" args) c = .val (.i 1) := by
  rw [eval_and "AND" _ c rfl hr hl]; exact evalAnd_all_true args c h

/-- **OR**, dually: stops at the first truthy value (1) or failure. -/
theorem or_short_circuit (pre post : List Expr) (a : Expr) (c : Ctx α)
    (hr : (pre ++ a :: post).any isRef = false) (hl : 2 ≤ (pre ++ a :: post).length)
    (hpre : ∀ x ∈ pre, (eval x c).falsyVal) :
    ((eval a c).truthyVal → eval (.call "OR" (pre ++ a :: post)) c = .val (.i 1)) ∧
    ((eval a c).isVal = false → eval (.call "OR" (pre ++ a :: post)) c = eval a c) := by
  rw [eval_or "OR" _ c rfl hr hl]
  exact evalOr_decided pre post a c hpre

theorem or_all_false (args : List Expr) (c : Ctx α) (hr : args.any isRef = false) (hl : 2 ≤ args.length)
    (h : ∀ a ∈ args, (eval a c).falsyVal) : eval (.call "OR" args) c = .val (.i 0) := by
  rw [eval_or "OR" _ c rfl hr hl]; exact evalOr_all_false args c h

/-- **DEFAULT** evaluates its second argument only when the first is unavailable or an evaluation error; a Python
exception in the first argument is not caught. -/
theorem default_lazy (a b : Expr) (c : Ctx α) (hr : [a, b].any isRef = false) :
    ((eval a c).isEvalError = true → eval (.call "DEFAULT" [a, b]) c = eval b c) ∧
    ((eval a c).isEvalError = false → eval (.call "DEFAULT" [a, b]) c = eval a c) := by
  rw [eval_default "DEFAULT" a b c rfl hr]
  constructor
  · intro h; cases he : eval a c <;> simp_all [defaultSel, Res.isEvalError]
  · intro h; cases he : eval a c <;> simp_all [defaultSel, Res.isEvalError]

/-- **AVAILABLE is total over the "no value" outcomes**: it is never unavailable and never an evaluation error;
it is `true` exactly when its argument yields a value, `false` exactly when the argument is unavailable or an
evaluation error (unknown / disabled port, arithmetic error). -/
theorem available_total (a : Expr) (c : Ctx α) (hr : isRef a = false) :
    ((eval a c).isVal = true → eval (.call "AVAILABLE" [a]) c = .val (.b true)) ∧
    ((eval a c).isEvalError = true → eval (.call "AVAILABLE" [a]) c = .val (.b false)) ∧
    (eval (.call "AVAILABLE" [a]) c).isEvalError = false := by
  rw [eval_available "AVAILABLE" a c rfl hr]
  refine ⟨?_, ?_, ?_⟩ <;> cases he : eval a c <;> simp [availableOf, Res.isVal, Res.isEvalError]

/-! ## 5. Frame: evaluation depends only on what the expression names (used by C01) -/

/-- **Frame theorem.** Two contexts that agree on the registry entry and context value of every port id in
`portValueIds e` (the own port included when `$` occurs), on the clock if `e` calls TIME/TIMEMS, on the existence of
the port a top-level reference names, and on role / literal table, give the same outcome — whatever else differs
(other ports appearing, disappearing, changing value or state; the clock when it is not read). -/
theorem frame (e : Expr) (c c' : Ctx α)
    (h : AgreeOn (e.portValueIds c.selfId) (usesTime e) c c')
    (href : ∀ id ∈ refIds c.selfId e, (c.reg id).isSome = (c'.reg id).isSome) :
    eval e c = eval e c' := by
  cases e with
  | portRef id =>
    have := href id (by simp [refIds])
    simp only [eval, portRefValue]
    cases h1 : c.reg id <;> cases h2 : c'.reg id <;> simp_all
  | selfRef =>
    have := href c.selfId (by simp [refIds])
    simp only [eval, portRefValue, ← h.selfId]
    cases h1 : c.reg c.selfId <;> cases h2 : c'.reg c.selfId <;> simp_all
  | lit t => exact frame_aux _ c c' h rfl
  | portVal id => exact frame_aux _ c c' h rfl
  | selfVal => exact frame_aux _ c c' h rfl
  | call n args => exact frame_aux _ c c' h rfl

/-! ## 5b. Evaluation has no memory (context purity)

What is and what is NOT claimed here. The model's evaluator has the type `eval : Expr → Ctx α → Res α`: it is a pure
function of (expression, context), and that is a fact about the MODEL's type, true by construction. `Instance` is a
wrapper invented to phrase "the same parsed instance evaluated again and again": it threads a history `seen` through
`eval` and — by its definition — never reads it. `eval_has_no_memory` / `same_instance_equals_fresh_parse` therefore
only record that a wrapper that threads a history through a pure function cannot depend on that history; they are
bookkeeping, not a discovery, and they say nothing about the Python objects. The SUBSTANTIVE guarantee — the real
`Expression` instance (which does carry mutable state: cached argument lists, LUT tables …) behaves like this pure
function under re-evaluation — is established by the correspondence check, which evaluates one parsed instance under
several contexts and compares every outcome with `Instance.run`; it is NOT a Lean theorem. The statements with
mathematical content about "what an outcome may depend on" are `frame` (§5) and its corollary for re-evaluation,
`reevaluation_depends_only_on_footprint`, below. -/

/-- **Bookkeeping lemma (true by construction of the model).** Running the wrapper `Instance` over a sequence of
contexts yields, at every step, `eval e c` of that step's context alone. This holds because `Instance.step` is defined
as `eval i.expr c` plus an append to a history it never reads — i.e. because the model's `eval` is a pure function of
(expression, context). It is the Lean-side name of the reference behaviour that the "same instance under further
contexts" part of the correspondence check compares the real (stateful) instance with; the guarantee about the real
code comes from that comparison, not from this lemma. -/
theorem eval_has_no_memory (i : Instance α) (cs : List (Ctx α)) : i.run cs = cs.map (eval i.expr) := by
  induction cs generalizing i with
  | nil => rfl
  | cons c rest ih =>
    simp only [Instance.run, List.map]
    rw [ih]
    rfl

/-- Same remark: a direct consequence of `eval_has_no_memory`, hence of the purity of the model's `eval` — after ANY
earlier evaluations `before`, the wrapper's outcome under `c` is the one a fresh wrapper gives under `c`. For the real
code this is what the correspondence check tests (re-used instance vs. the model), not what Lean proves. -/
theorem same_instance_equals_fresh_parse (e : Expr) (before : List (Ctx α)) (c : Ctx α) :
    ((Instance.fresh e).run (before ++ [c])).getLast? = ((Instance.fresh e).run [c]).getLast? := by
  rw [eval_has_no_memory, eval_has_no_memory]
  simp [Instance.fresh]

/-- the hypothesis of `frame` for a pair of contexts -/
def SameFootprint (e : Expr) (c c' : Ctx α) : Prop :=
  AgreeOn (e.portValueIds c.selfId) (usesTime e) c c' ∧
  ∀ id ∈ refIds c.selfId e, (c.reg id).isSome = (c'.reg id).isSome

/-- **Re-evaluation depends only on the footprint** (the non-trivial companion; uses `frame`). Two sequences of
contexts (given as a list of pairs) that agree, step by step, on what the expression names (registry entry and value
of the ports in `portValueIds e`, the clock only if TIME/TIMEMS occurs, existence of a referenced port, role and
literal table) give the same sequence of outcomes — however the rest of the world (other ports, the clock when
unread) evolves between the evaluations. -/
theorem reevaluation_depends_only_on_footprint (e : Expr) (ps : List (Ctx α × Ctx α))
    (h : ∀ p ∈ ps, SameFootprint e p.1 p.2) :
    (Instance.fresh e).run (ps.map Prod.fst) = (Instance.fresh e).run (ps.map Prod.snd) := by
  rw [eval_has_no_memory, eval_has_no_memory]
  show (ps.map Prod.fst).map (eval e) = (ps.map Prod.snd).map (eval e)
  induction ps with
  | nil => rfl
  | cons p rest ih =>
    have hp := h p (List.mem_cons_self ..)
    simp only [List.map]
    rw [ih (fun q hq => h q (List.mem_cons_of_mem _ hq)), frame e _ _ hp.1 hp.2]

/-! ## 6. Domains: inputs outside a function's domain never yield a value -/

/-- DIV and MOD by a zero divisor (0, 0.0, -0.0, false) are an evaluation error. -/
theorem domain_div_mod_zero (ea eb : Expr) (c : Ctx α) (va vb : Val α) (hr : [ea, eb].any isRef = false)
    (ha : eval ea c = .val va) (hb : eval eb c = .val vb) (hz : truthy vb = false) :
    eval (.call "DIV" [ea, eb]) c = .error .arithmetic ∧ eval (.call "MOD" [ea, eb]) c = .error .arithmetic := by
  have hv : evalArgs [ea, eb] c = [va, vb].map Res.val := by simp [evalArgs, ha, hb]
  constructor
  · rw [eval_strict_vals "DIV" _ c _ rfl hr hv]
    show fnDiv [va, vb] = _
    simp [fnDiv, hz]
  · rw [eval_strict_vals "MOD" _ c _ rfl hr hv]
    show fnMod [va, vb] = _
    simp [fnMod, hz]

/-- POW outside the real domain (Python would return a complex number) is an evaluation error; POW never yields
anything but a real value, an arithmetic error or a Python exception. -/
theorem domain_pow_complex (ea eb : Expr) (c : Ctx α) (va vb : Val α) (hr : [ea, eb].any isRef = false)
    (ha : eval ea c = .val va) (hb : eval eb c = .val vb) (hc : vpow va vb = .complex) :
    eval (.call "POW" [ea, eb]) c = .error .arithmetic := by
  have hv : evalArgs [ea, eb] c = [va, vb].map Res.val := by simp [evalArgs, ha, hb]
  rw [eval_strict_vals "POW" _ c _ rfl hr hv]
  show fnPow true [va, vb] = _
  simp [fnPow, hc]

/-- A zero base raised to a negative power, and any overflow, are Python exceptions: no value. -/
theorem domain_pow_crash (ea eb : Expr) (c : Ctx α) (va vb : Val α) (k : Crash) (hr : [ea, eb].any isRef = false)
    (ha : eval ea c = .val va) (hb : eval eb c = .val vb) (hc : vpow va vb = .crash k) :
    eval (.call "POW" [ea, eb]) c = .crash k := by
  have hv : evalArgs [ea, eb] c = [va, vb].map Res.val := by simp [evalArgs, ha, hb]
  rw [eval_strict_vals "POW" _ c _ rfl hr hv]
  show fnPow true [va, vb] = _
  simp [fnPow, hc]

/-- SHL / SHR by a negative count never yield a value. -/
theorem domain_shift_negative (ea eb : Expr) (c : Ctx α) (x n : Int) (hr : [ea, eb].any isRef = false)
    (ha : eval ea c = .val (.i x)) (hb : eval eb c = .val (.i n)) (hn : n < 0) :
    eval (.call "SHL" [ea, eb]) c = .crash .valueErr ∧ eval (.call "SHR" [ea, eb]) c = .crash .valueErr := by
  have hv : evalArgs [ea, eb] c = [Val.i x, Val.i n].map Res.val := by simp [evalArgs, ha, hb]
  constructor
  · rw [eval_strict_vals "SHL" _ c _ rfl hr hv]
    show fnInt2 ishl [Val.i x, Val.i n] = _
    simp [fnInt2, intOp2, toInt, ishl, hn]
  · rw [eval_strict_vals "SHR" _ c _ rfl hr hv]
    show fnInt2 ishr [Val.i x, Val.i n] = _
    simp [fnInt2, intOp2, toInt, ishr, hn]

/-- FLOOR / CEIL / SGN / BITNOT of a float that has no integer conversion (NaN, ±inf in the binary64 carrier)
never yield a value: the conversion's exception is the outcome. -/
theorem domain_int_conversion (x : α) (k : Crash) (now : Int) :
    (PyFloat.floor x = .error k → applyFn true now "FLOOR" [.f x] = (.crash k : Res α)) ∧
    (PyFloat.ceil x = .error k → applyFn true now "CEIL" [.f x] = (.crash k : Res α)) ∧
    (PyFloat.trunc x = .error k → applyFn true now "SGN" [.f x] = (.crash k : Res α)) ∧
    (PyFloat.trunc x = .error k → applyFn true now "BITNOT" [.f x] = (.crash k : Res α)) := by
  refine ⟨?_, ?_, ?_, ?_⟩
  · intro h; show fnFloor [Val.f x] = _; simp [fnFloor, vfloor, h]
  · intro h; show fnCeil [Val.f x] = _; simp [fnCeil, vceil, h]
  · intro h; show fnSgn [Val.f x] = _; simp [fnSgn, toInt, h]
  · intro h; show fnBitNot [Val.f x] = _; simp [fnBitNot, toInt, h]

/-! ## 7. Per-function specifications -/

/-- **ADD = Σ** on bools/ints, exactly, whatever path CPython's `sum()` takes (C-long fast path, overflow into
big integers); **MUL = Π**. -/
theorem add_mul_ints_spec (vs : List (Val α)) (now : Int) (h2 : 2 ≤ vs.length)
    (h : ∀ v ∈ vs, v.int?.isSome = true) :
    applyFn true now "ADD" vs = .val (.i ((vs.map intOf).sum)) ∧
    applyFn true now "MUL" vs = .val (.i ((vs.map intOf).foldl (· * ·) 1)) := by
  constructor
  · show fnAdd vs = _
    match vs, h2, h with
    | a :: b :: rest, _, h => simp only [fnAdd, pySum_ints _ h, ofExcept]
  · show fnMul vs = _
    match vs, h2, h with
    | a :: b :: rest, _, h =>
      simp only [fnMul, mulFold]
      rw [mulFold_ints_aux _ h 1]; simp

/-- **MOD** on ints is floor-mod: `a = b·q + r` and the remainder takes the divisor's sign. -/
theorem mod_ints_spec (a b : Int) (now : Int) (hb : b ≠ 0) :
    ∃ r q : Int, applyFn true now "MOD" [.i a, .i b] = (.val (.i r) : Res α) ∧ b * q + r = a ∧
      (0 < b → 0 ≤ r ∧ r < b) ∧ (b < 0 → b < r ∧ r ≤ 0) := by
  refine ⟨a.fmod b, a.fdiv b, ?_, (fmod_spec a b hb).1, (fmod_spec a b hb).2.1, (fmod_spec a b hb).2.2⟩
  show fnMod [Val.i a, Val.i b] = _
  have h0 : ∀ n : Int, (Val.i n : Val α).int? = some n := fun _ => rfl
  simp [fnMod, truthy, hb, vmod, h0, ofExcept]

/-- **MIN returns an argument that no argument is smaller than; MAX one that no argument is larger than** —
for arguments on which `<` is a strict weak order (always on bools/ints; on floats in the absence of NaN). -/
theorem min_max_spec (a b : Val α) (rest : List (Val α)) (now : Int) (w : WeakOrderOn (a :: b :: rest)) :
    (∃ m ∈ a :: b :: rest, applyFn true now "MIN" (a :: b :: rest) = .val m ∧
      ∀ x ∈ a :: b :: rest, vlt x m = false) ∧
    (∃ m ∈ a :: b :: rest, applyFn true now "MAX" (a :: b :: rest) = .val m ∧
      ∀ x ∈ a :: b :: rest, vlt m x = false) := by
  constructor
  · obtain ⟨h1, h2, h3⟩ := minFold_spec _ w (b :: rest) a (by simp) (fun x hx => List.mem_cons_of_mem _ hx)
    refine ⟨minFold a (b :: rest), h1, rfl, ?_⟩
    intro x hx
    rcases List.mem_cons.mp hx with h | h
    · rw [h]; exact h2
    · exact h3 x h
  · obtain ⟨h1, h2, h3⟩ := maxFold_spec _ w (b :: rest) a (by simp) (fun x hx => List.mem_cons_of_mem _ hx)
    refine ⟨maxFold a (b :: rest), h1, rfl, ?_⟩
    intro x hx
    rcases List.mem_cons.mp hx with h | h
    · rw [h]; exact h2
    · exact h3 x h

/-- On bools/ints the order laws hold for every carrier: MIN/MAX are exact there. -/
theorem min_max_ints_lawful (S : List (Val α)) (h : ∀ v ∈ S, v.int?.isSome = true) : WeakOrderOn S :=
  weakOrderOn_ints S h

/-- **LUT returns the y of a point nearest to x** (integer points; any number of points, in any order, equal x's
allowed; below the first / above the last point it clamps, which is again the nearest point). -/
theorem lut_nearest_spec (x : Int) (pts : List (Val α × Val α)) (hk : IntKeys pts) (hne : pts ≠ []) :
    ∃ p ∈ pts, lut (.i x) pts = .val p.2 ∧ ∀ q ∈ pts, idist x (keyI p) ≤ idist x (keyI q) :=
  lut_nearest x pts hk hne

/-- SpecChoice recorded from the code: **an exact tie goes to the upper point**. -/
theorem lut_tie_upper (x a b : Int) (ya yb : Val α) (now : Int) (hab : a < b) (ht : x - a = b - x) :
    applyFn true now "LUT" [.i x, .i a, ya, .i b, yb] = .val yb := by
  show fnLut [Val.i x, Val.i a, ya, Val.i b, yb] = _
  have h1 : ¬ b < a := by omega
  have h2 : ¬ x < a := by omega
  have h3 : ¬ b < x := by omega
  have h4 : ¬ x - a < b - x := by omega
  simp [fnLut, pairUp, lut, sortPts, insertPt, vlt_i, h1, h2, lutGo, vgt, h3, vsub_i, h4]

/-- **ROUND(int, -k)** is the nearest multiple of 10^k, ties to the even multiple. -/
theorem round_int_spec (n : Int) (k : Nat) (now : Int) (hk : 0 < k) :
    ∃ q : Int, applyFn true now "ROUND" [.i n, .i (-(k : Int))] = (.val (.i (q * (10 ^ k : Nat))) : Res α) ∧
      2 * (n - q * (10 ^ k : Nat)) ≤ (10 ^ k : Nat) ∧ -((10 ^ k : Nat) : Int) ≤ 2 * (n - q * (10 ^ k : Nat)) ∧
      ((2 * (n - q * (10 ^ k : Nat)) = (10 ^ k : Nat) ∨ 2 * (n - q * (10 ^ k : Nat)) = -((10 ^ k : Nat) : Int)) → q % 2 = 0) := by
  obtain ⟨q, h1, h2, h3, h4⟩ := roundIntTo_spec n (10 ^ k) (Nat.pow_pos (by omega))
  refine ⟨q, ?_, h2, h3, h4⟩
  show fnRound [Val.i n, Val.i (-(k : Int))] = _
  have hneg : ¬ (0 : Int) ≤ -(k : Int) := by omega
  have h0 : (Val.i n : Val α).int? = some n := rfl
  simp only [fnRound, toInt, vround, h0, ge_iff_le, hneg, if_false, ofExcept, Int.neg_neg, Int.toNat_natCast]
  rw [h1]

/-- Comparisons, logic and sign on bools/ints are the mathematical ones (0/1 results). -/
theorem cmp_logic_sign_ints_spec (a b : Int) (now : Int) :
    applyFn true now "EQ" [.i a, .i b] = (.val (.i (if a = b then 1 else 0)) : Res α) ∧
    applyFn true now "LT" [.i a, .i b] = (.val (.i (if a < b then 1 else 0)) : Res α) ∧
    applyFn true now "LTE" [.i a, .i b] = (.val (.i (if a ≤ b then 1 else 0)) : Res α) ∧
    applyFn true now "GT" [.i a, .i b] = (.val (.i (if b < a then 1 else 0)) : Res α) ∧
    applyFn true now "GTE" [.i a, .i b] = (.val (.i (if b ≤ a then 1 else 0)) : Res α) ∧
    applyFn true now "NOT" [.i a] = (.val (.i (if a = 0 then 1 else 0)) : Res α) ∧
    applyFn true now "XOR" [.i a, .i b] = (.val (.i (if (a = 0) ≠ (b = 0) then 1 else 0)) : Res α) ∧
    applyFn true now "SGN" [.i a] = (.val (.i (if a > 0 then 1 else if a < 0 then -1 else 0)) : Res α) ∧
    applyFn true now "ABS" [.i a] = (.val (.i (if a < 0 then -a else a)) : Res α) ∧
    applyFn true now "BITNOT" [.i a] = (.val (.i (-a - 1)) : Res α) := by
  refine ⟨?_, ?_, ?_, ?_, ?_, ?_, ?_, ?_, ?_, ?_⟩
  · show fnCmp veq [Val.i a, Val.i b] = _; simp [fnCmp, veq, Val.num, boolInt]
  · show fnCmp vlt [Val.i a, Val.i b] = _; simp [fnCmp, vlt, Val.num, boolInt]
  · show fnCmp vle [Val.i a, Val.i b] = _; simp [fnCmp, vle, Val.num, boolInt]
  · show fnCmp vgt [Val.i a, Val.i b] = _; simp [fnCmp, vgt, vlt, Val.num, boolInt]
  · show fnCmp vge [Val.i a, Val.i b] = _; simp [fnCmp, vge, vle, Val.num, boolInt]
  · show fnNot [Val.i a] = _
    by_cases h : a = 0 <;> simp [fnNot, truthy, boolInt, h]
  · show fnXor [Val.i a, Val.i b] = _
    by_cases h : a = 0 <;> by_cases h' : b = 0 <;> simp [fnXor, truthy, boolInt, h, h']
  · show fnSgn [Val.i a] = _; simp [fnSgn, toInt]
  · show fnAbs [Val.i a] = _; simp [fnAbs, vabs]
  · show fnBitNot [Val.i a] = _; simp [fnBitNot, toInt, inot]

/-- ONOFFAUTO: positive → true, negative → false, zero → the auto value (here on an int selector). -/
theorem onoffauto_spec (s : Int) (auto : Val α) (now : Int) :
    applyFn true now "ONOFFAUTO" [.i s, auto] =
      (if s > 0 then .val (.b true) else if s < 0 then .val (.b false) else .val auto : Res α) := by
  show fnOnOffAuto [Val.i s, auto] = _
  by_cases h1 : 0 < s
  · simp [fnOnOffAuto, vgt, vlt, Val.num, h1]
  · by_cases h2 : s < 0
    · simp [fnOnOffAuto, vgt, vlt, Val.num, h1, h2]
    · simp [fnOnOffAuto, vgt, vlt, Val.num, h1, h2]

/-- On every carrier: TIMEMS is the context's clock (an `int`, no float involved), and TIME is `int(now_ms / 1000)`
computed with the carrier's primitives — true division of ints (`intDiv`), then truncation (`trunc`). The second
conjunct is the definitional unfolding of the model; its arithmetic content is `time_spec`. -/
theorem time_on_any_carrier (c : Ctx α) :
    eval (.call "TIMEMS" []) c = .val (.i c.nowMs) ∧
    eval (.call "TIME" []) c =
      (match PyFloat.intDiv (α := α) c.nowMs 1000 with
       | none => .crash .overflow
       | some x => match PyFloat.trunc x with
         | .error k => .crash k
         | .ok n => .val (.i n)) := by
  constructor <;> rfl

/-- **TIME is the clock in whole seconds, TIMEMS the clock in milliseconds** (exact carrier). TIMEMS yields `nowMs`.
TIME yields the integer `q` with `q·1000 ≤ nowMs < (q+1)·1000` for a clock `0 ≤ nowMs` — the number of completed
seconds. For a negative clock the model follows Python's `int(now_ms / 1000)`, which truncates TOWARD ZERO (not the
floor): `q ≤ 0` and `(q−1)·1000 < nowMs ≤ q·1000`. In both cases `q = Int.tdiv nowMs 1000`. (Binary64 carrier: the
true division rounds to nearest before the truncation, so the same holds as long as `now_ms / 1000` is not rounded up
to the next integer, i.e. far beyond any real clock value, |nowMs| < 2^53; that side is covered by the correspondence
check, see "Scope" in the header.) -/
theorem time_spec :
    letI := exactRat
    ∀ c : Ctx Rat,
      eval (.call "TIMEMS" []) c = .val (.i c.nowMs) ∧
      ∃ q : Int, eval (.call "TIME" []) c = .val (.i q) ∧ q = Int.tdiv c.nowMs 1000 ∧
        (0 ≤ c.nowMs → q * 1000 ≤ c.nowMs ∧ c.nowMs < (q + 1) * 1000) ∧
        (c.nowMs < 0 → (q - 1) * 1000 < c.nowMs ∧ c.nowMs ≤ q * 1000 ∧ q ≤ 0) := by
  intro c
  refine ⟨rfl, Int.tdiv c.nowMs 1000, ?_, rfl, (tdiv_1000_bounds c.nowMs).1, (tdiv_1000_bounds c.nowMs).2⟩
  show @timestamp Rat exactRat c.nowMs = _
  simp only [timestamp, PyFloat.intDiv, PyFloat.trunc]
  rw [ratTrunc_intDiv c.nowMs 1000 (by omega)]

/-- **The table sort of LUT / LUTLI** (`points.sort(key=lambda p: p[0])` as the model performs it) returns a
permutation of the table (every carrier, no hypothesis), sorted by x and stable — points with equivalent x's keep
their table order, which is what decides the y on equal x's — whenever `<` is a strict weak order on the x's
(always on bools/ints, on floats without NaN). -/
theorem table_sort_sorted_stable_perm (l : List (Pt α)) :
    (sortPts l).Perm l ∧
    (WeakOrderOn (l.map (·.1)) → SortedPts (sortPts l)) ∧
    (∀ r : Val α, WeakOrderOn (r :: l.map (·.1)) →
      (sortPts l).filter (fun q => sameKey r q.1) = l.filter (fun q => sameKey r q.1)) :=
  ⟨sortPts_perm l, sortPts_sorted l, fun r w => sortPts_stable l r w⟩

/-- Over the exact rational carrier (a lawful ordered field), for ANY number of arguments / table points:
* **DIV is exact**;
* **AVG is Σ/n and lies between MIN and MAX** of its arguments (`sum()`'s Neumaier compensation stays 0);
* **LUTLI is the piecewise-linear interpolation of its table** (any order, equal x's allowed): left of the table the
  y of a point with the smallest x, right of it the y of a point with the largest x (clamping), inside the linear
  interpolation between two table points bracketing x with no table point strictly between them — the first one's y
  on a vertical segment — and it lies between their y's. -/
theorem lawful_carrier_specs :
    letI := exactRat
    (∀ (a b : Rat) (now : Int), b ≠ 0 → ∃ q : Rat, applyFn true now "DIV" [.f a, .f b] = .val (.f q) ∧ q * b = a) ∧
    (∀ (x y : Rat) (rest : List Rat) (now : Int), ∃ lo hi m : Rat,
      applyFn true now "MIN" ((x :: y :: rest).map Val.f) = .val (.f lo) ∧
      applyFn true now "MAX" ((x :: y :: rest).map Val.f) = .val (.f hi) ∧
      applyFn true now "AVG" ((x :: y :: rest).map Val.f) = .val (.f m) ∧
      lo ∈ x :: y :: rest ∧ hi ∈ x :: y :: rest ∧ (∀ v ∈ x :: y :: rest, lo ≤ v ∧ v ≤ hi) ∧
      m * ((x :: y :: rest).length : Rat) = (x :: y :: rest).sum ∧ lo ≤ m ∧ m ≤ hi) ∧
    (∀ (x : Rat) (p0 p1 : Rat × Rat) (more : List (Rat × Rat)) (now : Int),
      ∃ y : Rat, applyFn true now "LUTLI" (Val.f x :: flatPts (p0 :: p1 :: more)) = .val (.f y) ∧
        (((∀ r ∈ p0 :: p1 :: more, x < r.1) ∧ ∃ p ∈ p0 :: p1 :: more, y = p.2 ∧ ∀ r ∈ p0 :: p1 :: more, p.1 ≤ r.1) ∨
         ((∀ r ∈ p0 :: p1 :: more, r.1 < x) ∧ ∃ p ∈ p0 :: p1 :: more, y = p.2 ∧ ∀ r ∈ p0 :: p1 :: more, r.1 ≤ p.1) ∨
         (∃ p ∈ p0 :: p1 :: more, ∃ q ∈ p0 :: p1 :: more, p.1 ≤ x ∧ x ≤ q.1 ∧
            (∀ r ∈ p0 :: p1 :: more, r.1 ≤ p.1 ∨ q.1 ≤ r.1) ∧
            (p.1 = q.1 → y = p.2) ∧ (p.1 < q.1 → y = p.2 + (q.2 - p.2) * (x - p.1) / (q.1 - p.1)) ∧
            min p.2 q.2 ≤ y ∧ y ≤ max p.2 q.2))) := by
  refine ⟨rat_div_exact, rat_avg_between, ?_⟩
  intro x p0 p1 more now
  rw [applyFn_lutli_flat]
  exact lutli_rat_spec x (p0 :: p1 :: more) (by simp)

/-- **Bitwise functions on Python ints are the two's-complement ones.** The model computes `&`, `|`, `^` by hand on
`Int` (core Lean has no `Int.land` / `lor` / `xor`); `ibit n k` is bit `k` of the infinite two's-complement
representation of `n`. BITAND / BITOR / BITXOR / BITNOT act bit by bit; SHL is multiplication by `2^k` (core `<<<`),
SHR the floor of the division by `2^k` (core `>>>`). -/
theorem bitwise_spec (a b : Int) (now : Int) :
    (∃ r, applyFn true now "BITAND" [.i a, .i b] = (.val (.i r) : Res α) ∧ ∀ k, ibit r k = (ibit a k && ibit b k)) ∧
    (∃ r, applyFn true now "BITOR" [.i a, .i b] = (.val (.i r) : Res α) ∧ ∀ k, ibit r k = (ibit a k || ibit b k)) ∧
    (∃ r, applyFn true now "BITXOR" [.i a, .i b] = (.val (.i r) : Res α) ∧ ∀ k, ibit r k = (ibit a k ^^ ibit b k)) ∧
    (∃ r, applyFn true now "BITNOT" [.i a] = (.val (.i r) : Res α) ∧ ∀ k, ibit r k = !(ibit a k)) ∧
    (0 ≤ b → applyFn true now "SHL" [.i a, .i b] = (.val (.i (a * 2 ^ b.toNat)) : Res α) ∧ a * 2 ^ b.toNat = a <<< b.toNat) ∧
    (0 ≤ b → ∃ q, applyFn true now "SHR" [.i a, .i b] = (.val (.i q) : Res α) ∧ q = a >>> b.toNat ∧
        q * 2 ^ b.toNat ≤ a ∧ a < (q + 1) * 2 ^ b.toNat) := by
  refine ⟨⟨iand a b, ?_, iand_bit a b⟩, ⟨ior a b, ?_, ior_bit a b⟩, ⟨ixor a b, ?_, ixor_bit a b⟩,
    ⟨inot a, ?_, inot_bit a⟩, ?_, ?_⟩
  · show (fnInt2 (fun x y => Except.ok (iand (iand (-1) x) y)) [Val.i a, Val.i b] : Res α) = _
    simp [fnInt2, intOp2, toInt, iand_neg_one]
  · show (fnInt2 (fun x y => Except.ok (ior (ior 0 x) y)) [Val.i a, Val.i b] : Res α) = _
    simp [fnInt2, intOp2, toInt, ior_zero]
  · show (fnInt2 (fun x y => Except.ok (ixor x y)) [Val.i a, Val.i b] : Res α) = _
    simp [fnInt2, intOp2, toInt]
  · show fnBitNot [Val.i a] = _
    simp [fnBitNot, toInt]
  · intro hb
    have : ¬ b < 0 := by omega
    refine ⟨?_, (Int.shiftLeft_eq a b.toNat).symm⟩
    show fnInt2 ishl [Val.i a, Val.i b] = _
    simp [fnInt2, intOp2, toInt, ishl, this]
  · intro hb
    obtain ⟨q, hq, h1, h2⟩ := ishr_floor a b hb
    have hq' := ishr_eq a b hb
    rw [hq] at hq'
    refine ⟨q, ?_, by injection hq', h1, h2⟩
    show fnInt2 ishr [Val.i a, Val.i b] = _
    simp [fnInt2, intOp2, toInt, hq]

/-! Nothing of the former `lawfulCarrierSpecsFull` is left unproved. Not stated as theorems: ROUND(x, n) and POW on
floats, LUT on non-integer keys — `round`/`pow` are primitives of the carrier (in the binary64 instance computed on
decoded bits resp. by libm, opaque to Lean's logic); they are compared bit-exactly with the real code by the
correspondence check. -/

/-! ## 8. The code as found at the pinned commit violates the property (repaired by fixes/C02-*.diff) -/

/-- Witness context: port `b` is enabled and has no value; `zz` does not exist. -/
def witnessCtx : Ctx α :=
  { reg := fun id => if id = "b" then some ⟨true, none⟩ else none,
    vals := fun _ => none, nowMs := 0, selfId := "b", role := 1, transformRoles := [2, 3],
    lit := fun _ => .num PyFloat.zero }

/-- `ADD(ADD($b, 1), $zz)` -/
def witnessExpr : Expr := .call "ADD" [.call "ADD" [.portVal "b", .lit "1"], .portVal "zz"]

/-- **The unrepaired `eval_args` (asyncio.gather) does not report the first failing argument**: in
`ADD(ADD($b, 1), $zz)` the first argument is unavailable (it fails three event-loop iterations later than the
second), yet the call reports the SECOND argument's error — unknown port — so a port carrying the expression keeps
its value instead of becoming unavailable. The repaired evaluator reports unavailable. -/
theorem unrepaired_first_failure_violated :
    (evalU (.call "ADD" [.portVal "b", .lit "1"]) (witnessCtx (α := α))).1 = .unavailable ∧
    (evalU witnessExpr (witnessCtx (α := α))).1 = .error .unknownPort ∧
    eval witnessExpr (witnessCtx (α := α)) = .unavailable :=
  ⟨rfl, rfl, rfl⟩

/-- **The unrepaired POW leaves the value domain**: wherever Python's `**` returns a complex number (negative base,
non-integral exponent) the code as found YIELDS it as the expression's value; the repaired code raises an arithmetic
error. -/
theorem unrepaired_pow_yields_complex (va vb : Val α) (now : Int) (hc : vpow va vb = .complex) :
    applyFn false now "POW" [va, vb] = .complexVal ∧ applyFn true now "POW" [va, vb] = .error .arithmetic := by
  constructor
  · show fnPow false [va, vb] = _; simp [fnPow, hc]
  · show fnPow true [va, vb] = _; simp [fnPow, hc]

/-! ## Non-vacuity: concrete instances (exact rational carrier, kernel evaluation) -/
section examples
attribute [local instance] exactRat

def exLit (t : String) : LitDen Rat :=
  if t = "0.1" then .num (1/10) else if t = "0.2" then .num (2/10) else if t = "0.3" then .num (3/10)
  else if t = "0" then .num 0 else if t = "1" then .num 1 else if t = "2" then .num 2 else if t = "2.5" then .num (5/2)
  else if t = "-1" then .num (-1) else if t = "0.5" then .num (1/2) else if t = "unavailable" then .unavailable
  else .invalid

/-- a: enabled, value 3 (last read 7); b: enabled, no value; c: disabled (context value 9); zz: missing -/
def exCtx : Ctx Rat :=
  { reg := fun id => if id = "a" then some ⟨true, some (.i 7)⟩ else if id = "b" then some ⟨true, none⟩
                      else if id = "c" then some ⟨false, some (.i 9)⟩ else none,
    vals := fun id => if id = "a" then some (.i 3) else if id = "c" then some (.i 9) else none,
    nowMs := 1999, selfId := "a", role := 1, transformRoles := [2, 3], lit := exLit }

-- the model computes what the reference says on an exact carrier
example : eval (.call "ADD" [.lit "0.1", .lit "0.2", .lit "0.3"]) exCtx = .val (.f (3/5)) := by decide +kernel
example : eval (.call "ROUND" [.lit "2.5"]) exCtx = .val (.f 2) := by decide +kernel
example : eval (.call "TIME" []) exCtx = .val (.i 1) := by decide +kernel
example : eval (.call "ADD" [.portVal "a", .selfVal]) exCtx = .val (.i 10) := by decide +kernel
example : eval (.call "LUT" [.lit "2", .lit "1", .lit "0.1", .lit "2.5", .lit "0.2"]) exCtx = .val (.f (2/10)) := by
  decide +kernel
-- taxonomy and laziness hypotheses are met by concrete trees
example : eval (.portVal "zz") exCtx = .error .unknownPort ∧ eval (.portVal "c") exCtx = .error .disabledPort ∧
    eval (.portVal "b") exCtx = .unavailable ∧ eval (.portVal "a") exCtx = .val (.i 3) := by decide +kernel
example : (eval (.lit "1") exCtx).truthyVal := ⟨.f 1, by decide +kernel, by decide +kernel⟩
example : eval (.call "IF" [.lit "1", .portVal "a", .portVal "zz"]) exCtx = .val (.i 3) := by decide +kernel
example : eval (.call "AND" [.lit "1", .lit "0", .portVal "zz"]) exCtx = .val (.i 0) := by decide +kernel
example : eval (.call "OR" [.lit "0", .portVal "b", .lit "1"]) exCtx = .unavailable := by decide +kernel
example : eval (.call "DEFAULT" [.portVal "c", .lit "2.5"]) exCtx = .val (.f (5/2)) := by decide +kernel
example : eval (.call "AVAILABLE" [.portVal "zz"]) exCtx = .val (.b false) := by decide +kernel
-- first failing argument; domains
example : eval (.call "ADD" [.call "ADD" [.portVal "b", .lit "1"], .portVal "zz"]) exCtx = .unavailable := by
  decide +kernel
example : eval (.call "DIV" [.lit "1", .lit "0"]) exCtx = .error .arithmetic := by decide +kernel
example : vpow (.f (-1 : Rat)) (.f (1/2)) = .complex := by decide +kernel
example : eval (.call "POW" [.lit "-1", .lit "0.5"]) exCtx = .error .arithmetic := by decide +kernel
example : eval (.call "POW" [.lit "0", .lit "-1"]) exCtx = .crash .zeroDiv := by decide +kernel
-- well-formedness is decidable and met
example : wfTop exCtx.lit (.call "LUT" [.lit "2", .lit "1", .lit "0.1", .lit "2.5", .lit "0.2"]) = true := by
  decide +kernel
-- the frame hypothesis is met by two contexts that differ on an unrelated port and on the clock
example : AgreeOn ((Expr.call "ADD" [.portVal "a", .lit "1"]).portValueIds "a") (usesTime (.call "ADD" [.portVal "a", .lit "1"]))
    exCtx { exCtx with nowMs := 5, vals := fun id => if id = "zz" then some (.i 1) else exCtx.vals id } :=
  ⟨rfl, rfl, rfl, fun _ => rfl, by intro id hid; simp [Expr.portValueIds, argsPortValueIds] at hid; subst hid; exact ⟨rfl, rfl⟩,
   by intro h; simp [usesTime, argsUseTime] at h⟩
-- … hence the hypothesis of `reevaluation_depends_only_on_footprint` is met by a non-empty list of pairs, and the
-- two runs (unrelated port `zz` appearing, clock moving) really are the same non-trivial sequence
example : ∀ p ∈ [(exCtx, { exCtx with nowMs := 5, vals := fun id => if id = "zz" then some (.i 1) else exCtx.vals id })],
    SameFootprint (.call "ADD" [.portVal "a", .lit "1"]) p.1 p.2 := by
  intro p hp
  simp only [List.mem_singleton] at hp
  subst hp
  exact ⟨⟨rfl, rfl, rfl, fun _ => rfl,
    by intro id hid; simp [Expr.portValueIds, argsPortValueIds] at hid; subst hid; exact ⟨rfl, rfl⟩,
    by intro h; simp [usesTime, argsUseTime] at h⟩, by intro id hid; simp [refIds] at hid⟩
example : (Instance.fresh (.call "ADD" [.portVal "a", .lit "1"])).run
      [{ exCtx with nowMs := 5, vals := fun id => if id = "zz" then some (.i 1) else exCtx.vals id }]
    = [.val (.f 4)] := by decide +kernel
-- TIME: whole seconds; truncation toward zero on a negative clock (floor would give -2); TIMEMS
example : eval (.call "TIME" []) { exCtx with nowMs := -1999 } = .val (.i (-1)) ∧
    eval (.call "TIME" []) { exCtx with nowMs := 2000 } = .val (.i 2) ∧
    eval (.call "TIMEMS" []) exCtx = .val (.i 1999) := by decide +kernel
-- order laws on a mixed bool/int list; integer points for LUT
example : WeakOrderOn ([.b true, .i 3, .i (-2)] : List (Val Rat)) := weakOrderOn_ints _ (by decide +kernel)
example : IntKeys ([(.i 1, .f (1/10)), (.i 9, .f 2)] : List (Val Rat × Val Rat)) := by
  intro p hp; simp at hp; rcases hp with h | h <;> subst h <;> exact ⟨_, rfl⟩

-- hypotheses of the strictness / domain / specification theorems are met
example : (eval (.lit "1") exCtx).isVal = true ∧ (eval (.portVal "b") exCtx).isVal = false ∧
    fnKind "ADD" = .strict ∧ ([Expr.lit "1"] ++ Expr.portVal "b" :: [Expr.portVal "zz"]).any isRef = false := by
  decide +kernel
example : eval (.call "MIN" [.lit "1", .portVal "b", .portVal "zz"]) exCtx = .unavailable := by decide +kernel
example : evalArgs [.lit "1", .portVal "a"] exCtx = [Val.f (1 : Rat), Val.i 3].map Res.val := by decide +kernel
example : eval (.lit "0") exCtx = .val (.f 0) ∧ truthy (Val.f (0 : Rat)) = false := by decide +kernel
example : vpow (.f (0 : Rat)) (.f (-1)) = .crash .zeroDiv := by decide +kernel
example : eval (.call "SHL" [.portVal "a", .call "SUB" [.portVal "a", .portVal "a"]]) exCtx = .val (.i 3) := by
  decide +kernel
example : (eval (.call "SUB" [.call "SUB" [.portVal "a", .portVal "a"], .portVal "a"]) exCtx) = .val (.i (-3)) := by
  decide +kernel
example : ∃ (inst : PyFloat Rat) (x : Rat) (k : Crash), inst.floor x = .error k :=
  ⟨{ exactRat with floor := fun _ => .error .valueErr }, 0, .valueErr, rfl⟩
example : ∀ v ∈ ([.b true, .i 3, .i (-2)] : List (Val Rat)), v.int?.isSome = true := by decide +kernel
example : (1 : Int) < 9 ∧ (5 : Int) - 1 = 9 - 5 := by decide
example : applyFn true 0 "LUT" [.i 5, .i 1, .f (1/10 : Rat), .i 9, .f 2] = .val (.f 2) := by decide +kernel
example : applyFn true 0 "ROUND" [.i 25, .i (-1)] = (.val (.i 20) : Res Rat) ∧
    applyFn true 0 "ROUND" [.i 35, .i (-1)] = (.val (.i 40) : Res Rat) := by decide +kernel
example : applyFn true 0 "MOD" [.i (-7), .i 3] = (.val (.i 2) : Res Rat) ∧
    applyFn true 0 "MOD" [.i 7, .i (-3)] = (.val (.i (-2)) : Res Rat) := by decide +kernel
-- one instance, three contexts: the lookup table's y (port a) changes while the x's stay
example : (Instance.fresh (.call "LUT" [.lit "2", .lit "1", .portVal "a", .lit "2.5", .lit "0.2"])).run
      [exCtx, { exCtx with vals := fun id => if id = "a" then some (.i 8) else none }, exCtx]
    = [.val (.f (2/10)), .val (.f (2/10)), .val (.f (2/10))] := by decide +kernel
example : (Instance.fresh (.call "LUT" [.lit "1", .lit "1", .portVal "a", .lit "2.5", .lit "0.2"])).run
      [exCtx, { exCtx with vals := fun id => if id = "a" then some (.i 8) else none },
       { exCtx with vals := fun _ => none }]
    = [.val (.i 3), .val (.i 8), .unavailable] := by decide +kernel
-- n-ary AVG and an unsorted 3-point LUTLI table with an equal x, on the exact carrier
example : applyFn true 0 "AVG" ([1, 2, 6, 3].map Val.f : List (Val Rat)) = .val (.f 3) := by decide +kernel
example : applyFn true 0 "LUTLI" (Val.f (4 : Rat) :: flatPts [(5, 20), (1, 10), (5, 99), (9, 40)]) = .val (.f (35/2)) := by
  decide +kernel
example : applyFn true 0 "LUTLI" (Val.f (7 : Rat) :: flatPts [(5, 20), (1, 10), (5, 99), (9, 40)]) = .val (.f (139/2)) := by
  decide +kernel
example : WeakOrderOn ([.f (1/2 : Rat), .f 3, .f (-2)] : List (Val Rat)) :=
  weakOrderOn_ratFloats _ (by intro v hv; simp at hv; rcases hv with h | h | h <;> exact ⟨_, h⟩)
example : applyFn true 0 "BITAND" [.i (-6), .i 11] = (.val (.i 10) : Res Rat) ∧
    applyFn true 0 "BITOR" [.i (-6), .i 3] = (.val (.i (-5)) : Res Rat) ∧
    applyFn true 0 "BITXOR" [.i (-6), .i 3] = (.val (.i (-7)) : Res Rat) ∧
    applyFn true 0 "SHR" [.i (-7), .i 1] = (.val (.i (-4)) : Res Rat) := by decide +kernel
-- the code as found on the witness, and the repaired evaluator, on the exact carrier
example : (evalU witnessExpr (witnessCtx (α := Rat))) = (.error .unknownPort, 3) := by decide +kernel
example : applyFn false 0 "POW" [.f (-1 : Rat), .f (1/2)] = .complexVal := by decide +kernel

end examples

end QtVerif.Eval.C02
