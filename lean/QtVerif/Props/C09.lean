import QtVerif.Proofs.Access
/-!
C09 — Every API function enforces its minimum access level.

Property theorems only. Model: `QtVerif/Model/Access.lean` (routing table, handlers, `prepare`, `call_api_func`,
the `api_call` decorator). Spec: `QtVerif/Proofs/AccessSpec.lean` (`classify`, `specLevel`: the levels the
property statement assigns). Helper lemmas: `QtVerif/Proofs/Access.lean`.

All theorems quantify over every feature configuration `f : Features` (2^13), every request path (any list of
segments — not only the paths of the table), every HTTP method (including tokens tornado does not support),
every kind of caller and every body state. The finite part (the table rows) is discharged by `decide +kernel`
and lifted by `mem_allRoutes` / `mem_allMethods`.

Reading of the statement where the code makes a choice (recorded, not a finding):
 * for POST/PATCH/PUT `call_api_func` checks Content-Type and parses the JSON body BEFORE the API function and
   its level check, so a lower-level caller that sends a non-JSON body gets 400, not 401/403; the request is
   still not served and changes nothing (`malformed_body_400_before_level_check`, `lower_level_never_served`).
   The 401/403 clause is therefore stated for well-formed requests (`lower_level_refused`).
 * an authenticated caller with a malformed Session-Id header gets 500 from `prepare` (`malformed_session_id_500`).
 * a known route asked with an HTTP method it does not offer answers 404 (`BaseHandler` defines every method as
   `NoSuchFunction`), a method tornado does not know answers 405.
-/
namespace QtVerif.Access.C09
open QtVerif.Access

/-! ## The table carries the levels of the specification -/

/-- **Every row of the table has the level the statement assigns.** For every URLSpec and HTTP method, if the
handler calls API function `fn`, then the endpoint is one the specification knows and the decorator level of
`fn` is the specified one. -/
theorem table_meets_spec (r : Route) (m : Method) (fn : Func) (h : handlerFn r m = some fn) :
    ∃ c, classify r m = some c ∧ required fn = specLevel c := handler_spec h

/-- Conversely every endpoint of the specification is offered, by a function of exactly that level. -/
theorem spec_endpoints_offered (r : Route) (m : Method) (c : Category) (h : classify r m = some c) :
    ∃ fn, handlerFn r m = some fn ∧ required fn = specLevel c := spec_handler h

example : handlerFn .portValue .PATCH = some .patchPortValue ∧ classify .portValue .PATCH = some .valueWrite ∧
    required .patchPortValue = .normal := by decide

/-! ## Served only at or above the specified level -/

/-- **Main theorem.** Whatever the features, path, method, caller and body: if the body of an API function runs,
then the path is one of an enabled URLSpec, the function is the one its handler offers for the method, and the
caller's authenticated level is at least the level the specification assigns to that endpoint. -/
theorem served_only_at_spec_level (f : Features) (q : Req) (fn : Func) (h : serve f q = .run fn) :
    ∃ r c, enabled f r = true ∧ (pattern r).matches q.path = true ∧ handlerFn r q.method = some fn ∧
      classify r q.method = some c ∧ specLevel c ≤ levelOf q.auth := by
  obtain ⟨r, _, hr, hh, _, _, hl, _⟩ := serve_run_inv h
  obtain ⟨hmem, hmatch⟩ := resolve_api_inv hr
  obtain ⟨c, hc, hreq⟩ := handler_spec hh
  exact ⟨r, c, mem_table.mp hmem, hmatch, hh, hc, hreq ▸ Level.le_trans hl (effectiveLevel_le r q.auth)⟩

example : serve Features.allOn ⟨.PATCH, ["api", "ports", "p.1", "value", ""], .valid .normal, .json, true⟩
    = .run .patchPortValue := by decide

/-- **A lower-level caller is never served**: for a path of the endpoint `(r, method)` whose specified level
exceeds the caller's level, no API function body runs — whatever the body, the other features, the method
guard. -/
theorem lower_level_never_served (f : Features) (q : Req) (r : Route) (c : Category)
    (hmatch : (pattern r).matches q.path = true) (hc : classify r q.method = some c)
    (hlow : levelOf q.auth < specLevel c) : ∀ fn, serve f q ≠ .run fn := by
  intro fn h
  obtain ⟨r', c', _, hmatch', _, hc', hle⟩ := served_only_at_spec_level f q fn h
  have := matches_unique hmatch' hmatch; subst this
  rw [hc] at hc'; cases hc'
  exact absurd hlow (Level.not_lt.mpr hle)

/-- **…and gets 401 (unauthenticated) or 403 (authenticated)** when the request is well-formed (route enabled,
virtual ports enabled where the handler asks for them, JSON body for POST/PATCH/PUT, no malformed Session-Id). -/
theorem lower_level_refused (f : Features) (q : Req) (r : Route) (c : Category)
    (hmatch : (pattern r).matches q.path = true) (hen : enabled f r = true)
    (hc : classify r q.method = some c) (hlow : levelOf q.auth < specLevel c)
    (hg : methodGuard f r q.method = true) (hb : q.method.hasBody = true → q.body = .json)
    (hs : q.sessionOk = true) :
    ∃ fn, handlerFn r q.method = some fn ∧
      serve f q = .refused (if levelOf q.auth = .none then 401 else 403) fn := by
  obtain ⟨fn, hh, hreq⟩ := spec_handler hc
  have hr : resolve f q.path = .api r := by rw [resolve_of_matches f hmatch, hen]; rfl
  have he := effective_eq_of_low hc hlow
  have := serve_refused_of (classify_ne_other hc) hr hh hg hb (sessionBad_of_ok hs) (by rw [he, hreq]; exact hlow)
  rw [he] at this
  exact ⟨fn, hh, this⟩

example : serve Features.allOn ⟨.PATCH, ["api", "ports", "p1", "value"], .valid .viewonly, .json, true⟩
    = .refused 403 .patchPortValue := by decide
example : serve Features.allOn ⟨.GET, ["api", "device"], .noHeader false, .json, true⟩
    = .refused 401 .getDevice := by decide
example : serve Features.allOn ⟨.DELETE, ["api", "ports", "p1", "history"], .invalid, .malformed, true⟩
    = .refused 401 .deletePortHistory := by decide

/-- A refusal by the decorator is always 401 or 403: 401 exactly when the level it saw is `none`. -/
theorem refusal_is_401_or_403 (f : Features) (q : Req) (code : Nat) (fn : Func)
    (h : serve f q = .refused code fn) :
    ∃ r, resolve f q.path = .api r ∧ effectiveLevel r q.auth < required fn ∧
      code = (if effectiveLevel r q.auth = .none then 401 else 403) := by
  by_cases hm : q.method = .other
  · unfold serve at h; simp [hm] at h
  · cases hr : resolve f q.path with
    | api r =>
      rw [serve_api hm hr] at h
      refine ⟨r, rfl, ?_⟩
      split at h
      · cases h
      · split at h
        · cases h
        · split at h
          · cases h
          · split at h
            · cases h
            · unfold checkLevel at h
              split at h
              · next hl => split at h <;> cases h <;> exact ⟨hl, by simp [*]⟩
              · cases h
    | noSuchFunction => unfold serve at h; simp [hm, hr] at h
    | notFound => unfold serve at h; simp [hm, hr] at h
    | foreign => unfold serve at h; simp [hm, hr] at h

/-- **No state change unless a function body runs**: the hub state after a request that is not served is the
state before it (for every state type and every effect of the function bodies). -/
theorem not_served_no_state_change {σ : Type} (eff : Func → σ → σ) (f : Features) (s : σ) (q : Req)
    (h : ∀ fn, serve f q ≠ .run fn) : (handle eff f s q).1 = s := handle_fst_of_not_run eff f s q h

/-- **A lower-level caller causes no state change.** -/
theorem lower_level_no_state_change {σ : Type} (eff : Func → σ → σ) (f : Features) (s : σ) (q : Req)
    (r : Route) (c : Category) (hmatch : (pattern r).matches q.path = true)
    (hc : classify r q.method = some c) (hlow : levelOf q.auth < specLevel c) :
    (handle eff f s q).1 = s :=
  handle_fst_of_not_run eff f s q (lower_level_never_served f q r c hmatch hc hlow)

example : (handle (fun _ (n : Nat) => n + 1) Features.allOn 7
    ⟨.PUT, ["api", "ports"], .valid .normal, .json, true⟩) = (7, .refused 403 .putPorts) := by decide
example : (handle (fun _ (n : Nat) => n + 1) Features.allOn 7
    ⟨.PUT, ["api", "ports"], .valid .admin, .json, true⟩) = (8, .run .putPorts) := by decide

/-! ## At or above the level the request is served -/

/-- **A caller at or above the specified level passes the check**: the function body runs (on the state), for
a well-formed request to an enabled endpoint. -/
theorem at_or_above_level_served {σ : Type} (eff : Func → σ → σ) (f : Features) (s : σ) (q : Req)
    (r : Route) (c : Category) (hmatch : (pattern r).matches q.path = true) (hen : enabled f r = true)
    (hc : classify r q.method = some c) (hle : specLevel c ≤ levelOf q.auth)
    (hg : methodGuard f r q.method = true) (hb : q.method.hasBody = true → q.body = .json)
    (hs : q.sessionOk = true) :
    ∃ fn, handlerFn r q.method = some fn ∧ serve f q = .run fn ∧ (handle eff f s q).1 = eff fn s := by
  obtain ⟨fn, hh, hreq⟩ := spec_handler hc
  have hr : resolve f q.path = .api r := by rw [resolve_of_matches f hmatch, hen]; rfl
  have hrun := serve_run_of (classify_ne_other hc) hr hh hg hb (sessionBad_of_ok hs)
    (hreq ▸ spec_le_effective hc hle)
  exact ⟨fn, hh, hrun, handle_run eff f s q fn hrun⟩

/-- **Monotonicity**: if a request is served for one caller it is served for every caller of at least that
level (same path, method, body, features; well-formed Session-Id). -/
theorem served_monotone (f : Features) (m : Method) (p : List String) (b : Body) (a a' : Auth) (fn : Func)
    (h : serve f ⟨m, p, a, b, true⟩ = .run fn) (hle : levelOf a ≤ levelOf a') :
    serve f ⟨m, p, a', b, true⟩ = .run fn := by
  obtain ⟨r, hm, hr, hh, hg, hb, hl, _⟩ := serve_run_inv h
  exact serve_run_of (q := ⟨m, p, a', b, true⟩) hm hr hh hg hb (sessionBad_of_ok rfl)
    (Level.le_trans hl (effectiveLevel_mono r hle))

example : serve Features.allOn ⟨.GET, ["api", "ports"], .valid .viewonly, .json, true⟩ = .run .getPorts ∧
    levelOf (.valid .viewonly) ≤ levelOf (.noHeader true) := by decide

/-! ## Unknown routes, disabled features, unsupported methods -/

/-- **Unknown routes give 404**: a path that no enabled URLSpec matches is answered 404 for every supported
method and every caller (under `/api/`, or anywhere when the frontend routes are not mounted). -/
theorem unknown_route_404 (f : Features) (q : Req)
    (hno : ∀ r, enabled f r = true → (pattern r).matches q.path = false)
    (hm : q.method ≠ .other) (hp : apiPrefix q.path = true ∨ f.frontend = false) :
    serve f q = .status 404 := by
  have hr := resolve_none (f := f) (xs := q.path) (fun r hr => hno r (mem_table.mp hr))
  unfold serve
  simp only [hm, if_false, hr]
  cases hp with
  | inl hp => simp [hp]
  | inr hp => cases apiPrefix q.path <;> simp [hp]

example : serve Features.allOn ⟨.GET, ["api", "nothing"], .valid .admin, .json, true⟩ = .status 404 := by decide
example : ∀ r, enabled Features.allOn r = true → (pattern r).matches ["api", "ports", "a%20b", "value"] = false := by
  intro r _; cases r <;> decide

/-- **The endpoint a path denotes does not depend on the table order or on the other features**: a path
matched by URLSpec `r` resolves to `r` when `r`'s feature is on and to the `/api/.*` catch-all otherwise. -/
theorem resolution_by_own_feature_only (f : Features) (r : Route) (p : List String)
    (h : (pattern r).matches p = true) :
    resolve f p = if enabled f r then .api r else .noSuchFunction := resolve_of_matches f h

/-- A path is matched by at most one URLSpec (no shadowing in the first-match table). -/
theorem at_most_one_route (r1 r2 : Route) (p : List String)
    (h1 : (pattern r1).matches p = true) (h2 : (pattern r2).matches p = true) : r1 = r2 := matches_unique h1 h2

/-- **An endpoint whose optional feature is off is absent**: 404 for every supported method and caller. -/
theorem disabled_feature_404 (f : Features) (q : Req) (r : Route)
    (hmatch : (pattern r).matches q.path = true) (hoff : enabled f r = false) (hm : q.method ≠ .other) :
    serve f q = .status 404 := by
  unfold serve
  simp only [hm, if_false, resolve_of_matches f hmatch, hoff]
  rfl

example : serve { Features.allOn with history := false }
    ⟨.DELETE, ["api", "ports", "p1", "history"], .valid .admin, .json, true⟩ = .status 404 := by decide

/-- A method the route's handler does not define answers 404; a method tornado does not support answers 405. -/
theorem unsupported_method (f : Features) (q : Req) (r : Route)
    (hmatch : (pattern r).matches q.path = true) (hen : enabled f r = true)
    (hnone : handlerFn r q.method = none) (hs : q.sessionOk = true) :
    serve f q = if q.method = .other then .status 405 else .status 404 := by
  by_cases hm : q.method = .other
  · unfold serve; simp [hm]
  · have hr : resolve f q.path = .api r := by rw [resolve_of_matches f hmatch, hen]; rfl
    rw [serve_api hm hr, hnone]; simp [hm, sessionBad_of_ok hs]

example : serve Features.allOn ⟨.DELETE, ["api", "device"], .valid .admin, .json, true⟩ = .status 404 ∧
    serve Features.allOn ⟨.other, ["api", "device"], .valid .admin, .json, true⟩ = .status 405 := by decide

/-- The code as it is: for POST/PATCH/PUT a body that is not JSON is answered 400 *before* the level check,
whatever the caller's level (the request is not served either way). -/
theorem malformed_body_400_before_level_check (f : Features) (q : Req) (r : Route) (fn : Func)
    (hmatch : (pattern r).matches q.path = true) (hen : enabled f r = true)
    (hh : handlerFn r q.method = some fn) (hg : methodGuard f r q.method = true)
    (hb : q.method.hasBody = true) (hbad : q.body ≠ .json) (hs : q.sessionOk = true) :
    serve f q = .status 400 := by
  have hm : q.method ≠ .other := by intro e; rw [e] at hb; cases hb
  have hr : resolve f q.path = .api r := by rw [resolve_of_matches f hmatch, hen]; rfl
  rw [serve_api hm hr, hh]
  have : (q.body != .json) = true := by
    cases hq : q.body <;> first | rfl | exact absurd hq hbad
  simp [hg, hb, this, sessionBad_of_ok hs]

example : serve Features.allOn ⟨.POST, ["api", "reset"], .noHeader false, .badContentType, true⟩ = .status 400 := by
  decide

/-- With virtual ports disabled `POST /ports` and `DELETE /ports/<id>` are absent (404 before any check). -/
theorem virtual_ports_guard (f : Features) (q : Req) (r : Route)
    (hmatch : (pattern r).matches q.path = true) (hen : enabled f r = true)
    (hg : methodGuard f r q.method = false) (hm : q.method ≠ .other) (hs : q.sessionOk = true) :
    serve f q = .status 404 := by
  have hr : resolve f q.path = .api r := by rw [resolve_of_matches f hmatch, hen]; rfl
  rw [serve_api hm hr]
  cases handlerFn r q.method <;> simp [hg, sessionBad_of_ok hs]

/-- The code as it is: an *authenticated* caller that sends a Session-Id header not matching SESSION_ID_RE is
answered 500 (the APIError raised inside `prepare` is not an HTTPError), whatever its level, the method and the
endpoint; an unauthenticated one proceeds to the level check. Not served either way. -/
theorem malformed_session_id_500 (f : Features) (q : Req) (r : Route)
    (hmatch : (pattern r).matches q.path = true) (hen : enabled f r = true) (hm : q.method ≠ .other)
    (ha : authEnabled r = true) (hauth : q.auth.authenticated = true) (hs : q.sessionOk = false) :
    serve f q = .status 500 := by
  have hr : resolve f q.path = .api r := by rw [resolve_of_matches f hmatch, hen]; rfl
  rw [serve_api hm hr]
  simp [sessionBad, ha, hauth, hs]

example : serve Features.allOn ⟨.GET, ["api", "ports"], .valid .admin, .json, false⟩ = .status 500 ∧
    serve Features.allOn ⟨.GET, ["api", "device"], .invalid, .json, false⟩ = .refused 401 .getDevice := by decide

example : serve { Features.allOn with vports := false } ⟨.POST, ["api", "ports"], .valid .admin, .json, true⟩
    = .status 404 := by decide

/-! ## The password configuration (all 8 combinations of empty / set passwords) -/

/-- `prepare`'s rule: a request without Authorization header is admin iff the ADMIN password is empty, whatever
the normal and view-only passwords are; otherwise it has no level. -/
theorem no_header_level (pw : Passwords) :
    levelOf ⟨pw, .noHeader⟩ = if pw.adminEmpty then .admin else .none := rfl

/-- A caller without valid credentials (no header or an invalid one) has level none unless the admin password is
empty — for every configuration of the other two passwords. -/
theorem without_valid_credentials_level_none (a : Auth) (hc : ∀ l, a.cred ≠ .valid l)
    (hp : a.pw.adminEmpty = false) : levelOf a = .none := by
  unfold levelOf
  cases h : a.cred with
  | noHeader => simp [hp]
  | invalid => rfl
  | valid l => exact absurd h (hc l)

/-- An invalid header never gives a level, whatever the passwords (even with an empty admin password). -/
theorem invalid_header_level_none (pw : Passwords) : levelOf ⟨pw, .invalid⟩ = .none := rfl

/-- **A caller without valid credentials gets exactly 401 on every endpoint that requires a level**, unless the
admin password is empty (well-formed request, enabled endpoint) — whatever the normal / view-only passwords. -/
theorem without_valid_credentials_401 (f : Features) (q : Req) (r : Route) (c : Category)
    (hmatch : (pattern r).matches q.path = true) (hen : enabled f r = true)
    (hc : classify r q.method = some c) (hreq : specLevel c ≠ .none)
    (hcred : ∀ l, q.auth.cred ≠ .valid l) (hp : q.auth.pw.adminEmpty = false)
    (hg : methodGuard f r q.method = true) (hb : q.method.hasBody = true → q.body = .json)
    (hs : q.sessionOk = true) :
    ∃ fn, handlerFn r q.method = some fn ∧ serve f q = .refused 401 fn := by
  have hl := without_valid_credentials_level_none q.auth hcred hp
  have hlow : levelOf q.auth < specLevel c := by
    rw [hl]; revert hreq; cases specLevel c <;> intro h <;> first | exact absurd rfl h | decide
  obtain ⟨fn, hh, hserve⟩ := lower_level_refused f q r c hmatch hen hc hlow hg hb hs
  rw [hl] at hserve
  exact ⟨fn, hh, hserve⟩

/-- The normal and view-only passwords being empty or set never changes how a request is answered. -/
theorem only_admin_password_matters (f : Features) (m : Method) (p : List String) (b : Body) (s : Bool)
    (cred : Cred) (pw pw' : Passwords) (h : pw.adminEmpty = pw'.adminEmpty) :
    serve f ⟨m, p, ⟨pw, cred⟩, b, s⟩ = serve f ⟨m, p, ⟨pw', cred⟩, b, s⟩ := by
  have hl : levelOf ⟨pw, cred⟩ = levelOf ⟨pw', cred⟩ := by unfold levelOf; cases cred <;> simp [h]
  have ha : Auth.authenticated ⟨pw, cred⟩ = Auth.authenticated ⟨pw', cred⟩ := by
    unfold Auth.authenticated; cases cred <;> simp [h]
  unfold serve sessionBad effectiveLevel
  simp only [hl, ha]

example : serve Features.allOn ⟨.GET, ["api", "ports"], ⟨⟨false, true, true⟩, .noHeader⟩, .json, true⟩
    = .refused 401 .getPorts ∧
    serve Features.allOn ⟨.PATCH, ["api", "ports", "p1", "value"], ⟨⟨false, true, false⟩, .noHeader⟩, .json, true⟩
    = .refused 401 .patchPortValue ∧
    serve Features.allOn ⟨.GET, ["api", "device"], ⟨⟨true, false, false⟩, .invalid⟩, .json, true⟩
    = .refused 401 .getDevice ∧
    serve Features.allOn ⟨.GET, ["api", "device"], ⟨⟨true, false, true⟩, .noHeader⟩, .json, true⟩
    = .run .getDevice := by decide

/-- hypotheses of `without_valid_credentials_401` for each of the four configurations with a set admin password -/
example : ∀ pw ∈ Passwords.all, pw.adminEmpty = false →
    serve Features.allOn ⟨.PATCH, ["api", "ports", "p1", "value"], ⟨pw, .noHeader⟩, .json, true⟩
      = .refused 401 .patchPortValue := by decide

/-! ## Non-vacuity: concrete requests meeting the hypotheses of the theorems above -/

/-- hypotheses of `lower_level_never_served` / `lower_level_refused` / `lower_level_no_state_change` -/
example : (pattern .portValue).matches ["api", "ports", "p1", "value"] = true ∧
    enabled Features.allOff .portValue = true ∧ classify .portValue .PATCH = some .valueWrite ∧
    levelOf (.valid .viewonly) < specLevel .valueWrite ∧ methodGuard Features.allOff .portValue .PATCH = true := by
  decide

/-- hypotheses of `at_or_above_level_served` (an optional-feature endpoint, admin by the empty-password rule) -/
example : (pattern .portHistory).matches ["api", "ports", "A.z-_9", "history", ""] = true ∧
    enabled { Features.allOff with history := true } .portHistory = true ∧
    classify .portHistory .DELETE = some .historyDeletion ∧ specLevel .historyDeletion ≤ levelOf (.noHeader true) := by
  decide

/-- hypotheses of `resolution_by_own_feature_only` / `at_most_one_route` / `disabled_feature_404`: a path of the
slave-forward URLSpec whose tail looks like another endpoint -/
example : (pattern .slaveForward).matches ["api", "devices", "s1", "forward", "devices", "s2", "events"] = true ∧
    enabled Features.allOff .slaveForward = false ∧
    resolve Features.allOff ["api", "devices", "s1", "forward", "devices", "s2", "events"] = .noSuchFunction ∧
    resolve Features.allOn ["api", "devices", "s1", "forward", "devices", "s2", "events"] = .api .slaveForward := by
  decide

/-- hypotheses of `unsupported_method`, `virtual_ports_guard`, `malformed_body_400_before_level_check`,
`malformed_session_id_500` -/
example : handlerFn .reset .GET = none ∧ methodGuard { Features.allOn with vports := false } .port .DELETE = false ∧
    Method.hasBody .PUT = true ∧ Body.malformed ≠ Body.json ∧ authEnabled .ports = true ∧
    Auth.authenticated (.valid .viewonly) = true := by decide

end QtVerif.Access.C09
