import QtVerif.Proofs.HistorySplit
/-!
C18 — History queries return exactly the requested samples, in the requested order.

Property theorems only; the model is `QtVerif/Model/History.lean`, helper lemmas are in `QtVerif/Proofs/History.lean`
and `QtVerif/Proofs/HistoryApi.lean`.  Everything is quantified over every stored sample set, every port, every
argument value, every sequence of requests and recordings, and every value of the code's constants (cache minimum age,
default / maximum limit, access levels) — no bound on anything.

`cfg.repaired = true` is the code with `fixes/C18-by-timestamp-order.diff`; the pinned commit is `repaired = false`
(`unrepaired_…` theorems are the counter-examples, replayed on the real code by the harness corpus).
-/
namespace QtVerif.History.C18
open QtVerif.History

/-! ### Range queries -/

/-- The filter of a range query means: same port, `from ≤ time` (if given), `time < to` (if given). -/
theorem in_range_meaning (oid : Nat) (frm to : Option Int) (s : Sample) :
    inRange oid frm to s = true ↔ s.oid = oid ∧ (∀ f, frm = some f → f ≤ s.ts) ∧ (∀ t, to = some t → s.ts < t) :=
  inRange_iff oid frm to s

/-- **Range query.** The answer is sorted oldest first; together with some `rest` it is a permutation of precisely the
stored samples of that port in `[from, to)` (nothing invented, nothing duplicated, nothing from another port or outside
the range); everything left out is at least as new as everything returned ("counted from the start of that order"); and
the number of entries is `min limit (number in range)`. -/
theorem slice_spec (store : List Sample) (oid : Nat) (frm to : Option Int) (limit : Option Nat) :
    let r := pSlice store oid frm to limit false
    let inR := store.filter (inRange oid frm to)
    r.Pairwise (fun a b => a.ts ≤ b.ts) ∧
    (∃ rest, (r ++ rest).Perm inR ∧ ∀ x ∈ r, ∀ y ∈ rest, x.ts ≤ y.ts) ∧
    r.length = (match limit with | none => inR.length | some n => min n inR.length) :=
  pSlice_spec_asc store oid frm to limit

/-- The same for the descending order (`sort_desc`, used by the HISTORY expression function): newest first, the
newest `limit` ones. -/
theorem slice_spec_desc (store : List Sample) (oid : Nat) (frm to : Option Int) (limit : Option Nat) :
    let r := pSlice store oid frm to limit true
    let inR := store.filter (inRange oid frm to)
    r.Pairwise (fun a b => b.ts ≤ a.ts) ∧
    (∃ rest, (r ++ rest).Perm inR ∧ ∀ x ∈ r, ∀ y ∈ rest, y.ts ≤ x.ts) ∧
    r.length = (match limit with | none => inR.length | some n => min n inR.length) :=
  pSlice_spec_desc store oid frm to limit

/-- **Typed like the port**: every value of an answer is a boolean / integer / float according to the port. -/
theorem adapt_typed (pt : PType) (q : Int) :
    match pt, adapt pt q with
    | .boolean, .b _ => True
    | .integer, .i _ => True
    | .number, .f _ => True
    | _, _ => False := by
  cases pt <;> trivial

/-- A value recorded from a port reads back as the same typed value. -/
theorem adapt_toStored :
    (∀ v, adapt .boolean (Val.b v).toStored = .b v) ∧ (∀ n, adapt .integer (Val.i n).toStored = .i n) ∧
    (∀ q, adapt .number (Val.f q).toStored = .f q) := by
  refine ⟨?_, ?_, ?_⟩
  · intro v; cases v <;> rfl
  · intro n; simp [adapt, Val.toStored]
  · intro q; rfl

/-- **The API range request** (`GET /ports/{id}/history?from&to&limit`): for a caller of at least view-only level, an
existing port and arguments that pass validation, the body is the range answer of `slice_spec` for the parsed `from`
(absent or empty = no lower bound), `to` (default: now) and `limit` (default `defLimit`, between 1 and `maxLimit`),
ascending, typed like the port; the state (store and cache) is unchanged. -/
theorem api_range_spec (cfg : Cfg) (st : State) (level pid : Nat) (now : Int) (q : Query) (p : Port) (a : HistArgs)
    (hl : cfg.viewLevel ≤ level) (hp : findPort st pid = some p)
    (ha : parseHistArgs cfg now q = .ok a) (ht : a.timestamps = none) :
    getPortHistory cfg st level pid now q =
      (st, .ok (.slice ((pSlice st.store pid a.frm (some a.to) (some a.limit) false).map
        (fun s => (s.ts, adapt p.ptype s.val)))), 0) ∧
    ArgsMeaning cfg now q a :=
  ⟨getPortHistory_range cfg st level pid now q p a hl hp ha ht, parseHistArgs_meaning cfg now q a ha⟩

/-! ### Queries by timestamps -/

/-- **Newest sample at or before `t`**: `none` iff the port has no sample with `time ≤ t`; otherwise the value of a
stored sample of that port with `time ≤ t` such that no sample of the port with `time ≤ t` is newer. -/
theorem newest_le_spec (store : List Sample) (oid : Nat) (t : Int) :
    match newestLE store oid t with
    | none => ∀ s ∈ store, s.oid = oid → ¬ s.ts ≤ t
    | some v => ∃ s ∈ store, s.oid = oid ∧ s.ts ≤ t ∧ s.val = v ∧
        ∀ s' ∈ store, s'.oid = oid → s'.ts ≤ t → s'.ts ≤ s.ts := by
  have := newestLE_spec store oid t
  cases h : newestLE store oid t <;> rw [h] at this <;> exact this

/-- **One entry per requested timestamp, in request order, duplicates included** — in every state of the cache:
the `i`-th entry belongs to the `i`-th requested timestamp and is the memoised answer if there is one, else what the
store answers. -/
theorem by_timestamp_one_entry_per_request (cfg : Cfg) (hr : cfg.repaired = true) (st : State) (pid : Nat) (pt : PType)
    (now : Int) (tss : List Int) :
    (hByTs cfg st pid pt now tss).2.1 = tss.map (fun t => entry t (answer st pid pt t)) ∧
    (hByTs cfg st pid pt now tss).2.1.length = tss.length := by
  have := hByTs_out cfg hr st pid pt now tss
  exact ⟨this, by rw [this, List.length_map]⟩

/-- **Query by timestamps** in any state whose cache is consistent (`CacheOK`; every reachable state is, see
`cache_always_consistent`): the answer is, for each requested timestamp in request order, the newest sample at or
before it (`newest_le_spec`) typed like the port and labelled with the requested timestamp, or null. -/
theorem by_timestamp_spec (cfg : Cfg) (hr : cfg.repaired = true) (st : State) (T : Int) (hok : CacheOK st T) (pid : Nat)
    (now : Int) (tss : List Int) :
    (hByTs cfg st pid (ptypeOf st pid) now tss).2.1 =
      tss.map (fun t => ((newestLE st.store pid t).map (adapt (ptypeOf st pid))).map (fun v => (t, v))) := by
  rw [hByTs_out cfg hr]
  apply List.map_congr_left
  intro t _
  rw [answer_of_ok st T hok]
  rfl

/-- **The API request by timestamps** (`GET /ports/{id}/history?timestamps=…`): the body is `by_timestamp_spec`'s
answer for the parsed list (split at commas, each an integer ≥ 0). -/
theorem api_by_timestamp_spec (cfg : Cfg) (hr : cfg.repaired = true) (st : State) (T : Int) (hok : CacheOK st T)
    (level pid : Nat) (now : Int) (q : Query) (p : Port) (a : HistArgs) (tss : List Int)
    (hl : cfg.viewLevel ≤ level) (hp : findPort st pid = some p)
    (ha : parseHistArgs cfg now q = .ok a) (ht : a.timestamps = some tss) :
    (getPortHistory cfg st level pid now q).2.1 =
      .ok (.byTs (tss.map (fun t => ((newestLE st.store pid t).map (adapt p.ptype)).map (fun v => (t, v))))) := by
  have hpt : ptypeOf st pid = p.ptype := by unfold ptypeOf; rw [hp]
  rw [(getPortHistory_byTs cfg st level pid now q p a tss hl hp ha ht).1, ← hpt,
    by_timestamp_spec cfg hr st T hok pid now tss]

/-- The code of the pinned commit (`repaired = false`, result built as a dict keyed by timestamp) violates
"one entry per requested timestamp, in request order": with the answer for 100 memoised, the request
`[5000, 100, 100, 50]` yields three entries, the memoised one first. -/
theorem unrepaired_by_timestamp_not_in_request_order :
    ∃ (st : State) (T : Int), CacheOK st T ∧ ∃ tss : List Int,
      let out := (hByTs { repaired := false, minAge := 1000 } st 1 .integer 5000 tss).2.1
      out.length ≠ tss.length ∧ out.head? ≠ (tss.map (fun t => entry t (answer st 1 .integer t))).head? := by
  refine ⟨⟨[⟨1, 60, 8⟩, ⟨1, 200, 12⟩], [((1, 100), some (.i 2))],
    [{ id := 1, ptype := .integer, interval := 0, last := none }]⟩, 4000, ?_,
    [5000, 100, 100, 50], ?_⟩
  · intro pid t v h
    have : pid = 1 ∧ t = 100 ∧ v = some (.i 2) := by
      unfold cacheGet at h
      rw [alGet_cons, alGet_nil] at h
      by_cases hk : ((1 : Nat), (100 : Int)) = (pid, t)
      · rw [if_pos hk] at h
        exact ⟨(congrArg Prod.fst hk).symm, (congrArg Prod.snd hk).symm, (Option.some.inj h).symm⟩
      · rw [if_neg hk] at h; cases h
    obtain ⟨rfl, rfl, rfl⟩ := this
    exact ⟨by decide, by decide⟩
  · decide

/-! ### The sample cache is transparent -/

/-- **Cache transparency.** For every initial sample set, every port table and every sequence of range / by-timestamp /
remove requests, recordings (explicit, by value change, periodic) and janitor iterations in which the clock never runs
backwards and every removal names at least one port, every answer equals the answer of the same code with the cache switched off, and the stores
stay equal.  (`0 ≤ minAge`: only answers for timestamps strictly in the past are memoised.) -/
theorem cache_transparent (cfg : Cfg) (hr : cfg.repaired = true) (h0 : 0 ≤ cfg.minAge)
    (store0 : List Sample) (ports0 : List Port) (T0 : Int) (ops : List Op) (hm : Monotone T0 ops) :
    (run cfg ⟨store0, [], ports0⟩ ops).2 = (run (noCache cfg) ⟨store0, [], ports0⟩ ops).2 ∧
    (run cfg ⟨store0, [], ports0⟩ ops).1.store = (run (noCache cfg) ⟨store0, [], ports0⟩ ops).1.store := by
  have hok : CacheOK ⟨store0, [], ports0⟩ T0 := by intro pid t v h; cases h
  obtain ⟨h1, h2, _⟩ := run_sim cfg hr h0 ops ⟨store0, [], ports0⟩ T0 hok hm
  have h3 := congrArg State.store h2
  exact ⟨h1, h3⟩

/-- The invariant behind it: in every reachable state each memoised answer is for a timestamp in the past and equals
what the store would answer now. -/
theorem cache_always_consistent (cfg : Cfg) (hr : cfg.repaired = true) (h0 : 0 ≤ cfg.minAge)
    (store0 : List Sample) (ports0 : List Port) (T0 : Int) (ops : List Op) (hm : Monotone T0 ops) :
    ∃ T, CacheOK (run cfg ⟨store0, [], ports0⟩ ops).1 T := by
  have hok : CacheOK ⟨store0, [], ports0⟩ T0 := by intro pid t v h; cases h
  exact (run_sim cfg hr h0 ops ⟨store0, [], ports0⟩ T0 hok hm).2.2

/-- The pinned commit is not cache-transparent: the same request gives different answers with and without the cache. -/
theorem unrepaired_not_cache_transparent :
    ∃ (store0 : List Sample) (ops : List Op), Monotone 0 ops ∧
      (run { repaired := false, minAge := 1000 } ⟨store0, [], []⟩ ops).2 ≠
      (run (noCache { repaired := false, minAge := 1000 }) ⟨store0, [], []⟩ ops).2 :=
  ⟨[⟨1, 60, 8⟩, ⟨1, 200, 12⟩], [.byTs 1 5000 [100], .byTs 1 5000 [5000, 100]], by decide, by decide⟩

/-- A removal that names no port (`history.remove_samples([])`: the persistence layer then removes the samples of every
port while no cache entry is dropped) is why `Monotone` asks for at least one port: without it the cache goes stale.
No request of the API can produce it (`delete_port_history` always names its port). -/
theorem remove_without_port_breaks_transparency :
    ∃ (store0 : List Sample) (ops : List Op),
      (run { minAge := 1000 } ⟨store0, [], []⟩ ops).2 ≠ (run (noCache { minAge := 1000 }) ⟨store0, [], []⟩ ops).2 :=
  ⟨[⟨1, 60, 8⟩], [.byTs 1 5000 [100], .remove [] none none, .byTs 1 5000 [100]], by decide⟩

/-- **`limit`, `from` and `to` do not bound a by-timestamp request**: they are validated, but the answer has one entry
per requested timestamp however many there are — two valid requests with the same `timestamps` get the same answer. -/
theorem api_by_timestamp_ignores_range_args (cfg : Cfg) (st : State) (level pid : Nat) (now : Int) (q q' : Query)
    (p : Port) (a a' : HistArgs) (tss : List Int) (hl : cfg.viewLevel ≤ level) (hp : findPort st pid = some p)
    (ha : parseHistArgs cfg now q = .ok a) (ha' : parseHistArgs cfg now q' = .ok a')
    (ht : a.timestamps = some tss) (ht' : a'.timestamps = some tss) :
    (getPortHistory cfg st level pid now q).2.1 = (getPortHistory cfg st level pid now q').2.1 ∧
    ∃ out, (getPortHistory cfg st level pid now q).2.1 = .ok (.byTs out) ∧ (cfg.repaired = true → out.length = tss.length) := by
  have e1 := (getPortHistory_byTs cfg st level pid now q p a tss hl hp ha ht).1
  have e2 := (getPortHistory_byTs cfg st level pid now q' p a' tss hl hp ha' ht').1
  refine ⟨e1.trans e2.symm, _, e1, ?_⟩
  intro hr
  exact (by_timestamp_one_entry_per_request cfg hr st pid p.ptype now tss).2

/-! ### Operations that overlap at their await point

A by-timestamp query reads the cache, then awaits the persistence layer, then stores the answers; a removal pops the
cache dicts, then awaits the persistence layer.  `SOp` splits them accordingly; any other operation may run in between
(`QtVerif/Model/History.lean`, last section). -/

/-- **The cache invariant survives overlapping operations.**  For every history in which by-timestamp queries are
suspended at their persistence call (the query executing at any instant between start and resumption) while removals,
recordings, sampler / janitor iterations and other queries run to completion, with a monotone clock and removals naming
a port: every memoised answer still equals what the store answers.  It holds for the code as it is because the query
writes into the dict it bound BEFORE the await — a dict popped meanwhile is only an orphan (`cfg.lateDict = false`) —
and because a removal drops the dicts again AFTER its awaited persistence call (`cfg.popAfter = true`, repo commit
d4ebdd9; `overlapped_remove_race` is the counter-example for the code before it), so removals too may be split
(`delBegin` … `delExec`) with anything in between. -/
theorem split_cache_always_consistent (cfg : Cfg) (hr : cfg.repaired = true) (hl : cfg.lateDict = false)
    (hpa : cfg.popAfter = true) (h0 : 0 ≤ cfg.minAge) (store0 : List Sample) (ports0 : List Port) (T0 : Int)
    (ops : List SOp) (hm : SMonotone T0 ops) :
    ∃ T, CacheOK (sRun cfg ⟨⟨store0, [], ports0⟩, []⟩ ops).1.st T := by
  have hinv : SInv cfg ⟨⟨store0, [], ports0⟩, []⟩ T0 := by
    constructor
    · intro pid t v h; cases h
    · intro fl h; cases h
  obtain ⟨T, h⟩ := sRun_inv cfg hr hl hpa h0 ops _ T0 hinv hm
  exact ⟨T, h.1⟩

/-- Hence **every later by-timestamp answer is the specified one for the then-current store**, whatever overlapped
before. -/
theorem later_answers_follow_spec (cfg : Cfg) (hr : cfg.repaired = true) (hl : cfg.lateDict = false)
    (hpa : cfg.popAfter = true) (h0 : 0 ≤ cfg.minAge) (store0 : List Sample) (ports0 : List Port) (T0 : Int)
    (ops : List SOp) (hm : SMonotone T0 ops) (pid : Nat) (now : Int) (tss : List Int) :
    let s := (sRun cfg ⟨⟨store0, [], ports0⟩, []⟩ ops).1
    (sStep cfg s (.atomic (.byTs pid now tss))).2 =
      some (.byTs (tss.map (fun t => ((newestLE s.st.store pid t).map (adapt (ptypeOf s.st pid))).map (fun v => (t, v))))) := by
  intro s
  obtain ⟨T, hok⟩ := split_cache_always_consistent cfg hr hl hpa h0 store0 ports0 T0 ops hm
  show some (Ans.byTs (hByTs cfg s.st pid (ptypeOf s.st pid) now tss).2.1) = _
  rw [by_timestamp_spec cfg hr s.st T hok pid now tss]

/-- **What the overlapped query itself answers**: one entry per requested timestamp, in request order; each the value
memoised when the query started, else what the store answered at the instant its persistence query executed. -/
theorem overlapped_query_answer (cfg : Cfg) (hr : cfg.repaired = true) (st0 st : State) (k pid : Nat) (pt : PType)
    (now : Int) (tss : List Int) (store1 : List Sample) (orphan : Bool) :
    (flightEnd cfg st { flightBegin st0 k pid pt now tss with
        fetched := some (pByTs store1 pid (flightBegin st0 k pid pt now tss).missed), orphan := orphan }).2 =
      tss.map (fun t => entry t (match cacheGet st0.cache pid t with
                                  | some v => v
                                  | none => fresh store1 pid pt t)) :=
  flightEnd_out cfg hr st0 st k pid pt now tss store1 orphan

/-- If the dict were looked up again when the answer is stored (`lateDict`, the seeded change C18-r2-1) a removal that
completes while the query waits leaves the removed sample in the cache: the store is empty, yet the next query answers it. -/
theorem late_dict_stale_after_overlapped_remove :
    ∃ (ops : List SOp), SMonotone 0 ops ∧
      (sRun { lateDict := true, minAge := 1000 } ⟨⟨[⟨1, 60, 8⟩], [], []⟩, []⟩ ops).1.st.store = [] ∧
      (sRun { lateDict := true, minAge := 1000 } ⟨⟨[⟨1, 60, 8⟩], [], []⟩, []⟩ ops).2.getLast? =
        some (some (.byTs [some (100, .f 8)])) :=
  ⟨[.getBegin 0 1 5000 [100], .getFetch 0, .atomic (.remove [1] none none), .getEnd 0, .atomic (.byTs 1 5000 [100])],
   by decide, by decide, by decide⟩

/-- Before repo commit d4ebdd9 (`popAfter = false`: the cache invalidated only BEFORE the removal's awaited persistence
call) a by-timestamp query running between the two halves memoised a sample the removal then deleted: the store is
empty, yet the next query answers it (fixed finding C18-remove-overlap-stale-cache).  With the second invalidation
(`popAfter = true`, the model proper) the same history answers null — as `split_cache_always_consistent` guarantees. -/
theorem overlapped_remove_race :
    let ops : List SOp := [.delBegin [1], .atomic (.byTs 1 5000 [100]), .delExec [1] none none, .atomic (.byTs 1 5000 [100])]
    SMonotone 0 ops ∧
    (sRun { minAge := 1000, popAfter := false } ⟨⟨[⟨1, 60, 8⟩], [], []⟩, []⟩ ops).1.st.store = [] ∧
    (sRun { minAge := 1000, popAfter := false } ⟨⟨[⟨1, 60, 8⟩], [], []⟩, []⟩ ops).2.getLast? =
      some (some (.byTs [some (100, .f 8)])) ∧
    (sRun { minAge := 1000 } ⟨⟨[⟨1, 60, 8⟩], [], []⟩, []⟩ ops).2.getLast? = some (some (.byTs [none])) := by
  decide

/-! ### Deletion -/

/-- **Deletion removes exactly the half-open range of the given ports**: a sample survives iff it was stored and is not
(of one of the ports and `from ≤ time < to`); survivors keep their order and their multiplicity. -/
theorem delete_exact (st : State) (pids : List Nat) (frm to : Option Int) :
    (∀ s, s ∈ (hRemove st pids frm to).store ↔
      s ∈ st.store ∧ ¬ ((pids = [] ∨ s.oid ∈ pids) ∧ (∀ f, frm = some f → f ≤ s.ts) ∧ (∀ t, to = some t → s.ts < t))) ∧
    (hRemove st pids frm to).store.Sublist st.store ∧
    (∀ s, ¬ Removed pids frm to s → (hRemove st pids frm to).store.count s = st.store.count s) :=
  ⟨fun s => pRemove_mem st.store pids frm to s, pRemove_sublist st.store pids frm to,
   fun s h => pRemove_count st.store pids frm to s h⟩

/-- **The API delete request** (`DELETE /ports/{id}/history?from&to`) at admin level with valid arguments removes
exactly the samples of that port with `from ≤ time < to` (both mandatory, integers ≥ 0). -/
theorem api_delete_exact (cfg : Cfg) (st : State) (level pid : Nat) (q : Query) (p : Port) (f t : Int)
    (hl : cfg.adminLevel ≤ level) (hp : findPort st pid = some p) (ha : parseDelArgs q = .ok (f, t)) :
    (deletePortHistory cfg st level pid q).2 = .ok () ∧
    (∀ s, s ∈ (deletePortHistory cfg st level pid q).1.store ↔ s ∈ st.store ∧ ¬ (s.oid = pid ∧ f ≤ s.ts ∧ s.ts < t)) ∧
    (∃ sf st', q.frm = some sf ∧ parseInt sf = some f ∧ 0 ≤ f ∧ q.to = some st' ∧ parseInt st' = some t ∧ 0 ≤ t) := by
  rw [deletePortHistory_ok cfg st level pid q p f t hl hp ha]
  refine ⟨rfl, ?_, parseDelArgs_meaning q f t ha⟩
  intro s
  have := pRemove_mem st.store [pid] (some f) (some t) s
  simp only [Removed, List.mem_singleton, Option.some.injEq, forall_eq', List.cons_ne_self, false_or] at this
  exact this

/-- A refused request (401 / 403 / 404 / missing or invalid argument) changes nothing. -/
theorem refused_requests_change_nothing (cfg : Cfg) (st : State) (level pid : Nat) (now : Int) (q : Query) (e : ApiErr) :
    ((getPortHistory cfg st level pid now q).2.1 = .error e → (getPortHistory cfg st level pid now q).1 = st) ∧
    ((deletePortHistory cfg st level pid q).2 = .error e → (deletePortHistory cfg st level pid q).1 = st) :=
  ⟨getPortHistory_error_keeps_state cfg st level pid now q e, deletePortHistory_error_keeps_state cfg st level pid q e⟩

/-! ### Recording -/

/-- **Each value change of an on-change port is one sample.** A polling pass that reads `v` for port `pid` appends
exactly one sample `(pid, now, float(v))` when `v` differs from the last read value, the port's history interval is -1,
the clock is real and `v` is not null — and changes nothing in the store otherwise. -/
theorem each_change_one_sample (cfg : Cfg) (st : State) (pid : Nat) (now : Int) (v : Option Val) (p : Port)
    (hp : findPort st pid = some p) :
    (poll cfg st pid now v).store =
      if v ≠ p.last ∧ p.interval = -1 ∧ now > cfg.oldLimit then
        (match v with | some x => st.store ++ [⟨pid, now, x.toStored⟩] | none => st.store)
      else st.store :=
  poll_store cfg st pid now v p hp

/-- Over any series of readings of an on-change port: the store grows by precisely the non-null value changes, one
sample each, in order, stamped with the time of the change. -/
theorem changes_recorded_in_order (cfg : Cfg) (pid : Nat) (readings : List (Int × Option Val)) (st : State) (p : Port)
    (hp : findPort st pid = some p) (hi : p.interval = -1) (hreal : ∀ r ∈ readings, r.1 > cfg.oldLimit) :
    (pollAll cfg st pid readings).store = st.store ++ (valueChanges p.last readings).filterMap (sampleOf pid) :=
  pollAll_store cfg pid readings st p hp hi hreal

/-- **Periodic sampling** (one port in one iteration of `sampling_task`): a port with a positive interval whose last
sample is at least `interval` seconds old gets exactly one sample of its last read value stamped `now` (none when the
value is null); every other port gets none. -/
theorem periodic_sample_when_due (st : State) (p : Port) (now : Int) :
    (samplePort st p now).store =
      if 0 < p.interval ∧ p.interval * 1000 ≤ now - p.lastTs then
        (match p.last with | some x => st.store ++ [⟨p.id, now, x.toStored⟩] | none => st.store)
      else st.store :=
  samplePort_store st p now

/-- **Retention janitor** (one port in one iteration of `janitor_task`): with a positive retention exactly the samples
of that port with `0 ≤ time < (now_s − retention)·1000` disappear; with retention 0 nothing does. -/
theorem janitor_removes_expired (st : State) (p : Port) (nowS : Int) (s : Sample) :
    s ∈ (janitorPort st p nowS).store ↔
      s ∈ st.store ∧ ¬ (0 < p.retention ∧ s.oid = p.id ∧ 0 ≤ s.ts ∧ s.ts < (nowS - p.retention) * 1000) :=
  janitorPort_mem st p nowS s

/-! ### A port removed and created again under the same id -/

/-- **Typed like the port that exists now.**  When the port registered under an id is removed and a port `p` with the
same id is created (any types: `DELETE /ports/{id}` + `POST /ports`), then in the resulting state the id names `p`,
the stored samples are untouched (their removal is only scheduled), nothing memoised for the id survives and the cache
invariant holds; hence a by-timestamp query and a range query of the id answer the specification's samples adapted with
the type of the NEW port. -/
theorem recreated_port_typed_like_new_port (cfg : Cfg) (hr : cfg.repaired = true) (st : State) (T : Int)
    (hok : CacheOK st T) (p : Port) (now : Int) (tss : List Int) (frm to : Option Int) (limit : Option Nat) (desc : Bool) :
    findPort (recreatePort st p) p.id = some p ∧ (recreatePort st p).store = st.store ∧
    (∀ t, cacheGet (recreatePort st p).cache p.id t = none) ∧ CacheOK (recreatePort st p) T ∧
    (hByTs cfg (recreatePort st p) p.id (ptypeOf (recreatePort st p) p.id) now tss).2.1 =
      tss.map (fun t => ((newestLE st.store p.id t).map (adapt p.ptype)).map (fun v => (t, v))) ∧
    hSlice (recreatePort st p) p.id (ptypeOf (recreatePort st p) p.id) frm to limit desc =
      (pSlice st.store p.id frm to limit desc).map (fun s => (s.ts, adapt p.ptype s.val)) := by
  have hs : (recreatePort st p).store = st.store := by rw [recreatePort_eq]
  have hpt : ptypeOf (recreatePort st p) p.id = p.ptype := by unfold ptypeOf; rw [findPort_recreate_self]
  refine ⟨findPort_recreate_self st p, hs, cacheGet_recreate_self st p, recreatePort_ok st p T hok, ?_, ?_⟩
  · rw [by_timestamp_spec cfg hr _ T (recreatePort_ok st p T hok), hs, hpt]
  · unfold hSlice; rw [hs, hpt]

/-- **The removal scheduled by a port removal** (second half of a `janitor_task` iteration with a real date/time):
exactly the samples stored under the ids of the removed ports disappear, the schedule is emptied, and the cache stays
consistent; without a real date/time nothing happens and the schedule is kept. -/
theorem scheduled_removal_exact (cfg : Cfg) (st : State) (pending : List Nat) (now T : Int) (hok : CacheOK st T) :
    CacheOK (janitorPending cfg st pending now).1 T ∧
    (now > cfg.oldLimit → (janitorPending cfg st pending now).2 = [] ∧
      ∀ s, s ∈ (janitorPending cfg st pending now).1.store ↔ s ∈ st.store ∧ s.oid ∉ pending) ∧
    (¬ now > cfg.oldLimit → janitorPending cfg st pending now = (st, pending)) := by
  refine ⟨janitorPending_ok cfg st pending now T hok, ?_, ?_⟩
  · intro hn
    unfold janitorPending
    rw [if_neg (by simpa using hn)]
    by_cases he : pending = []
    · subst he; simp
    · have : pending.isEmpty = false := by cases pending <;> simp_all
      rw [this]
      refine ⟨rfl, fun s => ?_⟩
      simp [hRemove, pRemove, removed, this]
  · intro hn
    unfold janitorPending
    rw [if_pos hn]

-- the hypotheses are met by a state with a memoised answer; the port changes from boolean to number
example :
    let st : State := ⟨[⟨1, 100, 86⟩], [((1, 150), some (.b true))], [{ id := 1, ptype := .boolean, interval := -1, last := none }]⟩
    let st' := recreatePort st { id := 1, ptype := .number, interval := -1, last := none }
    CacheOK st 1000 ∧ (hByTs {} st' 1 (ptypeOf st' 1) 999999999 [150]).2.1 = [some (150, .f 86)] ∧
    (janitorPending {} st' [1] 1600000000000).1.store = [] := by
  refine ⟨?_, by decide, by decide⟩
  intro pid t v hv
  have : pid = 1 ∧ t = 150 ∧ v = some (.b true) := by
    simp only [cacheGet, alGet, List.find?] at hv
    split at hv
    · rename_i e he
      split at he
      · rename_i hb
        simp at hb he
        subst he
        simp at hv
        exact ⟨hb.1.symm, hb.2.symm, hv.symm⟩
      · simp at he
    · simp at hv
  obtain ⟨rfl, rfl, rfl⟩ := this
  exact ⟨by omega, by decide⟩

/-! ### Non-vacuity: concrete instances of the hypotheses and of the functions -/

-- a monotone history with queries, a delete between two identical queries, recordings and an hour-long jump
example : Monotone 0 [.byTs 1 5000 [100, 100, 50], .remove [1] (some 0) (some 70), .byTs 1 5000 [5000, 100],
    .poll 1 5000 (some (.i 3)), .record 1 9000 (some (.i 4)), .byTs 1 9000 [5000, 100], .range 1 none none (some 2) false] := by
  decide

-- the answers of that history (cache hit on 100 after the first query; dropped by the delete)
example :
    (run { minAge := 1000, oldLimit := 10 } ⟨[⟨1, 60, 8⟩, ⟨1, 200, 12⟩, ⟨2, 60, 4⟩], [],
      [{ id := 1, ptype := .integer, interval := -1, last := none }]⟩
      [.byTs 1 5000 [100, 100, 50], .remove [1] (some 0) (some 70), .byTs 1 5000 [5000, 100],
       .poll 1 5000 (some (.i 3)), .record 1 9000 (some (.i 4)), .byTs 1 9000 [5000, 100],
       .range 1 none none (some 2) false]).2
    = [.byTs [some (100, .i 2), some (100, .i 2), none], .none, .byTs [some (5000, .i 3), none], .none, .none,
       .byTs [some (5000, .i 3), none], .range [(200, .i 3), (5000, .i 3)]] := by
  decide

-- an overlapped history of the code as it is: the query is suspended, the removal completes, the query resumes with the
-- old sample (it was ordered first), the next query sees the removal
example : SMonotone 0
    [.getBegin 0 1 5000 [100, 50], .getFetch 0, .atomic (.remove [1] none none), .atomic (.poll 1 5000 none), .getEnd 0,
     .atomic (.byTs 1 5000 [100])] ∧
    (sRun { minAge := 1000 } ⟨⟨[⟨1, 60, 8⟩], [], []⟩, []⟩
      [.getBegin 0 1 5000 [100, 50], .getFetch 0, .atomic (.remove [1] none none), .atomic (.poll 1 5000 none), .getEnd 0,
       .atomic (.byTs 1 5000 [100])]).2
      = [none, none, some .none, some .none, some (.byTs [some (100, .f 8), none]), some (.byTs [none])] := by decide

-- a consistent non-empty cache (hypothesis of `by_timestamp_spec`)
example : ∃ (st : State) (T : Int), st.cache ≠ [] ∧ CacheOK st T :=
  ⟨(run { minAge := 1000 } ⟨[⟨1, 60, 8⟩], [], []⟩ [.byTs 1 5000 [100]]).1,
   (cache_always_consistent { minAge := 1000 } rfl (by decide) [⟨1, 60, 8⟩] [] 0 [.byTs 1 5000 [100]] (by decide)).choose,
   by decide,
   (cache_always_consistent { minAge := 1000 } rfl (by decide) [⟨1, 60, 8⟩] [] 0 [.byTs 1 5000 [100]] (by decide)).choose_spec⟩

-- the two API functions on a concrete store (hypotheses of `api_range_spec`, `api_by_timestamp_spec`, `api_delete_exact`)
example : (10 : Nat) ≤ 10 ∧ (findPort exState 1).isSome = true ∧
    parseHistArgs {} 777 ⟨some "100".toList, none, some "1".toList, none⟩ = .ok ⟨some 100, 777, 1, none⟩ ∧
    (getPortHistory {} exState 10 1 777 ⟨some "100".toList, none, some "1".toList, none⟩).2.1
      = .ok (.slice [(200, .i 3)]) := by decide
example : parseHistArgs {} 777 ⟨none, none, none, some "250,50,250".toList⟩ = .ok ⟨none, 777, 1000, some [250, 50, 250]⟩ ∧
    (getPortHistory {} exState 10 1 777 ⟨none, none, none, some "250,50,250".toList⟩).2.1
      = .ok (.byTs [some (250, .i 3), none, some (250, .i 3)]) := by decide
example : parseDelArgs ⟨some "60".toList, some "200".toList, none, none⟩ = .ok (60, 200) ∧
    (deletePortHistory {} exState 30 1 ⟨some "60".toList, some "200".toList, none, none⟩).2 = .ok () ∧
    (deletePortHistory {} exState 30 1 ⟨some "60".toList, some "200".toList, none, none⟩).1.store
      = [⟨1, 200, 12⟩, ⟨2, 60, 4⟩, ⟨1, 300, 2⟩] := by decide
example : (getPortHistory {} exState 5 1 777 ⟨some "1".toList, none, none, none⟩).2.1 = .error .forbidden ∧
    (getPortHistory {} exState 0 1 777 ⟨some "1".toList, none, none, none⟩).2.1 = .error .unauthorized ∧
    (getPortHistory {} exState 10 7 777 ⟨some "1".toList, none, none, none⟩).2.1 = .error .noSuchPort ∧
    (deletePortHistory {} exState 20 1 ⟨some "1".toList, some "2".toList, none, none⟩).2 = .error .forbidden := by decide

-- argument parsing: Python's int() forms, defaults, validation order
example : parseHistArgs {} 777 ⟨some " 1_0 ".toList, none, none, none⟩ = .ok ⟨some 10, 777, 1000, none⟩ := by decide
example : parseHistArgs {} 777 ⟨some [], some "+7".toList, some "10000".toList, none⟩ = .ok ⟨none, 7, 10000, none⟩ := by
  decide
example : parseHistArgs {} 777 ⟨none, none, none, some "5,3,5, 0".toList⟩ = .ok ⟨none, 777, 1000, some [5, 3, 5, 0]⟩ := by
  decide
example : parseHistArgs {} 777 ⟨some "x".toList, none, none, some "1".toList⟩ = .error (.invalid .frm) := by decide
example : parseHistArgs {} 777 ⟨none, some "5".toList, none, none⟩ = .error (.missing .frm) := by decide
example : parseHistArgs {} 777 ⟨some "1".toList, none, some "10001".toList, none⟩ = .error (.invalid .limit) := by decide
example : parseHistArgs {} 777 ⟨none, none, none, some "1,,2".toList⟩ = .error (.invalid .timestamps) := by decide
example : parseDelArgs ⟨some "0".toList, some "101".toList, none, none⟩ = .ok (0, 101) := by decide
example : (parseInt "1__0".toList, parseInt "-0".toList, parseInt "_1".toList, parseInt "\t12\n".toList)
    = (none, some 0, none, some 12) := by decide

-- a janitor + sampler iteration: retention 2 s at 9 s removes what is older than 7000 ms; interval 3 s is due
example :
    (run { minAge := 1000, oldLimit := 10 }
      ⟨[⟨1, 60, 8⟩, ⟨1, 7000, 12⟩, ⟨2, 60, 4⟩], [],
       [{ id := 1, ptype := .integer, interval := 3, last := some (.i 5), retention := 2, lastTs := 6000 },
        { id := 2, ptype := .boolean, interval := 3, last := none }]⟩
      [.byTs 1 9000 [100], .tick 9000, .byTs 1 9000 [100], .tick 9500, .range 1 none none none false]).2
    = [.byTs [some (100, .i 2)], .none, .byTs [none], .none, .range [(7000, .i 3), (9000, .i 5)]] := by
  decide

-- value changes: null and repeated readings produce no sample
example :
    (pollAll { oldLimit := 10 } ⟨[], [], [{ id := 1, ptype := .boolean, interval := -1, last := none }]⟩ 1
      [(100, some (.b true)), (101, some (.b true)), (102, none), (103, some (.b true)), (104, some (.b false))]).store
    = [⟨1, 100, 4⟩, ⟨1, 103, 4⟩, ⟨1, 104, 0⟩] := by decide

end QtVerif.History.C18
