import QtVerif.Proofs.Auth
/-!
C10 — Only correctly signed, well-formed tokens authenticate, at their own level.

Property theorems only; the model is `QtVerif/Model/Auth.lean`, helper lemmas are in `QtVerif/Proofs/Auth.lean`.
Every theorem quantifies over all header texts (lists of code points), all decoded token contents, all clock
values, all skews / clock limits / issuer strings, all hash states and all histories of password changes,
restarts and `PUT /device` calls. HMAC is abstract: `Tok.sigKey = some k` reads "the HS256 signature over
`header.payload` verifies under key `k`" (computed by the harness with `hmac`/`hashlib`); that a signature
verifies under at most one key is the HMAC-SHA256 assumption of the trusted base.

`Cfg.strictIat = false` is the code as found (an issue time is checked only when the token carries one and the hub
clock is real: known finding C10-iat-optional); `Cfg.strictIat = true` is the property read strictly.
`auth_sound_strict_reading` (alias `auth_sound`) is about the strict reading ONLY; the code as found is
`auth_sound_as_found`.

The first part states the theorems over pairs (header text, decoded content); the section "the decision as a function
of the header TEXT" restates the main ones (`granted_text_iff`, `auth_sound_as_found_text`, `auth_complete_text`, …)
with the content a function of the text, for every decoder. The last section is the output clause ("the API never
returns a password or its hash"): `device_doc_never_contains_hash` and its non-interference form.
-/
namespace QtVerif.Auth.C10
open QtVerif.Auth

/-- What the property demands of a request that is granted the level of user `U` (all but the issue time). -/
structure Meets (cfg : Cfg) (origin : String) (hs : Hashes) (U : User) (hdr : List Nat) (t : Tok) : Prop where
  /-- well-formed text: `Bearer <three base64url segments>` -/
  text : TextValid hdr
  /-- names U (and therefore the level granted is U's own) -/
  names : t.usr = .str U.name
  issuer : t.iss = some cfg.iss
  origin : t.ori = some origin
  alg : t.alg = some cfg.alg
  /-- signed with U's *current* password hash -/
  signed : t.sigKey = some (hs.get U)
  keySet : hs.get U ≠ ""

/-- "an issue time within the allowed skew" -/
def IssueTimeWithin (cfg : Cfg) (now : Int) (t : Tok) : Prop :=
  ∃ i, t.iat = .num i ∧ now - i ≤ cfg.skew ∧ i - now ≤ cfg.skew

/-- A token that passes every check of `parse_auth_header` for the consumer key table and names `U` meets the
conjuncts of the property for `U`'s current hash (both readings; the issue time is treated by `auth_sound*`). -/
theorem valid_meets {cfg : Cfg} {now : Int} {origin : String} {hs : Hashes} {U : User} {hdr : List Nat}
    {t : Tok} (htext : TextValid hdr) (hu : t.usr = .str U.name)
    (hv : TokValid cfg now origin true (consumerKey hs) t) : Meets cfg origin hs U hdr t := by
  have hk := hv.hkey
  have hs' := hv.hsig
  rw [hu, consumerKey_name] at hk hs'
  exact ⟨htext, hu, hv.hiss, hv.hori, hv.halg, hs', hk⟩

/-- **Soundness, STRICT READING only** (`strictIat = true` is the repaired reading of the property, NOT the code as
found; the code as found is `auth_sound_as_found`, and `unrepaired_iat_optional` / `unrepaired_clockless_stale` show
that it does not meet this statement). With the issue-time requirement enforced, a request carrying an
`Authorization` header is granted the level of `U` only if the header is a well-formed bearer token that names `U`,
has the expected issuer and origin, an issue time within the skew, algorithm HS256 and a signature made with `U`'s
current password hash. -/
theorem auth_sound_strict_reading (cfg : Cfg) (now : Int) (origin : String) (hs : Hashes) (hdr : List Nat)
    (dec : Option Tok) (U : User) (hstrict : cfg.strictIat = true) (hne : hdr ≠ [])
    (h : prepare cfg now origin hs hdr dec = some U) :
    ∃ t, dec = some t ∧ Meets cfg origin hs U hdr t ∧ IssueTimeWithin cfg now t := by
  obtain ⟨htext, t, hd, hu, hv⟩ := (prepare_iff cfg now origin hs hdr dec U hne).1 h
  exact ⟨t, hd, valid_meets htext hu hv, iatStep_strict hstrict hv.hiat⟩

/-- STRICT READING (strictIat = true; the code as found is auth_sound_as_found): alias of
`auth_sound_strict_reading`, kept under this name because the manifest text cites it. It says nothing about the
code as it is. -/
theorem auth_sound (cfg : Cfg) (now : Int) (origin : String) (hs : Hashes) (hdr : List Nat) (dec : Option Tok)
    (U : User) (hstrict : cfg.strictIat = true) (hne : hdr ≠ [])
    (h : prepare cfg now origin hs hdr dec = some U) :
    ∃ t, dec = some t ∧ Meets cfg origin hs U hdr t ∧ IssueTimeWithin cfg now t :=
  auth_sound_strict_reading cfg now origin hs hdr dec U hstrict hne h

/-- **Soundness of the code as found.** Same conjuncts; the issue time is within the skew *whenever the token
states one and the hub clock is real* (the code's choice). -/
theorem auth_sound_as_found (cfg : Cfg) (now : Int) (origin : String) (hs : Hashes) (hdr : List Nat)
    (dec : Option Tok) (U : User) (hasis : cfg.strictIat = false) (hne : hdr ≠ [])
    (h : prepare cfg now origin hs hdr dec = some U) :
    ∃ t, dec = some t ∧ Meets cfg origin hs U hdr t ∧
      (realClock cfg now = true → ∀ i, t.iat = .num i → now - i ≤ cfg.skew ∧ i - now ≤ cfg.skew) := by
  obtain ⟨htext, t, hd, hu, hv⟩ := (prepare_iff cfg now origin hs hdr dec U hne).1 h
  refine ⟨t, hd, valid_meets htext hu hv, fun hr i hi => ?_⟩
  have := hv.hiat
  rw [hi] at this
  exact iatStep_asis_num hasis hr this

/-- A small concrete world used by the non-vacuity examples and the counter-examples: 1024 ticks per second,
skew 300 s, clock limit 1546304400 s, a header `Bearer AA.AA.AA`. -/
def exCfg (strict : Bool) : Cfg := ⟨1024, 307200, 1583415705600, "qToggle", "HS256", "e3b0", strict⟩
def exNow : Int := 1740800000000
def exHdr : List Nat := [66, 101, 97, 114, 101, 114, 32, 65, 65, 46, 65, 65, 46, 65, 65]
def exHs : Hashes := ⟨"k-admin", "k-normal", "e3b0"⟩
def exTok (usr : String) (key : Key) (iat : TClaim) : Tok :=
  { alg := some "HS256", kidBad := false, critBad := false, b64False := false, iss := some "qToggle",
    ori := some "consumer", usr := .str usr, iat := iat, nbf := .absent, exp := .absent, audBad := false,
    subBad := false, jtiBad := false, sigKey := some key }

/-- non-vacuity of `auth_sound_strict_reading` / `auth_sound_as_found`: a granted request exists in both readings -/
example : prepare (exCfg true) exNow "consumer" exHs exHdr (some (exTok "normal" "k-normal" (.num (exNow - 5000))))
    = some .normal := by decide
example : prepare (exCfg false) exNow "consumer" exHs exHdr (some (exTok "admin" "k-admin" (.num (exNow + 307200))))
    = some .admin := by decide

/-- **The code as found violates the strict reading** (known finding C10-iat-optional): a correctly signed token
without any issue time is granted admin level, at any time. -/
theorem unrepaired_iat_optional :
    ∃ t, prepare (exCfg false) exNow "consumer" exHs exHdr (some t) = some .admin ∧
      ¬ IssueTimeWithin (exCfg false) exNow t :=
  ⟨exTok "admin" "k-admin" .absent, by decide, by rintro ⟨i, hi, _⟩; cases hi⟩

/-- … and on a hub whose clock is not real (before the limit) a token with an arbitrarily old issue time is
granted (known finding C10-clockless-stale-iat). -/
theorem unrepaired_clockless_stale :
    ∃ t, prepare (exCfg false) 1000000000 "consumer" exHs exHdr (some t) = some .admin ∧
      ¬ IssueTimeWithin (exCfg false) 1000000000 t :=
  ⟨exTok "admin" "k-admin" (.num 0), by decide, by
    rintro ⟨i, hi, h1, _⟩
    cases hi
    simp [exCfg] at h1⟩

/-- The strict model refuses both witnesses. -/
example : prepare (exCfg true) exNow "consumer" exHs exHdr (some (exTok "admin" "k-admin" .absent)) = none := by
  decide
example : prepare (exCfg true) 1000000000 "consumer" exHs exHdr (some (exTok "admin" "k-admin" (.num 0))) = none := by
  decide

/-- **Exact characterisation** of `prepare` on a request with an `Authorization` header (both readings): granted
`U` iff the text is valid, the segments decode and the token passes every check of `parse_auth_header` for `U`. -/
theorem granted_iff (cfg : Cfg) (now : Int) (origin : String) (hs : Hashes) (hdr : List Nat) (dec : Option Tok)
    (U : User) (hne : hdr ≠ []) :
    prepare cfg now origin hs hdr dec = some U ↔
      TextValid hdr ∧ ∃ t, dec = some t ∧ t.usr = .str U.name ∧ TokValid cfg now origin true (consumerKey hs) t :=
  prepare_iff cfg now origin hs hdr dec U hne

/-- No registered-claim or header extension that PyJWT would refuse. -/
structure Clean (t : Tok) : Prop where
  kid : t.kidBad = false
  crit : t.critBad = false
  b64 : t.b64False = false
  nbf : t.nbf = .absent
  exp : t.exp = .absent
  aud : t.audBad = false
  sub : t.subBad = false
  jti : t.jtiBad = false

/-- **Completeness.** A well-formed token that meets every conjunct of the property (and carries nothing else that
PyJWT refuses) is granted exactly the level of the user it names — in both readings. -/
theorem auth_complete (cfg : Cfg) (now : Int) (origin : String) (hs : Hashes) (hdr : List Nat) (t : Tok) (U : User)
    (htps : 0 < cfg.tps) (hne : hdr ≠ []) (hm : Meets cfg origin hs U hdr t) (hc : Clean t)
    (i : Int) (hi : t.iat = .num i) (hi0 : 0 ≤ i) (h1 : now - i ≤ cfg.skew) (h2 : i - now ≤ cfg.skew) :
    prepare cfg now origin hs hdr (some t) = some U := by
  refine (prepare_iff cfg now origin hs hdr (some t) U hne).2 ⟨hm.text, t, rfl, hm.names, ?_⟩
  have hk : consumerKey hs t.usr = hs.get U := by rw [hm.names, consumerKey_name]
  refine ⟨hc.kid, hc.crit, hc.b64, hm.issuer, hm.origin, ?_, ?_, ?_, hm.alg, ?_, ?_, ?_, ?_, hc.aud, hc.sub, hc.jti⟩
  · rw [hi]; exact iatStep_num_within h1 h2
  · intro _; rw [hm.names]; cases U <;> decide
  · rw [hk]; exact hm.keySet
  · rw [hk]; exact hm.signed
  · rw [hi]; exact libNotAfter_num htps hi0 (by omega)
  · rw [hc.nbf]; rfl
  · rw [hc.exp]; rfl

/-- non-vacuity of `auth_complete` -/
example : Meets (exCfg false) "consumer" exHs .viewonly exHdr (exTok "viewonly" "e3b0" (.num exNow)) ∧
    Clean (exTok "viewonly" "e3b0" (.num exNow)) :=
  ⟨⟨⟨[65, 65, 46, 65, 65, 46, 65, 65], [65, 65], [65, 65], [65, 65], by decide, by decide, by decide, by decide,
      by decide⟩, rfl, rfl, rfl, rfl, rfl, by decide⟩, ⟨rfl, rfl, rfl, rfl, rfl, rfl, rfl, rfl⟩⟩

/-- **No header.** A request without (or with an empty) `Authorization` header is granted a level iff the admin
password is empty, and then it is admin. -/
theorem no_header_only_if_empty_admin (cfg : Cfg) (now : Int) (origin : String) (hs : Hashes) (dec : Option Tok)
    (U : User) :
    prepare cfg now origin hs [] dec = some U ↔ U = .admin ∧ hs.admin = cfg.emptyHash :=
  prepare_nohdr cfg now origin hs dec U

example : prepare (exCfg false) exNow "consumer" ⟨"e3b0", "x", "y"⟩ [] none = some .admin := by decide
example : prepare (exCfg false) exNow "consumer" exHs [] none = none := by decide

/-- **Any other algorithm (or "none", or no algorithm) never authenticates.** -/
theorem other_alg_never (cfg : Cfg) (now : Int) (origin : String) (hs : Hashes) (hdr : List Nat) (t : Tok)
    (hne : hdr ≠ []) (ha : t.alg ≠ some cfg.alg) : prepare cfg now origin hs hdr (some t) = none := by
  cases h : prepare cfg now origin hs hdr (some t) with
  | none => rfl
  | some U =>
    obtain ⟨_, t', hd, _, hv⟩ := (prepare_iff cfg now origin hs hdr (some t) U hne).1 h
    cases hd
    exact absurd hv.halg ha

example : prepare (exCfg false) exNow "consumer" exHs exHdr
    (some { exTok "admin" "k-admin" (.num exNow) with alg := some "none" }) = none := by decide

/-- **Malformed text never authenticates**: a non-empty header that is not `Bearer <three base64url segments>`,
or whose header/claims segments are not JSON objects, yields no access. -/
theorem malformed_never (cfg : Cfg) (now : Int) (origin : String) (hs : Hashes) (hdr : List Nat) (dec : Option Tok)
    (hne : hdr ≠ []) (hbad : ¬ TextValid hdr ∨ dec = none) : prepare cfg now origin hs hdr dec = none := by
  cases h : prepare cfg now origin hs hdr dec with
  | none => rfl
  | some U =>
    obtain ⟨htext, t, hd, _, _⟩ := (prepare_iff cfg now origin hs hdr dec U hne).1 h
    rcases hbad with hb | hb
    · exact absurd htext hb
    · rw [hb] at hd; cases hd

/-- `bearer` without a separating space, and a token with a fourth segment, are such texts -/
example : ¬ TextValid [66, 101, 97, 114, 101, 114, 65, 65, 46, 65, 65, 46, 65, 65] := by
  rintro ⟨tok, hd, pl, sg, hm, _⟩
  have : matchBearer [66, 101, 97, 114, 101, 114, 65, 65, 46, 65, 65, 46, 65, 65] = none := by decide
  rw [this] at hm; cases hm
example : ¬ TextValid (exHdr ++ [46, 65, 65]) := by
  rintro ⟨tok, hd, pl, sg, hm, hs, h1, h2, h3⟩
  have : tok = [65, 65, 46, 65, 65, 46, 65, 65, 46, 65, 65] := by
    have : matchBearer (exHdr ++ [46, 65, 65]) = some [65, 65, 46, 65, 65, 46, 65, 65, 46, 65, 65] := by decide
    rw [this] at hm; cases hm; rfl
  subst this
  have : splitTok [65, 65, 46, 65, 65, 46, 65, 65, 46, 65, 65] = some ([65, 65], [65, 65, 46, 65, 65], [65, 65]) := by
    decide
  rw [this] at hs; cases hs
  revert h2; decide

/-- **Wrong key never authenticates**: if the signature does not verify under the current hash of the user the
token names (bad signature, another user's key, an old password's key), there is no access. -/
theorem wrong_key_never (cfg : Cfg) (now : Int) (origin : String) (hs : Hashes) (hdr : List Nat) (t : Tok)
    (hne : hdr ≠ []) (hk : ∀ U, t.usr = .str U.name → t.sigKey ≠ some (hs.get U)) :
    prepare cfg now origin hs hdr (some t) = none := by
  cases h : prepare cfg now origin hs hdr (some t) with
  | none => rfl
  | some U =>
    obtain ⟨htext, t', hd, hu, hv⟩ := (prepare_iff cfg now origin hs hdr (some t) U hne).1 h
    cases hd
    exact absurd (valid_meets htext hu hv).signed (hk U hu)

example : prepare (exCfg false) exNow "consumer" exHs exHdr (some (exTok "admin" "k-normal" (.num exNow))) = none := by
  decide

/-- **Wrong issuer / origin, unknown or missing user never authenticate.** -/
theorem wrong_claims_never (cfg : Cfg) (now : Int) (origin : String) (hs : Hashes) (hdr : List Nat) (t : Tok)
    (hne : hdr ≠ [])
    (hbad : t.iss ≠ some cfg.iss ∨ t.ori ≠ some origin ∨ (∀ U : User, t.usr ≠ .str U.name)) :
    prepare cfg now origin hs hdr (some t) = none := by
  cases h : prepare cfg now origin hs hdr (some t) with
  | none => rfl
  | some U =>
    obtain ⟨_, t', hd, hu, hv⟩ := (prepare_iff cfg now origin hs hdr (some t) U hne).1 h
    cases hd
    rcases hbad with hb | hb | hb
    · exact absurd hv.hiss hb
    · exact absurd hv.hori hb
    · exact absurd hu (hb U)

example : prepare (exCfg false) exNow "consumer" exHs exHdr (some (exTok "root" "k-admin" (.num exNow))) = none := by
  decide

/-- **A stale or future issue time never authenticates** on a hub with a real clock (both readings). -/
theorem stale_never (cfg : Cfg) (now : Int) (origin : String) (hs : Hashes) (hdr : List Nat) (t : Tok) (i : Int)
    (hne : hdr ≠ []) (hr : realClock cfg now = true) (hi : t.iat = .num i)
    (hs' : now - i > cfg.skew ∨ i - now > cfg.skew) : prepare cfg now origin hs hdr (some t) = none := by
  cases h : prepare cfg now origin hs hdr (some t) with
  | none => rfl
  | some U =>
    obtain ⟨_, t', hd, _, hv⟩ := (prepare_iff cfg now origin hs hdr (some t) U hne).1 h
    cases hd
    have h3 := hv.hiat
    rw [hi] at h3
    cases hst : cfg.strictIat with
    | false => have := iatStep_asis_num hst hr h3; omega
    | true =>
      obtain ⟨j, hj, h4, h5⟩ := iatStep_strict hst h3
      cases hj; omega

example : prepare (exCfg false) exNow "consumer" exHs exHdr
    (some (exTok "admin" "k-admin" (.num (exNow - 307201)))) = none := by decide

/-! ### password histories -/

/-- **Only the latest password authenticates, for every history** of password changes, restarts and `PUT /device`
calls on a hub started without a persisted record: the hash a user's tokens are checked against is the last one
set for that user (the empty-password hash if none was). Induction over the history. -/
theorem password_history (emp : Key) (he : emp ≠ "") (ops : List Op) (hok : ∀ op ∈ ops, OpOk op) (u : User) :
    (run emp (boot emp none) ops).mem.get u = lastKey emp u ops := by
  have h := (run_good_lastKey emp u ops (boot emp none) (good_boot emp he) hok).2
  have h0 : (boot emp none).mem.get u = emp := by cases u <;> simp [boot, load, noHashes, orEmpty, Hashes.get]
  rw [h, h0]

example : (run "e3b0" (boot "e3b0" none) [.set .admin "h1", .restart, .set .normal "h2", .set .admin "h3", .put,
    .restart]).mem = ⟨"h3", "h2", "e3b0"⟩ := by decide

/-- **Also after a restart**: restarting the hub after any history leaves the three hashes as they were. -/
theorem restart_keeps_passwords (emp : Key) (he : emp ≠ "") (ops : List Op) (hok : ∀ op ∈ ops, OpOk op) :
    (step emp (run emp (boot emp none) ops) .restart).mem = (run emp (boot emp none) ops).mem :=
  step_restart_mem (run_good_lastKey emp .admin ops (boot emp none) (good_boot emp he) hok).1

/-- A hub started on a persisted record checks each user against the persisted hash, or against the empty-password
hash where the record has none (null, empty or missing field). -/
theorem boot_loads_record (emp : Key) (r : Hashes) (u : User) :
    (boot emp (some r)).mem.get u = if r.get u = "" then emp else r.get u := by
  cases u <;> simp [boot, load, noHashes, orEmpty, Hashes.get] <;> split <;> simp_all

example : (boot "e3b0" (some ⟨"h1", "", "h3"⟩)).mem = ⟨"h1", "e3b0", "h3"⟩ := by decide

/-- Soundness along histories: after any history, a request granted `U`'s level carries a signature made with the
hash of the *last* password set for `U` — a token signed with an older password's hash is refused. -/
theorem only_latest_password_authenticates (cfg : Cfg) (he : cfg.emptyHash ≠ "") (ops : List Op)
    (hok : ∀ op ∈ ops, OpOk op) (now : Int) (origin : String) (hdr : List Nat) (dec : Option Tok) (U : User)
    (hne : hdr ≠ [])
    (h : prepare cfg now origin (run cfg.emptyHash (boot cfg.emptyHash none) ops).mem hdr dec = some U) :
    ∃ t, dec = some t ∧ t.usr = .str U.name ∧ t.sigKey = some (lastKey cfg.emptyHash U ops) := by
  obtain ⟨htext, t, hd, hu, hv⟩ := (prepare_iff cfg now origin _ hdr dec U hne).1 h
  have hm := valid_meets htext hu hv
  exact ⟨t, hd, hu, by rw [← password_history cfg.emptyHash he ops hok U]; exact hm.signed⟩

/-- … in particular a token whose signature verifies only under some other (older) key is refused. -/
theorem old_password_rejected (cfg : Cfg) (he : cfg.emptyHash ≠ "") (ops : List Op) (hok : ∀ op ∈ ops, OpOk op)
    (now : Int) (origin : String) (hdr : List Nat) (t : Tok) (U : User) (hne : hdr ≠ []) (old : Key)
    (hsig : t.sigKey = some old) (hold : old ≠ lastKey cfg.emptyHash U ops) :
    prepare cfg now origin (run cfg.emptyHash (boot cfg.emptyHash none) ops).mem hdr (some t) ≠ some U := by
  intro h
  obtain ⟨t', hd, _, hs⟩ := only_latest_password_authenticates cfg he ops hok now origin hdr (some t) U hne h
  cases hd
  rw [hsig] at hs
  cases hs
  exact hold rfl

example : lastKey "e3b0" .admin [.set .admin "h1", .restart, .set .admin "h3"] = "h3" ∧ "h1" ≠ "h3" := by decide

/-! ### device-origin tokens (`post_slave_device_events`) -/

/-- The slave event endpoint lets a request pass iff it carries a well-formed token with the expected issuer, the
*device* origin, (as found) a fresh-or-absent issue time, HS256 and a signature made with that slave's admin hash. -/
theorem device_auth_iff (cfg : Cfg) (now : Int) (origin : String) (slaveHash : Key) (hdr : List Nat)
    (dec : Option Tok) :
    deviceAuth cfg now origin slaveHash hdr dec = true ↔
      hdr ≠ [] ∧ TextValid hdr ∧ ∃ t, dec = some t ∧ TokValid cfg now origin false (fun _ => slaveHash) t :=
  deviceAuth_iff cfg now origin slaveHash hdr dec

theorem device_auth_sound (cfg : Cfg) (now : Int) (origin : String) (slaveHash : Key) (hdr : List Nat)
    (dec : Option Tok) (h : deviceAuth cfg now origin slaveHash hdr dec = true) :
    TextValid hdr ∧ ∃ t, dec = some t ∧ t.iss = some cfg.iss ∧ t.ori = some origin ∧ t.alg = some cfg.alg ∧
      t.sigKey = some slaveHash ∧ slaveHash ≠ "" := by
  obtain ⟨_, htext, t, hd, hv⟩ := (deviceAuth_iff cfg now origin slaveHash hdr dec).1 h
  exact ⟨htext, t, hd, hv.hiss, hv.hori, hv.halg, hv.hsig, hv.hkey⟩

example : deviceAuth (exCfg false) exNow "device" "k-slave" exHdr
    (some { exTok "" "k-slave" (.num exNow) with ori := some "device", usr := .missing }) = true := by decide

/-! ### tokens the hub issues -/

/-- **Issued tokens verify.** The token `make_auth_header(origin, U, key)` issues at time `now`, presented at time
`now'` to a hub (same rules) whose hash for `U` is `key`, is granted exactly `U`'s level — provided its issue second
is within the skew of `now'` when the issuer's clock was real (as found: a token issued without `iat` by a
clock-less hub is accepted at any time). This covers the hub's calls to its slaves (`consumer`, `admin`, the
slave's admin hash). -/
theorem issued_tokens_verify (cfg : Cfg) (now now' : Int) (origin : String) (hs : Hashes) (U : User) (key : Key)
    (hdr : List Nat) (hasis : cfg.strictIat = false) (htps : 0 < cfg.tps) (hne : hdr ≠ []) (htext : TextValid hdr)
    (hkey : key ≠ "") (hcur : hs.get U = key) (h0 : 0 ≤ now)
    (hskew : realClock cfg now = true →
      now' - now / cfg.tps * cfg.tps ≤ cfg.skew ∧ now / cfg.tps * cfg.tps - now' ≤ cfg.skew) :
    prepare cfg now' origin hs hdr (some (makeTok cfg now origin (some U.name) key)) = some U := by
  have hname : U.name ≠ "" := by cases U <;> decide
  refine (prepare_iff cfg now' origin hs hdr _ U hne).2 ⟨htext, _, rfl, by simp [makeTok, hname], ?_⟩
  have husr : (makeTok cfg now origin (some U.name) key).usr = .str U.name := by simp [makeTok, hname]
  have hk : consumerKey hs (makeTok cfg now origin (some U.name) key).usr = key := by
    rw [husr, consumerKey_name, hcur]
  have hpos : (0 : Int) < cfg.tps := by exact_mod_cast htps
  have hfl : 0 ≤ now / (cfg.tps : Int) * cfg.tps := Int.mul_nonneg (Int.ediv_nonneg h0 (by omega)) (by omega)
  refine ⟨rfl, rfl, rfl, rfl, rfl, ?_, ?_, ?_, rfl, ?_, ?_, rfl, rfl, rfl, rfl, rfl⟩
  · cases hr : realClock cfg now with
    | false => simp [makeTok, hr, iatStep, hasis]
    | true =>
      obtain ⟨a, b⟩ := hskew hr
      simp only [makeTok, hr, if_true]
      exact iatStep_num_within a b
  · intro _; rw [husr]; simp [usrPresent, hname]
  · rw [hk]; exact hkey
  · rw [hk]; rfl
  · cases hr : realClock cfg now with
    | false => simp [makeTok, hr, libNotAfter, libInt]
    | true =>
      obtain ⟨_, b⟩ := hskew hr
      simp only [makeTok, hr, if_true]
      exact libNotAfter_num htps hfl (by omega)

/-- non-vacuity: presented at the instant of issue, with a skew of at least one second -/
example : prepare (exCfg false) (exNow + 700) "consumer" exHs exHdr
    (some (makeTok (exCfg false) (exNow + 700) "consumer" (some "admin") "k-admin")) = some .admin := by decide

/-- **Issued device tokens verify** (webhooks / slave events: `make_auth_header('device', None, key)` checked by
`post_slave_device_events` with the same key). -/
theorem issued_device_tokens_verify (cfg : Cfg) (now now' : Int) (origin : String) (key : Key) (hdr : List Nat)
    (hasis : cfg.strictIat = false) (htps : 0 < cfg.tps) (hne : hdr ≠ []) (htext : TextValid hdr)
    (hkey : key ≠ "") (h0 : 0 ≤ now)
    (hskew : realClock cfg now = true →
      now' - now / cfg.tps * cfg.tps ≤ cfg.skew ∧ now / cfg.tps * cfg.tps - now' ≤ cfg.skew) :
    deviceAuth cfg now' origin key hdr (some (makeTok cfg now origin none key)) = true := by
  refine (deviceAuth_iff cfg now' origin key hdr _).2 ⟨hne, htext, _, rfl, ?_⟩
  have hpos : (0 : Int) < cfg.tps := by exact_mod_cast htps
  have hfl : 0 ≤ now / (cfg.tps : Int) * cfg.tps := Int.mul_nonneg (Int.ediv_nonneg h0 (by omega)) (by omega)
  refine ⟨rfl, rfl, rfl, rfl, rfl, ?_, ?_, hkey, rfl, rfl, ?_, rfl, rfl, rfl, rfl, rfl⟩
  · cases hr : realClock cfg now with
    | false => simp [makeTok, hr, iatStep, hasis]
    | true =>
      obtain ⟨a, b⟩ := hskew hr
      simp only [makeTok, hr, if_true]
      exact iatStep_num_within a b
  · intro h; cases h
  · cases hr : realClock cfg now with
    | false => simp [makeTok, hr, libNotAfter, libInt]
    | true =>
      obtain ⟨_, b⟩ := hskew hr
      simp only [makeTok, hr, if_true]
      exact libNotAfter_num htps hfl (by omega)

example : deviceAuth (exCfg false) exNow "device" "k-slave" exHdr
    (some (makeTok (exCfg false) exNow "device" none "k-slave")) = true := by decide

/-- The text `f'Bearer {token}'` the hub sends matches the header expression and yields the token back. -/
theorem issued_header_matches (tok : List Nat) (hne : tok ≠ []) (hc : ∀ c ∈ tok, isTokChar c = true) :
    matchBearer ([66, 101, 97, 114, 101, 114, 32] ++ tok) = some tok :=
  matchBearer_issued tok hne hc

example : matchBearer exHdr = some [65, 65, 46, 65, 65, 46, 65, 65] := by decide

/-! ### the slave's password, changed through the master -/

/-- **Password history of a slave record.** For every history of own-password operations and slave password changes
forwarded through the master (any password, also the empty one), the hash the master holds for the slave is the
last one set, and the master's own three hashes evolve exactly as if the slave operations were absent. -/
theorem slave_password_history (emp : Key) (h : Hub) (ops : List HOp) :
    (hrun emp h ops).slave = lastSlaveKey h.slave ops ∧ (hrun emp h ops).dev = run emp h.dev (devOps ops) :=
  ⟨hrun_slave emp ops h, hrun_dev emp ops h⟩

example : (hrun "e3b0" ⟨boot "e3b0" none, "s1"⟩ [.slaveSet "s2", .dev (.set .admin "h1"), .slaveSet "e3b0", .dev .restart]).slave
    = "e3b0" := by decide

/-- **Only the slave's latest password authenticates at the events endpoint**: after any history, a device-origin
token that passes carries a signature made with the hash of the last password set for the slave (a superseded
hash is refused: `old_slave_password_rejected`). -/
theorem only_latest_slave_password_authenticates (cfg : Cfg) (h : Hub) (ops : List HOp) (now : Int) (origin : String)
    (hdr : List Nat) (dec : Option Tok)
    (hp : deviceAuth cfg now origin (hrun cfg.emptyHash h ops).slave hdr dec = true) :
    ∃ t, dec = some t ∧ t.ori = some origin ∧ t.sigKey = some (lastSlaveKey h.slave ops) := by
  obtain ⟨_, t, hd, _, ho, _, hs, _⟩ := device_auth_sound cfg now origin _ hdr dec hp
  exact ⟨t, hd, ho, by rw [← hrun_slave cfg.emptyHash ops h]; exact hs⟩

theorem old_slave_password_rejected (cfg : Cfg) (h : Hub) (ops : List HOp) (now : Int) (origin : String)
    (hdr : List Nat) (t : Tok) (old : Key) (hsig : t.sigKey = some old) (hold : old ≠ lastSlaveKey h.slave ops) :
    deviceAuth cfg now origin (hrun cfg.emptyHash h ops).slave hdr (some t) = false := by
  cases hp : deviceAuth cfg now origin (hrun cfg.emptyHash h ops).slave hdr (some t) with
  | false => rfl
  | true =>
    obtain ⟨t', hd, _, hs⟩ := only_latest_slave_password_authenticates cfg h ops now origin hdr (some t) hp
    cases hd
    rw [hsig] at hs
    cases hs
    exact absurd rfl hold

example : lastSlaveKey "s1" [.slaveSet "s2", .dev .put, .slaveSet "e3b0"] = "e3b0" ∧ "s2" ≠ "e3b0" := by decide

/-- **The token the master sends to its slave verifies there**, after any history: the slave is a hub under the same
rules whose admin hash is that of its current password; the master signs `consumer`/`admin` tokens with the hash it
holds, which is the last one set through it. -/
theorem master_token_verifies_at_slave (cfg : Cfg) (h : Hub) (ops : List HOp) (now now' : Int) (origin : String)
    (slaveHs : Hashes) (hdr : List Nat) (hasis : cfg.strictIat = false) (htps : 0 < cfg.tps) (hne : hdr ≠ [])
    (htext : TextValid hdr) (hcur : slaveHs.admin = lastSlaveKey h.slave ops) (hkey : lastSlaveKey h.slave ops ≠ "")
    (h0 : 0 ≤ now)
    (hskew : realClock cfg now = true →
      now' - now / cfg.tps * cfg.tps ≤ cfg.skew ∧ now / cfg.tps * cfg.tps - now' ≤ cfg.skew) :
    prepare cfg now' origin slaveHs hdr
      (some (makeTok cfg now origin (some "admin") (hrun cfg.emptyHash h ops).slave)) = some .admin := by
  rw [hrun_slave]
  exact issued_tokens_verify cfg now now' origin slaveHs .admin _ hdr hasis htps hne htext hkey hcur h0 hskew

/-- **The events endpoint authenticates before anything else**: a request whose token does not pass is answered
"unauthorized" whatever the slave's polling / listening configuration and whatever its body — it learns nothing about
the slave. And an answer other than "unauthorized" implies the token passed. -/
theorem events_unauthorized_first (cfg : Cfg) (now : Int) (origin : String) (slaveHash : Key)
    (polled listened bodyOk : Bool) (hdr : List Nat) (dec : Option Tok) :
    eventsOutcome cfg now origin slaveHash polled listened bodyOk hdr dec = .unauthorized ↔
      deviceAuth cfg now origin slaveHash hdr dec = false := by
  unfold eventsOutcome
  cases deviceAuth cfg now origin slaveHash hdr dec <;> cases bodyOk <;> cases polled <;> cases listened <;> simp

example : eventsOutcome (exCfg false) exNow "device" "k-slave" true false true exHdr
    (some { exTok "" "k-other" (.num exNow) with ori := some "device", usr := .missing }) = .unauthorized := by decide
example : eventsOutcome (exCfg false) exNow "device" "k-slave" true false true exHdr
    (some { exTok "" "k-slave" (.num exNow) with ori := some "device", usr := .missing }) = .pollingEnabled := by decide

/-! ### the decision as a function of the header TEXT

Above, the header text `hdr` and the decoded content `dec` are independent parameters of `prepare`, so those theorems
quantify over *pairs* (text, content). Here the content is `D.decode (tokenPart hdr)`: a function of the text, for an
arbitrary decoder `D` (the real one — PyJWT, base64, json, hmac — is trusted and run by the harness). The statements
below therefore quantify over **all header texts and all decoders**; each is a corollary of its field-level twin. -/

/-- **Exact characterisation over texts**: the header text `hdr` is granted `U` iff it is `Bearer <three base64url
segments>` and what the decoder makes *of that very token text* passes every check of `parse_auth_header` for `U`. -/
theorem granted_text_iff (D : Decoder) (cfg : Cfg) (now : Int) (origin : String) (hs : Hashes) (hdr : List Nat)
    (U : User) (hne : hdr ≠ []) :
    prepareText D cfg now origin hs hdr = some U ↔
      TextValid hdr ∧ ∃ t, D.decode (tokenPart hdr) = some t ∧ t.usr = .str U.name ∧
        TokValid cfg now origin true (consumerKey hs) t :=
  granted_iff cfg now origin hs hdr (D.decode (tokenPart hdr)) U hne

/-- … and on a valid text `tokenPart hdr` is group 1 of the bearer expression (what the code passes to `jwt.decode`). -/
theorem text_valid_token_part {hdr : List Nat} (h : TextValid hdr) : matchBearer hdr = some (tokenPart hdr) :=
  matchBearer_tokenPart h

/-- **Soundness of the code as found, over texts.** -/
theorem auth_sound_as_found_text (D : Decoder) (cfg : Cfg) (now : Int) (origin : String) (hs : Hashes)
    (hdr : List Nat) (U : User) (hasis : cfg.strictIat = false) (hne : hdr ≠ [])
    (h : prepareText D cfg now origin hs hdr = some U) :
    ∃ t, D.decode (tokenPart hdr) = some t ∧ Meets cfg origin hs U hdr t ∧
      (realClock cfg now = true → ∀ i, t.iat = .num i → now - i ≤ cfg.skew ∧ i - now ≤ cfg.skew) :=
  auth_sound_as_found cfg now origin hs hdr (D.decode (tokenPart hdr)) U hasis hne h

/-- **Soundness, STRICT READING only (not the code as found), over texts.** -/
theorem auth_sound_strict_reading_text (D : Decoder) (cfg : Cfg) (now : Int) (origin : String) (hs : Hashes)
    (hdr : List Nat) (U : User) (hstrict : cfg.strictIat = true) (hne : hdr ≠ [])
    (h : prepareText D cfg now origin hs hdr = some U) :
    ∃ t, D.decode (tokenPart hdr) = some t ∧ Meets cfg origin hs U hdr t ∧ IssueTimeWithin cfg now t :=
  auth_sound_strict_reading cfg now origin hs hdr (D.decode (tokenPart hdr)) U hstrict hne h

/-- **Completeness over texts**: a header text whose token part decodes to a content that meets every conjunct of the
property is granted exactly the level of the user it names. -/
theorem auth_complete_text (D : Decoder) (cfg : Cfg) (now : Int) (origin : String) (hs : Hashes) (hdr : List Nat)
    (t : Tok) (U : User) (hd : D.decode (tokenPart hdr) = some t)
    (htps : 0 < cfg.tps) (hne : hdr ≠ []) (hm : Meets cfg origin hs U hdr t) (hc : Clean t)
    (i : Int) (hi : t.iat = .num i) (hi0 : 0 ≤ i) (h1 : now - i ≤ cfg.skew) (h2 : i - now ≤ cfg.skew) :
    prepareText D cfg now origin hs hdr = some U := by
  unfold prepareText
  rw [hd]
  exact auth_complete cfg now origin hs hdr t U htps hne hm hc i hi hi0 h1 h2

/-- **No header, over decoders.** -/
theorem no_header_text (D : Decoder) (cfg : Cfg) (now : Int) (origin : String) (hs : Hashes) (U : User) :
    prepareText D cfg now origin hs [] = some U ↔ U = .admin ∧ hs.admin = cfg.emptyHash :=
  no_header_only_if_empty_admin cfg now origin hs _ U

/-- **Malformed text never authenticates, whatever the decoder**: a non-empty header text that is not
`Bearer <three base64url segments>` is refused for *every* decoder (the decoder is not even consulted), and so is a
text whose token part does not decode. -/
theorem malformed_text_never (D : Decoder) (cfg : Cfg) (now : Int) (origin : String) (hs : Hashes) (hdr : List Nat)
    (hne : hdr ≠ []) (hbad : ¬ TextValid hdr ∨ D.decode (tokenPart hdr) = none) :
    prepareText D cfg now origin hs hdr = none :=
  malformed_never cfg now origin hs hdr _ hne hbad

/-- **The decision depends on the decoder only through the token part of the text**: two decoders that agree on group 1
of this header give the same decision; and on a text that is not valid all decoders agree (refusal). -/
theorem decision_depends_on_token_part (D D' : Decoder) (cfg : Cfg) (now : Int) (origin : String) (hs : Hashes)
    (hdr : List Nat) (hne : hdr ≠ [])
    (h : TextValid hdr → D.decode (tokenPart hdr) = D'.decode (tokenPart hdr)) :
    prepareText D cfg now origin hs hdr = prepareText D' cfg now origin hs hdr := by
  by_cases hv : TextValid hdr
  · unfold prepareText; rw [h hv]
  · rw [malformed_text_never D cfg now origin hs hdr hne (Or.inl hv),
      malformed_text_never D' cfg now origin hs hdr hne (Or.inl hv)]

/-- **Wrong key never authenticates, over texts.** -/
theorem wrong_key_text_never (D : Decoder) (cfg : Cfg) (now : Int) (origin : String) (hs : Hashes) (hdr : List Nat)
    (hne : hdr ≠ [])
    (hk : ∀ t U, D.decode (tokenPart hdr) = some t → t.usr = .str U.name → t.sigKey ≠ some (hs.get U)) :
    prepareText D cfg now origin hs hdr = none := by
  unfold prepareText
  cases hd : D.decode (tokenPart hdr) with
  | none => exact malformed_never cfg now origin hs hdr none hne (Or.inr rfl)
  | some t => exact wrong_key_never cfg now origin hs hdr t hne (fun U hu => hk t U hd hu)

/-- **Only the latest password authenticates, over texts and histories.** -/
theorem only_latest_password_authenticates_text (D : Decoder) (cfg : Cfg) (he : cfg.emptyHash ≠ "") (ops : List Op)
    (hok : ∀ op ∈ ops, OpOk op) (now : Int) (origin : String) (hdr : List Nat) (U : User) (hne : hdr ≠ [])
    (h : prepareText D cfg now origin (run cfg.emptyHash (boot cfg.emptyHash none) ops).mem hdr = some U) :
    ∃ t, D.decode (tokenPart hdr) = some t ∧ t.usr = .str U.name ∧
      t.sigKey = some (lastKey cfg.emptyHash U ops) :=
  only_latest_password_authenticates cfg he ops hok now origin hdr _ U hne h

/-- **Slave events endpoint, over texts.** -/
theorem device_auth_text_iff (D : Decoder) (cfg : Cfg) (now : Int) (origin : String) (slaveHash : Key)
    (hdr : List Nat) :
    deviceAuthText D cfg now origin slaveHash hdr = true ↔
      hdr ≠ [] ∧ TextValid hdr ∧
        ∃ t, D.decode (tokenPart hdr) = some t ∧ TokValid cfg now origin false (fun _ => slaveHash) t :=
  device_auth_iff cfg now origin slaveHash hdr _

/-- A decoder for the examples: it knows one token text, `AA.AA.AA`. -/
def exD (t : Tok) : Decoder := ⟨fun tok => if tok = [65, 65, 46, 65, 65, 46, 65, 65] then some t else none⟩

/-- non-vacuity: the text `Bearer AA.AA.AA` is granted through the decoder; the equally well-formed text
`Bearer AQ.AA.AA` (another token, unknown to the decoder) and the text `bearerAA.AA.AA` are refused; a decoder that
reads another signing key out of the same text refuses it. -/
example : tokenPart exHdr = [65, 65, 46, 65, 65, 46, 65, 65] := by decide
example : prepareText (exD (exTok "normal" "k-normal" (.num (exNow - 5000)))) (exCfg false) exNow "consumer" exHs exHdr
    = some .normal := by decide
example : prepareText (exD (exTok "normal" "k-normal" (.num (exNow - 5000)))) (exCfg false) exNow "consumer" exHs
    [66, 101, 97, 114, 101, 114, 32, 65, 81, 46, 65, 65, 46, 65, 65] = none := by decide
example : prepareText (exD (exTok "normal" "k-normal" (.num (exNow - 5000)))) (exCfg false) exNow "consumer" exHs
    [98, 101, 97, 114, 101, 114, 65, 65, 46, 65, 65, 46, 65, 65] = none := by decide
example : prepareText (exD (exTok "normal" "k-admin" (.num (exNow - 5000)))) (exCfg false) exNow "consumer" exHs exHdr
    = none := by decide
example : deviceAuthText (exD { exTok "" "k-slave" (.num exNow) with ori := some "device", usr := .missing })
    (exCfg false) exNow "device" "k-slave" exHdr = true := by decide

/-! ### "the API never returns a password or its hash"

Output model (`Model/Auth.lean`): `deviceReply emp d req` is the password-related content of the body answered to
`GET /device` (the fields `admin_password`, `normal_password`, `viewonly_password`, each the text
`attr_get_password` returns) and to `PATCH`/`PUT /device` (no body). A hub life is told with clear-text passwords
(`PwOp`) and an arbitrary hash function `H` (SHA-256 hex digest in the code); the model proper sees `H pw` only. -/

/-- The state of a hub after a life told with clear-text passwords. -/
def lifeState (H : String → Key) (emp : Key) (h0 : Hub) (life : List PwOp) : Hub :=
  hrun emp h0 (life.map (PwOp.toHOp H))

/-- `s` is a secret of the life `past ++ later` of a hub started in `h0`: a hash held (in memory, in the persisted
record, or for the slave) in the initial or in any intermediate or in the current state, a password submitted at any
point of the life, its hash, or the empty-password hash. -/
def IsSecret (H : String → Key) (emp : Key) (h0 : Hub) (life : List PwOp) (s : String) : Prop :=
  (∃ past later, life = past ++ later ∧ s ∈ (lifeState H emp h0 past).hashes) ∨
  s ∈ PwOp.passwords life ∨ s ∈ (PwOp.passwords life).map H ∨ s = emp

/-- **Every password-related text the `/device` endpoints return is the literal `set` or the empty text** — for
every hash function, every initial state (any memory, any persisted record, any slave hash) and every life. -/
theorem device_reply_only_literals (H : String → Key) (emp : Key) (h0 : Hub) (life : List PwOp) (req : DevReq) :
    ∀ f ∈ deviceReply emp (lifeState H emp h0 life).dev req, f.2 = "set" ∨ f.2 = "" :=
  deviceReply_values emp _ req

/-- **The `/device` replies never contain a password or a hash**: for every hash function, every initial hub state and
every life of password changes (own and slave's), restarts and `PUT /device` calls, no text of the reply to
`GET`/`PATCH`/`PUT /device` equals any current or past hash or any password ever submitted — under the side condition
that the secret is not itself one of the two literal texts `set` / empty (necessary: `literal_password_is_echoed`;
harmless for hashes: `device_doc_never_contains_hash_of_length`). -/
theorem device_doc_never_contains_hash (H : String → Key) (emp : Key) (h0 : Hub) (life : List PwOp) (req : DevReq)
    (s : String) (_hsec : IsSecret H emp h0 life s) (hlit : s ≠ "set" ∧ s ≠ "") :
    ∀ f ∈ deviceReply emp (lifeState H emp h0 life).dev req, f.2 ≠ s := by
  intro f hf he
  rcases device_reply_only_literals H emp h0 life req f hf with h | h
  · exact hlit.1 (he ▸ h)
  · exact hlit.2 (he ▸ h)

/-- For secrets of 64 characters (every SHA-256 hex digest) the side condition holds: no reply text equals a current or
past hash, without further hypothesis. -/
theorem device_doc_never_contains_hash_of_length (H : String → Key) (emp : Key) (h0 : Hub) (life : List PwOp)
    (req : DevReq) (s : String) (hsec : IsSecret H emp h0 life s) (hlen : s.length = 64) :
    ∀ f ∈ deviceReply emp (lifeState H emp h0 life).dev req, f.2 ≠ s :=
  device_doc_never_contains_hash H emp h0 life req s hsec (length64_not_literal hlen)

/-- **Non-interference form** (no side condition): the replies depend on the hashes only through *which users have an
empty password*. Two hubs — whatever their lives, passwords and hashes — with the same users at the empty-password
hash answer every `/device` request with the same password-related content. -/
theorem device_reply_depends_only_on_emptiness (emp : Key) (d d' : Dev) (req : DevReq)
    (h : ∀ u : User, d.mem.get u = emp ↔ d'.mem.get u = emp) :
    deviceReply emp d req = deviceReply emp d' req := by
  have ha := h .admin
  have hn := h .normal
  have hv := h .viewonly
  simp only [Hashes.get] at ha hn hv
  cases req <;> simp only [deviceReply, deviceDoc, pwText, ha, hn, hv]

/-- What the document does tell: a user's field is empty iff that user's current hash is the empty-password hash —
along a life of a hub started without a record, iff the last password set for the user hashes to it (or none was). -/
theorem device_doc_reports_emptiness (emp : Key) (he : emp ≠ "") (ops : List Op) (hok : ∀ op ∈ ops, OpOk op) (u : User) :
    (u.pwField, pwText emp (lastKey emp u ops)) ∈ deviceDoc emp (run emp (boot emp none) ops) ∧
      (pwText emp (lastKey emp u ops) = "" ↔ lastKey emp u ops = emp) := by
  refine ⟨?_, pwText_eq_empty_iff emp _⟩
  rw [← password_history emp he ops hok u]
  cases u <;> simp [deviceDoc, Hashes.get]

/-- **The side condition is necessary**: a hub whose admin password is the text `set` returns that very text in the
`admin_password` field (and a hub with an empty password returns the empty text). -/
theorem literal_password_is_echoed (H : String → Key) (emp : Key) (h0 : Hub) (hH : H "set" ≠ emp) :
    IsSecret H emp h0 [.set .admin "set"] "set" ∧
      ("admin_password", "set") ∈ deviceReply emp (lifeState H emp h0 [.set .admin "set"]).dev .get := by
  refine ⟨Or.inr (Or.inl (by simp [PwOp.passwords])), ?_⟩
  simp [lifeState, hrun, hstep, step, PwOp.toHOp, deviceReply, deviceDoc, Hashes.set, pwText, hH, User.pwField]

/-- A concrete life (hashes abbreviated by a toy hash function): passwords changed, hub restarted, `PUT /device`,
slave password changed — the document shows `set` / empty only. -/
def exH (pw : String) : Key := if pw = "" then "e3b0" else "H(" ++ pw ++ ")"
def exLife : List PwOp := [.set .admin "hunter22", .restart, .set .normal "pw-normal", .slaveSet "pw-slave", .put,
  .set .normal "", .restart]

example : (lifeState exH "e3b0" ⟨boot "e3b0" none, "s0"⟩ exLife).dev.mem = ⟨"H(hunter22)", "e3b0", "e3b0"⟩ := by decide
example : deviceReply "e3b0" (lifeState exH "e3b0" ⟨boot "e3b0" none, "s0"⟩ exLife).dev .get
    = [("admin_password", "set"), ("normal_password", ""), ("viewonly_password", "")] := by decide
example : deviceReply "e3b0" (lifeState exH "e3b0" ⟨boot "e3b0" none, "s0"⟩ exLife).dev (.patch .admin "x") = [] := rfl
/-- non-vacuity of `IsSecret`: a superseded hash, a past password and the slave's hash are secrets of that life -/
example : IsSecret exH "e3b0" ⟨boot "e3b0" none, "s0"⟩ exLife "H(pw-normal)" :=
  Or.inl ⟨exLife.take 3, exLife.drop 3, by decide, by decide⟩
example : IsSecret exH "e3b0" ⟨boot "e3b0" none, "s0"⟩ exLife "pw-normal" := Or.inr (Or.inl (by decide))
example : IsSecret exH "e3b0" ⟨boot "e3b0" none, "s0"⟩ exLife "H(pw-slave)" :=
  Or.inl ⟨exLife, [], by decide, by decide⟩
/-- a 64-digit digest satisfies the side condition -/
example : ("e3b0c44298fc1c149afbf4c8996fb92427ae41e4649b934ca495991b7852b855" : String).length = 64 := by decide

end QtVerif.Auth.C10
