import QtVerif.Proofs.IntegrationCore
import QtVerif.Proofs.IntegrationConfig
import QtVerif.Proofs.IntegrationDeps
import QtVerif.Proofs.IntegrationTimeFns
/-!
# Integration — the property models as one system

Each property check C01 … C20 has its own self-contained model; where a property needs a fact that another property
establishes, that fact enters as an abstract hypothesis. This file discharges those hypotheses with the concrete
neighbouring model. For every corollary: which hypothesis of which property it removes, and what is left.

## 1. C01 × C02 — the scheduler over the real expression language
* Hypothesis removed: `Core.Frame cfg` of `C01.converges` / `settled_or_obliged` / `unrelated_change_is_noop`
  ("the evaluator looks only at the ports the expression names"), stated in `Model/Core.lean` for an ABSTRACT expression
  layer (`Cfg.deps`, `Cfg.evalE`).
* Discharged by: `C02.frame` for the concrete evaluator `Eval.eval`, through the adapter of
  `Proofs/IntegrationCore.lean` (`realCfg`: scheduler view ↦ `Eval.Ctx`, `Eval.Res` ↦ scheduler outcome) —
  `real_frame`.
* Corollaries: `converges_real_language` (C01's main theorem with `evalE := Eval.eval`, no expression-layer hypothesis
  left), `converges_real_language_spelled` (the same, written out in terms of `Eval.eval` for a port whose expression
  is a well-formed tree of the stateless fragment without TIME / TIMEMS: C02's totality theorems and `eval_noObj`
  (`Proofs/IntegrationNoObj.lean`) make the "outside the model" / complex / port-object outcomes impossible and the
  clock immaterial), `unrelated_change_is_noop_real`.
* Left as parameters (every value): the registry `ix`, the value coding `dec` / `enc` between the scheduler's `Int`
  codes and Python values, the per-port coercion, the literal table, role and clock.
* Modelling note: the scheduler model hands ONE view to an evaluation; `$` in a value expression (which the code reads
  from the port's live last value rather than from the snapshot) is given the same view. `converges` constrains only
  ports whose expression does not read the port itself, and `Frame` holds for every expression.

## 2. C07 × C03 — configuration persistence over the real parser and printer
* Hypothesis removed: `CanonOK cfg` (field `canon` of `CfgOK`) of every theorem of `Props/C07.lean`: "`canon`
  (= `str(parse(text))`) maps a canonical text to itself".
* Discharged by: `C03.stored_text_reparses` for `canon := print ∘ parse` (`canonOf`), for any further tree-level check
  (`transformAccept`: the external-dependency check of the transform attributes) — `canonOf_ok`, `cfgOK_of_parser`.
* Corollaries: `load_save_roundtrip_real_parser`, `restart_reproduces_saved_ports_real_parser`,
  `stored_expression_is_printed_parse`.
* Left: C03's own hypothesis `RegCanonical` (every function class is registered under its own NAME), and the other
  fields of `CfgOK` (repaired `set_port_attrs`, static port classes, non-empty hashes).

## 3. C04 × C03 — the dependency check over parsed texts and the store / re-parse cycle
* Hypotheses removed: (a) `Model/Deps.lean` receives expressions "already parsed"; (b) its hub stores trees although the
  real hub persists and reports TEXTS and `reload` parses them again; (c) its `setEnabled` leaves the expression alone
  although `enable()` re-parses `str(expression)`, "the printed text parses back to the same tree".
* Discharged by: `C03.accepted_wellformed` + `C03.print_fixpoint` — `runText_allWF`, `storeRoundtrip_id`,
  `setEnabledReparse_eq`, `stored_text_same_deps`, `stored_text_same_verdict` (`Proofs/IntegrationDeps.lean`).
* Corollaries: `text_history_acyclic`, `acyclic_stable_under_store_reparse`, `enable_reparse_is_noop`,
  `dependency_ids_of_stored_text`.
* Left: `RegCanonical`.

## 4. C16 × C02 — the stateful evaluator on the stateless nodes it shares with C02
* Assumption removed: `Model/TimeFns.lean` (C16) has its OWN evaluator, which besides the history-dependent functions
  evaluates unavailable literals, port values and ADD / SUB / GT / LT / NOT (so that C16's expressions can mix stateful
  and stateless nodes); that these are the functions of C02's model was nowhere stated.
* Discharged by: `shared_nodes_agree` (`Proofs/IntegrationTimeFns.lean`), over the integers — C16's exact carrier `Int`
  against C02's `Val.i` for every float carrier — using C02's per-function specifications (`add_mul_ints_spec`,
  `cmp_logic_sign_ints_spec`) and its first-failing-argument rule.
* Corollaries: `stateless_nodes_agree_with_c02`, `stateless_nodes_keep_no_memory`.
* Not covered (the shapes do not permit more): numeric literals (C02 evaluates every numeric literal to a FLOAT `Val.f`,
  C16's carrier has one untyped number kind), float carriers (C16's `Num Float` uses the machine operations directly,
  C02's `PyFloat` goes through `sum()`'s Neumaier loop for ADD), disabled / missing ports (C16's context has none).
-/
namespace QtVerif.Integration
open QtVerif.Syntax QtVerif.Num QtVerif.Eval

/-! ## 1. C01 × C02 -/
section c01_c02
open QtVerif.Core
variable {α : Type} [PyFloat α]

/-- **C01 over the real language.** For every hub over the real expression language — any registry, value coding,
coercions, literal table, role, clock; any expression trees — every admissible boot state and every schedule of the
(repaired) scheduler: whenever the hub is quiescent, every enabled port whose expression does not read the port itself
holds the value that THE REAL EVALUATOR `Eval.eval` yields for its expression over the current port values.
`C01.converges` with its `Frame` hypothesis discharged by `C02.frame`. -/
theorem converges_real_language (H : RealHub α) (p0 : PortId → PortSt RExpr) (h0 : InitOk p0) (s : State RExpr)
    (hr : Reach (realCfg H) p0 s) (hq : Quiescent (realCfg H) s) : Converged (realCfg H) s :=
  converges (realCfg H) (real_frame H) rfl rfl rfl p0 h0 s hr hq

/-- The same, spelled out with `Eval.eval` for one port whose expression is a well-formed tree of the stateless
fragment (what `parse` accepts: known functions, accepted arities, literals) that does not call TIME / TIMEMS:
for EVERY clock value `now`, the outcome of the real evaluator under the current port values decides the port's value —
a value `v`: the port holds the coerced code of `v` (or `v` has no code: the conversion raises and nothing is
claimed); unavailable: the port has no value; an evaluation error or Python exception: nothing is claimed;
leaving the modelled fragment, a complex number or a port object: impossible (C02 totality, `eval_noObj`). -/
theorem converges_real_language_spelled (H : RealHub α) (p0 : PortId → PortSt RExpr) (h0 : InitOk p0)
    (s : State RExpr) (hr : Reach (realCfg H) p0 s) (hq : Quiescent (realCfg H) s)
    (p : PortId) (hp : p < H.n) (e : RExpr) (he : (s.port p).expr = some e) (hen : (s.port p).enabled = true)
    (hself : p ∉ realDeps H e) (hwf : wf H.lit e.expr = true) (htime : usesTime e.expr = false) (now : Int) :
    match eval e.expr (ctxOf { H with nowMs := now } e.selfId (view s)) with
    | .val v => (match H.enc v with
        | some x => (s.port p).lastRead = some (H.adapt p x)
        | none => True)
    | .unavailable => (s.port p).lastRead = none
    | .portObj _ => False
    | .error _ => True
    | .crash _ => True
    | .complexVal => False
    | .outside => False := by
  have hc := converges_real_language H p0 h0 s hr hq p hp e he hen hself
  have htot := realEval_total H e (view s) hwf
  rw [realEval_clock_irrelevant H now e (view s) htime]
  unfold Good at hc
  simp only [realCfg, realEval] at hc
  cases hev : eval e.expr (ctxOf H e.selfId (view s)) with
  | val v =>
    rw [hev] at hc
    simp only [toCoreRes] at hc ⊢
    cases henc : H.enc v with
    | none => trivial
    | some x => rw [henc] at hc; exact hc
  | unavailable => rw [hev] at hc; exact hc
  | portObj id => exact htot.2.2 id hev
  | error k => trivial
  | crash k => trivial
  | complexVal => exact htot.2.1 hev
  | outside => exact htot.1 hev

/-- C01's "a change of ports the expression does not name is a no-op", for the real evaluator. -/
theorem unrelated_change_is_noop_real (H : RealHub α) (s s' : State RExpr) (p : PortId) (e : RExpr)
    (x : Option Int) (h : SameOn (realCfg H) e s s') : Good (realCfg H) s' p e x ↔ Good (realCfg H) s p e x :=
  unrelated_change_is_noop (realCfg H) (real_frame H) s s' p e x h

/-! ### non-vacuity: a three-port hub over the exact rational carrier -/
section example_hub
attribute [local instance] exactRat

/-- ports `a` (index 0), `b` (1), `y` (2); values are integers (`int(value)` coding) -/
def exHub : RealHub Rat :=
  { n := 3,
    ix := fun id => if id = "a" then some 0 else if id = "b" then some 1 else if id = "y" then some 2 else none,
    dec := fun x => .i x,
    enc := fun v => match toInt v with | .ok x => some x | .error _ => none,
    adapt := fun _ x => x, nowMs := 0, role := 1, transformRoles := [2, 3], lit := C02.exLit }

/-- `y = IF(GT($b, 0), ADD($a, $b), 2)` -/
def exY : RExpr :=
  ⟨.call "IF" [.call "GT" [.portVal "b", .lit "0"], .call "ADD" [.portVal "a", .portVal "b"], .lit "2"], "y"⟩

/-- boot: a = 3, b = 4, y carries the expression and has no value yet -/
def exPorts : PortId → PortSt RExpr := fun q =>
  if q = 0 then ⟨true, none, some 3, some 3, [], .idle, [], none, false⟩
  else if q = 1 then ⟨true, none, some 4, some 4, [], .idle, [], none, false⟩
  else if q = 2 then ⟨true, some exY, none, none, [], .idle, [], none, false⟩
  else ⟨false, none, none, none, [], .idle, [], none, false⟩

def pass3 (o : Owner) : List (Act RExpr) :=
  [.passBegin o, .passRead, .passRead, .passRead, .passHandleA, .passHandleB]

/-- first pass (forced evaluation: y := 3 + 4, written, confirmed), then b: 4 → -1 (y := 2, written, confirmed) -/
def exSched : List (Act RExpr) :=
  pass3 .anon ++ [.evalTake 2, .evalCmp 2, .writeBegin 2, .writeEnd 2] ++ pass3 (.evaler 2) ++ pass3 (.writer 2) ++
  [.setSource 1 (some (-1))] ++
  pass3 .anon ++ [.evalTake 2, .evalCmp 2, .writeBegin 2, .writeEnd 2] ++ pass3 (.evaler 2) ++ pass3 (.writer 2)

theorem exPorts_initOk : InitOk exPorts := by
  intro p
  simp only [exPorts]
  split
  · rfl
  · split
    · rfl
    · split <;> rfl

/-- the hypotheses of `converges_real_language(_spelled)` are met after real activity: the schedule is admissible, ends
quiescent, and y holds what the real evaluator says (first 7 = 3 + 4, finally 2: the ELSE branch, a float literal
coded by `int()`) -/
example : ∃ s, run? (realCfg exHub) (State.init exPorts) exSched = some s ∧ Quiescent (realCfg exHub) s ∧
    (s.port 0).lastRead = some 3 ∧ (s.port 1).lastRead = some (-1) ∧ (s.port 2).lastRead = some 2 :=
  ⟨final (realCfg exHub) (State.init exPorts) exSched, run_final (by decide +kernel), by decide +kernel,
    by decide +kernel, by decide +kernel, by decide +kernel⟩

example : (final (realCfg exHub) (State.init exPorts)
    (pass3 .anon ++ [.evalTake 2, .evalCmp 2, .writeBegin 2, .writeEnd 2] ++ pass3 (.evaler 2) ++ pass3 (.writer 2))
    |>.port 2).lastRead = some 7 := by decide +kernel

example : wf exHub.lit exY.expr = true ∧ usesTime exY.expr = false ∧ 2 ∉ realDeps exHub exY ∧
    realDeps exHub exY = [1, 0, 1] := by decide +kernel

end example_hub
end c01_c02

/-! ## 2. C07 × C03 -/
section c07_c03
open QtVerif.Parse QtVerif.Config QtVerif.C07

/-- **C07's load ∘ save = id over the real parser and printer**: `canon` is `print ∘ parse` (plus any tree-level
check); C07's print-fixpoint hypothesis is discharged by C03. After any history followed by a save and a restart the hub
has the same ports, attributes (expression texts included), device settings, slaves and persisted values. -/
theorem load_save_roundtrip_real_parser (cfg : Cfg) (env : Env) (hreg : RegCanonical env.reg)
    (accept : Kind → Expr → Bool) (hc : cfg.canon = canonOf env accept) (hrep : cfg.saveOnError = true)
    (hst : ∀ id d, cfg.statics id = some d → DefWF cfg d ∧ d.virtual = false ∧ (d.writable = true → d.initial = none))
    (hne : cfg.emptyHash ≠ "") (hh : ∀ s, cfg.hash s ≠ "") (ops : List Op) :
    let st := run cfg (init cfg) (ops ++ [.saveTick])
    SameHub st.hub (boot cfg st.store).hub :=
  load_save_roundtrip cfg (cfgOK_of_parser cfg env hreg accept hc hrep hst hne hh) ops

/-- The general form of C07 (no save needed for ports that are not pending), over the real parser and printer. -/
theorem restart_reproduces_saved_ports_real_parser (cfg : Cfg) (env : Env) (hreg : RegCanonical env.reg)
    (accept : Kind → Expr → Bool) (hc : cfg.canon = canonOf env accept) (hrep : cfg.saveOnError = true)
    (hst : ∀ id d, cfg.statics id = some d → DefWF cfg d ∧ d.virtual = false ∧ (d.writable = true → d.initial = none))
    (hne : cfg.emptyHash ≠ "") (hh : ∀ s, cfg.hash s ≠ "") (ops : List Op) (id : String) :
    let st := run cfg (init cfg) ops
    match st.hub.ports id, (boot cfg st.store).hub.ports id with
    | none, none => True
    | some p, some q => p.pendingSave = false → SamePort p q
    | _, _ => False :=
  restart_reproduces_saved_ports cfg (cfgOK_of_parser cfg env hreg accept hc hrep hst hne hh) ops id

/-- What such a hub stores for an accepted expression text `t` is the printed form of the tree the parser made of `t`,
and the stored text parses to that same tree. -/
theorem stored_expression_is_printed_parse (env : Env) (hreg : RegCanonical env.reg) (accept : Kind → Expr → Bool)
    (k : Kind) (t c : String) (h : canonOf env accept k t = some c) :
    ∃ e, parse env t.toList = .ok e ∧ c = e.print ∧ parse env c.toList = .ok e ∧ accept k e = true :=
  canonOf_spec env hreg accept k t c h

/-! ### non-vacuity: C07's demo hub with the example registry of C03 -/

/-- `canon` = real parser + printer over C03's example registry; transforms may only read port `v1` -/
def parserCfg : Cfg := { demoCfg true with canon := canonOf exEnv (transformAccept exEnv "v1") }

theorem parserCfg_ok : CfgOK parserCfg :=
  cfgOK_of_parser parserCfg exEnv exReg_canonical _ rfl rfl (by intro id d h; cases h) (by decide)
    (by intro s h; have := congrArg String.length h; simp [parserCfg, demoCfg, String.length_append] at this)

/-- a non-canonical layout with Unicode whitespace; a transform with an external dependency (refused); a transform
reading the port itself under both spellings -/
def parserOps : List Op :=
  [.addV "v1" numDef,
   .patch "v1" [("expression", .str " ADD( 1 ,ADD($a, $), TIME()　)\t"), ("transform_read", .str "ADD($a, 1)"),
                ("transform_write", .str " ADD( $v1,$ )")]]

example : attrOf (run parserCfg (init parserCfg) (parserOps ++ [.saveTick])).hub "v1" "expression"
      = some (.str "ADD(1, ADD($a, $), TIME())") ∧
    attrOf (run parserCfg (init parserCfg) (parserOps ++ [.saveTick])).hub "v1" "transform_read" = some (.str "") ∧
    attrOf (run parserCfg (init parserCfg) (parserOps ++ [.saveTick])).hub "v1" "transform_write"
      = some (.str "ADD($v1, $)") := by decide +kernel

example : SameHub (run parserCfg (init parserCfg) (parserOps ++ [.saveTick])).hub
    (boot parserCfg (run parserCfg (init parserCfg) (parserOps ++ [.saveTick])).store).hub :=
  load_save_roundtrip_real_parser parserCfg exEnv exReg_canonical _ rfl rfl (by intro id d h; cases h) (by decide)
    parserCfg_ok.hashNe parserOps

end c07_c03

/-! ## 3. C04 × C03 -/
section c04_c03
open QtVerif.Parse QtVerif.Deps

/-- **C04 over the real parser**: after any history of operations given as TEXTS (expression assignments and
clearings, port additions and removals, enable / disable, restarts, backup restores), parsed by the real parser, the
reads relation is acyclic and every installed expression is a well-formed tree. -/
theorem text_history_acyclic (env : Env) (hreg : RegCanonical env.reg) (ops : List TOp) :
    Acyclic (runText env ops) ∧ AllWF env (runText env ops) :=
  ⟨C04.reachable_acyclic _, runText_allWF env hreg ops⟩

/-- **The acyclicity invariant is stable under the store / re-parse cycle**: printing every installed expression (what
the hub persists and reports) and parsing the texts again gives the SAME hub — so it is acyclic, and the restart that
loads those texts (`reload`, which re-checks every expression) behaves exactly as C04's `reload` on the trees. -/
theorem acyclic_stable_under_store_reparse (env : Env) (hreg : RegCanonical env.reg) (ops : List TOp) :
    storeRoundtrip env (runText env ops) = runText env ops ∧
    Acyclic (storeRoundtrip env (runText env ops)) ∧
    reload (storeRoundtrip env (runText env ops)) = reload (runText env ops) ∧
    Acyclic (reload (storeRoundtrip env (runText env ops))) := by
  have hid := storeRoundtrip_id env _ (runText_allWF env hreg ops)
  rw [hid]
  exact ⟨rfl, C04.reachable_acyclic _, rfl, C04.reload_heals _⟩

/-- `enable()` re-parses `str(expression)`: on every hub reached through the real parser this is C04's `setEnabled`
(the expression is unchanged and the re-parse never fails). -/
theorem enable_reparse_is_noop (env : Env) (hreg : RegCanonical env.reg) (ops : List TOp) (id : String) (v : Bool) :
    setEnabledReparse env (runText env ops) id v = setEnabled (runText env ops) id v :=
  setEnabledReparse_eq env _ id v (runText_allWF env hreg ops)

/-- The dependency ids used by C04's walk (`portValueIds`) and the verdict of `check_loops` are those of the tree the
parser produces for the STORED text. -/
theorem dependency_ids_of_stored_text (env : Env) (hreg : RegCanonical env.reg) (h : Hub) (id : String) (t : String)
    (e : Expr) (hp : parseOpt env t = some e) :
    (parseOpt env e.print).map (Expr.portValueIds id) = some (e.portValueIds id) ∧
    (parseOpt env e.print).map (checkLoops h id) = some (checkLoops h id e) ∧
    assign h id (parseOpt env e.print) = assign h id (parseOpt env t) :=
  ⟨stored_text_same_deps env hreg id t e hp, (stored_text_same_verdict env hreg h id t e hp).1,
   (stored_text_same_verdict env hreg h id t e hp).2⟩

/-! ### non-vacuity: a text-level history over C03's example registry -/

def textOps : List TOp :=
  [.addPort "a", .addPort "b", .addPort "c",
   .setExpression "a" " ADD( $b ,1 )", .setExpression "b" "ADD($, $c)", .setEnabled "b" false,
   .setExpression "c" "ADD($a, 2)",                -- closes c → a → b → c: refused
   .setExpression "c" "NOSUCH(1)",                 -- refused by the parser
   .restore [⟨"x", none, some "ADD( $y,1)"⟩, ⟨"y", some false, some "ADD($, 2)"⟩, ⟨"z", none, some ""⟩],
   .reload, .setEnabled "y" true]

example : (runText exEnv (textOps.take 8)).ports.map (fun p => (p.id, p.enabled, p.expr.map Expr.print))
    = [("a", true, some "ADD($b, 1)"), ("b", false, some "ADD($, $c)"), ("c", true, none)] := by decide +kernel

example : (runText exEnv textOps).ports.map (fun p => (p.id, p.enabled, p.expr.map Expr.print))
    = [("x", true, some "ADD($y, 1)"), ("y", true, some "ADD($, 2)"), ("z", true, none)] := by decide +kernel

example : parseOpt exEnv " ADD( $b ,1 )" = some (.call "ADD" [.portVal "b", .lit "1"]) := by rfl

end c04_c03

/-! ## 4. C16 × C02 -/
section c16_c02
variable {α : Type} [PyFloat α]

/-- **The stateful evaluator of C16 agrees with C02's evaluator on the stateless nodes they share**: for every tree
over unavailable / port values / ADD / SUB / GT / LT / NOT, every C16 context (list of optional integer port values) and
clock, C16's `evalNode` yields a value or "unavailable" only, and `Eval.eval` on the same tree — under the context in
which every named port is registered, enabled and carries that value; any float carrier, role, self id — yields
exactly that outcome. -/
theorem stateless_nodes_agree_with_c02 (P : TimeFns.Params) (name : Nat → String) (ix : String → Option Nat)
    (hix : ∀ i, ix (name i) = some i) (env : TimeFns.Env Int) (now : Int) (selfId : String) (role : Nat)
    (tr : List Nat) (s : SExpr) :
    SharedOutcome (TimeFns.evalNode P env now s.toNode).2 ∧
    eval (s.toExpr name) (ctxOfEnv (α := α) ix env now selfId role tr)
      = resOfTime (TimeFns.evalNode P env now s.toNode).2 :=
  (shared_nodes_agree P name ix hix env now selfId role tr s).2

/-- … and on those nodes the stateful evaluator keeps no state: the node after the evaluation is the node before it
(no memory written, pause deadline 0), so a sequence of evaluations is a sequence of independent ones — C16's side of
`C02.eval_has_no_memory`. -/
theorem stateless_nodes_keep_no_memory (P : TimeFns.Params) (env : TimeFns.Env Int) (now : Int) (s : SExpr) :
    (TimeFns.evalNode P env now s.toNode).1 = s.toNode :=
  (@shared_nodes_agree Rat exactRat P (fun i => String.ofList (List.replicate i 'p'))
    (fun t => some t.length) (by intro i; simp) env now "" 0 [] s).1

/-! ### non-vacuity -/
section example_shared
attribute [local instance] exactRat

/-- port `i` is named by `i` letters `p` -/
def pName (i : Nat) : String := String.ofList (List.replicate i 'p')

example : ∀ i, (fun t : String => some t.length) (pName i) = some i := by intro i; simp [pName]

/-- `SUB(ADD($p, $pp), NOT(GT($pp, $ppp)))` with p = 5, pp = 7, ppp = 9 / unavailable -/
def exShared : SExpr := .sub (.add (.port 1) (.port 2)) (.not (.gt (.port 2) (.port 3)))

example : (exShared.toExpr pName).print = "SUB(ADD($p, $pp), NOT(GT($pp, $ppp)))" := by decide +kernel
example : resOfTime (α := Rat) (TimeFns.evalNode {} [none, some 5, some 7, some 9] 1000 exShared.toNode).2
    = .val (.i 11) := by decide +kernel
example : resOfTime (α := Rat) (TimeFns.evalNode {} [none, some 5, some 7, none] 1000 exShared.toNode).2
    = .unavailable := by decide +kernel
example : eval (exShared.toExpr pName)
    (ctxOfEnv (α := Rat) (fun t => some t.length) [none, some 5, some 7, some 9] 1000 "" 0 []) = .val (.i 11) := by
  decide +kernel
example : eval (exShared.toExpr pName)
    (ctxOfEnv (α := Rat) (fun t => some t.length) [none, some 5, some 7, none] 1000 "" 0 []) = .unavailable := by
  decide +kernel

end example_shared
end c16_c02

end QtVerif.Integration
