import QtVerif.Proofs.ParseExamples
import QtVerif.Proofs.ParseReasons
import QtVerif.Proofs.ParseNoCrash
import QtVerif.Proofs.ParseClassify
import QtVerif.Proofs.ParseDeps
/-!
C03 — The parser accepts exactly the expression grammar; printing is a parse fixpoint.

Property theorems only. Model: `QtVerif/Model/Parse.lean` (mirror of core/expressions/{__init__,functions,port,
literalvalues,exceptions}.py); grammar `Derives`, well-formedness `WF`, `RegCanonical`: `QtVerif/Proofs/ParseSpec.lean`;
helper lemmas: `QtVerif/Proofs/Parse*.lean`. Printer `Expr.print` (= `str(expr)`): `QtVerif/Model/Syntax.lean`.

Every theorem holds for every environment `env` (function registry = names, printed names, ENABLED, MIN/MAX_ARGS,
ARG_KINDS; table of non-ASCII decimal digits), every text (list of Unicode scalar values), every tree — no bound on
length, depth, arity or whitespace layout. `parse env s` is `expressions.parse(self_id, s, role)` (the self id and the
role do not influence parsing; error positions are carried by the model but the theorems speak about the reason only).
-/
namespace QtVerif.Parse.C03
open QtVerif.Syntax QtVerif.Parse

/-! ## The parser accepts exactly the grammar -/

/-- **Completeness**: every text of the grammar — any whitespace layout of a derivable expression — is accepted
and yields exactly that expression. -/
theorem parse_complete (env : Env) (e : Expr) (s : List Char) (h : Derives env e s) : parse env s = .ok e :=
  complete_aux env (s.length + 1) e s 1 (Nat.lt_succ_self _) h

/-- **Soundness**: whatever is accepted is a text of the grammar for the returned expression (known, enabled
function names over the name alphabet, admissible argument count and kinds, ids over the id alphabet, literals of the
`int()`/`float()` grammar, whitespace only around tokens). -/
theorem parse_sound (env : Env) (s : List Char) (e : Expr) (h : parse env s = .ok e) : Derives env e s :=
  sound_aux env _ _ s e h

/-- Accepted with result `e` ⇔ derivable as `e`. -/
theorem parse_iff_derives (env : Env) (s : List Char) (e : Expr) : parse env s = .ok e ↔ Derives env e s :=
  ⟨parse_sound env s e, parse_complete env e s⟩

/-- **A text is accepted iff it is derivable from the grammar.** -/
theorem accepted_iff_derivable (env : Env) (s : List Char) :
    (∃ e, parse env s = .ok e) ↔ ∃ e, Derives env e s :=
  ⟨fun ⟨e, h⟩ => ⟨e, parse_sound env s e h⟩, fun ⟨e, h⟩ => ⟨e, parse_complete env e s h⟩⟩

/-- A text is rejected iff it is not derivable. -/
theorem rejected_iff_not_derivable (env : Env) (s : List Char) :
    (∃ er, parse env s = .error er) ↔ ¬ ∃ e, Derives env e s := by
  rw [← accepted_iff_derivable]
  cases h : parse env s with
  | ok e => simp
  | error er => simp

/-- The grammar is unambiguous: a text denotes at most one expression. -/
theorem derives_unique (env : Env) (s : List Char) (e e' : Expr) (h : Derives env e s) (h' : Derives env e' s) :
    e = e' := by
  have := (parse_complete env e s h).symm.trans (parse_complete env e' s h')
  cases this; rfl

/-- Whitespace layout is irrelevant: two texts of the same expression parse to the same result. -/
theorem layout_irrelevant (env : Env) (e : Expr) (s s' : List Char) (h : Derives env e s) (h' : Derives env e s') :
    parse env s = parse env s' := by
  rw [parse_complete env e s h, parse_complete env e s' h']

/-- Acceptance and the resulting expression do not depend on the start position handed to `parse`. -/
theorem position_irrelevant (env : Env) (p : Nat) (s : List Char) (e : Expr) :
    parseAt env p s = .ok e ↔ parse env s = .ok e :=
  ⟨fun h => parse_complete env e s (sound_aux env _ _ s e h),
   fun h => complete_aux env (s.length + 1) e s p (Nat.lt_succ_self _) (parse_sound env s e h)⟩

/-- The fuel of the model is never exhausted (the model's recursion is total for the right reason). -/
theorem parse_never_fuel (env : Env) (s : List Char) (er : Err) (h : parse env s = .error er) : er.kind ≠ .fuel :=
  (err_aux env _ _ s er (Nat.lt_succ_self _) h).1

/-- Every failure is one of the seven documented parse errors: the two places of the code that would raise an
`IndexError` instead (`sexpression[m.end()]` in `LiteralValue.parse`, `sexpression[0]` in `PortExpression.parse`) are
unreachable. -/
theorem parse_never_crashes (env : Env) (s : List Char) (er : Err) (h : parse env s = .error er) : er.kind ≠ .crash :=
  nocrash_aux env _ _ s er (Nat.lt_succ_self _) h

/-! ## Printing is a parse fixpoint -/

/-- The printed form of a well-formed expression is a text of the grammar for that expression. -/
theorem print_is_text (env : Env) (e : Expr) (h : WF env e) : Derives env e e.print.toList :=
  derives_print env h

/-- **Fixpoint**: the printed form of a well-formed expression parses back to the same expression
(same structure, hence same dependencies and same values). -/
theorem print_fixpoint (env : Env) (e : Expr) (h : WF env e) : parse env e.print.toList = .ok e :=
  parse_complete env e _ (derives_print env h)

/-- … and prints to itself. -/
theorem print_parse_print (env : Env) (e : Expr) (h : WF env e) :
    (parse env e.print.toList).map Expr.print = .ok e.print := by
  rw [print_fixpoint env e h]; rfl

/-- What the parser accepts is well-formed, provided every printed name of the registry is a key with the same
entry data (`RegCanonical`: true when every function class is registered under its own `NAME`). -/
theorem accepted_wellformed (env : Env) (hreg : RegCanonical env.reg) (s : List Char) (e : Expr)
    (h : parse env s = .ok e) : WF env e :=
  derives_wf env hreg _ e s (Nat.lt_succ_self _) (parse_sound env s e h)

/-- **The stored text re-parses to the same expression**: for every accepted text `s` with result `e`, the
canonical text `print e` (what the hub stores and reports) is accepted again with the same `e` — same structure, same
dependencies — and prints to itself. -/
theorem stored_text_reparses (env : Env) (hreg : RegCanonical env.reg) (selfId : String) (s : List Char) (e : Expr)
    (h : parse env s = .ok e) :
    parse env e.print.toList = .ok e ∧
    (parse env e.print.toList).map Expr.print = .ok e.print ∧
    (parse env e.print.toList).map (deps env selfId) = .ok (deps env selfId e) := by
  have hwf := accepted_wellformed env hreg s e h
  rw [print_fixpoint env e hwf]
  exact ⟨rfl, rfl, rfl⟩

/-! ## Dependencies are a function of the expression's own tree -/

/-- **`get_deps()` is determined by the expression's own tree**: `d` is a dependency of `e` (attached to port `selfId`)
iff it is `$id` for a port whose value the tree reads (`$` reads `selfId`) or an own dependency (`DEPS` of the registry:
the time kinds) of a function called somewhere in the tree. No other expression — parsed before or after, using the
same function classes or not — enters. -/
theorem deps_depend_only_on_tree (env : Env) (selfId d : String) (e : Expr) :
    d ∈ deps env selfId e ↔
      (∃ id ∈ e.portValueIds selfId, d = "$" ++ id) ∨ (∃ n ∈ callNames e, d ∈ fnDeps env n) :=
  mem_deps_iff env selfId d e

/-- **Every expression of a history re-parses to its own dependencies**: when texts are accepted one after the other
(`hist`: port id, submitted text, accepted expression — several ports, any order, any sharing of functions), the
canonical text of each of them parses again to the same expression, and its dependencies are those it had when it was
accepted, whatever else the history contains. -/
theorem reparse_same_deps_in_history (env : Env) (hreg : RegCanonical env.reg)
    (hist : List (String × List Char × Expr)) (hacc : ∀ x ∈ hist, parse env x.2.1 = .ok x.2.2) :
    ∀ x ∈ hist, parse env x.2.2.print.toList = .ok x.2.2 ∧
      (parse env x.2.2.print.toList).map (deps env x.1) = .ok (deps env x.1 x.2.2) :=
  fun x hx =>
    have h := stored_text_reparses env hreg x.1 x.2.1 x.2.2 (hacc x hx)
    ⟨h.1, h.2.2⟩

/-- Two expressions with the same tree on the same port have the same dependencies, however they came about. -/
theorem same_tree_same_deps (env : Env) (selfId : String) (s s' : List Char) (e e' : Expr)
    (h : parse env s = .ok e) (h' : parse env s' = .ok e') (hp : e.print = e'.print)
    (hreg : RegCanonical env.reg) : deps env selfId e = deps env selfId e' := by
  have h1 := (stored_text_reparses env hreg selfId s e h).1
  have h2 := (stored_text_reparses env hreg selfId s' e' h').1
  rw [hp, h2] at h1
  cases h1; rfl

/-- `ADD($a, TIME())` on p1, then `TIME()` on p2, then `ADD($b, TIME())` on p3: a history meeting the hypothesis. -/
def exHist : List (String × List Char × Expr) :=
  [("p1", " ADD( $a ,TIME())".toList, .call "ADD" [.portVal "a", .call "TIME" []]),
   ("p2", "TIME()".toList, .call "TIME" []),
   ("p3", "ADD($b, TIME())".toList, .call "ADD" [.portVal "b", .call "TIME" []])]
example : ∀ x ∈ exHist, parse exEnv x.2.1 = .ok x.2.2 := by
  intro x hx
  simp only [exHist, List.mem_cons, List.not_mem_nil, or_false] at hx
  rcases hx with rfl | rfl | rfl <;> rfl
example : deps exEnv "p1" (.call "ADD" [.portVal "a", .call "TIME" []]) = ["$a", "second"] := by decide
example : deps exEnv "p2" (.call "TIME" []) = ["second"] := by decide
example : deps exEnv "p3" (.call "ADD" [.portVal "b", .call "TIME" []]) = ["$b", "second"] := by decide
example : callNames exExpr = ["ADD", "ADD", "TIME"] ∧ exExpr.portValueIds "me" = ["a", "me"] := by decide

/-! ## Rejection reasons -/

/-- `EmptyExpression` is reported exactly for blank texts. -/
theorem empty_reason_iff (env : Env) (s : List Char) :
    (∃ er, parse env s = .error er ∧ er.kind = .empty) ↔ AllSpace s := by
  constructor
  · rintro ⟨er, h, hk⟩
    have ht := (err_aux env _ _ s er (Nat.lt_succ_self _) h).2 hk
    obtain ⟨w1, w2, h1, h2, hs, -⟩ := trim_decomp s
    rw [ht] at hs
    rw [hs]
    exact allSpace_append (allSpace_append h1 allSpace_nil) h2
  · intro h
    have ht : trim s = [] := by
      have := trim_wrap (core := []) h allSpace_nil tight_nil
      simpa using this
    refine ⟨{ kind := .empty }, ?_, rfl⟩
    show parseFuel env (s.length + 1) 1 s = _
    rw [parseFuel_succ, ht]
    rfl

/-- **The documented cause of each rejection of a call whose arguments are fine.** For a text of the shape
`NAME ws ( t₁ , … , tₙ )` (any surrounding whitespace) whose argument texts are derivable as `args`, the parser
answers, in this order: `unknown-function` iff NAME is not a key of the registry or its entry is disabled;
`invalid-number-of-arguments` iff `n` is outside MIN_ARGS..MAX_ARGS; `invalid-argument-kind` iff some argument's class
is not admitted by ARG_KINDS; otherwise it accepts with the call node. -/
theorem call_reason (env : Env) (fname ws ws1 ws2 : List Char) (ts : List (List Char)) (args : List Expr)
    (hn : NameText fname) (hws : AllSpace ws) (hfw : fname = [] → ws = []) (h1 : AllSpace ws1) (h2 : AllSpace ws2)
    (hargs : All2 (fun e t => Derives env e t) args ts) :
    outcomeKind (parse env (ws1 ++ (fname ++ ws ++ '(' :: joinC ts ++ [')']) ++ ws2)) = callDecision env fname args := by
  have hcore : Tight (fname ++ ws ++ '(' :: joinC ts ++ [')']) := by
    constructor
    · intro c hc
      cases fname with
      | nil => rw [hfw rfl] at hc; simp at hc; subst hc; decide
      | cons a r => simp at hc; subst hc; exact nameChar_not_space (hn _ List.mem_cons_self)
    · intro c hc
      have h0 : ∀ l : List Char, (l ++ [')']).getLast? = some ')' := fun l => by simp
      have : (fname ++ ws ++ '(' :: joinC ts ++ [')']).getLast? = some ')' := by
        simpa using h0 (fname ++ ws ++ '(' :: joinC ts)
      rw [this] at hc; cases hc; decide
  have hhs : headSpecial (fname ++ ws ++ '(' :: joinC ts ++ [')']) = false := by
    cases fname with
    | nil => rw [hfw rfl]; rfl
    | cons a r =>
      have := nameChar_not_special (hn a List.mem_cons_self)
      simp only [isSpecial, Bool.or_eq_false_iff] at this
      simp [headSpecial, this]
  have hhp : hasParen (fname ++ ws ++ '(' :: joinC ts ++ [')']) = true := by simp [hasParen]
  show outcomeKind (parseFuel env _ 1 _) = _
  rw [parseFuel_succ, trim_wrap h1 h2 hcore, hhs, hhp]
  simp only [Bool.false_eq_true, if_false, if_true]
  apply call_decision env _ _ hn hws hfw
  refine all2_imp hargs ?_
  intro a _ t ht hder
  have hlt : t.length < (ws1 ++ (fname ++ ws ++ '(' :: joinC ts ++ [')']) ++ ws2).length := by
    have := mem_joinC_length ht
    simp only [List.length_append, List.length_cons]
    omega
  exact ⟨derives_bal env _ a t hlt hder, derives_trim env hder, fun p => complete_aux env _ a t p hlt hder⟩

/-- **unexpected-end**: the closing parenthesis of a call with fine arguments is missing
(`NAME ws ( t₁ , … , tₙ`, the text given without surrounding whitespace, then wrapped in any whitespace). -/
theorem unexpected_end_reason (env : Env) (fname ws ws1 ws2 : List Char) (ts : List (List Char)) (args : List Expr)
    (hn : NameText fname) (hws : AllSpace ws) (hfw : fname = [] → ws = []) (h1 : AllSpace ws1) (h2 : AllSpace ws2)
    (hargs : All2 (fun e t => Derives env e t) args ts) (ht : Tight (fname ++ ws ++ '(' :: joinC ts)) :
    outcomeKind (parse env (ws1 ++ (fname ++ ws ++ '(' :: joinC ts) ++ ws2)) = .error .unexpectedEnd := by
  obtain ⟨hh, hs, hp⟩ := callhead_facts hn hws hfw (joinC ts)
  exact parse_of_scan_err env h1 h2 ht hs hp _
    (fun p => scan_missing_close p (fname ++ ws) ts hh (args_fine env hargs))

/-- **unbalanced-parentheses / unexpected-character**: something other than whitespace follows the closing
parenthesis of a call with fine arguments: a `)` is reported as unbalanced parentheses, any other character
(letters, digits, `(`, `,`, …) as an unexpected character — whatever comes after it. -/
theorem trailing_reason (env : Env) (fname ws ws1 ws2 wsa : List Char) (ts : List (List Char)) (args : List Expr)
    (c : Char) (rest : List Char)
    (hn : NameText fname) (hws : AllSpace ws) (hfw : fname = [] → ws = []) (h1 : AllSpace ws1) (h2 : AllSpace ws2)
    (hargs : All2 (fun e t => Derives env e t) args ts) (hwsa : AllSpace wsa) (hc : isSpace c = false)
    (ht : Tight (fname ++ ws ++ '(' :: joinC ts ++ ')' :: wsa ++ c :: rest)) :
    outcomeKind (parse env (ws1 ++ (fname ++ ws ++ '(' :: joinC ts ++ ')' :: wsa ++ c :: rest) ++ ws2)) =
      .error (if c = ')' then .unbalanced else .unexpectedChar) := by
  obtain ⟨hh, hs, hp⟩ := callhead_facts hn hws hfw (joinC ts ++ ')' :: wsa ++ c :: rest)
  have e : fname ++ ws ++ '(' :: joinC ts ++ ')' :: wsa ++ c :: rest =
      fname ++ ws ++ '(' :: (joinC ts ++ ')' :: wsa ++ c :: rest) := by simp
  rw [e] at ht ⊢
  refine parse_of_scan_err env h1 h2 ht hs hp _ (fun p => ?_)
  rw [← e]
  exact scan_trailing p (fname ++ ws) ts hh (args_fine env hargs) hwsa c rest hc

/-- **unexpected-character** for a blank argument: after fine arguments `t₁ , … , tₖ ,` comes a blank one ended by
a comma (`F(a, , b)`, `F(, a)`) or by the closing parenthesis (`F(a, )`, and `F( )` for no argument at all). -/
theorem blank_argument_reason (env : Env) (fname ws ws1 ws2 blank : List Char) (ts : List (List Char))
    (args : List Expr) (c : Char) (rest : List Char)
    (hn : NameText fname) (hws : AllSpace ws) (hfw : fname = [] → ws = []) (h1 : AllSpace ws1) (h2 : AllSpace ws2)
    (hargs : All2 (fun e t => Derives env e t) args ts) (hbl : AllSpace blank)
    (hc : c = ',' ∨ (c = ')' ∧ rest = [] ∧ (ts ≠ [] ∨ blank ≠ [])))
    (ht : Tight (fname ++ ws ++ '(' :: pre ts ++ blank ++ c :: rest)) :
    outcomeKind (parse env (ws1 ++ (fname ++ ws ++ '(' :: pre ts ++ blank ++ c :: rest) ++ ws2)) =
      .error .unexpectedChar := by
  obtain ⟨hh, hs, hp⟩ := callhead_facts hn hws hfw (pre ts ++ blank ++ c :: rest)
  have e : fname ++ ws ++ '(' :: pre ts ++ blank ++ c :: rest =
      fname ++ ws ++ '(' :: (pre ts ++ blank ++ c :: rest) := by simp
  rw [e] at ht ⊢
  refine parse_of_scan_err env h1 h2 ht hs hp _ (fun p => ?_)
  rw [← e]
  exact scan_blank_arg p (fname ++ ws) ts hh (args_fine env hargs) hbl rest c hc

/-- Basic facts about every rejection: a rejected text is not derivable, the model never reports its own artefact,
`empty` is exact. (The complete characterisation is `reason_complete_and_sound` below.) -/
theorem reject_reason_basic (env : Env) (s : List Char) (er : Err) (h : parse env s = .error er) :
    (¬ ∃ e, Derives env e s) ∧ er.kind ≠ .fuel ∧ (er.kind = .empty ↔ AllSpace s) := by
  refine ⟨(rejected_iff_not_derivable env s).mp ⟨er, h⟩, parse_never_fuel env s er h, ?_⟩
  constructor
  · intro hk; exact (empty_reason_iff env s).mp ⟨er, h, hk⟩
  · intro hs
    obtain ⟨er', h', hk'⟩ := (empty_reason_iff env s).mpr hs
    rw [h] at h'; cases h'; exact hk'

/-! ## The complete classification of rejections

`ClassifyAt env p s r` (`Proofs/ParseClassify.lean`) and `ScanErr pos t r` (`Proofs/ParseScanSpec.lean`) describe, for
EVERY text, which error — reason, position, token, argument number — the grammar-level reading assigns, without
reference to the scanning loop: the text is decomposed as `head ( t₁ , … , tₖ , …` where the head has no parenthesis and
the `tᵢ` are complete argument texts (`Seg`: parentheses matched, no comma outside parentheses, by counting — `depth`,
`OpenAt`), and the rule names what comes next (a `)` too early, a blank argument, the end of the text, something after
the closing parenthesis, …) or, for a well-shaped call, the first failing check in the order the code makes them (name
characters, registry, ENABLED, arity, the first rejected argument — recursively, with the arguments before it fine —,
argument kinds). -/

/-- **The scanner's verdict** on any text is the declarative one (`ScanErr`), with the exact position and token. -/
theorem scanner_verdict (pos : Nat) (t : List Char) (er : Err) : scan pos t = .error er ↔ ScanErr pos t er :=
  scan_err_iff pos t er

/-- **Rejection reasons, complete and sound**: for every text, every start position and every error `r`
(reason, position, token, argument number): the parser rejects with `r` iff the classification assigns `r`. -/
theorem reason_complete_and_sound (env : Env) (p : Nat) (s : List Char) (r : Err) :
    parseAt env p s = .error r ↔ ClassifyAt env p s r :=
  ⟨parse_classify env _ p s r (Nat.lt_succ_self _), fun h => classify_parse env h _ (Nat.lt_succ_self _)⟩

/-- The classification is functional: a text gets at most one error. -/
theorem classify_unique (env : Env) (p : Nat) (s : List Char) (r r' : Err) (h : ClassifyAt env p s r)
    (h' : ClassifyAt env p s r') : r = r' := by
  have h1 := (reason_complete_and_sound env p s r).mpr h
  have h2 := (reason_complete_and_sound env p s r').mpr h'
  rw [h1] at h2; cases h2; rfl

/-- Every text is either derivable or classified as a rejection, never both. -/
theorem derivable_xor_classified (env : Env) (p : Nat) (s : List Char) :
    ((∃ e, Derives env e s) ∨ ∃ r, ClassifyAt env p s r) ∧ ¬ ((∃ e, Derives env e s) ∧ ∃ r, ClassifyAt env p s r) := by
  constructor
  · cases h : parseAt env p s with
    | ok e => exact Or.inl ⟨e, sound_aux env _ _ s e h⟩
    | error r => exact Or.inr ⟨r, (reason_complete_and_sound env p s r).mp h⟩
  · rintro ⟨⟨e, he⟩, ⟨r, hr⟩⟩
    have h1 := complete_aux env (s.length + 1) e s p (Nat.lt_succ_self _) he
    have h2 := (reason_complete_and_sound env p s r).mpr hr
    rw [show parseAt env p s = parseFuel env (s.length + 1) p s from rfl, h1] at h2; cases h2

/-- The former open statement `reject_reasonFull`, now proved for the reason-level classification `Classify`. -/
def reject_reasonFull (Cause : Env → List Char → ErrKind → Prop) : Prop :=
  ∀ (env : Env) (s : List Char) (k : ErrKind), (∃ er, parse env s = .error er ∧ er.kind = k) ↔ Cause env s k

theorem reject_reason_full : reject_reasonFull Classify := by
  intro env s k
  constructor
  · rintro ⟨er, h, hk⟩; exact ⟨er, (reason_complete_and_sound env 1 s er).mp h, hk⟩
  · rintro ⟨er, h, hk⟩; exact ⟨er, (reason_complete_and_sound env 1 s er).mpr h, hk⟩

/-- **The reported position is the offending character's**: whenever the scanner reports unbalanced parentheses or
an unexpected character, the position in the error is `pos` + the number of characters before an actual character of
the text — a `)` in the first case, the reported token in the second. -/
theorem error_position_is_offending_char (pos : Nat) (t : List Char) (er : Err) (h : scan pos t = .error er)
    (hk : er.kind = .unbalanced ∨ er.kind = .unexpectedChar) :
    ∃ before c rest, t = before ++ c :: rest ∧ er.pos = pos + before.length ∧
      (er.kind = .unbalanced → c = ')') ∧ (er.kind = .unexpectedChar → er.tok = [c]) :=
  scanErr_position (scanErr_of_scan h) hk

/-! ## Non-vacuity -/

/-- a registry with an unbounded-arity function, a nullary one, one with a `PortRef` argument kind and a disabled
one; a nested well-formed tree; a non-canonical layout of it with Unicode whitespace -/
example : WF exEnv exExpr := exExpr_wf
example : RegCanonical exReg := exReg_canonical
example : exExpr.print = "ADD(1, ADD($a, $), TIME())" := by decide
example : parse exEnv " ADD( 1 ,ADD($a, $), TIME()　)\t".toList = .ok exExpr := by rfl
example : Derives exEnv exExpr " ADD( 1 ,ADD($a, $), TIME()　)\t".toList :=
  parse_sound exEnv _ _ (by rfl)
example : parse exEnv exExpr.print.toList = .ok exExpr := print_fixpoint exEnv exExpr exExpr_wf
/-- rejections with each reason -/
example : outcomeKind (parse exEnv "TIME( )".toList) = .error .unexpectedChar := by rfl
example : outcomeKind (parse exEnv "ADD(1, 2".toList) = .error .unexpectedEnd := by rfl
example : outcomeKind (parse exEnv "ADD(1, 2))".toList) = .error .unbalanced := by rfl
example : outcomeKind (parse exEnv "FOO(1, 2)".toList) = .error .unknownFunction := by rfl
example : outcomeKind (parse exEnv "OFF()".toList) = .error .unknownFunction := by rfl
example : outcomeKind (parse exEnv "ADD(1)".toList) = .error .invalidArgNum := by rfl
example : outcomeKind (parse exEnv "ADD(1, @a)".toList) = .error .invalidArgKind := by rfl
example : outcomeKind (parse exEnv "HISTORY($a, 1, 2)".toList) = .error .invalidArgKind := by rfl
example : outcomeKind (parse exEnv "  \t".toList) = .error .empty := by rfl
example : outcomeKind (parse exEnv "HISTORY(@a, 1_0, ٣.٥e-1)".toList) =
    .ok (.call "HISTORY" [.portRef "a", .lit "1_0", .lit "٣.٥e-1"]) := by rfl
/-- instances of the classification (obtained from the parser through `reason_complete_and_sound`): a nested fault
is reported with its position in the whole text; a blank argument; a `)` too many; an unterminated nested call -/
example : ClassifyAt exEnv 1 "ADD(1, FOO(2))".toList { kind := .unknownFunction, pos := 8, tok := "FOO".toList } :=
  (reason_complete_and_sound exEnv 1 _ _).mp (by rfl)
example : ClassifyAt exEnv 1 " ADD(1, , 2)".toList { kind := .unexpectedChar, pos := 9, tok := [','] } :=
  (reason_complete_and_sound exEnv 1 _ _).mp (by rfl)
example : ClassifyAt exEnv 1 "ADD(1, 2) )".toList { kind := .unbalanced, pos := 11 } :=
  (reason_complete_and_sound exEnv 1 _ _).mp (by rfl)
example : ClassifyAt exEnv 1 "ADD(1, ADD(2, 3)".toList { kind := .unexpectedEnd } :=
  (reason_complete_and_sound exEnv 1 _ _).mp (by rfl)
example : ClassifyAt exEnv 1 "ADD(1, ADD(2, @a))".toList
    { kind := .invalidArgKind, pos := 15, tok := "ADD".toList, num := 2 } :=
  (reason_complete_and_sound exEnv 1 _ _).mp (by rfl)
example : Seg "ADD(1, (2))".toList ∧ ¬ Seg "1, 2".toList ∧ Open "ADD(1".toList := by
  refine ⟨(seg_iff_walk _).mpr (by decide), fun h => ?_, (open_iff_walk _).mpr ⟨1, by decide⟩⟩
  have := (seg_iff_walk _).mp h
  revert this; decide
/-- instances of the hypotheses of the reason theorems -/
example : NameText "ADD".toList ∧ AllSpace " ".toList ∧ Tight "ADD (1, 2".toList ∧ Tight "ADD(1) x".toList ∧
    Tight "ADD(1, )".toList := by
  refine ⟨by decide, by decide, ⟨?_, ?_⟩, ⟨?_, ?_⟩, ⟨?_, ?_⟩⟩ <;> (intro c hc; simp at hc; subst hc; decide)
example : joinC [" 1".toList, " 2".toList] = " 1, 2".toList ∧ pre ["1".toList] = "1,".toList := by decide
/-- instance of `call_reason`: arguments fine, arity wrong -/
example : callDecision exEnv "ADD".toList [.lit "1"] = .error .invalidArgNum := by rfl
example : All2 (fun e t => Derives exEnv e t) [.lit "1"] [" 1 ".toList] :=
  All2.cons (parse_sound exEnv _ _ (by rfl)) All2.nil

end QtVerif.Parse.C03
