import QtVerif.Proofs.CalendarFns
import QtVerif.Proofs.CalendarTable
/-!
C17 — Calendar functions are consistent with the local calendar.

Property theorems only. Model: `QtVerif/Model/Calendar.lean` (date.py line by line over the proleptic Gregorian
calendar on ℤ and an abstract time zone `Z : Zone`, with CPython's resolution of naive local datetimes); lemmas:
`QtVerif/Proofs/Calendar*.lean`.

Quantification: every instant `u : ℤ`, every offset `n : ℤ`, every first weekday `s ∈ 0..6`, every zone `Z`. Where a
local reading has to be turned back into an instant (DATE, period starts) the zone must be *regular around that
reading* (`Zone.NearAt` / `Zone.RegularAt`: at most one offset change within 4 days, offsets and jump below 24 h,
the reading not strictly inside the skipped / repeated interval of that change) and have offsets below 24 h
(`Zone.Bounded`). Fixed-offset zones and DST gaps/folds — including a gap or fold that begins or ends exactly at
the midnight in question — satisfy this; the harness checks the hypothesis on the real tz tables for every midnight
it resolves. Functions return `Except Err Int`: the theorems speak about every returned value, and
`period_errors_only_year_range` shows the only possible failure is a year outside 1..9999.

BOW is modelled with the repaired first-weekday shift (`fixed = true`, fixes/C17-bow-first-weekday.diff);
`unrepaired_bow_week_misses_now` refutes the property for the shift of the pinned commit.
-/
namespace QtVerif.Calendar.C17
open QtVerif.Calendar

/-! ### the calendar itself -/

/-- Day numbers and valid civil dates are in bijection (all of ℤ; proleptic Gregorian). -/
theorem days_civil_bijection :
    (∀ z, (civilFromDays z).Valid ∧ daysFromCivil (civilFromDays z) = z) ∧
    (∀ c : Date, c.Valid → civilFromDays (daysFromCivil c) = c) :=
  ⟨fun z => ⟨civilFromDays_valid z, daysFromCivil_civilFromDays z⟩, civilFromDays_daysFromCivil⟩

/-! ### field functions -/

/-- **The fields are the local civil fields**: what `fromtimestamp` hands to `extract_unit` is a valid civil
datetime whose second count is the local reading `u + offset(u)`, and it is the only valid civil datetime with
that count. YEAR … SECOND return its components. -/
theorem fields_are_local_civil (Z : Zone) (u : Int) (c : Civil) (h : fromtimestamp Z u = .ok c) :
    c.Valid ∧ secondsOfCivil c = Z.loc u ∧ (∀ c' : Civil, c'.Valid → secondsOfCivil c' = Z.loc u → c' = c) ∧
    dateUnit Z .year u = .ok c.y ∧ dateUnit Z .month u = .ok c.m ∧ dateUnit Z .day u = .ok c.d ∧
    dateUnit Z .hour u = .ok c.hh ∧ dateUnit Z .minute u = .ok c.mm ∧ dateUnit Z .second u = .ok c.ss := by
  have e := fromtimestamp_ok h
  have hv : c.Valid := e ▸ civilOfSeconds_valid _
  have hs : secondsOfCivil c = Z.loc u := e ▸ secondsOfCivil_civilOfSeconds _
  refine ⟨hv, hs, fun c' hv' hs' => secondsOfCivil_inj hv' hv (hs'.trans hs.symm), ?_⟩
  simp [dateUnit, h, extractUnit, bind, Except.bind, pure, Except.pure]

/-- The derived fields: DOW is the weekday of the local day (Monday = 0, day 0 = 1970-01-01 a Thursday, advancing
by one per day modulo 7), LDOM the length of the local month (day LDOM exists, day LDOM + 1 does not), MINUTEDAY and
SECONDDAY the minutes / seconds since local midnight. -/
theorem derived_fields (Z : Zone) (u : Int) (c : Civil) (h : fromtimestamp Z u = .ok c) :
    dateUnit Z .dow u = .ok (weekday (Z.day u)) ∧ 0 ≤ weekday (Z.day u) ∧ weekday (Z.day u) ≤ 6 ∧
    weekday 0 = 3 ∧ (∀ z, weekday (z + 1) = (weekday z + 1) % 7) ∧
    dateUnit Z .ldom u = .ok (monthLen c.y c.m) ∧
    (⟨c.y, c.m, monthLen c.y c.m⟩ : Date).Valid ∧ ¬ (⟨c.y, c.m, monthLen c.y c.m + 1⟩ : Date).Valid ∧
    dateUnit Z .secondday u = .ok (Z.loc u % 86400) ∧ dateUnit Z .minuteday u = .ok (Z.loc u % 86400 / 60) := by
  have e := fromtimestamp_ok h
  have hd : c.date = civilFromDays (Z.day u) := fromtimestamp_date h
  have hv := civilFromDays_valid (Z.day u)
  have hb := monthLen_bounds c.y c.m
  have hdd : daysFromCivil c.date = Z.day u := by rw [hd, daysFromCivil_civilFromDays]
  have hm : (civilFromDays (Z.day u)).m = c.m := (congrArg Date.m hd).symm
  simp only [Date.Valid] at hv
  refine ⟨?_, (weekday_range _).1, (weekday_range _).2, by decide, fun z => by unfold weekday; omega, ?_, ?_, ?_, ?_, ?_⟩
  · simp [dateUnit, h, extractUnit, bind, Except.bind, pure, Except.pure, hdd]
  · simp [dateUnit, h, extractUnit, bind, Except.bind, pure, Except.pure]
  · simp only [Date.Valid]; omega
  · simp only [Date.Valid]; omega
  · subst e
    simp only [dateUnit, h, extractUnit, bind, Except.bind, pure, Except.pure, civilOfSeconds]
    congr 1; omega
  · subst e
    simp only [dateUnit, h, extractUnit, bind, Except.bind, pure, Except.pure, civilOfSeconds]
    congr 1; omega

/-- MILLISECOND and the context timestamp split `now_ms` (non-negative: 1970 or later). -/
theorem millisecond_splits_now (ms : Int) (h : 0 ≤ ms) :
    ms = tsOfMs ms * 1000 + millisecond ms ∧ 0 ≤ millisecond ms ∧ millisecond ms < 1000 := by
  unfold tsOfMs millisecond
  have : Int.tdiv ms 1000 = ms / 1000 := Int.tdiv_eq_ediv_of_nonneg h
  omega

/-! ### DATE -/

/-- **DATE rebuilds the instant** from the fields of `u`, for every instant that is not in the second pass of a
repeated local interval (`T ≤ u < T + (a − b)` after the clock was set back from offset `a` to `b` at `T`). -/
theorem date_rebuilds_instant (Z : Zone) (u T a b : Int) (c : Civil) (h : fromtimestamp Z u = .ok c)
    (hu : -86400 < Z.off u ∧ Z.off u < 86400) (hn : Z.NearAt (Z.loc u) T a b)
    (hfirst : ¬ (T ≤ u ∧ u + b < T + a)) :
    dateFn Z c.y c.m c.d c.hh c.mm c.ss = .ok u := by
  have e := fromtimestamp_ok h
  have hv : c.Valid := e ▸ civilOfSeconds_valid _
  have hs : secondsOfCivil c = Z.loc u := e ▸ secondsOfCivil_civilOfSeconds _
  have hy : 1 ≤ c.y ∧ c.y ≤ 9999 := by
    unfold fromtimestamp at h; simp only at h; split at h
    · injection h with h; subst h; assumption
    · cases h
  have hmk : mkDatetime c.y c.m c.d c.hh c.mm c.ss = .ok c := by
    simp only [Civil.Valid, Date.Valid, Civil.date] at hv
    unfold mkDatetime
    rw [if_neg (by omega), if_neg (by omega), if_neg (by omega), if_neg (by omega), if_neg (by omega),
      if_neg (by omega)]
  unfold dateFn
  rw [hmk]
  simp only
  rw [naiveTimestamp_eq Z c T a b (hs ▸ hn), hs, resolve_loc Z u T a b hu hn, if_neg hfirst]

/-- In the second pass of a repeated interval DATE returns the first instant with the same local reading. -/
theorem date_in_repeated_interval (Z : Zone) (u T a b : Int) (c : Civil) (h : fromtimestamp Z u = .ok c)
    (hu : -86400 < Z.off u ∧ Z.off u < 86400) (hn : Z.NearAt (Z.loc u) T a b)
    (hsecond : T ≤ u ∧ u + b < T + a) :
    dateFn Z c.y c.m c.d c.hh c.mm c.ss = .ok (u - (a - b)) ∧ Z.loc (u - (a - b)) = Z.loc u := by
  have e := fromtimestamp_ok h
  have hv : c.Valid := e ▸ civilOfSeconds_valid _
  have hs : secondsOfCivil c = Z.loc u := e ▸ secondsOfCivil_civilOfSeconds _
  have hy : 1 ≤ c.y ∧ c.y ≤ 9999 := by
    unfold fromtimestamp at h; simp only at h; split at h
    · injection h with h; subst h; assumption
    · cases h
  have hmk : mkDatetime c.y c.m c.d c.hh c.mm c.ss = .ok c := by
    simp only [Civil.Valid, Date.Valid, Civil.date] at hv
    unfold mkDatetime
    rw [if_neg (by omega), if_neg (by omega), if_neg (by omega), if_neg (by omega), if_neg (by omega),
      if_neg (by omega)]
  have ha := hn.ha
  have hb := hn.hb
  have hj := hn.hj
  refine ⟨?_, ?_⟩
  · unfold dateFn
    rw [hmk]
    simp only
    rw [naiveTimestamp_eq Z c T a b (hs ▸ hn), hs, resolve_loc Z u T a b hu hn, if_pos hsecond]
  · have c1 := hn.cases u (by unfold Zone.loc; omega) (by unfold Zone.loc; omega)
    have c2 := hn.cases (u - (a - b)) (by unfold Zone.loc; omega) (by unfold Zone.loc; omega)
    unfold Zone.loc; omega

/-! ### the hand-written loops are calendar arithmetic -/

/-- **BOW's week loop over month lengths = "add 7·n days"**, for every `n : ℤ` and every valid date; the loop never
leaves the valid dates. -/
theorem bow_week_loop_eq_add_7n (n : Int) (c : Date) (h : c.Valid) :
    (weekLoop n c).Valid ∧ daysFromCivil (weekLoop n c) = daysFromCivil c + 7 * n := weekLoop_spec n c h

/-- **BOM's month loop = "add n months"**: the result is month number `12·y + (m − 1) + n`. -/
theorem bom_loop_eq_add_n_months (n y m : Int) (h : 1 ≤ m ∧ m ≤ 12) :
    monthLoop n (y, m) = ((12 * y + (m - 1) + n) / 12, (12 * y + (m - 1) + n) % 12 + 1) := monthLoop_eq n y m h

/-! ### period starts -/

/-- BOD / BOW(·, s) / BOM / BOY as one family indexed by the calendar unit. -/
def periodFn (Z : Zone) : Period → Int → Int → Except Err Int
  | .day, u, n => bod Z u n
  | .week s, u, n => bow Z true u n s
  | .month, u, n => bom Z u n
  | .year, u, n => boy Z u n

/-- The first weekday of a week unit is a weekday. -/
def WF : Period → Prop
  | .week s => 0 ≤ s ∧ s ≤ 6
  | _ => True

/-- **Closed form.** Whatever BOD/BOW/BOM/BOY return at instant `u` with offset `n` is
`Z.start (first (idx (local day of u) + n))`: the resolution of local midnight of the first day of the unit that
lies `n` units from the one containing `u`'s local date. (Units: `Period.idx`, `Period.first`; e.g. for weeks
`first k = 7k + s − 3`, for months the 1st of month number `k`.) -/
theorem period_functions_closed_form (Z : Zone) (p : Period) (hp : WF p) (u n r : Int)
    (h : periodFn Z p u n = .ok r) : r = Z.start (p.first (p.idx (Z.day u) + n)) := by
  cases p with
  | day => exact bod_eq Z u n r h
  | week s => exact bow_eq Z u n s r hp.1 hp.2 h
  | month => exact bom_eq Z u n r h
  | year => exact boy_eq Z u n r h

/-- The hand-written arithmetic never produces an invalid date: the only failure is a year outside 1..9999. -/
theorem period_errors_only_year_range (Z : Zone) (p : Period) (u n : Int) (e : Err)
    (h : periodFn Z p u n = .error e) : e = .field 1 := by
  cases p with
  | day => exact bod_error Z u n e h
  | week s => exact bow_error Z true u n s e h
  | month => exact bom_error Z u n e h
  | year => exact boy_error Z u n e h

/-- The units are what they should be: every day lies in exactly the unit `idx` names, later units start later,
weeks start on weekday `s`, months on day 1, years on January 1st. -/
theorem units_partition_the_days (p : Period) :
    (∀ z k, p.idx z = k ↔ p.first k ≤ z ∧ z < p.first (k + 1)) ∧ (∀ k k', k < k' → p.first k < p.first k') ∧
    (∀ s k, 0 ≤ s → s ≤ 6 → weekday (Period.first (.week s) k) = s) ∧
    (∀ k, civilFromDays (Period.first .month k) = ⟨k / 12, k % 12 + 1, 1⟩) ∧
    (∀ k, civilFromDays (Period.first .year k) = ⟨k, 1, 1⟩) ∧ (∀ k, Period.first .day k = k) :=
  ⟨p.idx_eq_iff, fun _ _ h => p.first_strictMono h, week_first_weekday, month_first_civil, year_first_civil,
   fun _ => rfl⟩

/-- **The period start is the local midnight starting day `z`**: it is the instant that separates the instants with
an earlier local date from those with local date `z` or later; its own local date is `z`; and its local reading is
exactly `z 00:00:00` whenever that reading exists (otherwise — midnight skipped by a DST gap — the first reading
after the gap). -/
theorem period_start_is_local_midnight (Z : Zone) (z : Int) (hB : Z.Bounded) (hR : Z.RegularAt (86400 * z)) :
    (∀ x, x < Z.start z ↔ Z.day x < z) ∧ Z.day (Z.start z) = z ∧
    ((∃ x, Z.loc x = 86400 * z) → Z.loc (Z.start z) = 86400 * z) :=
  ⟨start_iff_day Z z hB hR, start_day Z z hB hR, (start_loc Z z hB hR).2.2⟩

/-- **The unit with n = 0 contains the instant**: X(0) ≤ u < X(1) for X = BOD, BOW(·, s), BOM, BOY. -/
theorem n0_contains_now (Z : Zone) (p : Period) (hp : WF p) (u r0 r1 : Int) (hB : Z.Bounded)
    (h0 : periodFn Z p u 0 = .ok r0) (h1 : periodFn Z p u 1 = .ok r1)
    (hR0 : Z.RegularAt (86400 * p.first (p.idx (Z.day u))))
    (hR1 : Z.RegularAt (86400 * p.first (p.idx (Z.day u) + 1))) :
    r0 ≤ u ∧ u < r1 := by
  have e0 := period_functions_closed_form Z p hp u 0 r0 h0
  have e1 := period_functions_closed_form Z p hp u 1 r1 h1
  rw [Int.add_zero] at e0
  have hs := p.idx_spec (Z.day u)
  have a0 := start_iff_day Z _ hB hR0 u
  have a1 := start_iff_day Z _ hB hR1 u
  omega

/-- **Successive n are contiguous.** The unit `n` from `u` ends where unit `n + 1` begins (`rn < rn1`, and the
half-open interval `[rn, rn1)` is exactly that unit): every instant `v` in it sees the same grid of units — asking
at `v` for offset `j` gives what asking at `u` for offset `n + j` gives. In particular X(0) at any such `v` is `rn`,
X(1) is `rn1`. -/
theorem successive_n_contiguous (Z : Zone) (p : Period) (hp : WF p) (u n rn rn1 : Int) (hB : Z.Bounded)
    (h0 : periodFn Z p u n = .ok rn) (h1 : periodFn Z p u (n + 1) = .ok rn1)
    (hR0 : Z.RegularAt (86400 * p.first (p.idx (Z.day u) + n)))
    (hR1 : Z.RegularAt (86400 * p.first (p.idx (Z.day u) + n + 1))) :
    rn < rn1 ∧
    ∀ v, rn ≤ v → v < rn1 → p.idx (Z.day v) = p.idx (Z.day u) + n ∧
      ∀ j rv, periodFn Z p v j = .ok rv → rv = Z.start (p.first (p.idx (Z.day u) + (n + j))) := by
  have e0 := period_functions_closed_form Z p hp u n rn h0
  have e1 := period_functions_closed_form Z p hp u (n + 1) rn1 h1
  rw [← Int.add_assoc] at e1
  have hlt := p.first_lt_succ (p.idx (Z.day u) + n)
  refine ⟨?_, ?_⟩
  · have d0 := start_day Z _ hB hR0
    have a1 := start_iff_day Z _ hB hR1 rn
    rw [← e0] at d0
    omega
  · intro v hv0 hv1
    have a0 := start_iff_day Z _ hB hR0 v
    have a1 := start_iff_day Z _ hB hR1 v
    have hk : p.idx (Z.day v) = p.idx (Z.day u) + n := p.idx_unique (by omega) (by omega)
    refine ⟨hk, fun j rv hj => ?_⟩
    rw [period_functions_closed_form Z p hp v j rv hj, hk, Int.add_assoc]

/-- **BOW falls on the requested first weekday** (repaired shift): the local date of BOW(n, s) has weekday `s`,
for every `n` and every `s ∈ 0..6`. -/
theorem bow_falls_on_first_weekday (Z : Zone) (u n s r : Int) (h0 : 0 ≤ s) (h6 : s ≤ 6) (hB : Z.Bounded)
    (h : bow Z true u n s = .ok r)
    (hR : Z.RegularAt (86400 * Period.first (.week s) (Period.idx (.week s) (Z.day u) + n))) :
    weekday (Z.day r) = s := by
  rw [bow_eq Z u n s r h0 h6 h, start_day Z _ hB hR, week_first_weekday s _ h0 h6]

/-- **The code of the pinned commit violates the property**: with the unrepaired shift `weekday + 7 − s`, BOW(0, 3)
evaluated on Thursday 2019-03-14 12:34:56 (UTC+2) returns Thursday 2019-03-07 00:00 and BOW(1, 3) returns
2019-03-14 00:00, so the unit with n = 0 does not contain the instant (it does fall on a Thursday). The repaired
shift returns 2019-03-14 00:00 for n = 0. -/
theorem unrepaired_bow_week_misses_now :
    ∃ (Z : Zone) (u s r0 r1 : Int), Z.Bounded ∧ (∀ P, Z.RegularAt P) ∧ 0 ≤ s ∧ s ≤ 6 ∧
      bow Z false u 0 s = .ok r0 ∧ bow Z false u 1 s = .ok r1 ∧ ¬ (r0 ≤ u ∧ u < r1) ∧
      bow Z true u 0 s = .ok r1 :=
  ⟨Zone.fixed 7200, 1552559696, 3, 1551909600, 1552514400, fixed_bounded 7200 (by omega),
   fun P => fixed_regularAt 7200 P (by omega), by omega, by omega, by decide +kernel, by decide +kernel, by omega,
   by decide +kernel⟩

/-! ### intervals -/

/-- **HMSINTERVAL is true exactly inside the daily interval**: when it returns a value, that value is 0 or 1, and
it is 1 iff the local time of day (seconds since local midnight) lies in the closed interval
`[sh:sm:ss, eh:em:es]` (no wrap-around: an interval with start after stop is empty). -/
theorem hms_interval_iff (Z : Zone) (u sh sm ss eh em es r : Int) (h : hmsInterval Z u sh sm ss eh em es = .ok r) :
    (r = 0 ∨ r = 1) ∧
    (r = 1 ↔ sh * 3600 + sm * 60 + ss ≤ Z.loc u % 86400 ∧ Z.loc u % 86400 ≤ eh * 3600 + em * 60 + es) := by
  obtain ⟨now, h1, hr, hiff⟩ := hmsInterval_ok Z u sh sm ss eh em es r h
  have e := fromtimestamp_ok h1
  have hsod : now.sod = Z.loc u % 86400 := by
    subst e; simp only [Civil.sod, civilOfSeconds]; omega
  rw [hsod] at hiff
  exact ⟨hr, hiff⟩

/-- **MDINTERVAL is true exactly inside the yearly interval**: when it returns a value, both end points are dates of
the current local year, the value is 0 or 1, and it is 1 iff the local (month, day) lies between them in
calendar order (closed, no wrap-around). -/
theorem md_interval_iff (Z : Zone) (u sm sd em ed r : Int) (h : mdInterval Z u sm sd em ed = .ok r) :
    ∃ c, fromtimestamp Z u = .ok c ∧ (r = 0 ∨ r = 1) ∧
      (⟨c.y, sm, sd⟩ : Date).Valid ∧ (⟨c.y, em, ed⟩ : Date).Valid ∧
      (r = 1 ↔ (sm < c.m ∨ (sm = c.m ∧ sd ≤ c.d)) ∧ (c.m < em ∨ (c.m = em ∧ c.d ≤ ed))) := by
  obtain ⟨now, h1, hr, hs, he, hiff⟩ := mdInterval_ok Z u sm sd em ed r h
  exact ⟨now, h1, hr, hs, he, hiff⟩

/-! ### the zone hypotheses on real tz data -/

/-- **The hypotheses are decidable on a transition table and the driver's checks are sound**: for a zone given by a
table with increasing transition instants (what the harness extracts from the tz database), `boundedTable` and
`regularAtTable` / `regularAtSplit` (the latter for any split point of the table; it is what the driver executes for
every local midnight the check resolves) imply the
hypotheses `Bounded` and `RegularAt` of the theorems above. -/
theorem table_zone_meets_hypotheses (base : Int) (tr : List (Int × Int)) (hs : increasing tr = true) :
    (boundedTable base tr = true → (Zone.table base tr).Bounded) ∧
    (∀ P, regularAtTable base tr P = true → (Zone.table base tr).RegularAt P) ∧
    (∀ P i, regularAtSplit base (tr.take i) (tr.drop i) P = true → (Zone.table base tr).RegularAt P) :=
  ⟨boundedTable_sound base tr, fun P => regularAtTable_sound base tr P (increasing_sound tr hs),
   fun P i h => by
     have := regularAtSplit_sound base (tr.take i) (tr.drop i) P
       (by rw [List.take_append_drop]; exact increasing_sound tr hs) h
     rwa [List.take_append_drop] at this⟩

/-! ### non-vacuity: the hypotheses are met by real situations -/

/-- A table with the three Europe/Bucharest transitions of 1979/1980 passes the checks at the skipped midnight of
1979-05-27 (day 3433) and at the midnight that ends the repeated hour of 1979-09-30 (day 3559). -/
example : increasing [(296604000, 10800), (307486800, 7200), (323816400, 10800)] = true ∧
    boundedTable 7200 [(296604000, 10800), (307486800, 7200), (323816400, 10800)] = true ∧
    regularAtTable 7200 [(296604000, 10800), (307486800, 7200), (323816400, 10800)] (86400 * 3433) = true ∧
    regularAtTable 7200 [(296604000, 10800), (307486800, 7200), (323816400, 10800)] (86400 * 3559) = true := by
  decide +kernel

/-- Every fixed-offset zone below 24 h is bounded and regular everywhere. -/
example (o : Int) (h : -86400 < o ∧ o < 86400) : (Zone.fixed o).Bounded ∧ ∀ P, (Zone.fixed o).RegularAt P :=
  ⟨fixed_bounded o h, fun P => fixed_regularAt o P h⟩

/-- Europe/Bucharest around 1979-05-27: clocks went from 00:00 (UTC+2) straight to 01:00 (UTC+3) at instant
296604000 — the local midnight of that day (day number 3433) does not exist. The zone is regular there; BOD at
02:40 local of that day returns the transition instant, whose local reading is 01:00 of the same day. -/
example : (Zone.two 296604000 7200 10800).Bounded ∧ (Zone.two 296604000 7200 10800).RegularAt (86400 * 3433) ∧
    bod (Zone.two 296604000 7200 10800) 296610000 0 = .ok 296604000 ∧
    (Zone.two 296604000 7200 10800).loc 296604000 = 86400 * 3433 + 3600 :=
  ⟨two_bounded _ _ _ (by omega) (by omega),
   ⟨296604000, 7200, 10800, two_nearAt _ _ _ _ (by omega) (by omega) (by omega), by omega, by omega⟩,
   by decide +kernel, by decide +kernel⟩

/-- A fold that ends exactly at midnight (Bucharest 1979-09-30: at 00:00 UTC+3 clocks went back to 23:00 UTC+2) is
regular as well, and a valid date, an in-range HMS interval and an MD interval produce values. -/
example : (Zone.two 307486800 10800 7200).RegularAt (86400 * 3559) ∧
    (⟨2024, 2, 29⟩ : Date).Valid ∧ weekLoop (-3) ⟨2024, 3, 14⟩ = ⟨2024, 2, 22⟩ ∧
    hmsInterval (Zone.fixed 7200) 1552559696 12 34 56 12 34 56 = .ok 1 ∧
    mdInterval (Zone.fixed 7200) 1552559696 2 28 3 14 = .ok 1 ∧
    periodFn (Zone.fixed 7200) (.week 6) 1552559696 (-54) = .ok 1519509600 :=
  ⟨⟨307486800, 10800, 7200, two_nearAt _ _ _ _ (by omega) (by omega) (by omega), by omega, by omega⟩,
   by decide +kernel, by decide +kernel, by decide +kernel, by decide +kernel, by decide +kernel⟩

end QtVerif.Calendar.C17
