import QtVerif.Proofs.Core
import QtVerif.Proofs.CoreTiny
import QtVerif.Proofs.CoreTrace
/-!
C01 — ports with expressions converge to the value of their expression.

Model: `QtVerif.Core` (Model/Core.lean), the hub's scheduler as a transition system whose actions are the atomic
stretches between awaits; a schedule is ANY list of enabled actions (superset of asyncio's choices). Expression
evaluation is abstract (`Cfg.evalE`, `Cfg.deps`) under the frame hypothesis `Frame` (C02). The model proper is the
REPAIRED scheduler (`repConfirm`, `repForce`, `repCapture`); for the code before each repair a counter-example
schedule is proved below (and replayed on the real code by the harness corpus).

Hypotheses built into the model (named as in DESIGN §6): H1 drivers are registers (a read returns the register, a
completed write sets it); H2 no queue overflow (queues are unbounded lists); H3 expressions are stateless functions of
the view. Environment guards of `step?` (what the property excludes): driver-level source changes and API writes only
on ports that carry no expression; a port that has NO expression gets its first one only while none of its own API
writes / left-over evaluations is in flight. Everything else — enable, disable, re-assigning or clearing an
expression — may happen at any point of any schedule. Boot states are arbitrary (values, registers, flags, expressions).
Modelled order of `BasePort.enable()` / `disable()`: the flag is flipped and the forced evaluations are registered in
one atomic stretch BEFORE the driver hook (`handle_enable` / `handle_disable`) is awaited — the actions `enable` /
`disable`; the hook returning any number of passes later is the stuttering action `hookDone`. H1 includes "unavailable":
a write of `none` sets the register to `none`.
Driver READ FAULTS on ports without expression (read_value raising — including the 10 s retry suspension — or SkipRead)
are the stuttering action `passSkip`, so `converges` holds for every schedule containing them; failing reads of a port
that itself carries an expression are outside the model (C15).
Acyclicity is NOT needed: the theorem holds for every hub and constrains every port whose expression does not read
the port itself (cyclic hubs may simply never become quiescent).

Scope of `converges` — where the theorem is NARROWER than the property's first sentence, and why:
 1. Self-reading ports are not constrained (`p ∉ cfg.deps e` in `Converged`). Reason: `handle_value_changes` removes the
    port's own id from its dependencies (`deps = port_own_deps - {$id}`; `trig`: `q != p`), so the port's own change
    never re-triggers it: an expression such as `ADD($y, $x)` on `y` is evaluated once per external trigger and no
    fixpoint is sought. The model does NOT exclude such ports by a guard — they run like any other port — and the
    statement without the exclusion is FALSE: `self_reading_not_converged` below (reachable quiescent state, y = 6,
    expression = 7).
 2. An evaluation ERROR leaves the port unconstrained (`Good … = True` on `Res.error`). Reason: `_eval_and_write`
    returns on `ExpressionEvalError` (disabled / unknown port, arithmetic) and the port keeps whatever value it had;
    there is no value "the expression yields" to hold. `ValueUnavailable` IS constrained (the port must hold `none`).
 3. The write transform is folded into `adapt`. The model has no `transform_write` / `transform_read`: `Cfg.adapt p`
    stands for `adapt_value_type` (followed by a write transform whose read-back through H1 is the identity). Reason:
    with H1 (register drivers) the value read back after a write is the value written; a pair of transforms that are not
    mutually inverse makes the port read back something else than the expression's value and legitimately never hold
    it (excluded in the manifest; the write transform itself is C05's subject).
 4. Queues are unbounded (H2). `_eval_queue` / `_write_value_queue` are `asyncio.Queue(maxsize=1024)`; on overflow
    `push_eval` drops the NEW snapshot and `_queue_value` drops the OLDEST write — either loses exactly the obligation
    the invariant relies on. Reason for excluding: the overflow regime is a load condition, not a scheduling one; `evalQ`
    and `wq` are plain lists.
 5. Guards of `step?` on the environment actions: `setSource p` / `apiWrite p` only while `p` carries no expression
    (PATCH /ports/{id}/value answers 400 `port-with-expression`; a driver-level change of an expression port's register
    competes with the port's own writes and is "corrected" only at the next trigger), and a FIRST `setExpr p` only while
    `p` is `quiet` (an API write still queued for the port would be written after the expression's value). Re-assigning,
    clearing, enable, disable are unguarded.

The property's SECOND sentence, at trace level (Proofs/CoreTrace.lean): `unread_changes_never_alter` (A) and
`dep_change_is_re_evaluated` / `dep_change_blocks_quiescence` (B) below; the single-step lemmas are kept.
-/
namespace QtVerif.Core
variable {E : Type}

/-- MAIN THEOREM. For every hub (any number of ports, any expressions, any coercions) whose evaluator has the frame
property, every admissible boot state, every schedule (`Reach` = any finite sequence of enabled actions: polling
passes by the ticker / writer tasks / eval tasks interleaved at every await, eval and write task steps, source
changes, API writes, enable/disable, expression edits): whenever the hub is quiescent, every enabled port whose
expression does not read the port itself holds the value its expression yields over the current values (coerced;
`none` when the expression is unavailable; unconstrained when the evaluation is an error, e.g. a disabled port). -/
theorem converges (cfg : Cfg E) (hfr : Frame cfg) (hrc : cfg.repConfirm = true) (hrf : cfg.repForce = true)
    (hcap : cfg.repCapture = true) (p0 : PortId → PortSt E) (h0 : InitOk p0) (s : State E) (hr : Reach cfg p0 s)
    (hq : Quiescent cfg s) : Converged cfg s :=
  inv_quiescent (inv_reach hfr hrc hrf hcap p0 h0 hr) hq

/-- The invariant behind `converges` (Appendix A.3): in EVERY reachable state, every enabled expression port is
settled or carries an outstanding obligation. -/
theorem settled_or_obliged (cfg : Cfg E) (hfr : Frame cfg) (hrc : cfg.repConfirm = true) (hrf : cfg.repForce = true)
    (hcap : cfg.repCapture = true) (p0 : PortId → PortSt E) (h0 : InitOk p0) (s : State E) (hr : Reach cfg p0 s) :
    ∀ p, p < cfg.n → ∀ e, (s.port p).expr = some e → (s.port p).enabled = true → p ∉ cfg.deps e → SI cfg s p e :=
  fun p hp e he hen hd => ((inv_reach hfr hrc hrf hcap p0 h0 hr).2 p hp e he).2 hen hd

/-- A change of ports that `e` does not read never alters what a port carrying `e` has to hold (frame, lifted). -/
theorem unrelated_change_is_noop (cfg : Cfg E) (hfr : Frame cfg) (s s' : State E) (p : PortId) (e : E)
    (x : Option Int) (h : SameOn cfg e s s') : Good cfg s' p e x ↔ Good cfg s p e x :=
  Good_congr hfr h p x

/-- …and it does not even queue an evaluation: a pass whose changed set contains no port read by `e` (nothing
forced) leaves the port's evaluation queue as it was, so no write can follow from it. -/
theorem unrelated_change_queues_nothing (cfg : Cfg E) (s s' : State E) (ps : Pass) (p : PortId) (e : E)
    (hps : s.pass = some ps) (hst : step? cfg s .passHandleB = some s') (he : (s.port p).expr = some e)
    (hall : ps.all = false) (hf : p ∉ ps.forced) (hc : ∀ q, q ∈ ps.changed → q ∉ cfg.deps e) :
    (s'.port p).evalQ = (s.port p).evalQ ∧ (s'.port p).lastRead = (s.port p).lastRead ∧
      (s'.port p).drv = (s.port p).drv ∧ (s'.port p).wq = (s.port p).wq :=
  handleB_unrelated cfg s s' ps p e hps hst he hall hf hc

/-- Re-evaluation after a dependency change, part 1: the pass step that detects a change of `q` records `q` in the
running pass's changed set — the obligation `Pending` of every port reading `q`. -/
theorem re_evaluated_after_dep_change (cfg : Cfg E) (s s' : State E) (ps : Pass) (q : PortId) (rest : List PortId)
    (p : PortId) (e : E) (hps : s.pass = some ps) (hh : ps.handling = false) (ht : ps.todo = q :: rest)
    (hen : (s.port q).enabled = true) (hchg : (s.port q).drv ≠ (s.port q).lastRead)
    (hst : step? cfg s .passRead = some s') (hq : q ∈ cfg.deps e) :
    (s'.port q).lastRead = (s.port q).drv ∧ Pending cfg s' p e :=
  passRead_detects cfg s s' ps q rest p e hps hh ht hen hchg hst hq

/-- Part 2: when that pass ends, an evaluation is queued for the port with a snapshot that contains the new values
(it is the current view and it is the newest entry of the queue). -/
theorem obligation_queues_current_snapshot (cfg : Cfg E) (s s' : State E) (ps : Pass) (p : PortId) (e : E)
    (hps : s.pass = some ps) (hst : step? cfg s .passHandleB = some s') (hp : p < cfg.n)
    (hen : (s.port p).enabled = true) (he : (s.port p).expr = some e) (hd : p ∉ cfg.deps e)
    (hob : ps.all = true ∨ p ∈ ps.forced ∨ ∃ q, q ∈ cfg.deps e ∧ q ∈ ps.changed) :
    (s'.port p).evalQ.getLast? = some (view s') ∧ Current cfg s' e (view s') :=
  handleB_queues cfg s s' ps p e hps hst hp hen he hd hob

/-! ### the second sentence at trace level -/

/-- (A) A CHANGE OF A PORT IT DOES NOT READ NEVER ALTERS A PORT. For every reachable state `s` of the repaired scheduler
in which the expression port `p` is settled (`quiet`: no evaluation queued or running, no write queued or in flight)
and not forced (`Unforced`: not in the forced set, `forceAll` off, the running pass — if any — neither forces it nor
has detected a change of a port `e` reads), and every run `acts` from `s` to `s'` each step of which satisfies
`Unread` (p keeps its expression `e`, stays unforced, and no OTHER port read by `e` changes its last read value —
every other port may change at will, sources may be set, passes may run, other ports may evaluate and write): the
driver register of `p` and its value are unchanged, `p` is still settled and unforced, and NO step of `p`'s eval task
or writer task (`evalTake p`, `evalCmp p`, `writeBegin p`, `writeEnd p`) occurs in the run.
`Reach` is needed only for "the value is unchanged" (a settled, unforced, enabled port's value is its register). -/
theorem unread_changes_never_alter (cfg : Cfg E) (hfr : Frame cfg) (hrc : cfg.repConfirm = true)
    (hrf : cfg.repForce = true) (hcap : cfg.repCapture = true) (p0 : PortId → PortSt E) (h0 : InitOk p0)
    (s : State E) (hr : Reach cfg p0 s) (p : PortId) (hp : p < cfg.n) (e : E) (he : (s.port p).expr = some e)
    (hquiet : (s.port p).quiet = true) (hun : Unforced cfg s p e)
    (acts : List (Act E)) (s' : State E) (hrun : run? cfg s acts = some s')
    (hall : RunAll cfg (Unread cfg p e) acts s) :
    (s'.port p).drv = (s.port p).drv ∧ (s'.port p).lastRead = (s.port p).lastRead ∧ (s'.port p).quiet = true ∧
      Unforced cfg s' p e ∧
      ∀ a, a ∈ acts → a ≠ .evalTake p ∧ a ≠ .evalCmp p ∧ a ≠ .writeBegin p ∧ a ≠ .writeEnd p := by
  have hM := ((inv_reach hfr hrc hrf hcap p0 h0 hr).2 p hp e he).1
  have hfresh : (s.port p).enabled = true → (s.port p).drv = (s.port p).lastRead := by
    intro hen
    have hidle := ((quiet_iff _).1 hquiet).2.1
    simp only [MI, hidle] at hM
    rcases hM.2.2 hen with h | h | h | ⟨ps, h1, h2, _⟩
    · exact h
    · exact absurd h hun.1
    · simp [hun.2.1] at h
    · obtain ⟨g1, g2, _⟩ := hun.2.2 ps h1
      rcases h2 with h2 | h2
      · simp [g1] at h2
      · exact absurd h2 g2
  obtain ⟨hS, hno⟩ := settled_run acts s s' ⟨he, hquiet, rfl, rfl, hfresh, hun⟩ hrun hall
  exact ⟨hS.drv, hS.lr, hS.quiet, hS.unf, hno⟩

/-- (B) A PORT IS RE-EVALUATED AFTER EVERY CHANGE OF A PORT IT READS. In a reachable state `s` a pass is about to poll
`q`, which is enabled and whose register differs from its last read value (the change is detected by this `passRead`).
Let `p ≠ q` be a port and `e` an expression reading `q`. For every continuation `acts` after which `p` is (at every
step) enabled and carries `e` and `q` stays enabled (`Keeps`), and which ends in a QUIESCENT state: the continuation
contains a step `evalTake p` whose snapshot shows `q` = the new value (`EvalOf`; by `Keeps` the port carries `e` at that
step, so it is `e` that is evaluated on it). -/
theorem dep_change_is_re_evaluated (cfg : Cfg E) (hfr : Frame cfg) (hrc : cfg.repConfirm = true)
    (hrf : cfg.repForce = true) (hcap : cfg.repCapture = true) (p0 : PortId → PortSt E) (h0 : InitOk p0)
    (s : State E) (hr : Reach cfg p0 s) (ps : Pass) (q : PortId) (rest : List PortId) (hps : s.pass = some ps)
    (hh : ps.handling = false) (ht : ps.todo = q :: rest) (henq : (s.port q).enabled = true)
    (hchg : (s.port q).drv ≠ (s.port q).lastRead)
    (p : PortId) (hp : p < cfg.n) (e : E) (hqd : q ∈ cfg.deps e) (hqp : q ≠ p)
    (acts : List (Act E)) (s' : State E) (hrun : run? cfg s (.passRead :: acts) = some s')
    (hall : RunAll cfg (Keeps p e q) (.passRead :: acts) s) (hQ : Quiescent cfg s') :
    ∃ s1, step? cfg s .passRead = some s1 ∧ (s1.port q).lastRead = (s.port q).drv ∧
      RunEx cfg (EvalOf p q (s.port q).drv) acts s1 := by
  simp only [run?] at hrun
  split at hrun
  · rename_i s1 h1
    obtain ⟨g1, g2⟩ := hall s1 h1
    have hO := passRead_owes p (inv_reach hfr hrc hrf hcap p0 h0 hr).1 hps hh ht henq hchg h1
    refine ⟨s1, h1, ?_, owed_run hp hqp hqd acts s1 s' g1 hO hrun g2 hQ⟩
    have := h1
    simp [step?, hps, hh, ht, henq, hchg] at this
    subst this
    simp [State.setPort]
  · simp at hrun

/-- (B), "as long as" form: under the same hypotheses, a continuation that contains NO evaluation of `p` with a snapshot
showing the new value of `q` does not end in a quiescent state (every prefix of a run is a run: no state of it is
quiescent) — the obligation recorded by `re_evaluated_after_dep_change` can only be discharged by such an evaluation. -/
theorem dep_change_blocks_quiescence (cfg : Cfg E) (hfr : Frame cfg) (hrc : cfg.repConfirm = true)
    (hrf : cfg.repForce = true) (hcap : cfg.repCapture = true) (p0 : PortId → PortSt E) (h0 : InitOk p0)
    (s : State E) (hr : Reach cfg p0 s) (ps : Pass) (q : PortId) (rest : List PortId) (hps : s.pass = some ps)
    (hh : ps.handling = false) (ht : ps.todo = q :: rest) (henq : (s.port q).enabled = true)
    (hchg : (s.port q).drv ≠ (s.port q).lastRead)
    (p : PortId) (hp : p < cfg.n) (e : E) (hqd : q ∈ cfg.deps e) (hqp : q ≠ p)
    (acts : List (Act E)) (s1 s' : State E) (h1 : step? cfg s .passRead = some s1) (hrun : run? cfg s1 acts = some s')
    (hk1 : KeepsAt s1 p e q) (hall : RunAll cfg (Keeps p e q) acts s1)
    (hno : RunAll cfg (fun t a t1 => ¬ EvalOf p q (s.port q).drv t a t1) acts s1) : ¬ Quiescent cfg s' :=
  owed_run_not_quiescent hp hqp hqd acts s1 s' hk1
    (passRead_owes p (inv_reach hfr hrc hrf hcap p0 h0 hr).1 hps hh ht henq hchg h1) hrun hall hno

/-! ### the code before the repairs does not converge -/

/-- D10 hub: port 0 = x (source, value 1), port 1 = y with expression `$0`, already holding 1. -/
def d10Ports : PortId → PortSt TExpr := fun q =>
  if q = 0 then ⟨true, none, some 1, some 1, [], .idle, [], none, false⟩
  else if q = 1 then ⟨true, some (.port 0), some 1, some 1, [], .idle, [], none, false⟩
  else ⟨false, none, none, none, [], .idle, [], none, false⟩

def anonPass2 : List (Act TExpr) := [.passBegin .anon, .passRead, .passRead, .passHandleA, .passHandleB]

/-- x: 1 → 2 (detected, y evaluates to 2, write of y begins) → 1 (detected while the write is running, snapshot
queued); the write ends; the queued evaluation is compared with the last read value from BEFORE the write (1 = 1:
nothing to do); only then the writer's confirming pass reads y = 2. -/
def d10Schedule : List (Act TExpr) :=
  anonPass2 ++ [.evalTake 1, .evalCmp 1] ++
  [.setSource 0 (some 2)] ++ anonPass2 ++ [.evalTake 1, .evalCmp 1, .writeBegin 1] ++
  [.setSource 0 (some 1)] ++ anonPass2 ++
  [.writeEnd 1, .evalTake 1, .evalCmp 1] ++
  [.passBegin (.writer 1), .passRead, .passRead, .passHandleA, .passHandleB]

theorem d10_initOk : InitOk d10Ports := by
  intro p
  simp only [d10Ports]
  split
  · rfl
  · split <;> rfl

/-- Without the confirming poll in `_eval_and_write` (repConfirm = false) the hub reaches a quiescent state that is
not converged: x = 1, y = 2 (defect D10; the same schedule is replayed on the real code by the corpus). -/
theorem unrepaired_confirm_not_converges :
    ∃ s, Reach (tinyCfg 2 [] false true true) d10Ports s ∧ Quiescent (tinyCfg 2 [] false true true) s ∧
      ¬ Converged (tinyCfg 2 [] false true true) s := by
  refine ⟨final (tinyCfg 2 [] false true true) (State.init d10Ports) d10Schedule,
    reach_of_run Reach.init _ _ (run_final (by decide)), by decide, ?_⟩
  intro hc
  exact absurd (hc 1 (by decide) (.port 0) (by decide) (by decide) (by decide)) (by decide)

/-- The same schedule is not available to the repaired scheduler in a harmful way: with the repair the run of the
repaired counterpart (the eval task confirms before it compares again) ends converged — also a non-vacuity witness
for `converges` (a reachable quiescent state after real activity). -/
def d10ScheduleRepaired : List (Act TExpr) :=
  anonPass2 ++ [.evalTake 1, .evalCmp 1] ++
  [.setSource 0 (some 2)] ++ anonPass2 ++ [.evalTake 1, .evalCmp 1, .writeBegin 1] ++
  [.setSource 0 (some 1)] ++ anonPass2 ++
  [.writeEnd 1, .passBegin (.evaler 1), .passRead, .passRead, .passHandleA, .passHandleB,
   .evalTake 1, .evalCmp 1] ++
  [.passBegin (.writer 1), .passRead, .passRead, .passHandleA, .passHandleB] ++
  [.writeBegin 1, .writeEnd 1] ++
  [.passBegin (.evaler 1), .passRead, .passRead, .passHandleA, .passHandleB] ++
  [.passBegin (.writer 1), .passRead, .passRead, .passHandleA, .passHandleB]

example : ∃ s, run? (tinyCfg 2 [] true true true) (State.init d10Ports) d10ScheduleRepaired = some s ∧
    Quiescent (tinyCfg 2 [] true true true) s ∧ (s.port 0).lastRead = some 1 ∧ (s.port 1).lastRead = some 1 := by
  exact ⟨final (tinyCfg 2 [] true true true) (State.init d10Ports) d10ScheduleRepaired, run_final (by decide), by decide,
    by decide, by decide⟩

/-- The hypotheses of `converges` are met by a concrete hub: the tiny language has the frame property. -/
example : Frame (tinyCfg 2 [] true true true) ∧ InitOk d10Ports := ⟨tiny_frame _ _ _ _ _, d10_initOk⟩

/-! Non-vacuity of the three step theorems: concrete states of the D10 hub (repaired scheduler) that meet their
hypotheses. `sDetect`: x has changed to 2 and a pass has just begun (x is the next port to be polled); `sHandle`: that
pass after polling, inside `handle_value_changes` (changed set = {x}); `sOwn`: the eval task's confirming pass after y's
write, inside `handle_value_changes` (changed set = {y}, which y's expression does not read). -/
def sDetect : State TExpr := final (tinyCfg 2 [] true true true) (State.init d10Ports)
  (anonPass2 ++ [.evalTake 1, .evalCmp 1, .setSource 0 (some 2), .passBegin .anon])
def sHandle : State TExpr := final (tinyCfg 2 [] true true true) sDetect [.passRead, .passRead, .passHandleA]
def sOwn : State TExpr := final (tinyCfg 2 [] true true true) sHandle
  [.passHandleB, .evalTake 1, .evalCmp 1, .writeBegin 1, .writeEnd 1, .passBegin (.evaler 1), .passRead, .passRead,
   .passHandleA]

example : ∃ ps, sDetect.pass = some ps ∧ ps.handling = false ∧ ps.todo = 0 :: [1] ∧ (sDetect.port 0).enabled = true ∧
    (sDetect.port 0).drv ≠ (sDetect.port 0).lastRead ∧
    (step? (tinyCfg 2 [] true true true) sDetect .passRead).isSome = true ∧ 0 ∈ (TExpr.port 0).deps :=
  ⟨⟨.anon, [0, 1], [], false, [], false⟩, by decide, by decide, by decide, by decide, by decide, by decide, by decide⟩

example : ∃ ps, sHandle.pass = some ps ∧ (step? (tinyCfg 2 [] true true true) sHandle .passHandleB).isSome = true ∧
    (sHandle.port 1).enabled = true ∧ (sHandle.port 1).expr = some (.port 0) ∧ 1 ∉ (TExpr.port 0).deps ∧
    (∃ q, q ∈ (TExpr.port 0).deps ∧ q ∈ ps.changed) :=
  ⟨⟨.anon, [], [0], true, [], false⟩, by decide, by decide, by decide, by decide, by decide, ⟨0, by decide, by decide⟩⟩

example : ∃ ps, sOwn.pass = some ps ∧ (step? (tinyCfg 2 [] true true true) sOwn .passHandleB).isSome = true ∧
    (sOwn.port 1).expr = some (.port 0) ∧ ps.all = false ∧ 1 ∉ ps.forced ∧ ps.changed = [1] ∧
    (∀ q, q ∈ ps.changed → q ∉ (TExpr.port 0).deps) :=
  ⟨⟨.evaler 1, [], [1], true, [], false⟩, by decide, by decide, by decide, by decide, by decide, by decide, by decide⟩

/-- D12 hub: x = port 0 (1), z = port 1 (10), y = port 2 with `ADD($0, $1)`, holding 11. -/
def d12Ports : PortId → PortSt TExpr := fun q =>
  if q = 0 then ⟨true, none, some 1, some 1, [], .idle, [], none, false⟩
  else if q = 1 then ⟨true, none, some 10, some 10, [], .idle, [], none, false⟩
  else if q = 2 then ⟨true, some (.op2 .add (.port 0) (.port 1)), some 11, some 11, [], .idle, [], none, false⟩
  else ⟨false, none, none, none, [], .idle, [], none, false⟩

def anonPass3 : List (Act TExpr) :=
  [.passBegin .anon, .passRead, .passRead, .passRead, .passHandleA, .passHandleB]

/-- disable x; z: 10 → 20 (y's evaluation fails: x is disabled); enable x: nothing re-evaluates y. -/
def d12Schedule : List (Act TExpr) :=
  anonPass3 ++ [.evalTake 2, .evalCmp 2] ++
  [.disable 0, .setSource 1 (some 20)] ++ anonPass3 ++ [.evalTake 2, .evalCmp 2] ++
  [.enable 0] ++ anonPass3

/-- Without `force_eval_expressions()` in `enable()` (repForce = false) the hub reaches a quiescent state that is not
converged: x = 1, z = 20, y = 11 (defect D12). -/
theorem unrepaired_force_not_converges :
    ∃ s, Reach (tinyCfg 3 [] true false true) d12Ports s ∧ Quiescent (tinyCfg 3 [] true false true) s ∧
      ¬ Converged (tinyCfg 3 [] true false true) s := by
  refine ⟨final (tinyCfg 3 [] true false true) (State.init d12Ports) d12Schedule,
    reach_of_run Reach.init _ _ (run_final (by decide)), by decide, ?_⟩
  intro hc
  exact absurd (hc 2 (by decide) (.op2 .add (.port 0) (.port 1)) (by decide) (by decide) (by decide)) (by decide)

/-- Hub of the third defect: x = port 0 (unavailable), y = port 1 DISABLED with `$0`, register 3, never read. -/
def d16Ports : PortId → PortSt TExpr := fun q =>
  if q = 0 then ⟨true, none, none, none, [], .idle, [], none, false⟩
  else if q = 1 then ⟨false, some (.port 0), none, some 3, [], .idle, [], none, false⟩
  else ⟨false, none, none, none, [], .idle, [], none, false⟩

/-- y is enabled while a pass is already past its turn; that same pass serves the forced evaluation: "unavailable"
equals the never-refreshed last read value, nothing is written; the next pass reads the register 3. -/
def d16Schedule : List (Act TExpr) :=
  [.passBegin .anon, .passRead, .passRead, .enable 1, .passHandleA, .passHandleB, .evalTake 1, .evalCmp 1] ++ anonPass2

/-- With the forced set taken at the END of a pass (repCapture = false) the hub reaches a quiescent state that is
not converged: x unavailable, y = 3 (third defect, found by the generator on the real code). -/
theorem unrepaired_capture_not_converges :
    ∃ s, Reach (tinyCfg 2 [] true true false) d16Ports s ∧ Quiescent (tinyCfg 2 [] true true false) s ∧
      ¬ Converged (tinyCfg 2 [] true true false) s := by
  refine ⟨final (tinyCfg 2 [] true true false) (State.init d16Ports) d16Schedule,
    reach_of_run Reach.init _ _ (run_final (by decide)), by decide, ?_⟩
  intro hc
  exact absurd (hc 1 (by decide) (.port 0) (by decide) (by decide) (by decide)) (by decide)

/-! ### non-vacuity of the trace-level statements, and the self-reading case -/

/-- Hub for (A): x = port 0 (1), y = port 1 with `$0` (holding 1), w = port 2 (5), which y does not read. -/
def aPorts : PortId → PortSt TExpr := fun q =>
  if q = 0 then ⟨true, none, some 1, some 1, [], .idle, [], none, false⟩
  else if q = 1 then ⟨true, some (.port 0), some 1, some 1, [], .idle, [], none, false⟩
  else if q = 2 then ⟨true, none, some 5, some 5, [], .idle, [], none, false⟩
  else ⟨false, none, none, none, [], .idle, [], none, false⟩

/-- After the boot pass and the forced evaluation of y (1 = 1: nothing to write): y is settled and unforced. -/
def sSettled : State TExpr := final (tinyCfg 3 [] true true true) (State.init aPorts)
  (anonPass3 ++ [.evalTake 1, .evalCmp 1])

/-- w: 5 → 7, a whole pass detects and handles it; w: 7 → 8, a second pass has polled every port (w is in its changed
set) and is about to handle the change. -/
def aActs : List (Act TExpr) :=
  [.setSource 2 (some 7)] ++ anonPass3 ++ [.setSource 2 (some 8), .passBegin .anon, .passRead, .passRead, .passRead]

theorem aPorts_initOk : InitOk aPorts := by
  intro p
  simp only [aPorts]
  split
  · rfl
  · split
    · rfl
    · split <;> rfl

/-- The hypotheses of `unread_changes_never_alter` are met by a run with real activity (w's value changes twice and
both changes are detected; the second pass is still running with w in its changed set). -/
example : Reach (tinyCfg 3 [] true true true) aPorts sSettled ∧ (sSettled.port 1).expr = some (.port 0) ∧
    (sSettled.port 1).quiet = true ∧ Unforced (tinyCfg 3 [] true true true) sSettled 1 (.port 0) ∧
    (run? (tinyCfg 3 [] true true true) sSettled aActs).isSome = true ∧
    RunAll (tinyCfg 3 [] true true true) (Unread (tinyCfg 3 [] true true true) 1 (.port 0)) aActs sSettled ∧
    (sSettled.port 2).lastRead = some 5 ∧
    ((final (tinyCfg 3 [] true true true) sSettled aActs).port 2).lastRead = some 8 ∧
    (∃ ps, (final (tinyCfg 3 [] true true true) sSettled aActs).pass = some ps ∧ ps.changed = [2]) :=
  ⟨reach_of_run Reach.init _ _ (run_final (by decide)), by decide, by decide, by decide, by decide, by decide,
   by decide, by decide, ⟨⟨.anon, [], [2], false, [], false⟩, by decide, by decide⟩⟩

/-- Continuation for (B) on the D10 hub from `sDetect` (x has changed to 2, the pass is about to poll x): the pass
ends, y is evaluated on the new snapshot, written, confirmed by the eval task's and the writer's passes. -/
def bActs : List (Act TExpr) :=
  [.passRead, .passHandleA, .passHandleB, .evalTake 1, .evalCmp 1, .writeBegin 1, .writeEnd 1,
   .passBegin (.evaler 1), .passRead, .passRead, .passHandleA, .passHandleB,
   .passBegin (.writer 1), .passRead, .passRead, .passHandleA, .passHandleB]

/-- The hypotheses of `dep_change_is_re_evaluated` are met (reachable state, the run is enabled, keeps y and x as they
are and ends quiescent) — and its conclusion is visible: the run contains the evaluation of y with x = 2. -/
example : Reach (tinyCfg 2 [] true true true) d10Ports sDetect ∧
    (run? (tinyCfg 2 [] true true true) sDetect (.passRead :: bActs)).isSome = true ∧
    RunAll (tinyCfg 2 [] true true true) (Keeps 1 (.port 0) 0) (.passRead :: bActs) sDetect ∧
    Quiescent (tinyCfg 2 [] true true true) (final (tinyCfg 2 [] true true true) sDetect (.passRead :: bActs)) ∧
    (sDetect.port 0).drv = some 2 ∧
    RunEx (tinyCfg 2 [] true true true) (EvalOf 1 0 (some 2)) (.passRead :: bActs) sDetect :=
  ⟨reach_of_run Reach.init _ _ (run_final (by decide)), by decide, by decide, by decide, by decide, by decide⟩

/-- …and those of `dep_change_blocks_quiescence`: the prefix of that continuation up to (not including) `evalTake 1`
contains no evaluation of y, and indeed ends in a state that is not quiescent. -/
example : RunAll (tinyCfg 2 [] true true true) (fun t a t1 => ¬ EvalOf 1 0 (some 2) t a t1)
      (.passRead :: bActs.take 3) sDetect ∧
    (run? (tinyCfg 2 [] true true true) sDetect (.passRead :: bActs.take 3)).isSome = true ∧
    ¬ Quiescent (tinyCfg 2 [] true true true)
      (final (tinyCfg 2 [] true true true) sDetect (.passRead :: bActs.take 3)) :=
  ⟨by decide, by decide, by decide⟩

/-- Self-reading hub: x = port 0 (1), y = port 1 with `ADD($1, $0)`, holding 5. -/
def selfPorts : PortId → PortSt TExpr := fun q =>
  if q = 0 then ⟨true, none, some 1, some 1, [], .idle, [], none, false⟩
  else if q = 1 then ⟨true, some (.op2 .add (.port 1) (.port 0)), some 5, some 5, [], .idle, [], none, false⟩
  else ⟨false, none, none, none, [], .idle, [], none, false⟩

/-- Boot pass, forced evaluation of y (5 + 1 = 6 ≠ 5: written), the eval task's and the writer's confirming passes read
y = 6 — y's own change does not trigger y again (`trig`: `q != p`). -/
def selfSchedule : List (Act TExpr) :=
  anonPass2 ++ [.evalTake 1, .evalCmp 1, .writeBegin 1, .writeEnd 1] ++
  [.passBegin (.evaler 1), .passRead, .passRead, .passHandleA, .passHandleB] ++
  [.passBegin (.writer 1), .passRead, .passRead, .passHandleA, .passHandleB]

theorem selfPorts_initOk : InitOk selfPorts := by
  intro p
  simp only [selfPorts]
  split
  · rfl
  · split <;> rfl

/-- THE SELF-READING CASE IS REFUTED, not excluded by a guard: the repaired scheduler accepts a port whose expression
reads the port itself, and reaches a quiescent state in which that port (y = 6) does NOT hold the value of its
expression over the current values (6 + 1 = 7). So `p ∉ cfg.deps e` in `Converged` cannot be dropped. -/
theorem self_reading_not_converged :
    ∃ s, Reach (tinyCfg 2 [] true true true) selfPorts s ∧ Quiescent (tinyCfg 2 [] true true true) s ∧
      (s.port 1).enabled = true ∧ (s.port 1).expr = some (.op2 .add (.port 1) (.port 0)) ∧
      (s.port 1).lastRead = some 6 ∧
      ¬ Good (tinyCfg 2 [] true true true) s 1 (.op2 .add (.port 1) (.port 0)) (s.port 1).lastRead :=
  ⟨final (tinyCfg 2 [] true true true) (State.init selfPorts) selfSchedule,
    reach_of_run Reach.init _ _ (run_final (by decide)), by decide, by decide, by decide, by decide, by decide⟩

end QtVerif.Core
