import QtVerif.Proofs.SequencePlay
import QtVerif.Proofs.SequenceOps
import QtVerif.Proofs.SequenceInFlight
import QtVerif.Proofs.SequenceFrame
/-!
C19 — Sequences write the given values in order, with the given delays and repeats.

Property theorems only. Model: `QtVerif/Model/Sequence.lean` (the `_loop` coroutine, `cancel`, `set_sequence`,
the cancelling prefixes of expression assignment / disable, `patch_port_sequence`, on an explicit model of the asyncio
ready queue and timers; `iter` = one `_run_once`). Lemmas: `Proofs/SequencePlay.lean`, `SequenceCancel.lean`,
`SequenceOps.lean`. `Fix.repaired` is the model proper (the two repairs of `fixes/C19-*.diff`); `Fix.asFound` is the
code at the pinned commit and is only used for the `unrepaired_…` counter-examples.

"Submission" in the model (`Handle.ff`, logged as `Event.sub`) is the first step of the task that
`_transform_and_write_value_fire_and_forget` creates, i.e. the entry of `transform_and_write_value` — also with the
per-port submit lock and write lock that /repo has since c62ed27 / a2fcb59: the lock is taken *inside*
`transform_and_write_value` (around the write transform and the queueing), is FIFO and, for a port without write
transform, is never held across a suspension, so values are queued in the order of these entries; the write lock only
serialises the driver's `write_value` calls. The harness observes the same point (override of
`transform_and_write_value`) and, on the driver side, completeness and order of `write_value`.

Time is in integer ms. `schedule t0 vs ds r` = for each of r passes, value i at `t0 + pass·Σd + d₀+…+dᵢ₋₁`
(non-positive delays count as 0, as `asyncio.sleep` treats them).
-/
namespace QtVerif.Sequence.C19
open QtVerif.Sequence

/-- **Playback = schedule, then stop and report inactive** (r > 0). For every value list, delay list and repeat count
admitted by the API: the uncancelled run submits exactly `schedule t0 vs ds r` — vₖ₊₁ is submitted dₖ after vₖ, the
last delay separates two passes, exactly r passes — then nothing is ready, no timer is left, the port reports no
active sequence, and the state does not change any more. -/
theorem playback_eq_schedule (t0 : Nat) (vs : List Val) (ds : List Int) (r : Int)
    (hne : vs ≠ []) (hlen : ds.length = vs.length) (hr : 0 < r) :
    ∃ k, let s := iterN Fix.repaired k (St.installed t0 vs ds r)
      s.ready = [] ∧ s.timers = [] ∧ s.waiting = none ∧ s.port.seq = none ∧
      subsOf s.log = schedule t0 vs ds r.toNat ∧ ∀ m, iterN Fix.repaired m s = s :=
  (playback_finite t0 vs ds r hne hlen hr).1

example : ([Val.num 2, .num 4, .num 6] ≠ []) ∧ ([100, -3, 300] : List Int).length = [Val.num 2, .num 4, .num 6].length ∧
    (0 : Int) < 2 ∧ schedule 5 [Val.num 2, .num 4, .num 6] [100, -3, 300] 2 =
      [(5, .num 2), (105, .num 4), (105, .num 6), (405, .num 2), (505, .num 4), (505, .num 6)] := by decide

/-- On the way the log is always a prefix of the schedule: some full passes and the beginning of the next one. -/
theorem playback_prefix (t0 : Nat) (vs : List Val) (ds : List Int) (r : Int)
    (hne : vs ≠ []) (hlen : ds.length = vs.length) (hr : 0 < r) (k : Nat) :
    ∃ c i, subsOf (iterN Fix.repaired k (St.installed t0 vs ds r)).log
      = schedule t0 vs ds c ++ (passAt t0 vs ds c).take i :=
  (playback_finite t0 vs ds r hne hlen hr).2 k

/-- **"Reports no active sequence" comes after the last value.** In an uncancelled run the port never reports no active
sequence while a value is still on its way to the write path (this is what the second repair buys; the code as found
fails it: `unrepaired_value_after_disable`). -/
theorem finished_after_last_value (t0 : Nat) (vs : List Val) (ds : List Int) (r : Int)
    (hne : vs ≠ []) (hlen : ds.length = vs.length) (k : Nat)
    (h : (iterN Fix.repaired k (St.installed t0 vs ds r)).port.seq = none) :
    (iterN Fix.repaired k (St.installed t0 vs ds r)).ready = [] :=
  finished_means_flushed t0 vs ds r hne hlen k h

/-- **A value in flight always belongs to the sequence the port reports** — with operations queued, for every state
reachable from the start of a case (any port without a sequence, any calls of the harness and the end of the window in
the timers) by any number of event-loop iterations, for the repaired `_loop` and either variant of `cancel`: every
fire-and-forget submission still in the ready queue is a value of the sequence that `port.seq` holds at that moment.
So once a stopping call has completed (the port reports no sequence, or the new one) nothing of the old sequence is in
flight, and by `cancel_is_immediate` nothing of it is ever submitted: no value is submitted after the stopping call has
returned. (Inductive invariant `Fl.G` through every handle of every iteration: in-flight values belong to the live task
of the reported sequence and precede its next loop step, one pending activation per task, fresh identifiers, one
operation inside its cancellation at a time. The driver evaluates the same predicate on every intermediate state of
every case.) The code as found fails it: `unrepaired_value_after_disable`. -/
theorem in_flight_belongs_to_reported_sequence (fix : Fix) (hfl : fix.flushLast = true) (p : Port)
    (cap maxItems : Nat) (timers : List Timer) (n : Nat) (hp : p.seq = none)
    (ht : ∀ t ∈ timers, Fl.startHandle t.h) :
    let s := iterN fix n (timers.foldl (fun s t => s.addTimer t.time t.rank t.h) (St.init p cap maxItems))
    ∀ sid v, Handle.ff sid v ∈ s.ready → ∃ q, s.port.seq = some q ∧ q.id = sid :=
  in_flight_belongs fix hfl p cap maxItems timers n hp ht

example : Fix.repaired.flushLast = true ∧ Port.default.seq = none ∧
    (∀ t ∈ [(⟨0, 1, .hop 0 0 (.patchSeq [.num 2] [0] 0)⟩ : Timer), ⟨5, -1, .hop 1 1 (.setEnabled false)⟩, ⟨9, 2, .stop⟩],
      Fl.startHandle t.h) := by
  refine ⟨rfl, rfl, ?_⟩
  intro t ht
  simp at ht
  rcases ht with rfl | rfl | rfl <;> trivial

/-- **A sequence plays its schedule whatever else is queued.** `s` is a hub state that is "sequence `sid` just installed +
bystanders" (`Frame.Rel … (.A 0)`): its loop task is created and queued once, nothing of it is submitted yet, and every
other handle in the ready queue or in a timer is a bystander — leftovers of other sequences (stale loop steps, values in
flight), requests that will be refused whatever the state (malformed body, length mismatch), enable requests, driver
hooks coming back, calls of the harness still travelling through the queue (at any distance, at any instant, also at
the sequence's own firing instants); the timers are sorted by time and the observation window is open. Then
* at every later moment the submissions of `sid` are full passes of `schedule` followed by the beginning of the next;
* for r > 0 some moment has exactly `schedule now vs ds r` submitted for `sid`, with the port reporting no sequence;
* for r ≤ 0 every number of passes is eventually submitted in full.
Proof: the own handles commute with the projection onto the sequence's part of the hub (one loop step is a `Frame.Delta`
that depends on `port.seq` and the clock only), bystanders leave the projection alone and use up a finite measure; the
projected run is the uncancelled run of `playback_eq_schedule`. Operations that do touch the sequence (an accepted new
sequence, an expression, disable) are not bystanders: what they do is `cancel_is_immediate`. -/
theorem playback_among_bystanders (s : St) (sid : Nat) (vs : List Val) (ds : List Int) (r : Int)
    (hne : vs ≠ []) (hlen : ds.length = vs.length) (hrel : Frame.Rel ⟨s.now, vs, ds, r, sid⟩ s (.A 0)) :
    (∀ k, ∃ c i, subsOfSid sid (iterN Fix.repaired k s).log =
      schedule s.now vs ds c ++ (passAt s.now vs ds c).take i) ∧
    (0 < r → ∃ k, (iterN Fix.repaired k s).port.seq = none ∧
      subsOfSid sid (iterN Fix.repaired k s).log = schedule s.now vs ds r.toNat) ∧
    (r ≤ 0 → ∀ c, ∃ k, subsOfSid sid (iterN Fix.repaired k s).log = schedule s.now vs ds c) :=
  QtVerif.Sequence.playback_among_bystanders s sid vs ds r hne hlen hrel

/-- The hypothesis of `playback_among_bystanders` holds right after `set_sequence` on a hub `s0` that satisfies the
invariant of `in_flight_belongs_to_reported_sequence` (every reachable state does), reports no sequence and has only
bystanders queued. -/
theorem newly_installed_is_playback_state (s0 : St) (vs : List Val) (ds : List Int) (r : Int) (hne : vs ≠ [])
    (g : Fl.G s0) (hseq : s0.port.seq = none)
    (hb : ∀ h ∈ s0.ready, Frame.bys s0.nextId h = true) (ht : ∀ t ∈ s0.timers, Frame.bys s0.nextId t.h = true)
    (hs : Frame.timeSorted s0.timers) (hw : s0.waiting = none) (hc : s0.cap = 0) (hst : s0.stopped = false)
    (hlog : s0.log.filter (Frame.ownEv s0.nextId) = []) :
    Frame.Rel ⟨s0.now, vs, ds, r, s0.nextId⟩ (install s0 vs ds r) (.A 0) :=
  Frame.installed_rel s0 vs ds r hne g hseq hb ht hs hw hc hst hlog

/-- Non-vacuity: a hub on which a first sequence ([1] once) has run to its end while a malformed request of the harness
is still three trips away in a timer at t = 40 and an enable request waits at t = 7: no sequence, bystanders only. -/
example :
    let s0 := iterN Fix.repaired 3 (([(⟨0, 1, .hop 0 0 (.patchSeq [.num 2] [5] 1)⟩ : Timer),
        ⟨7, -1, .hop 1 1 (.setEnabled true)⟩, ⟨40, 1, .hop 3 2 .malformed⟩]).foldl
        (fun s t => s.addTimer t.time t.rank t.h) (St.init Port.default 0 256))
    Fl.G s0 ∧ s0.port.seq = none ∧ s0.nextId = 1 ∧ subsOf s0.log = [(0, .num 2)] ∧
    (∀ h ∈ s0.ready, Frame.bys s0.nextId h = true) ∧ (∀ t ∈ s0.timers, Frame.bys s0.nextId t.h = true) ∧
    s0.timers.length = 2 ∧ s0.waiting = none ∧ s0.cap = 0 ∧ s0.stopped = false ∧
    s0.log.filter (Frame.ownEv s0.nextId) = [] := by
  refine ⟨Fl.G_iterN _ rfl 3 (Fl.G_start _ _ _ _ rfl ?_), ?_⟩
  · intro t ht
    simp at ht
    rcases ht with rfl | rfl | rfl <;> trivial
  · decide

/-- **repeat = 0: indefinitely.** (Also for negative repeat counts, which the request schema does not exclude.) The
sequence stays active for ever, what has been submitted is at every moment a prefix of the infinite periodic schedule,
and every pass c is eventually submitted in full: for every c some moment has exactly `schedule t0 vs ds c` in the log —
also when all delays are 0 and time stands still. -/
theorem repeat_zero_never_stops (t0 : Nat) (vs : List Val) (ds : List Int) (r : Int)
    (hne : vs ≠ []) (hlen : ds.length = vs.length) (hr : r ≤ 0) :
    (∀ k, (iterN Fix.repaired k (St.installed t0 vs ds r)).port.seq.isSome = true ∧
      ∃ c i, subsOf (iterN Fix.repaired k (St.installed t0 vs ds r)).log
        = schedule t0 vs ds c ++ (passAt t0 vs ds c).take i) ∧
    (∀ c, ∃ k, subsOf (iterN Fix.repaired k (St.installed t0 vs ds r)).log = schedule t0 vs ds c) :=
  playback_forever t0 vs ds r hne hlen hr

example : subsOf (iterN Fix.repaired 10 (St.installed 0 [.num 2, .num 4] [0, 7] 0)).log =
    [(0, .num 2), (0, .num 4), (7, .num 2), (7, .num 4), (14, .num 2)] := by decide

/-- **Cancellation is immediate** — for *every* state `s` of the hub model (any queue contents, any timers, any other
operations in flight, either variant of the code), every operation that stops a sequence (a new accepted sequence, an
expression assignment, disabling the enabled port) and every later moment: the values of the old sequence `q` that are
submitted or in flight are exactly those that were submitted or in flight when the operation ran — no callback of `q`
runs any more, in particular none of the later firing instants — and whatever of it is recorded afterwards carries
the very instant of the operation. (`TimersOk`: no timer holds a submission — timers only ever hold loop steps and
harness calls.) -/
theorem cancel_is_immediate (fix : Fix) (s : St) (q : Seq) (opId : Nat) (op : Op) (n : Nat)
    (hq : s.port.seq = some q) (hf : q.id < s.nextId) (ht : Cancel.TimersOk q.id s)
    (hw : s.cancelling = false) (hop : Stops s op) :
    let s' := iterN fix n (startOp fix s opId op)
    Cancel.committed q.id s' = Cancel.committed q.id s ∧
    ∃ l, subsOfSid q.id s'.log = subsOfSid q.id s.log ++ l ∧ ∀ e ∈ l, e.1 = s.now := by
  rw [startOp_stops fix s opId op hw hop]
  exact no_callback_after_cancel fix s q opId op n hq hf ht

/-- The hypotheses are met in the middle of a playback: [1, 2] every 100 ms; 2 iterations in, the first value is out and
the task sleeps until t = 100; disabling then leaves the log at that one value for ever. -/
example :
    (iterN Fix.repaired 2 (St.installed 0 [.num 2, .num 4] [100, 100] 0)).port.seq.map (·.id) = some 0 ∧
    (iterN Fix.repaired 2 (St.installed 0 [.num 2, .num 4] [100, 100] 0)).nextId = 1 ∧
    (iterN Fix.repaired 2 (St.installed 0 [.num 2, .num 4] [100, 100] 0)).cancelling = false ∧
    Stops (iterN Fix.repaired 2 (St.installed 0 [.num 2, .num 4] [100, 100] 0)) (.setEnabled false) ∧
    subsOf (iterN Fix.repaired 2 (St.installed 0 [.num 2, .num 4] [100, 100] 0)).log = [(0, .num 2)] ∧
    subsOf (iterN Fix.repaired 6 (startOp Fix.repaired
      (iterN Fix.repaired 2 (St.installed 0 [.num 2, .num 4] [100, 100] 0)) 7 (.setEnabled false))).log
        = [(0, .num 2)] :=
  ⟨by decide, by decide, by decide, ⟨rfl, by decide⟩, by decide, by decide⟩

/-- What the stopping operation leaves behind once the old sequence is out of the way: the new sequence (not started
yet) / no sequence; the expression flag; the port disabled (unless the driver's `handle_disable()` raises without
even suspending, in which case `disable()` has already put the flag back). -/
theorem stop_then_apply (s : St) (opId : Nat) :
    (∀ vs ds r, vs ≠ [] → (finishOp s opId (.patchSeq vs ds r)).port.seq
        = some ⟨s.nextId, vs, ds, r, 0, .pending .start false⟩) ∧
    (∀ ds r, (finishOp s opId (.patchSeq [] ds r)).port.seq = none) ∧
    (∀ b, (finishOp s opId (.setExpr b)).port.seq = none ∧ (finishOp s opId (.setExpr b)).port.hasExpr = b) ∧
    ((finishOp s opId (.setEnabled false)).port.seq = none ∧
      ((s.disLat = 0 ∧ s.disRaise = true) ∨ (finishOp s opId (.setEnabled false)).port.enabled = false)) :=
  finishOp_effect s opId

/-- The driver's `handle_disable()` is a suspension point *behind* the stop (`disable()` cancels the sequence, clears the
flag and only then awaits the driver): when it eventually returns or raises, the sequence is as it was — gone —; if it
raises, the port is enabled again (and the API call fails). Since `cancel_is_immediate` holds for every state and every
number of iterations, the values of the stopped sequence stay frozen however long the driver takes. -/
theorem driver_hook_comes_after_the_stop (s : St) (opId : Nat) :
    (hookDone s opId false).port.seq = s.port.seq ∧
    (s.disRaise = true → (hookDone s opId false).port.enabled = true) ∧
    (s.disRaise = false → (hookDone s opId false).port.enabled = s.port.enabled) :=
  hookDone_effect s opId

/-- **Refusals.** For well-sized lists: a length mismatch is refused (`invalid-field: delays`); a value outside the
port's domain is refused (`invalid-field: values`); otherwise a disabled port refuses with `port-disabled`, an enabled
read-only one with `read-only-port`, one driven by an expression with `port-with-expression`, and only an enabled,
writable, expression-less port accepts. -/
theorem refusals (maxItems : Nat) (p : Port) (vs : List Val) (ds : List Int)
    (h1 : vs.length ≤ maxItems) (h2 : ds.length ≤ maxItems) :
    (vs.length ≠ ds.length → validate maxItems p vs ds = some .invalidDelays) ∧
    (vs.length = ds.length → (∃ v ∈ vs, inDomain p v = false) → validate maxItems p vs ds = some .invalidValues) ∧
    (vs.length = ds.length → (∀ v ∈ vs, inDomain p v = true) →
      (p.enabled = false → validate maxItems p vs ds = some .portDisabled) ∧
      (p.enabled = true → p.writable = false → validate maxItems p vs ds = some .readOnly) ∧
      (p.enabled = true → p.writable = true → p.hasExpr = true → validate maxItems p vs ds = some .withExpression) ∧
      (p.enabled = true → p.writable = true → p.hasExpr = false → validate maxItems p vs ds = none)) :=
  validate_table maxItems p vs ds h1 h2

example : validate 256 { Port.default with hasExpr := true } [.num 2] [5] = some .withExpression ∧
    validate 256 { Port.default with integer := true, max := some 20 } [.num 2, .num 22] [5, 5] = some .invalidValues ∧
    validate 256 Port.default [.num 2, .num 3] [5, -5] = none := by decide

/-- A refused request changes nothing but the answer: the running sequence, the queue and the timers are untouched. -/
theorem refusal_touches_nothing (fix : Fix) (s : St) (opId : Nat) (vs : List Val) (ds : List Int) (r : Int) (e : Err)
    (hw : s.cancelling = false) (hv : validate s.maxItems s.port vs ds = some e) :
    startOp fix s opId (.patchSeq vs ds r) = s.emit (.ret s.now opId (.refused e)) :=
  startOp_refused fix s opId vs ds r e hw hv

/-- **The code as found violates the property (1): a cancellation that arrives between the step that re-arms the
playback task and that task's first step** (or right after a sequence was installed) ends in `CancelledError`: the
request fails, the accepted sequence [9] is never played, and the port keeps reporting an active sequence for ever. -/
theorem unrepaired_cancel_before_first_step :
    let s := (runCase Fix.asFound 100 witnessArmed).1
    s.log = [.ret 0 0 .ok, .sub 0 0 (.num 2), .sub 100 0 (.num 4), .ret 200 1 .cancelledError] ∧
    s.port.seq.isSome = true ∧ s.now = 1000 := by decide

/-- The repaired cancellation on the same case: the request succeeds at once and the new sequence plays. -/
theorem repaired_cancel_before_first_step :
    (runCase Fix.repaired 100 witnessArmed).1.log
      = [.ret 0 0 .ok, .sub 0 0 (.num 2), .sub 100 0 (.num 4), .ret 200 1 .ok, .sub 200 1 (.num 18)] ∧
    (runCase Fix.repaired 100 witnessArmed).1.port.seq = none := by decide

/-- **The code as found violates the property (2): the sequence reports "finished" before its last value is
submitted**, so a port disabled in that loop iteration is written to afterwards (the disable call returns, then value
2 is submitted). -/
theorem unrepaired_value_after_disable :
    (runCase Fix.asFound 100 witnessFinish).1.log
      = [.ret 0 0 .ok, .sub 0 0 (.num 2), .ret 100 1 .ok, .sub 100 0 (.num 4)] ∧
    (runCase Fix.asFound 100 witnessFinish).1.port.enabled = false := by decide

/-- Repaired: the last value goes out before the port reports no active sequence, hence before the disable returns. -/
theorem repaired_value_before_disable :
    (runCase Fix.repaired 100 witnessFinish).1.log
      = [.ret 0 0 .ok, .sub 0 0 (.num 2), .sub 100 0 (.num 4), .ret 100 1 .ok] := by decide

end QtVerif.Sequence.C19
