import QtVerif.Model.Faults
import QtVerif.Proofs.FaultsH
import QtVerif.Proofs.FaultsL
/-!
# C15 — a failing port driver does not disturb other ports

Model: `QtVerif.Model.Faults` (polling pass of `core/main.py:update` as a fold over the port list with the
per-port `try/except` placement, the timed error set, value-change events to every handler, expression
re-evaluation, the write loop; explicit time; a fault schedule `Env` giving the outcome of every driver call).

`H` is the set of healthy ports (`H p = true`), everything else is "faulty".  Hypotheses of the main theorems:
* `Closed E H`  — no healthy port's expression reads a faulty port;
* `Frame E H`   — the abstract expression layer only looks at its dependencies (derived from the dependency-wise
                  `FrameDeps` by `frame_of_deps`);
* `Safe E H`    — the faulty ports raise *errors* (`Exception`): never an `escape` (BaseException / CancelledError),
                  which the code does not catch — `escape_interferes`, `escape_loses_events` and `escape_kills_loop`
                  show that this hypothesis is exactly where the `try … except Exception` blocks matter.

What is proved is about values, events (their order among `H`), driver calls and write results — not about
timestamps: a schedule fixes the times of the polling passes.  The passes that the code runs after each driver
write (also after a faulty port's write) are ordinary `pass` actions of the schedule and are KEPT when the faulty
ports are removed (`keep`), so "the extra passes caused by a faulty port's writes are unobservable" is NOT part of
the theorem (timing residue; the harness checks it on the real hub with drivers whose values are stable within a
tick).  Hence the names `noninterference_partial` / `noninterference_absent_partial`; the full statement is
`noninterferenceFull`, and `extra_pass_observable` proves that it is false without a stability assumption on the
healthy drivers (an extra poll between two changes of the world sees the intermediate value).
The timing-free statement IS proved under the natural explicit hypothesis that the healthy drivers are stable
(`Stable`: their reads always succeed and return the register): `noninterference_full_under_stability` (+
`noninterference_full_values_events`), by stuttering equivalence on the effect view `abs`, with the key lemma
`extra_pass_over_stable_world_is_identity` and `pass_settles_stable_world`.
The other theorems are full strength: `failing_keeps_last_good`, `not_retried_before_interval`,
`retried_after_interval`, `recovers`, `update_loop_survives`, `every_tick_polls`.
-/
namespace QtVerif.C15
open QtVerif.Faults

/-- FULL statement of the property's first sentence, NOT proved (and false as it stands, see `extra_pass_observable`
below; the version with the natural hypothesis is `noninterference_full_under_stability`): also the polling passes
that the faulty ports' writes cause are erased from the schedule —
the healthy ports' events and write results are the same whichever of the `pass .other` actions are dropped.  The
theorems below (`…_partial`) fix the schedule of passes instead. -/
def noninterferenceFull : Prop :=
  ∀ (H : PortId → Bool) (P : Params) (E : Env) (σ σ' : List Action) (s : State),
    Safe E H → Closed E H → Frame E H → DropsPasses (σ.filter (keep H)) σ' →
    (run P E s σ).trace.filter (fun o => H o.port && o.isOutput) = (run P E (proj H s) σ').trace.filter (fun o => o.isOutput)

/-- **Non-interference, absence form.**  For every port list, fault schedule, schedule of actions and set `H`
closed under expression dependencies: what the full system shows on `H` (state of the `H` ports incl. last values,
queues and counters, their error-set entries, and the ordered trace of their heart beats, reads, value-change events
per handler, driver writes and write results) is exactly the run of the system in which the other ports are ABSENT
and the actions addressed to them are dropped. -/
theorem noninterference_absent_partial (H : PortId → Bool) (P : Params) (E : Env)
    (hs : Safe E H) (hcl : Closed E H) (hfr : Frame E H) (σ : List Action) (s : State) :
    proj H (run P E s σ) = run P E (proj H s) (σ.filter (keep H)) :=
  run_proj H P E hs hcl hfr σ s

/-- **Non-interference.**  Two runs of the same schedule from the same state whose environments differ only in the
faulty ports' outcomes (read / heart beat / write outcomes at any call index, handler behaviour on their events,
their expressions) are indistinguishable on `H`. -/
theorem noninterference_partial (H : PortId → Bool) (P : Params) (E1 E2 : Env) (hag : AgreeOn H E1 E2)
    (hs1 : Safe E1 H) (hs2 : Safe E2 H) (hcl : Closed E1 H) (hfr : Frame E1 H) (σ : List Action) (s : State) :
    proj H (run P E1 s σ) = proj H (run P E2 s σ) := by
  rw [run_proj H P E1 hs1 hcl hfr, run_proj H P E2 hs2 (closed_of_agree H E1 E2 hag hcl) (frame_of_agree H E1 E2 hag hfr)]
  exact run_congr H P E1 E2 hag _ _ (proj_allIn H s)

/-- The observable part spelled out: same ordered trace on `H` (events, reads, writes, write results) and same
(id, last value) table of the `H` ports. -/
theorem noninterference_values_events_partial (H : PortId → Bool) (P : Params) (E1 E2 : Env) (hag : AgreeOn H E1 E2)
    (hs1 : Safe E1 H) (hs2 : Safe E2 H) (hcl : Closed E1 H) (hfr : Frame E1 H) (σ : List Action) (s : State) :
    (run P E1 s σ).trace.filter (fun o => H o.port) = (run P E2 s σ).trace.filter (fun o => H o.port) ∧
    ((run P E1 s σ).ports.filter (fun q => H q.id)).map (fun q => (q.id, q.last))
      = ((run P E2 s σ).ports.filter (fun q => H q.id)).map (fun q => (q.id, q.last)) := by
  have h := noninterference_partial H P E1 E2 hag hs1 hs2 hcl hfr σ s
  refine ⟨congrArg State.trace h, ?_⟩
  have hp := congrArg (fun s => s.ports.map (fun q => (q.id, q.last))) h
  simpa [proj, rport, Function.comp_def] using hp

/-! ### The full statement under the stability hypothesis

`Stable E H`: every read of a healthy port succeeds and returns its driver's register (so between two world changes —
`setSrc`, a driver write — every pass reads the same value), its heart beats and the handlers on its events raise
errors at most.  `abs` is the effect view of a state (ports without their polling counters: values, registers,
queues, write counters; the ordered trace of events, driver writes and write results; the forced-evaluation flag).
`shape σ` forgets kind and time of the passes and drops every pass that comes after another pass with only
evaluations / submissions in between (`squash`): two schedules of the same shape make the same world changes,
submissions, evaluations and driver writes in the same order and poll at least once between the same ones of them. -/

/-- **Key lemma: an extra pass over a stable, settled world is the identity on the effect view** — no event, no value
change, no driver write, no evaluation request — whatever its kind and time. -/
theorem extra_pass_over_stable_world_is_identity (H : PortId → Bool) (P : Params) (E : Env) (hst : Stable E H)
    (k : PassKind) (now : Nat) (s : State) (hinv : InvH H s) (hs : SettledA (abs s)) :
    abs (pass P E k now s) = abs s :=
  abs_pass_settled H P E hst k now s hinv hs

/-- … and every pass leaves such a world settled, so only the FIRST pass after a world change matters. -/
theorem pass_settles_stable_world (H : PortId → Bool) (P : Params) (E : Env) (hst : Stable E H) (k : PassKind)
    (now : Nat) (s : State) (hinv : InvH H s) : SettledA (abs (pass P E k now s)) := by
  rw [(abs_pass H P E hst k now s hinv).1]; exact (apass_settles P E (abs s)).1

/-- **Non-interference, full statement, under stability.**  Faulty ports raising errors at any time, healthy set
closed under dependencies, healthy drivers stable: the run WITH the faulty ports on any schedule `σ` and the run
WITHOUT them on any schedule `σ'` of the same shape — the passes that the faulty ports' writes and faults add, remove,
delay or turn from a tick into a confirming pass are all covered, pass times are free — end in the same effect view
on the healthy ports: same values, registers, pending evaluations and writes, same ordered sequence of value-change
events, driver writes and write results.  (Being for all `σ`, `σ'`, it holds at every pair of prefixes of equal shape,
in particular at every world-change boundary.)  `extra_pass_observable` shows that the stability hypothesis cannot
be dropped. -/
theorem noninterference_full_under_stability (H : PortId → Bool) (P : Params) (E : Env)
    (hs : Safe E H) (hcl : Closed E H) (hfr : Frame E H) (hst : Stable E H) (σ σ' : List Action) (s : State)
    (herr : ∀ e ∈ s.errs, H e.1 = false) (hal : s.loopAlive = true)
    (hsh : shape (σ.filter (keep H)) = shape σ') :
    abs (proj H (run P E s σ)) = abs (run P E (proj H s) σ') := by
  have hinv := proj_invH H s herr hal
  rw [run_proj H P E hs hcl hfr, abs_run H P E hst _ _ hinv, abs_run H P E hst _ _ hinv]
  exact arun_shape P E _ (abs_effonly _) _ _ hsh

/-- The same, spelled out: equal (id, value, register) tables of the healthy ports and equal ordered sequences of
their value-change events, driver writes and write results (hence equal event sequences per healthy port). -/
theorem noninterference_full_values_events (H : PortId → Bool) (P : Params) (E : Env)
    (hs : Safe E H) (hcl : Closed E H) (hfr : Frame E H) (hst : Stable E H) (σ σ' : List Action) (s : State)
    (herr : ∀ e ∈ s.errs, H e.1 = false) (hal : s.loopAlive = true)
    (hsh : shape (σ.filter (keep H)) = shape σ') :
    ((run P E s σ).ports.filter (fun q => H q.id)).map (fun q => (q.id, q.last, q.reg))
      = (run P E (proj H s) σ').ports.map (fun q => (q.id, q.last, q.reg)) ∧
    (run P E s σ).trace.filter (fun o => o.isEffect && H o.port)
      = (run P E (proj H s) σ').trace.filter (fun o => o.isEffect) := by
  have h := noninterference_full_under_stability H P E hs hcl hfr hst σ σ' s herr hal hsh
  constructor
  · have hp := congrArg (fun A => A.ports.map (fun q => (q.id, q.last, q.reg))) h
    simpa [abs, proj, strip, rport, Function.comp_def] using hp
  · have ho := congrArg AState.out h
    simpa [abs, proj, List.filter_filter] using ho

/-- **A failing port keeps its last good value**: a port whose driver fails (SkipRead, Exception, or worse) on
every read keeps its last read value through every schedule, whatever the other ports do. -/
theorem failing_keeps_last_good (P : Params) (E : Env) (i : Nat) (x : PortId) (v : Val)
    (hf : ∀ n, (E.rd x n).failing = true) (σ : List Action) (s : State)
    (h : ∃ q, s.ports[i]? = some q ∧ q.id = x ∧ q.last = v) :
    ∃ q, (run P E s σ).ports[i]? = some q ∧ q.id = x ∧ q.last = v :=
  run_keeps_last P E i x v hf σ s h

/-- One read: a failing read (or no read at all) leaves the last value alone, in any accumulator state. -/
theorem failing_read_keeps_value (P : Params) (E : Env) (now : Nat) (sec : Bool) (a : Acc) (p : Port)
    (hf : (E.rd p.id p.nrd).failing = true) : (pollPort P E now sec a p).2.last = p.last :=
  pollPort_keeps P E now sec a p hf

/-- **Not retried before the interval**: once port `x` is in the error set with time `t`, through every schedule
whose passes all happen at `now` with `now - t ≤ retry` the entry stays and the port is not read (read counter and
value unchanged). -/
theorem not_retried_before_interval (P : Params) (E : Env) (i : Nat) (x t n : Nat) (v : Val) (σ : List Action)
    (s : State) (hσ : ∀ k now, Action.pass k now ∈ σ → now - t ≤ P.retry)
    (he : s.errs.find? (fun e => e.1 == x) = some (x, t))
    (hq : ∃ q, s.ports[i]? = some q ∧ q.id = x ∧ q.nrd = n ∧ q.last = v) :
    (run P E s σ).errs.find? (fun e => e.1 == x) = some (x, t) ∧
    ∃ q, (run P E s σ).ports[i]? = some q ∧ q.id = x ∧ q.nrd = n ∧ q.last = v :=
  run_not_read P E i x t n v σ s hσ he hq

/-- **Retried after the interval**: the first pass with `now - t > retry` reads the port again (exactly one more
`read_value` call) and adopts what it returns (`recovers`). -/
theorem retried_after_interval (P : Params) (E : Env) (hne : NoEscape E) (k : PassKind) (now : Nat) (s : State)
    (i : Nat) (q : Port) (t : Nat) (hq : s.ports[i]? = some q) (hen : q.enabled = true)
    (hu : ∀ p ∈ s.ports.take i, p.id ≠ q.id) (hk : (k == .loop && !s.loopAlive) = false)
    (he : s.errs.find? (fun e => e.1 == q.id) = some (q.id, t)) (hexp : now - t > P.retry) :
    ∃ q', (pass P E k now s).ports[i]? = some q' ∧ q'.id = q.id ∧ q'.nrd = q.nrd + 1 ∧
      q'.last = (E.rd q.id q.nrd).adopted q.reg q.last :=
  pass_reads P E hne k now s i q hq hen hu hk
    ((errContains_false_iff P.retry now s.errs q.id).mpr (Or.inr ⟨(q.id, t), he, hexp⟩))

/-- **Recovers**: when the port is read (not in the error set, or its entry expired) and the driver works again,
the value it returns — the register for `ok` — is adopted in that very pass. -/
theorem recovers (P : Params) (E : Env) (hne : NoEscape E) (k : PassKind) (now : Nat) (s : State)
    (i : Nat) (q : Port) (hq : s.ports[i]? = some q) (hen : q.enabled = true)
    (hu : ∀ p ∈ s.ports.take i, p.id ≠ q.id) (hk : (k == .loop && !s.loopAlive) = false)
    (hc : (errContains P.retry now s.errs q.id).1 = false) (hok : E.rd q.id q.nrd = .ok) :
    ∃ q', (pass P E k now s).ports[i]? = some q' ∧ q'.id = q.id ∧ q'.last = q.reg := by
  obtain ⟨q', e, e1, _, e3⟩ := pass_reads P E hne k now s i q hq hen hu hk hc
  exact ⟨q', e, e1, by rw [e3, hok]; rfl⟩

/-- **The update loop survives**: with drivers and handlers that raise errors only, no schedule ever stops the
polling loop … -/
theorem update_loop_survives (P : Params) (E : Env) (hne : NoEscape E) (hneh : NoEscapeH E) (σ : List Action)
    (s : State) (h : s.loopAlive = true) : (run P E s σ).loopAlive = true := by
  rw [run_alive P E hne hneh]; exact h

/-- … and after any schedule the next tick still is a full pass: it reads every enabled port that is not in the error
set — a failed pass does not stop later passes. -/
theorem every_tick_polls (P : Params) (E : Env) (hne : NoEscape E) (hneh : NoEscapeH E) (σ : List Action) (s : State)
    (h : s.loopAlive = true) (now : Nat) (i : Nat) (q : Port)
    (hq : (run P E s σ).ports[i]? = some q) (hen : q.enabled = true)
    (hu : ∀ p ∈ (run P E s σ).ports.take i, p.id ≠ q.id)
    (hc : (errContains P.retry now (run P E s σ).errs q.id).1 = false) :
    ∃ q', (pass P E .loop now (run P E s σ)).ports[i]? = some q' ∧ q'.id = q.id ∧ q'.nrd = q.nrd + 1 :=  by
  have hal := update_loop_survives P E hne hneh σ s h
  obtain ⟨q', e, e1, e2, _⟩ := pass_reads P E hne .loop now (run P E s σ) i q hq hen hu (by simp [hal]) hc
  exact ⟨q', e, e1, e2⟩

/-! ## Non-vacuity: a concrete hub with two faulty and two healthy ports -/

/-- ports 1 (source) and 2 (`$1 + 1`) are healthy; 0 (source) and 3 (expression over 1 and 0) are faulty -/
def exH : PortId → Bool := fun p => p == 1 || p == 2

def exE : Env where
  rd p n := if p == 0 then (if n % 3 == 0 then .raise else if n % 3 == 1 then .skip else .val (some 99))
            else if p == 3 then .raise else .ok
  hb p _ := if p == 0 then .raise else .ok
  wr p _ := if p == 3 then .raise else .ok
  hd _ p _ _ _ := if p == 0 then .raise else .ok
  deps p := if p == 2 then some [1] else if p == 3 then some [1, 0] else none
  evalE p sn :=
    if p == 2 then (match sn.lookup 1 with
      | some (some v) => .val (some (v + 1))
      | some none => .val none
      | none => .err)
    else if p == 3 then .val (some 7) else .err

/-- the same hub with the faulty ports never failing (run C of the harness) -/
def exE' : Env := { exE with rd := fun _ _ => .ok, hb := fun _ _ => .ok, wr := fun _ _ => .ok,
                             hd := fun _ _ _ _ _ => .ok }

def exP : Params := { retry := 10, ups := 1, nh := 1 }
def exS : State := State.init [mkPort 0 true none (some 5), mkPort 1 true none (some 1), mkPort 2 true none none,
                               mkPort 3 true none none]
def exσ : List Action :=
  [.pass .loop 100, .eval 2, .eval 3, .write 3, .pass .other 100, .write 2, .pass .other 100,
   .setSrc 1 (some 4), .pass .loop 101, .eval 2, .write 2, .pass .other 101, .apiWrite 1 (some 8) 0, .write 1,
   .pass .other 101, .eval 2, .write 2, .pass .loop 111, .pass .loop 112]

example : Safe exE exH := by
  intro p _
  refine ⟨fun n => (by simp only [exE]; (repeat' split) <;> simp), fun n => ?_, fun j now o n => ?_⟩
  · simp only [exE]; split <;> simp
  · simp only [exE]; split <;> simp

example : Closed exE exH := by
  intro p ds hp hd d hdm
  simp only [exH, Bool.or_eq_true, beq_iff_eq] at hp
  rcases hp with rfl | rfl
  · simp [exE] at hd
  · simp only [exE] at hd
    simp at hd
    subst hd
    simp at hdm; subst hdm; rfl

example : Frame exE exH := by
  intro p hp sn
  simp only [exH, Bool.or_eq_true, beq_iff_eq] at hp
  rcases hp with rfl | rfl
  · rfl
  · have hl : (sn.filter (fun e => exH e.1)).lookup 1 = sn.lookup 1 := lookup_filter_H exH 1 rfl sn
    simp only [exE]
    simp only [show ((2 : Nat) == 2) = true from rfl, if_true, hl]

example : AgreeOn exH exE exE' := by
  intro p hp
  simp only [exH, Bool.or_eq_true, beq_iff_eq] at hp
  rcases hp with rfl | rfl <;> refine ⟨?_, ?_, ?_, ?_, rfl, rfl⟩ <;> (try intro j) <;> funext _ <;> (try funext _) <;>
    (try funext _) <;> (try funext _) <;> simp [exE, exE']

/-- the concrete run really contains faults of every kind on the faulty ports … -/
example : (Obs.read 0 .raise ∈ (run exP exE exS exσ).trace ∧ Obs.read 0 .skip ∈ (run exP exE exS exσ).trace ∧
           Obs.hbeat 0 .raise ∈ (run exP exE exS exσ).trace ∧ Obs.write 3 (some 7) .raise ∈ (run exP exE exS exσ).trace ∧
           Obs.wres 3 .expr false ∈ (run exP exE exS exσ).trace) := by decide

/-- … and a non-trivial healthy projection: port 2 follows `$1 + 1` through 2, 5, 9; the API write is answered. -/
example : ((run exP exE exS exσ).trace.filter (fun o => exH o.port && !(o matches .read ..) && !(o matches .hbeat ..))).reverse
    = [.event 0 1 none (some 1), .write 2 (some 2) .ok, .wres 2 .expr true,
       .event 0 2 none (some 2), .event 0 1 (some 1) (some 4), .write 2 (some 5) .ok, .wres 2 .expr true,
       .event 0 2 (some 2) (some 5), .write 1 (some 8) .ok, .wres 1 (.api 0) true, .event 0 1 (some 4) (some 8),
       .write 2 (some 9) .ok, .wres 2 .expr true, .event 0 2 (some 5) (some 9)] := by decide

/-- the faulty source port 0: first read raises at t=100, it is skipped until t=111 (> 100+10), where the retry
is a SkipRead; the third read (t=112) returns 99, adopted -/
example : ((run exP exE exS exσ).ports[0]?).map (fun q => (q.nrd, q.last)) = some (3, some 99) := by decide

/-! ## Why `Safe` is needed: an exception that escapes `except Exception` does interfere -/

/-- Same hub, but port 0's read raises something the per-port handler does not catch: the rest of the pass is
aborted, the healthy port 1 behind it is not even read. -/
def escE : Env := { exE with rd := fun p _ => if p == 0 then .escape else .ok }

theorem escape_interferes :
    proj exH (run exP escE exS [.pass .other 100]) ≠ proj exH (run exP exE' exS [.pass .other 100]) := by decide

/-- Faulty port BEHIND the healthy ones (port 3): the healthy ports were read and their new values stored, but the
escaping exception skips `handle_value_changes` — their value-change events are lost and port 2 is never
re-evaluated. -/
def escE3 : Env := { exE' with rd := fun p _ => if p == 3 then .escape else .ok }

theorem escape_loses_events :
    ((run exP escE3 exS [.pass .other 100]).ports.map (fun q => q.last) = [some 5, some 1, none, none]) ∧
    (run exP escE3 exS [.pass .other 100]).trace.filter (fun o => o matches .event ..) = [] ∧
    (run exP exE' exS [.pass .other 100]).trace.filter (fun o => o matches .event ..) ≠ [] := by decide

/-- … and in the polling loop it ends the loop: later ticks do nothing. -/
theorem escape_kills_loop :
    (run exP escE exS [.pass .loop 100]).loopAlive = false ∧
    run exP escE exS [.pass .loop 100, .pass .loop 101, .pass .loop 102] = run exP escE exS [.pass .loop 100] := by
  decide

/-- instances of the hypotheses of `not_retried_before_interval` / `retried_after_interval` / `recovers` -/
example : let s := run exP exE exS [.pass .loop 100]
    s.errs.find? (fun e => e.1 == 0) = some (0, 100) ∧
    (∃ q, s.ports[0]? = some q ∧ q.id = 0 ∧ q.nrd = 1 ∧ q.last = none) ∧ (110 - 100 ≤ exP.retry) ∧ (111 - 100 > exP.retry) := by
  decide

example : NoEscape exE ∧ NoEscapeH exE := by
  refine ⟨fun p n => ⟨?_, ?_⟩, fun j p now o n => ?_⟩
  · simp only [exE]; repeat' split
    all_goals simp
  · simp only [exE]; split <;> simp
  · simp only [exE]; split <;> simp

/-! ## Why the schedule of passes is fixed in the theorems (timing residue) -/

/-- An additional polling pass IS observable when the world changes between it and the next regular one: the
intermediate value 5 of port 1 is seen (two events) or not (one event).  No faulty port is even needed — every write
on any port makes the hub poll all ports once more.  So `noninterferenceFull` does not hold without a stability
assumption on the healthy ports' drivers (the harness uses drivers whose values change at tick boundaries only). -/
theorem extra_pass_observable : ¬ noninterferenceFull := by
  intro h
  have := h (fun _ => true) exP exE'
    [.setSrc 1 (some 5), .pass .other 100, .setSrc 1 (some 6), .pass .loop 101]
    [.setSrc 1 (some 5), .setSrc 1 (some 6), .pass .loop 101] exS
    (fun p hp => by cases hp) (fun _ _ _ _ _ _ => rfl) (fun p _ sn => by
      have : sn.filter (fun e => (fun _ => true) e.1) = sn := List.filter_eq_self.mpr (fun _ _ => rfl)
      rw [this])
    (.keep _ (.drop 100 (.keep _ (.keep _ .nil))))
  revert this
  decide

/-! ## The error set is keyed by port identity

Port 0's read raises at t=100 (back-off until t>110); at t=101 it is removed and a new port is created under the same
id — a new identity, here 4, declared last and not existing before.  The next pass (t=102, well inside the old
back-off window, the entry `(0, 100)` is still there) reads the new port at once and adopts its value. -/
example :
    let s0 : State := State.init [mkPort 0 true none (some 5), mkPort 1 true none (some 1), mkPort 2 true none none,
                                  mkPort 3 true none none, mkPort 4 false none (some 42)]
    let s := run exP exE s0 [.pass .loop 100, .remove 0, .create 4, .forceEval, .pass .loop 102]
    s.errs.find? (fun e => e.1 == 0) = some (0, 100) ∧
    (s.ports[4]?).map (fun q => (q.nrd, q.last)) = some (1, some 42) ∧
    (s.ports[0]?).map (fun q => (q.enabled, q.nrd)) = some (false, 1) := by decide

/-! ## Instance of `noninterference_full_under_stability` -/

example : Stable exE exH := by
  intro p hp
  simp only [exH, Bool.or_eq_true, beq_iff_eq] at hp
  rcases hp with rfl | rfl <;> refine ⟨fun n => rfl, fun n => ?_, fun j now o n => ?_⟩ <;> simp [exE]

/-- the schedule of the hub without the faulty ports: no actions on ports 0 and 3, no confirming pass after the faulty
port 3's failed write, and the polling happens at other times -/
def exσ' : List Action :=
  [.pass .loop 200, .eval 2, .write 2, .pass .other 200, .setSrc 1 (some 4), .pass .loop 207, .pass .other 207, .eval 2,
   .write 2, .pass .other 207, .apiWrite 1 (some 8) 0, .write 1, .pass .other 209, .eval 2, .write 2, .pass .loop 230]

example : shape (exσ.filter (keep exH)) = shape exσ' := by decide

example : (∀ e ∈ exS.errs, exH e.1 = false) ∧ exS.loopAlive = true := by decide

/-- the conclusion on this instance, computed -/
example : abs (proj exH (run exP exE exS exσ)) = abs (run exP exE (proj exH exS) exσ') := by decide +kernel

end QtVerif.C15
