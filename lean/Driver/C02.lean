import QtVerif.Model.Proto
import QtVerif.Model.Eval
/-!
Line-protocol driver for the expression evaluator model (C02), carrier = binary64.

Request (one line, blank-separated words):
  `eval|evalu <role> <tr1,tr2,…> <nowMs> <selfId> <nreg> {<id> <0|1> <val|->}* <nvals> {<id> <val>}* <nlits> {<hex text> <u|o|f…>}* <expr>`
  values:  `b0` `b1` `i<decimal>` `f<16 hex digits>`;  `-` = None
  expr (prefix):  `L <hex text>` | `P <id>` | `S` | `R <id>` | `T` | `C <NAME> <n> <expr>*n`
Reply: `ok v <val>` | `ok port <id>` | `ok unavailable` | `ok error <kind>` | `ok crash <kind>` | `ok complex` | `ok outside`
(`evalu` appends the event-loop duration) | `bad-op`.
-/
open QtVerif QtVerif.Proto QtVerif.Syntax QtVerif.Num QtVerif.Eval

def hexDigit (c : Char) : Option Nat :=
  if '0' ≤ c ∧ c ≤ '9' then some (c.toNat - '0'.toNat)
  else if 'a' ≤ c ∧ c ≤ 'f' then some (c.toNat - 'a'.toNat + 10)
  else none

def hexNat (s : String) : Option Nat :=
  if s.isEmpty then none else
  s.toList.foldl (fun acc c => match acc, hexDigit c with | some a, some d => some (a * 16 + d) | _, _ => none) (some 0)

def hexBytes : List Char → Option (List UInt8)
  | [] => some []
  | a :: b :: rest =>
    match hexDigit a, hexDigit b, hexBytes rest with
    | some x, some y, some l => some (UInt8.ofNat (x * 16 + y) :: l)
    | _, _, _ => none
  | _ => none

def hexText (s : String) : Option String :=
  match hexBytes s.toList with
  | some l => String.fromUTF8? (ByteArray.mk l.toArray)
  | none => none

def parseVal (w : String) : Option (Val Float) :=
  match w.toList with
  | ['b', '0'] => some (.b false)
  | ['b', '1'] => some (.b true)
  | 'i' :: rest => (String.ofList rest).toInt?.map .i
  | 'f' :: rest =>
    if rest.length = 16 then (hexNat (String.ofList rest)).map (fun n => .f (Float.ofBits (UInt64.ofNat n))) else none
  | _ => none

def parseOptVal (w : String) : Option (Option (Val Float)) :=
  if w = "-" then some none else (parseVal w).map some

def parseLit (w : String) : Option (LitDen Float) :=
  match w.toList with
  | ['u'] => some .unavailable
  | ['o'] => some .overflow
  | 'f' :: rest =>
    if rest.length = 16 then (hexNat (String.ofList rest)).map (fun n => .num (Float.ofBits (UInt64.ofNat n))) else none
  | _ => none

/-- take `n` groups from the word list with `f`, which consumes words and returns the rest -/
def takeN {β : Type} (f : List String → Option (β × List String)) : Nat → List String → Option (List β × List String)
  | 0, ws => some ([], ws)
  | n + 1, ws =>
    match f ws with
    | none => none
    | some (x, ws') =>
      match takeN f n ws' with
      | none => none
      | some (xs, ws'') => some (x :: xs, ws'')

def regEntry : List String → Option ((String × PortEntry Float) × List String)
  | id :: en :: lr :: rest =>
    match (if en = "1" then some true else if en = "0" then some false else none), parseOptVal lr with
    | some e, some l => some ((id, ⟨e, l⟩), rest)
    | _, _ => none
  | _ => none

def valEntry : List String → Option ((String × Val Float) × List String)
  | id :: v :: rest => (parseVal v).map (fun x => ((id, x), rest))
  | _ => none

def litEntry : List String → Option ((String × LitDen Float) × List String)
  | h :: d :: rest =>
    match hexText h, parseLit d with
    | some t, some x => some ((t, x), rest)
    | _, _ => none
  | _ => none

partial def parseExpr : List String → Option (Expr × List String)
  | "L" :: h :: rest => (hexText h).map (fun t => (.lit t, rest))
  | "P" :: id :: rest => some (.portVal id, rest)
  | "S" :: rest => some (.selfVal, rest)
  | "R" :: id :: rest => some (.portRef id, rest)
  | "T" :: rest => some (.selfRef, rest)
  | "C" :: name :: n :: rest =>
    match n.toNat? with
    | none => none
    | some k =>
      let rec go : Nat → List String → List Expr → Option (List Expr × List String)
        | 0, ws, acc => some (acc.reverse, ws)
        | j + 1, ws, acc =>
          match parseExpr ws with
          | none => none
          | some (e, ws') => go j ws' (e :: acc)
      (go k rest []).map (fun (as, ws) => (.call name as, ws))
  | _ => none

def fmtVal : Val Float → String
  | .b v => if v then "b1" else "b0"
  | .i n => "i" ++ toString n
  | .f x =>
    let h := (Nat.toDigits 16 x.toBits.toNat)
    "f" ++ String.ofList (List.replicate (16 - h.length) '0' ++ h)

def fmtCrash : Crash → String
  | .zeroDiv => "ZeroDivisionError"
  | .valueErr => "ValueError"
  | .overflow => "OverflowError"
  | .typeErr => "TypeError"

def fmtErr : EvalErr → String
  | .unknownPort => "UnknownPortId"
  | .disabledPort => "DisabledPort"
  | .arithmetic => "ExpressionArithmeticError"

def fmtRes : Res Float → String
  | .val v => "ok v " ++ fmtVal v
  | .portObj id => "ok port " ++ id
  | .unavailable => "ok unavailable"
  | .error k => "ok error " ++ fmtErr k
  | .crash k => "ok crash " ++ fmtCrash k
  | .complexVal => "ok complex"
  | .outside => "ok outside"

def lookup {β : Type} (l : List (String × β)) (k : String) : Option β :=
  match l.find? (fun p => p.1 == k) with
  | some p => some p.2
  | none => none

def handle (unrepaired : Bool) : List String → String
  | role :: trs :: now :: self :: nreg :: rest =>
    match role.toNat?, (trs.splitOn ",").mapM String.toNat?, now.toInt?, nreg.toNat? with
    | some role, some trs, some now, some nreg =>
      match takeN regEntry nreg rest with
      | none => "bad-op"
      | some (reg, nv :: rest) =>
        match nv.toNat? with
        | none => "bad-op"
        | some nv =>
          match takeN valEntry nv rest with
          | none => "bad-op"
          | some (vals, nl :: rest) =>
            match nl.toNat? with
            | none => "bad-op"
            | some nl =>
              match takeN litEntry nl rest with
              | none => "bad-op"
              | some (lits, rest) =>
                match parseExpr rest with
                | some (e, []) =>
                  let c : Ctx Float := {
                    reg := lookup reg, vals := lookup vals, nowMs := now, selfId := self, role := role,
                    transformRoles := trs,
                    lit := fun t => match lookup lits t with | some d => d | none => .invalid }
                  if unrepaired then
                    let (r, d) := evalU e c
                    fmtRes r ++ " " ++ toString d
                  else fmtRes (eval e c)
                | _ => "bad-op"
          | some (_, []) => "bad-op"
      | some (_, []) => "bad-op"
    | _, _, _, _ => "bad-op"
  | _ => "bad-op"

def dstep (s : Unit) : List String → Unit × String
  | "eval" :: rest => (s, handle false rest)
  | "evalu" :: rest => (s, handle true rest)
  | _ => (s, "bad-op")

def main : IO Unit := run dstep ()
