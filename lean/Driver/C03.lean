import QtVerif.Model.Proto
import QtVerif.Model.Parse
/-! Line-protocol driver for the parser model (C03).

Texts cross the wire as decimal code points joined by `,` (`-` = empty text).
  reset
  digits <lo-hi,lo-hi,…|->                                          non-ASCII decimal digit ranges (str.isdecimal)
  fn <slot> <name> <canon> <0|1> <min|-> <max|-> <kinds|-> <deps|->  one FUNCTIONS entry into registry `slot`
        kinds: 6-character bit strings (lit portVal selfVal portRef selfRef call) joined by `,`; deps: texts joined by `;`
  parse <slot> <selfId> <text>  → ok <print> <deps> <tree tokens…> | err <kind> <pos> <tok> <num>
  lit <text>                    → ok <keyword><int><float>          (0/1 each, on the text as given)
  spaces                        → ok <code points with isSpace, joined by ,>
-/
open QtVerif QtVerif.Syntax QtVerif.Parse QtVerif.Proto

structure DState where
  digits : List (Nat × Nat) := []
  regs : List (Nat × Registry) := []

def validCp (n : Nat) : Bool := n < 0xD800 || (0xE000 ≤ n && n ≤ 0x10FFFF)

def decText (w : String) : Option (List Char) :=
  if w == "-" then some []
  else (w.splitOn ",").mapM (fun x => match x.toNat? with
    | some n => if validCp n then some (Char.ofNat n) else none
    | none => none)

def encText (s : List Char) : String :=
  if s.isEmpty then "-" else ",".intercalate (s.map (fun c => toString c.toNat))

def decOptNat (w : String) : Option (Option Nat) :=
  if w == "-" then some none else w.toNat?.map some

def decBit (c : Char) : Option Bool :=
  if c == '1' then some true else if c == '0' then some false else none

def decKind (w : String) : Option KindSet :=
  match w.toList.mapM decBit with
  | some [a, b, c, d, e, f] => some ⟨a, b, c, d, e, f⟩
  | _ => none

def decKinds (w : String) : Option (List KindSet) :=
  if w == "-" then some [] else (w.splitOn ",").mapM decKind

def decDeps (w : String) : Option (List String) :=
  if w == "-" then some [] else (w.splitOn ";").mapM (fun x => (decText x).map String.ofList)

def decRange (w : String) : Option (Nat × Nat) :=
  match w.splitOn "-" with
  | [a, b] => match a.toNat?, b.toNat? with
    | some a, some b => some (a, b)
    | _, _ => none
  | _ => none

def regOf (d : DState) (slot : Nat) : Registry :=
  match d.regs.find? (fun p => p.1 == slot) with
  | some p => p.2
  | none => []

def addFn (d : DState) (slot : Nat) (f : FnSpec) : DState :=
  if d.regs.any (fun p => p.1 == slot) then
    { d with regs := d.regs.map (fun p => if p.1 == slot then (p.1, p.2 ++ [f]) else p) }
  else { d with regs := d.regs ++ [(slot, [f])] }

mutual
def treeTokens : Expr → List String
  | .lit t => ["L" ++ encText t.toList]
  | .portVal id => ["V" ++ encText id.toList]
  | .selfVal => ["SV"]
  | .portRef id => ["R" ++ encText id.toList]
  | .selfRef => ["SR"]
  | .call n args => ("C" ++ toString args.length ++ ":" ++ encText n.toList) :: treeTokensArgs args
def treeTokensArgs : List Expr → List String
  | [] => []
  | a :: rest => treeTokens a ++ treeTokensArgs rest
end

def kindName : ErrKind → String
  | .empty => "empty"
  | .unbalanced => "unbalanced"
  | .unexpectedEnd => "unexpected-end"
  | .unexpectedChar => "unexpected-char"
  | .unknownFunction => "unknown-function"
  | .invalidArgNum => "invalid-arg-num"
  | .invalidArgKind => "invalid-arg-kind"
  | .crash => "crash"
  | .fuel => "fuel"

def bit (b : Bool) : String := if b then "1" else "0"

def allSpaces : String :=
  let cps := (List.range 0x110000).filter (fun n => validCp n && isSpace (Char.ofNat n))
  ",".intercalate (cps.map toString)

def dstep (d : DState) : List String → DState × String
  | ["reset"] => ({}, "ok")
  | ["digits", w] =>
    if w == "-" then ({ d with digits := [] }, "ok")
    else match (w.splitOn ",").mapM decRange with
      | some rs => ({ d with digits := rs }, "ok")
      | none => (d, "bad-op")
  | ["fn", slot, name, canon, en, mn, mx, kinds, deps] =>
    match slot.toNat?, decText name, decText canon, decOptNat mn, decOptNat mx, decKinds kinds, decDeps deps with
    | some slot, some name, some canon, some mn, some mx, some kinds, some deps =>
      if en == "1" || en == "0" then
        (addFn d slot ⟨name, canon, en == "1", mn, mx, kinds, deps⟩, "ok")
      else (d, "bad-op")
    | _, _, _, _, _, _, _ => (d, "bad-op")
  | ["parse", slot, selfId, text] =>
    match slot.toNat?, decText selfId, decText text with
    | some slot, some selfId, some text =>
      let env : Env := { reg := regOf d slot, digits := d.digits }
      match parse env text with
      | .ok e =>
        let ds := deps env (String.ofList selfId) e
        let dsS := if ds.isEmpty then "-" else ";".intercalate (ds.map (fun x => encText x.toList))
        (d, "ok " ++ encText e.print.toList ++ " " ++ dsS ++ " " ++ " ".intercalate (treeTokens e))
      | .error e => (d, s!"err {kindName e.kind} {e.pos} {encText e.tok} {e.num}")
    | _, _, _ => (d, "bad-op")
  | ["lit", text] =>
    match decText text with
    | some text =>
      let env : Env := { reg := [], digits := d.digits }
      (d, "ok " ++ bit (isKeyword text) ++ bit (pyInt env text) ++ bit (pyFloat env text))
    | none => (d, "bad-op")
  | ["spaces"] => (d, "ok " ++ allSpaces)
  | _ => (d, "bad-op")

def main : IO Unit := run dstep {}
