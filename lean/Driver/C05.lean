import QtVerif.Model.Proto
import QtVerif.Model.ValueDomain
/-! Line-protocol driver for the value-domain model (C05).

```
begin <maxItems> <exactGrid> <choicesOverrideGrid> <integralFloats>          flags 0/1 ; resets everything
port <b|n> <min> <max> <step> <integer> <choices> <enabled> <writable> <hasTw> <hasExpression>
                                                        rationals n/d or - ; choices - | [] | c,c,… ; flags 0/1
value <known> <jval> <tout>
seq <known> <repeat jval> <n> (<jval> <tout>){n} <m> (<jval>){m}
enable | disable | advance <ms>
redefine <same fields as port>      the port is removed and created again under the same id; also sent (for a port with
                                    driver-computed attributes and no sequence installed) when what the driver declares
                                    comes into force at a polling pass: then only the definition changes
                                    (Props.C05.declared_attributes_in_force)
```
jval: null b0 b1 i<n/d> f<n/d> xnan xinf xninf s a o        choice: b0 b1 n<n/d>
tout: - (port has no write transform) | u (unavailable) | e (raises) | v<jval>
reply: `ok <values handed to the driver by this step, comma separated>` | `err <code>` | `bad-op`
-/
open QtVerif QtVerif.ValueDomain QtVerif.Proto

structure DState where
  cfg : Cfg := {}
  hasPort : Bool := false
  hasTw : Bool := false
  table : List (JVal × TOut) := []
  st : PState := { d := { type := .number } }

def ratOf (s : String) : Option Rat :=
  match s.splitOn "/" with
  | [n, d] =>
    match n.toInt?, d.toNat? with
    | some n, some d => if d = 0 then none else some (mkRat n d)
    | _, _ => none
  | _ => none

def optRatOf (s : String) : Option (Option Rat) :=
  if s == "-" then some none else (ratOf s).map some

def boolOf : String → Option Bool
  | "0" => some false
  | "1" => some true
  | _ => none

def tail1 (s : String) : String := String.ofList (s.toList.drop 1)

def jvalOf (s : String) : Option JVal :=
  match s with
  | "null" => some .null
  | "b0" => some (.bool false)
  | "b1" => some (.bool true)
  | "xnan" => some (.nonfin .nan)
  | "xinf" => some (.nonfin .posInf)
  | "xninf" => some (.nonfin .negInf)
  | "s" => some .str
  | "a" => some .arr
  | "o" => some .obj
  | _ =>
    match s.toList with
    | 'i' :: _ => (ratOf (tail1 s)).bind fun q => if q.isInt then some (.num q true) else none
    | 'f' :: _ => (ratOf (tail1 s)).map fun q => .num q false
    | _ => none

def choiceOf (s : String) : Option Choice :=
  match s with
  | "b0" => some (.cbool false)
  | "b1" => some (.cbool true)
  | _ =>
    match s.toList with
    | 'n' :: _ => (ratOf (tail1 s)).map .cnum
    | _ => none

def choicesOf (s : String) : Option (Option (List Choice)) :=
  if s == "-" then some none
  else if s == "[]" then some (some [])
  else ((s.splitOn ",").mapM choiceOf).map some

def toutOf (s : String) : Option (Option TOut) :=
  match s with
  | "-" => some none
  | "u" => some (some .unavailable)
  | "e" => some (some .error)
  | _ =>
    match s.toList with
    | 'v' :: _ => (jvalOf (tail1 s)).map fun r => some (.val r)
    | _ => none

def ratStr (q : Rat) : String := s!"{q.num}/{q.den}"

def jvalStr : JVal → String
  | .null => "null"
  | .bool b => if b then "b1" else "b0"
  | .num q true => "i" ++ ratStr q
  | .num q false => "f" ++ ratStr q
  | .nonfin .nan => "xnan"
  | .nonfin .posInf => "xinf"
  | .nonfin .negInf => "xninf"
  | .str => "s"
  | .arr => "a"
  | .obj => "o"

def codeStr : Code → String
  | .noSuchPort => "no-such-port"
  | .invalidValue => "invalid-value"
  | .invalidRequest => "invalid-request"
  | .invalidField => "invalid-field"
  | .portDisabled => "port-disabled"
  | .readOnlyPort => "read-only-port"
  | .portWithExpression => "port-with-expression"
  | .unexpected => "unexpected-error"

/-- Same JSON value (the look of a number token does not matter to an expression's value). -/
def sameB : JVal → JVal → Bool
  | .num q _, .num q' _ => q == q'
  | a, b => a == b

def lookupTw (table : List (JVal × TOut)) (v : JVal) : TOut :=
  match table.find? (fun e => sameB e.1 v) with
  | some e => e.2
  | none => .error

/-- Run one model step with the transform table current, report the values newly handed to the driver. -/
def exec (d : DState) (r : Req) : DState × String :=
  let tw : Option (JVal → TOut) := if d.hasTw then some (lookupTw d.table) else none
  let st0 : PState := { d.st with d := { d.st.d with tw := tw } }
  let (st1, resp) := step d.cfg st0 r
  let d' := { d with st := st1 }
  match resp with
  | .err c => (d', "err " ++ codeStr c)
  | .ok => (d', "ok " ++ ",".intercalate ((st1.calls.drop st0.calls.length).map jvalStr))

/-- pairs `<jval> <tout>` -/
def pairsOf : List String → Option (List (JVal × Option TOut))
  | [] => some []
  | v :: t :: rest =>
    match jvalOf v, toutOf t, pairsOf rest with
    | some v, some t, some ps => some ((v, t) :: ps)
    | _, _, _ => none
  | _ => none

/-- A transform outcome must be given exactly when the port has a write transform. -/
def register (d : DState) (ps : List (JVal × Option TOut)) : Option DState :=
  if ps.all (fun p => p.2.isSome == d.hasTw) then
    some { d with table := ps.filterMap (fun p => p.2.map fun t => (p.1, t)) ++ d.table }
  else none

def dstep (d : DState) : List String → DState × String
  | ["begin", mi, g, c, f] =>
    match mi.toNat?, boolOf g, boolOf c, boolOf f with
    | some mi, some g, some c, some f =>
      ({ cfg := { exactGrid := g, choicesOverrideGrid := c, integralFloats := f, maxItems := mi } }, "ok")
    | _, _, _, _ => (d, "bad-op")
  | ["port", ty, mn, mx, stp, ig, cs, en, wr, tw, ex] =>
    let ty? : Option PType := if ty == "b" then some .boolean else if ty == "n" then some .number else none
    match ty?, optRatOf mn, optRatOf mx, optRatOf stp, boolOf ig, choicesOf cs, boolOf en, boolOf wr, boolOf tw, boolOf ex with
    | some ty, some mn, some mx, some stp, some ig, some cs, some en, some wr, some tw, some ex =>
      ({ d with hasPort := true, hasTw := tw, table := [],
                st := { d := { type := ty, min := mn, max := mx, step := stp, integer := ig, choices := cs,
                               enabled := en, writable := wr, hasExpression := ex } } }, "ok")
    | _, _, _, _, _, _, _, _, _, _ => (d, "bad-op")
  | ["redefine", ty, mn, mx, stp, ig, cs, en, wr, tw, ex] =>
    -- same fields as `port`; keeps the clock and the driver's call log, forgets the transform table
    let ty? : Option PType := if ty == "b" then some .boolean else if ty == "n" then some .number else none
    match d.hasPort, ty?, optRatOf mn, optRatOf mx, optRatOf stp, boolOf ig, choicesOf cs, boolOf en, boolOf wr, boolOf tw, boolOf ex with
    | true, some ty, some mn, some mx, some stp, some ig, some cs, some en, some wr, some tw, some ex =>
      let (d', rep) := exec d (.redefine { type := ty, min := mn, max := mx, step := stp, integer := ig, choices := cs,
                                           enabled := en, writable := wr, hasExpression := ex })
      ({ d' with hasTw := tw, table := [] }, rep)
    | _, _, _, _, _, _, _, _, _, _, _ => (d, "bad-op")
  | ["value", k, v, t] =>
    match d.hasPort, boolOf k, pairsOf [v, t] with
    | true, some k, some [(v, t)] =>
      match register d [(v, t)] with
      | some d => exec d (.value k v)
      | none => (d, "bad-op")
    | _, _, _ => (d, "bad-op")
  | "seq" :: k :: rep :: n :: rest =>
    match d.hasPort, boolOf k, jvalOf rep, n.toNat? with
    | true, some k, some rep, some n =>
      match pairsOf (rest.take (2 * n)), rest.drop (2 * n) with
      | some ps, m :: ds =>
        match m.toNat?, ds.mapM jvalOf with
        | some m, some ds =>
          -- repeat ≤ 0 is "for ever" in the code: not modelled
          let endless := match rep with
            | .num q true => decide (q ≤ 0)
            | _ => false
          if ps.length != n || ds.length != m || endless then (d, "bad-op") else
          match register d ps with
          | some d => exec d (.sequence k (ps.map (·.1)) ds rep)
          | none => (d, "bad-op")
        | _, _ => (d, "bad-op")
      | _, _ => (d, "bad-op")
    | _, _, _, _ => (d, "bad-op")
  | ["enable"] => if d.hasPort then exec d .enable else (d, "bad-op")
  | ["disable"] => if d.hasPort then exec d .disable else (d, "bad-op")
  | ["advance", ms] =>
    match d.hasPort, ms.toNat? with
    | true, some ms => exec d (.advance ms)
    | _, _ => (d, "bad-op")
  | _ => (d, "bad-op")

def main : IO Unit := run dstep {}
