import QtVerif.Model.Proto
import QtVerif.Model.Store
/-!
Line-protocol driver for the persistence models (C06).

Values (prefix tokens, one word each):  N | T | F | I<int> | D<bits> | S<cp,cp,…> | Xd<cps> | Xt<cps> |
  A<n> v… | O<n> (S<key> v)…
Lines:
  begin <escape> <jsonUpdFilt> <redisSrem> <redisEmpty> <redisEmptyPart> <redisFreshId> <apiReplace> <mongoIdFull>    reset everything
  floats <bits>:<cps> …        register the text of floats (float.__repr__), cumulative until `begin`
  dates <0|1>:<cps>:<cps> …    register text ↦ zero-padded ISO text of the date it denotes (strptime)
  datefmt <0|1>:<cps>:<cps> …  register zero-padded ISO text ↦ strftime text
  <inst> ins <coll> <name|-> <record>        inst = R<k> (reference store) | J<k> (JSON driver) | K<k> (Redis driver) | P<k> (persist API over the JSON driver)
  <inst> upd <coll> <part> <filt>
  <inst> rep <coll> <id> <record>
  <inst> rem <coll> <filt>
  <inst> qry <coll> <fields|-> <filt> <sort> <limit|->
  R<k>  qryg <coll> <fields|-> <filt> <sort>       full sorted result with tie-group numbers
  <inst> reload
  enc <value> | dec <S text> | idx <S id>     (idx: MongoDriver._id_to_db / _id_from_db)
  mx <op as above without instance>          the engine call mongo.py builds (filter / projection / sort / limit / documents)
  mfrom (S<key> (J <value> | Y<bytes>))…       _query_gen_wrapper on one engine document
Replies: ok i <S> | ok n <k> | ok b T|F | ok r <n> <record>… | ok g <n> (<group> <record>)… | ok u | ok v <value> |
  err <enum> | bad-op
-/
open QtVerif QtVerif.Store QtVerif.Proto

structure DState where
  fx : Fix := {}
  floats : List (Nat × Str) := []
  dates : List (Bool × Str × Str) := []
  datefmts : List (Bool × Str × Str) := []
  refs : List (String × RefState) := []
  jsons : List (String × JState) := []
  redises : List (String × RState) := []

def mkFt (d : DState) : FloatText where
  fmt := fun b => match d.floats.find? (fun p => p.1 == b) with | some p => p.2 | none => [63]
  parse := fun s => (d.floats.find? (fun p => p.2 == s)).map (·.1)
  dateFmt := fun k s => match d.datefmts.find? (fun p => p.1 == k && p.2.1 == s) with | some p => p.2.2 | none => s
  dateNorm := fun k s => (d.dates.find? (fun p => p.1 == k && p.2.1 == s)).map (·.2.2)

def parseCps (s : String) : Option Str :=
  if s.isEmpty then some [] else (s.splitOn ",").mapM String.toNat?

def parseS (w : String) : Option Str :=
  if w.startsWith "S" then parseCps (w.drop 1).toString else none

/-- one value from the token list -/
partial def parseV : List String → Option (JVal × List String)
  | [] => none
  | w :: rest =>
    if w == "N" then some (.null, rest)
    else if w == "T" then some (.bool true, rest)
    else if w == "F" then some (.bool false, rest)
    else if w.startsWith "I" then (w.drop 1).toString.toInt?.map (fun i => (.int i, rest))
    else if w.startsWith "D" then (w.drop 1).toString.toNat?.map (fun b => (.num b, rest))
    else if w.startsWith "S" then (parseCps (w.drop 1).toString).map (fun s => (.str s, rest))
    else if w.startsWith "Xd" then (parseCps (w.drop 2).toString).map (fun s => (.date false s, rest))
    else if w.startsWith "Xt" then (parseCps (w.drop 2).toString).map (fun s => (.date true s, rest))
    else if w.startsWith "A" then
      match (w.drop 1).toString.toNat? with
      | none => none
      | some n =>
        let rec go (k : Nat) (acc : List JVal) (ts : List String) : Option (List JVal × List String) :=
          match k with
          | 0 => some (acc.reverse, ts)
          | k + 1 => match parseV ts with
            | none => none
            | some (v, ts') => go k (v :: acc) ts'
        (go n [] rest).map (fun (l, ts) => (.arr l, ts))
    else if w.startsWith "O" then
      match (w.drop 1).toString.toNat? with
      | none => none
      | some n =>
        let rec goO (k : Nat) (acc : List (Str × JVal)) (ts : List String) : Option (List (Str × JVal) × List String) :=
          match k with
          | 0 => some (acc.reverse, ts)
          | k + 1 => match ts with
            | [] => none
            | kw :: ts1 =>
              match parseS kw, parseV ts1 with
              | some key, some (v, ts') => goO k ((key, v) :: acc) ts'
              | _, _ => none
        (goO n [] rest).map (fun (l, ts) => (.obj l, ts))
    else none

def parseO (ts : List String) : Option (Fields × List String) :=
  match parseV ts with
  | some (.obj l, r) => some (l, r)
  | _ => none

def fmtCps (s : Str) : String := ",".intercalate (s.map toString)

partial def fmtV : JVal → String
  | .null => "N"
  | .bool true => "T"
  | .bool false => "F"
  | .int i => s!"I{i}"
  | .num b => s!"D{b}"
  | .str s => "S" ++ fmtCps s
  | .date false s => "Xd" ++ fmtCps s
  | .date true s => "Xt" ++ fmtCps s
  | .arr l => " ".intercalate (s!"A{l.length}" :: l.map fmtV)
  | .obj l => " ".intercalate (s!"O{l.length}" :: l.map (fun kv => "S" ++ fmtCps kv.1 ++ " " ++ fmtV kv.2))

def fmtErr : Err → String
  | .dup => "dup" | .notFresh => "not-fresh" | .badId => "bad-id" | .idInPart => "id-in-part"
  | .typeErr => "type" | .decode => "decode" | .backend => "backend"

def fmtRes : Res → String
  | .id s => "ok i S" ++ fmtCps s
  | .count n => s!"ok n {n}"
  | .flag b => "ok b " ++ (if b then "T" else "F")
  | .recs l => " ".intercalate (s!"ok r {l.length}" :: l.map (fun r => fmtV (.obj r)))
  | .unit => "ok u"
  | .err e => "err " ++ fmtErr e

def parseFields : List String → Option (Option (List Str) × List String)
  | "-" :: r => some (none, r)
  | w :: r =>
    if w.startsWith "L" then
      match (w.drop 1).toString.toNat? with
      | none => none
      | some n =>
        if r.length < n then none
        else ((r.take n).mapM parseS).map (fun l => (some l, r.drop n))
    else none
  | [] => none

def parseSort : List String → Option (List (Str × Bool) × List String)
  | w :: r =>
    if w.startsWith "L" then
      match (w.drop 1).toString.toNat? with
      | none => none
      | some n =>
        let rec go (k : Nat) (acc : List (Str × Bool)) (ts : List String) : Option (List (Str × Bool) × List String) :=
          match k, ts with
          | 0, ts => some (acc.reverse, ts)
          | k + 1, f :: d :: ts' =>
            match parseS f with
            | some f => if d == "0" then go k ((f, false) :: acc) ts' else if d == "1" then go k ((f, true) :: acc) ts' else none
            | none => none
          | _, _ => none
        go n [] r
    else none
  | [] => none

def parseLimit : List String → Option (Option Nat × List String)
  | "-" :: r => some (none, r)
  | w :: r => w.toNat?.map (fun n => (some n, r))
  | [] => none

/-- parse an operation; the second component is the offered name for an auto id (Ref only) -/
def parseOp : List String → Option (Op × Str)
  | "ins" :: c :: nm :: rest =>
    match parseS c, (if nm == "-" then some [] else parseS nm), parseO rest with
    | some c, some nm, some (r, []) => some (.insert c r, nm)
    | _, _, _ => none
  | "upd" :: c :: rest =>
    match parseS c, parseO rest with
    | some c, some (p, rest') =>
      match parseO rest' with
      | some (f, []) => some (.update c p f, [])
      | _ => none
    | _, _ => none
  | "rep" :: c :: i :: rest =>
    match parseS c, parseS i, parseO rest with
    | some c, some i, some (r, []) => some (.replace c i r, [])
    | _, _, _ => none
  | "rem" :: c :: rest =>
    match parseS c, parseO rest with
    | some c, some (f, []) => some (.remove c f, [])
    | _, _ => none
  | "qry" :: c :: rest =>
    match parseS c, parseFields rest with
    | some c, some (fs, r1) =>
      match parseO r1 with
      | some (f, r2) =>
        match parseSort r2 with
        | some (so, r3) =>
          match parseLimit r3 with
          | some (lim, []) => some (.query c fs f so lim, [])
          | _ => none
        | none => none
      | none => none
    | _, _ => none
  | ["reload"] => some (.reload, [])
  | _ => none

/-- full sorted result of the reference store with tie-group numbers (oracle helper, not part of the model) -/
def refGrouped (s : RefState) (coll : Str) (fields : Option (List Str)) (filt : Fields) (sort : List (Str × Bool)) : String :=
  let c : Coll := aget [] coll s
  if !filtOk filt then "err type" else
  match matchAll filt c with
  | none => "err type"
  | some bs =>
    match lexSort sort (selectBy c bs) with
    | none => "err type"
    | some sorted =>
      let rec go (prev : Option Fields) (g : Nat) : List Fields → List String
        | [] => []
        | r :: t =>
          let g' := match prev with
            | none => 0
            | some p => if lexLt sortKeyR sort p r || lexLt sortKeyR sort r p then g + 1 else g
          (toString g' ++ " " ++ fmtV (.obj (project fields r))) :: go (some r) g' t
      " ".intercalate (s!"ok g {sorted.length}" :: go none 0 sorted)

/-- The naming of auto-generated ids is not an observable of the property: when a driver model names a new record
differently from the code, the insert is redone under the code's name (reply marked `~`), so that later
operations of the case address the same record in both. -/
def resync (nm : Str) (op : Op) (r : Res) : Option Op :=
  match op, r with
  | .insert c rec, .id i =>
    let auto : Bool := match dget kId rec with | none | some .null => true | _ => false
    if nm != [] && i != nm && auto then some (.insert c (dset kId (.str nm) rec)) else none
  | _, _ => none

/-! rendering of what the Mongo driver model hands to the engine (`mx` command) -/

def fmtE : Mongo.EVal → String
  | .j v => "J " ++ fmtV v
  | .oid b => "Y" ++ fmtCps b

def fmtOperand : Mongo.EOperand → String
  | .one (.j (.arr l)) => " ".intercalate (s!"M{l.length}" :: l.map (fun x => fmtE (.j x)))
  | .one v => "1 " ++ fmtE v
  | .many l => " ".intercalate (s!"M{l.length}" :: l.map fmtE)

def fmtCond : Mongo.ECond → String
  | .eq v => "E " ++ fmtE v
  | .ops l => "P " ++ " , ".intercalate (l.map (fun ow => "S" ++ fmtCps ow.1 ++ " " ++ fmtOperand ow.2))

def fmtFilt (f : Mongo.EFilt) : String :=
  "F " ++ " ; ".intercalate (f.map (fun kc => "S" ++ fmtCps kc.1 ++ " " ++ fmtCond kc.2))

def fmtDoc (d : Mongo.EDoc) : String :=
  "D " ++ " ; ".intercalate (d.map (fun kv => "S" ++ fmtCps kv.1 ++ " " ++ fmtE kv.2))

def fmtProj : Option (List (Str × Nat)) → String
  | none => "R-"
  | some p => "R " ++ " ; ".intercalate (p.map (fun kn => "S" ++ fmtCps kn.1 ++ s!" {kn.2}"))

def fmtSortSpec (l : List (Str × Int)) : String :=
  "L " ++ " ; ".intercalate (l.map (fun fd => "S" ++ fmtCps fd.1 ++ s!" {fd.2}"))

/-- the engine call of one operation, as the model of mongo.py builds it -/
def mongoCall (fx : Fix) : Op → String
  | .insert _ rec =>
    match Mongo.recordToDoc fx rec with
    | some d => "ok i | " ++ fmtDoc d
    | none => "err xlate"
  | .update _ part filt =>
    match Mongo.recordToDoc fx part, Mongo.filtToDb fx filt with
    | some set, some f => "ok u | " ++ fmtFilt f ++ " | " ++ fmtDoc set
    | _, _ => "err xlate"
  | .replace _ id rec =>
    match Mongo.idV fx (.str id) with
    | some e => "ok p | " ++ fmtE e ++ " | " ++ fmtDoc (dset Mongo.kUid e (Mongo.toE rec))
    | none => "err xlate"
  | .remove _ filt =>
    match Mongo.filtToDb fx filt with
    | some f => "ok d | " ++ fmtFilt f
    | none => "err xlate"
  | .query _ fields filt sort limit =>
    match Mongo.filtToDb fx filt with
    | some f => "ok q | " ++ fmtFilt f ++ " | " ++ fmtProj (Mongo.projToDb fields) ++ " | " ++ fmtSortSpec (Mongo.sortToDb sort)
        ++ " | " ++ (match limit with | none => "-" | some n => toString n)
    | none => "err xlate"
  | .reload => "ok"

/-- a document as the engine returns it: `N<n> (S<key> (J <value> | Y<bytes>))…` -/
partial def parseDoc : List String → Option Mongo.EDoc
  | [] => some []
  | k :: rest =>
    match parseS k with
    | none => none
    | some key =>
      match rest with
      | "J" :: r =>
        match parseV r with
        | some (v, r') => (parseDoc r').map (fun t => (key, Mongo.EVal.j v) :: t)
        | none => none
      | w :: r =>
        if w.startsWith "Y" then
          match parseCps (w.drop 1).toString with
          | some b => (parseDoc r).map (fun t => (key, Mongo.EVal.oid b) :: t)
          | none => none
        else none
      | [] => none

def getI {β : Type} (dflt : β) (k : String) (l : List (String × β)) : β :=
  match l.find? (fun p => p.1 == k) with | some p => p.2 | none => dflt

def setI {β : Type} (k : String) (v : β) (l : List (String × β)) : List (String × β) :=
  (k, v) :: l.filter (fun p => p.1 != k)

def flag (w : String) : Option Bool := if w == "1" then some true else if w == "0" then some false else none

def dstep (d : DState) : List String → DState × String
  | ["begin", a, b, c, e, f, g, h, i] =>
    match flag a, flag b, flag c, flag e, flag f, flag g, flag h, flag i with
    | some a, some b, some c, some e, some f, some g, some h, some i => ({ fx := ⟨a, b, c, e, f, g, h, i⟩ }, "ok")
    | _, _, _, _, _, _, _, _ => (d, "bad-op")
  | "floats" :: ws =>
    let parsed := ws.mapM (fun w => match w.splitOn ":" with
      | [b, t] => match b.toNat?, parseCps t with | some b, some t => some (b, t) | _, _ => none
      | _ => none)
    match parsed with
    | some l => ({ d with floats := l ++ d.floats }, "ok")
    | none => (d, "bad-op")
  | "dates" :: ws =>
    let parsed := ws.mapM (fun w => match w.splitOn ":" with
      | [k, t, c] => match flag k, parseCps t, parseCps c with | some k, some t, some c => some (k, t, c) | _, _, _ => none
      | _ => none)
    match parsed with
    | some l => ({ d with dates := l ++ d.dates }, "ok")
    | none => (d, "bad-op")
  | "datefmt" :: ws =>
    let parsed := ws.mapM (fun w => match w.splitOn ":" with
      | [k, t, c] => match flag k, parseCps t, parseCps c with | some k, some t, some c => some (k, t, c) | _, _, _ => none
      | _ => none)
    match parsed with
    | some l => ({ d with datefmts := l ++ d.datefmts }, "ok")
    | none => (d, "bad-op")
  | "enc" :: ws =>
    match parseV ws with
    | some (v, []) => (d, "ok v S" ++ fmtCps (encodeVal d.fx (mkFt d) v))
    | _ => (d, "bad-op")
  | "mx" :: ws =>                      -- what the Mongo driver hands to the engine for this operation
    match parseOp ws with
    | some (op, _) => (d, mongoCall d.fx op)
    | none => (d, "bad-op")
  | "mfrom" :: ws =>                   -- _query_gen_wrapper on one engine document
    match parseDoc ws with
    | some doc => (d, "ok v " ++ fmtV (.obj (Mongo.recordFromDoc doc)))
    | none => (d, "bad-op")
  | ["idx", w] =>                      -- Mongo identifier mapping: kind, bytes, and the id read back
    match parseS w with
    | some i =>
      (d, match Mongo.idToDb d.fx i with
        | some (.oid b) => "ok o " ++ fmtCps b ++ " S" ++ fmtCps (Mongo.idFromDb (.oid b))
        | some (.str t) => "ok s - S" ++ fmtCps (Mongo.idFromDb (.str t))
        | none => "err invalid-id")
    | none => (d, "bad-op")
  | ["dec", w] =>
    match parseS w with
    | some t => (d, match decodeVal (mkFt d) t with | some v => "ok v " ++ fmtV v | none => "err decode")
    | none => (d, "bad-op")
  | inst :: ws =>
    let ft := mkFt d
    if inst.startsWith "R" then
      match ws with
      | "qryg" :: c :: rest =>
        match parseS c, parseFields rest with
        | some c, some (fs, r1) =>
          match parseO r1 with
          | some (f, r2) =>
            match parseSort r2 with
            | some (so, []) => (d, refGrouped (getI [] inst d.refs) c fs f so)
            | _ => (d, "bad-op")
          | none => (d, "bad-op")
        | _, _ => (d, "bad-op")
      | _ =>
        match parseOp ws with
        | some (op, nm) =>
          let (s', r) := Ref.step (getI [] inst d.refs) nm op
          ({ d with refs := setI inst s' d.refs }, fmtRes r)
        | none => (d, "bad-op")
    else if inst.startsWith "J" then
      match parseOp ws with
      | some (op, nm) =>
        let s0 := getI [] inst d.jsons
        let (s', r) := Json.step d.fx ft s0 op
        match resync nm op r with
        | some op' =>
          let (s'', r') := Json.step d.fx ft s0 op'
          ({ d with jsons := setI inst s'' d.jsons }, fmtRes r' ++ " ~")
        | none => ({ d with jsons := setI inst s' d.jsons }, fmtRes r)
      | none => (d, "bad-op")
    else if inst.startsWith "P" then                      -- persist API layer over the JSON driver model
      match parseOp ws with
      | some (.replace c i r, _) =>
        let (s', r) := Api.replace d.fx (Json.step d.fx ft) (getI [] inst d.jsons) c i r
        ({ d with jsons := setI inst s' d.jsons }, fmtRes r)
      | some (op, nm) =>
        let s0 := getI [] inst d.jsons
        let (s', r) := Json.step d.fx ft s0 op
        match resync nm op r with
        | some op' =>
          let (s'', r') := Json.step d.fx ft s0 op'
          ({ d with jsons := setI inst s'' d.jsons }, fmtRes r' ++ " ~")
        | none => ({ d with jsons := setI inst s' d.jsons }, fmtRes r)
      | none => (d, "bad-op")
    else if inst.startsWith "K" then
      match parseOp ws with
      | some (op, nm) =>
        let s0 := getI [] inst d.redises
        let (s', r) := Redis.step d.fx ft s0 op
        match resync nm op r with
        | some op' =>
          let (s'', r') := Redis.step d.fx ft s0 op'
          ({ d with redises := setI inst s'' d.redises }, fmtRes r' ++ " ~")
        | none => ({ d with redises := setI inst s' d.redises }, fmtRes r)
      | none => (d, "bad-op")
    else (d, "bad-op")
  | _ => (d, "bad-op")

def main : IO Unit := run dstep {}
