import QtVerif.Model.Proto
import QtVerif.Model.Access
/-!
Line-protocol driver for the access-level model (C09). Stateless.

  table <bits>                                  -> ok <row> <row> …     row = route|regex|auth01|METHOD=func:level,…
  routes                                        -> ok <route> …         (all URLSpecs of the model, code order)
  match <route> <path>                          -> ok 0|1               (does the URLSpec regex match the path)
  matching <path>                               -> ok <route> …         (every URLSpec of the model matching the path)
  resolve <bits> <path>                         -> ok api <route> | ok nosuchfunction | ok notfound | ok foreign
  serve <bits> <METHOD> <auth> <body> <sess> <path> -> ok run <func> <level> | ok refused <code> <func> <level>
                                                   | ok status <code> | ok foreign
  bits   = 13 characters 0/1: frontend sequences history backup firmware slaves discover webhooks listen reverse
           system debug vports
  auth   = <cred>@<pw>: cred = nohdr | invalid | viewonly | normal | admin (valid token of that user);
           pw = 3 characters 0/1: the admin / normal / view-only password is empty
  body   = json | badct | malformed
  sess   = s1 (no Session-Id header or a well-formed one) | s0 (malformed Session-Id)
  path   = request path, starts with "/", no whitespace
-/
open QtVerif QtVerif.Access QtVerif.Proto

def bitsOf (s : String) : Option Features :=
  match s.toList.mapM (fun c => if c == '1' then some true else if c == '0' then some false else none) with
  | some [a, b, c, d, e, f, g, h, i, j, k, l, m] => some ⟨a, b, c, d, e, f, g, h, i, j, k, l, m⟩
  | _ => none

def methodOf : String → Method
  | "GET" => .GET | "HEAD" => .HEAD | "POST" => .POST | "DELETE" => .DELETE | "PATCH" => .PATCH | "PUT" => .PUT
  | "OPTIONS" => .OPTIONS | _ => .other

def credOf : String → Option Cred
  | "nohdr" => some .noHeader
  | "invalid" => some .invalid
  | "viewonly" => some (.valid .viewonly)
  | "normal" => some (.valid .normal)
  | "admin" => some (.valid .admin)
  | _ => none

/-- `<cred>@<pw>`: pw = 3 characters 0/1 = admin / normal / view-only password is empty. -/
def authOf (s : String) : Option Auth :=
  match s.splitOn "@" with
  | [c, p] =>
    match credOf c, p.toList with
    | some c, [a, n, v] =>
      if [a, n, v].all (fun ch => ch == '0' || ch == '1') then some ⟨⟨a == '1', n == '1', v == '1'⟩, c⟩ else none
    | _, _ => none
  | _ => none

def bodyOf : String → Option Body
  | "json" => some .json | "badct" => some .badContentType | "malformed" => some .malformed | _ => none

/-- `/a/b/` -> `["a", "b", ""]`; `none` if the path does not start with a slash. -/
def segsOf (p : String) : Option (List String) :=
  match p.splitOn "/" with
  | "" :: rest => if rest.isEmpty then none else some rest
  | _ => none

def routeOf (n : String) : Option Route := allRoutes.find? (fun r => r.name == n)

def fmtRow (r : Route) : String :=
  let ms := Method.all.filterMap fun m =>
    (handlerFn r m).map fun fn => s!"{m.name}={fn.name}:{(required fn).name}"
  s!"{r.name}|{(pattern r).regex}|{if authEnabled r then 1 else 0}|" ++ ",".intercalate ms

def fmtOutcome : Outcome → String
  | .status c => s!"ok status {c}"
  | .refused c fn => s!"ok refused {c} {fn.name} {(required fn).name}"
  | .run fn => s!"ok run {fn.name} {(required fn).name}"
  | .foreign => "ok foreign"

def dstep (_ : Unit) : List String → Unit × String
  | ["table", b] =>
    match bitsOf b with
    | some f => ((), "ok " ++ " ".intercalate ((table f).map fmtRow))
    | none => ((), "bad-op")
  | ["routes"] => ((), "ok " ++ " ".intercalate (allRoutes.map Route.name))
  | ["match", rn, p] =>
    match routeOf rn, segsOf p with
    | some r, some xs => ((), if (pattern r).matches xs then "ok 1" else "ok 0")
    | _, _ => ((), "bad-op")
  | ["matching", p] =>
    match segsOf p with
    | some xs => ((), "ok " ++ " ".intercalate ((allRoutes.filter fun r => (pattern r).matches xs).map Route.name))
    | none => ((), "bad-op")
  | ["resolve", b, p] =>
    match bitsOf b, segsOf p with
    | some f, some xs =>
      ((), match resolve f xs with
        | .api r => s!"ok api {r.name}"
        | .noSuchFunction => "ok nosuchfunction"
        | .notFound => "ok notfound"
        | .foreign => "ok foreign")
    | _, _ => ((), "bad-op")
  | ["serve", b, m, a, bd, ss, p] =>
    match bitsOf b, authOf a, bodyOf bd, segsOf p with
    | some f, some a, some bd, some xs =>
      if ss == "s1" || ss == "s0" then ((), fmtOutcome (serve f ⟨methodOf m, xs, a, bd, ss == "s1"⟩))
      else ((), "bad-op")
    | _, _, _, _ => ((), "bad-op")
  | _ => ((), "bad-op")

def main : IO Unit := run dstep ()
