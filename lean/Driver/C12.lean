import QtVerif.Model.Proto
import QtVerif.Model.SlaveProv
/-! Line-protocol driver for the master/slave model (C12; same model and protocol as Driver/C13.lean). -/
open QtVerif QtVerif.Slave.Prov

def main : IO Unit := QtVerif.Proto.run dstep {}
