import QtVerif.Model.Proto
import QtVerif.Model.PortIO
/-! Line-protocol driver for the per-port I/O model (C14). Several ports, each with its own capacity; every port is a
stage system (`tstep true xfTable`: the submit-lock stage in front of the port slice).

  begin                      -> ok                       (no ports)
  port <cap> <lockFix 0|1>   -> ok <index>               (adds a port in its initial state)
  submit <p> <val>           -> ok <ticket> <dropped tickets, comma separated | ->
                                (a call on a free submit lock of a port without transform: `enter` + `pass true`;
                                 err not-enabled if the stage is not empty or a transform is set)
  enter <p> <val>            -> ok <call id> <transform read at once | ->     (`-`: the call waits for the submit lock)
  acquire <p>                -> ok <call id> <transform read>
  pass <p> ok|fail           -> ok <call id> <ticket | -> <queued value | -> <dropped tickets | ->
  settr <p> <k>              -> ok                       (the transform_write attribute becomes transform k; 0 = none)
  xf <k> <val>               -> ok <value of transform k on val>   (the table, for the harness to cross-check)
  wtake <p>                  -> ok <ticket> <val> start|wait      (writerTake; `wait` = lock busy)
  wacq <p>                   -> ok <ticket> <val>        (writerAcquire)
  wend <p> ok|err            -> ok <ticket>
  wconfirm <p> | lwbegin <p> | lwend <p> | ldone <p> | rbegin <p> | rend <p>   -> ok
  state <p>                  -> ok <pc> q=<tickets> wflag=<0|1> rflag=<0|1> rin=<n> win=<n> lock=<0|1> stage=<ids> acq=<k|-> tr=<k>
  outcomes <p>               -> ok <ticket>:<ok|err|full>,…   (resolution order)
  an action that is not enabled -> err not-enabled ; unknown port -> err no-port
-/
open QtVerif QtVerif.PortIO QtVerif.Proto

def fmtTks (l : List Nat) : String :=
  if l.isEmpty then "-" else ",".intercalate (l.map toString)

def fmtOutcome : Outcome → String
  | .ok => "ok" | .err => "err" | .queueFull => "full"

def fmtPc : Pc → String
  | .idle => "idle" | .lockWait e => s!"lockwait:{e.tk}" | .writing e => s!"writing:{e.tk}" | .confirming => "confirming"

def b01 (b : Bool) : String := if b then "1" else "0"

/-- The value `None` (unavailable) as the harness hands it over; every transform leaves it as it is. -/
def valNone : Int := -999999

/-- The write transforms used by the harness (harness/oracle_c14.py: TRANSFORMS / xform), by index. -/
def xfTable (k : Nat) (v : Int) : Int :=
  if v = valNone then v else
  match k with
  | 2 => v * 10
  | 3 => v + 1000
  | 4 => if v > 150 then v else -v
  | 5 => v * 2
  | 6 => v * 10
  | 7 => v + 5000
  | 8 => if v > 150 then v + 20000 else -v
  | _ => v

abbrev DSys := List (Cfg × TState)

/-- Apply the stage actions `as` (in turn) to port `p`; `fmt` renders the reply from the old and the new stage state. -/
def tact (σ : DSys) (p : String) (as : List TAction) (fmt : TState → TState → String) : DSys × String :=
  match p.toNat? with
  | none => (σ, "bad-op")
  | some p =>
    match σ[p]? with
    | none => (σ, "err no-port")
    | some (c, t) =>
      match texec true xfTable c t as with
      | none => (σ, "err not-enabled")
      | some t' => (σ.set p (c, t'), "ok" ++ fmt t t')

/-- Apply one port action to port `p`; `fmt` renders the reply from the old and the new state of the port slice. -/
def act (σ : DSys) (p : String) (a : Action) (fmt : State → State → String) : DSys × String :=
  tact σ p [.port a] fun t t' => fmt t.port t'.port

def fmtNewDrops (s s' : State) : String := fmtTks ((s'.drops.drop s.drops.length).map (·.e.tk))

def dstep (σ : DSys) : List String → DSys × String
  | ["begin"] => ([], "ok")
  | ["port", cap, fx] =>
    match cap.toNat?, fx with
    | some cap, "1" => (σ ++ [({ cap := cap, lockFix := true }, {})], s!"ok {σ.length}")
    | some cap, "0" => (σ ++ [({ cap := cap, lockFix := false }, {})], s!"ok {σ.length}")
    | _, _ => (σ, "bad-op")
  | ["submit", p, v] =>
    match v.toInt? with
    | none => (σ, "bad-op")
    | some v =>
      match p.toNat?.bind (σ[·]?) with
      | some (_, t) =>
        if t.stage.isEmpty && t.tr == 0 then
          tact σ p [.enter v, .pass true] fun t t' => s!" {t.port.nextTk} " ++ fmtNewDrops t.port t'.port
        else (σ, "err not-enabled")
      | none => tact σ p [] fun _ _ => ""
  | ["enter", p, v] =>
    match v.toInt? with
    | none => (σ, "bad-op")
    | some v => tact σ p [.enter v] fun t t' =>
        s!" {t.nextId} " ++ (match t.stage.isEmpty, t'.acq with | true, some k => toString k | _, _ => "-")
  | ["acquire", p] => tact σ p [.acquire] fun t t' =>
      match t.stage, t'.acq with
      | k :: _, some tk => s!" {k.id} {tk}"
      | _, _ => " ?"
  | ["pass", p, r] =>
    let fmt (ok : Bool) (t t' : TState) : String :=
      match t.stage, t.acq with
      | k :: _, some tk =>
        if ok then s!" {k.id} {t.port.nextTk} {applied xfTable tk k.val} " ++ fmtNewDrops t.port t'.port
        else s!" {k.id} - - -"
      | _, _ => " ?"
    match r with
    | "ok" => tact σ p [.pass true] (fmt true)
    | "fail" => tact σ p [.pass false] (fmt false)
    | _ => (σ, "bad-op")
  | ["settr", p, k] =>
    match k.toNat? with
    | none => (σ, "bad-op")
    | some k => tact σ p [.setTr k] fun _ _ => ""
  | ["xf", k, v] =>
    match k.toNat?, v.toInt? with
    | some k, some v => (σ, s!"ok {applied xfTable k v}")
    | _, _ => (σ, "bad-op")
  | ["wtake", p] => act σ p .writerTake fun _ s' =>
      match s'.pc with
      | .writing e => s!" {e.tk} {e.val} start"
      | .lockWait e => s!" {e.tk} {e.val} wait"
      | _ => " ?"
  | ["wacq", p] => act σ p .writerAcquire fun _ s' =>
      match s'.pc with
      | .writing e => s!" {e.tk} {e.val}"
      | _ => " ?"
  | ["wend", p, r] =>
    match r with
    | "ok" => act σ p (.writeEnd true) fun s _ => match s.pc with | .writing e => s!" {e.tk}" | _ => " ?"
    | "err" => act σ p (.writeEnd false) fun s _ => match s.pc with | .writing e => s!" {e.tk}" | _ => " ?"
    | _ => (σ, "bad-op")
  | ["wconfirm", p] => act σ p .confirmEnd fun _ _ => ""
  | ["lwbegin", p] => act σ p .loadWriteBegin fun _ _ => ""
  | ["lwend", p] => act σ p .loadWriteEnd fun _ _ => ""
  | ["ldone", p] => act σ p .loadDone fun _ _ => ""
  | ["rbegin", p] => act σ p .readBegin fun _ _ => ""
  | ["rend", p] => act σ p .readEnd fun _ _ => ""
  | ["state", p] =>
    match p.toNat? with
    | none => (σ, "bad-op")
    | some p =>
      match σ[p]? with
      | none => (σ, "err no-port")
      | some (_, t) =>
        let s := t.port
        (σ, s!"ok {fmtPc s.pc} q={fmtTks (s.queue.map (·.tk))} wflag={b01 s.writingFlag} rflag={b01 s.reading} " ++
            s!"rin={s.rIn} win={s.wIn} lock={b01 s.lockHeld} stage={fmtTks (t.stage.map (·.id))} " ++
            s!"acq={match t.acq with | some k => toString k | none => "-"} tr={t.tr}")
  | ["outcomes", p] =>
    match p.toNat? with
    | none => (σ, "bad-op")
    | some p =>
      match σ[p]? with
      | none => (σ, "err no-port")
      | some (_, t) =>
        let s := t.port
        (σ, "ok " ++ (if s.resolved.isEmpty then "-" else
          ",".intercalate (s.resolved.map fun (t, o) => s!"{t}:{fmtOutcome o}")))
  | _ => (σ, "bad-op")

def main : IO Unit := run dstep ([] : DSys)
